(* Properties_C04.v — C04: actions fire once per surviving successful match with the exact matched span.
   Theorems only.  Quantifiers (unless a theorem says otherwise): EVERY grammar table G (all heads of
   Engine.v, well-formed or not), every configuration C (any attachment of void/bool apply, apply0,
   throwing actions, match-level actions, controls with/without unwind, raising failure hooks), every
   dyn d (apply mode, rewind mode, action family, control family), every fuel, cursor and input.
   Specification side: ActionSpec.v (quiet, the protocol machine arun, survivors, PegA / peg_acts) and
   ActionSpec2.v (PegT: the reference semantics over tables, all heads of the extended fragment; section 6). *)
From PegtlV Require Import Base Decode Grammar Engine EngineFacts AtomFacts Spec Denote ExactSound ActionSpec ActionFacts ActionExact.
From Coq Require Import Lia.
From PegtlV Require Import RaiseSpec ActionSpec2 ActionExact2 ActionRef2 ActionCons2 ActionWitness2.

(* ---------- 1. no action while actions are disabled ---------- *)
(* apply_mode::nothing and no enable<> / enable_action anywhere: not a single apply / apply0 / inline action *)
Theorem C04_none_when_disabled :
  forall G C f d r c o c' evs, no_enable G C -> dA d = false ->
    eval G C f d r c = Res o c' evs -> quiet evs.
Proof.
  intros G C f d r c o c' evs Hno Hd H.
  pose proof (eval_quiet G C Hno f d r c) as K. rewrite H in K. exact (K Hd).
Qed.
Print Assumptions C04_none_when_disabled.

(* at<>, not_at<> and disable<> pass apply_mode::nothing down whatever mode they were called with: whatever
   happens below them (success, failure, exception) invokes no action *)
Theorem C04_lookahead_quiet :
  forall G C f n self h r1 d c o c' evs, no_enable G C ->
    (h = HAt \/ h = HNotAt \/ h = HDisable) ->
    eval_head C (eval G C f) n self h [r1] d c = Res o c' evs -> quiet evs.
Proof.
  intros G C f n self h r1 d c o c' evs Hno Hh H.
  assert (K : forall x, GP Pq false x -> x = Res o c' evs -> quiet evs).
  { intros x Hx ->. exact (Hx eq_refl). }
  destruct Hh as [-> | [-> | ->]]; unfold eval_head in H; simpl in H.
  - unfold h_at in H. eapply K; [|exact H]. apply look_P. apply (eval_quiet G C Hno f (set_A (opt_ d) false) r1 c).
  - unfold h_at in H. eapply K; [|exact H]. apply look_P. apply (eval_quiet G C Hno f (set_A (opt_ d) false) r1 c).
  - eapply K; [|exact H]. apply (eval_quiet G C Hno f (set_A d false) r1 c).
Qed.
Print Assumptions C04_lookahead_quiet.

(* and the sub-rule of at<> / not_at<> / disable<> is ENTERED with apply_mode::nothing, whatever the mode of the caller
   (the first event of the section is the invocation record of the sub-rule carrying A = false) *)
Theorem C04_section_entry_mode :
  forall G C f n self h r1 d c o c' evs, (h = HAt \/ h = HNotAt \/ h = HDisable) ->
    eval_head C (eval G C f) n self h [r1] d c = Res o c' evs ->
    evs = [] \/ exists k m p tl, evs = EEnter k r1 false m p :: tl.
Proof.
  intros G C f n self h r1 d c o c' evs Hh H.
  assert (K : forall d' x, dA d' = false -> eval G C f d' r1 c = x -> forall o1 c1, x = Res o1 c1 evs ->
                evs = [] \/ exists k m p tl, evs = EEnter k r1 false m p :: tl).
  { intros d' x Hd Hx o1 c1 ->. destruct (eval_first G C f d' r1 c o1 c1 evs Hx) as [E | [tl E]]; [left; exact E|].
    right. rewrite Hd in E. eauto. }
  destruct Hh as [-> | [-> | ->]]; unfold eval_head in H; simpl in H.
  - unfold h_at in H. destruct (eval G C f (set_A (opt_ d) false) r1 c) as [[| |e] c1 e1| |] eqn:E; simpl in H; inversion H; subst;
    eapply (K (set_A (opt_ d) false)); eauto.
  - unfold h_at in H. destruct (eval G C f (set_A (opt_ d) false) r1 c) as [[| |e] c1 e1| |] eqn:E; simpl in H; inversion H; subst;
    eapply (K (set_A (opt_ d) false)); eauto.
  - eapply (K (set_A d false)); eauto.
Qed.
Print Assumptions C04_section_entry_mode.

(* ---------- 2. the action protocol (all heads, enable included) ---------- *)
(* every log the engine produces is accepted by the protocol machine (ActionSpec.arun) and leaves its stack as
   it found it.  Acceptance means: an Action< Rule >::apply/apply0 event for rule r occurs only while r's
   attempt is the innermost open one (after start( b ), after its body: no deeper attempt open, before its
   closing hook), at most once per attempt, only in an invocation entered with apply_mode::action, with
   action-input begin = the position of that attempt's start; the closing hook carries the action's end position
   and is success iff the action did not return false (failure iff it did); after a veto the invocation does
   not return true and its exit position is its entry position; apply_mode::action is never passed down from an
   invocation that has apply_mode::nothing, except by enable<> / enable_action; inline actions (apply<>, apply0<>,
   if_apply<>) only run with actions enabled and begin at the entry position of their rule *)
Theorem C04_protocol :
  forall G C enabler f d r c o c' evs, enabler_ok G C enabler ->
    eval G C f d r c = Res o c' evs ->
    forall st, implb (dA d) (eff enabler st) = true -> arun enabler (vetoes_of C) st evs = Some st.
Proof.
  intros G C enabler f d r c o c' evs He H.
  pose proof (eval_arun G C enabler He f d r c) as K. rewrite H in K. exact K.
Qed.
Print Assumptions C04_protocol.

(* what acceptance means at an apply event: the machine is inside the attempt of that very rule, started at the
   action's begin, no action fired yet, invocation entered with apply_mode::action *)
Theorem C04_protocol_apply_inv :
  forall enabler vetoes st l1 fam r b e l2 st',
    arun enabler vetoes st (l1 ++ EApply fam r b e :: l2) = Some st' ->
    exists tl p0 s, arun enabler vetoes st l1 = Some (AHook r b None :: AInv r true p0 s :: tl) /\
                    arun enabler vetoes (AHook r b (Some (e, vetoes fam r b e)) :: AInv r true p0 s :: tl) l2 = Some st'.
Proof. exact arun_apply_inv. Qed.
Print Assumptions C04_protocol_apply_inv.

(* ---------- 3. span: one attempt of match.hpp ---------- *)
(* the log of an attempt is start( begin ), the log of the rule's own match, then — exactly when that match
   succeeded, actions are enabled and the rule has apply/apply0 — ONE action event whose begin is the cursor at
   the start of the attempt and whose end is the cursor the match left (the parse input's position at that
   moment), then at most one closing hook; a successful attempt returns exactly that end cursor *)
Theorem C04_span :
  forall C ak body d r c o c' evs, match_hpp C ak body d r c = Res o c' evs ->
  exists o1 c1 evs1 post,
    body (if use_guard d ak then opt_ d else d) c = Res o1 c1 evs1 /\
    evs = EHook HkStart (dCtl d) r (cpos c) :: evs1 ++ (if is_ok o1 then action_events d ak r (cpos c) (cpos c1) else []) ++ post /\
    quiet post /\ (length post <= 1)%nat /\
    (o = Ok -> o1 = Ok /\ c' = c1 /\ post = [EHook HkSuccess (dCtl d) r (cpos c1)]).
Proof. exact match_hpp_shape. Qed.
Print Assumptions C04_span.

(* ---------- 4. veto ---------- *)
(* a bool apply / apply0 returning false turns the match into a local failure; the cursor is restored to the
   start of that match in EVERY rewind mode (the guard is taken), failure() is called instead of success() *)
Theorem C04_veto :
  forall C ak body d r c c1 evs1,
    dA d = true -> (ak = AKApply true \/ ak = AKApply0 true) ->
    body (opt_ d) c = Res Ok c1 evs1 ->
    abeh C (dAct d) r (cpos c) (cpos c1) = ARet false ->
    raise_on_failure C (dCtl d) r = false ->
    use_guard d ak = true /\
    match_hpp C ak body d r c =
      Res Fail c ((EHook HkStart (dCtl d) r (cpos c) :: evs1 ++ action_events d ak r (cpos c) (cpos c1)) ++ [EHook HkFailure (dCtl d) r (cpos c1)]).
Proof. exact match_hpp_veto. Qed.
Print Assumptions C04_veto.

(* ---------- 5. the central statement: survivors = the reference derivation's action list ---------- *)
(* PARTIAL (fragment): tables that denote a surface grammar over seq sor star plus opt at not_at and the char atoms
   any one not_one range string eof success failure with (mutually recursive) named rules, every named rule
   (the root included) being a definition of the surface grammar (action_tie: the boolean tie also checks that the
   nodes of non-reference sub-expressions are not named nodes); configurations attaching void or bool (vetoing)
   apply / apply0 to NAMED rules only, whose verdict depends on the byte span (action_cfg); no throwing action,
   no match-level action, no raising failure hook.  Inside the fragment: every apply mode, rewind mode, control
   family, initial position, fuel, input.
   In a run that ends in success the surviving action invocations (transactional truncation of the log) are
   exactly, in order of match completion, the action list of THE derivation of the formalism-with-actions
   (PegA: failing alternatives and look-ahead contribute nothing, look-ahead is evaluated with actions off, a
   vetoing action turns its rule into failure), rule by rule with the exact begin / end byte of every match,
   and the run consumed exactly what that derivation consumes.
   This theorem is kept as the statement against the SURFACE grammar (sexp).  Section 6 below proves the same
   statement for the extended fragment (until, rep*, if_then_else, partial, strict, must / raise / if_must,
   try_catch_return_false, action<>, enable / disable, actions on anonymous nodes) against the table-level reference
   PegT, and C04_reference_ext_conservative shows that PegT agrees with PegA on the classical fragment.
   Still NOT covered by an exactness statement: state<>, rematch, try_catch_raise_nested, inline actions (apply<>,
   apply0<>, if_apply<>), match-level actions (change_*, enable_action / disable_action, limit_*, check_bytes),
   throwing actions, raising failure hooks (must_if controls), the non-char atoms; those are covered by the
   protocol-level theorems 1-4 above, which hold for every table and configuration. *)
Theorem C04_survivors_exact_partial :
  forall G g names C fam vt n, table_wf G -> action_cfg G names C fam vt -> action_tie G g names n = true ->
  forall k, (k < length g)%nat -> forall f d input p0 c' evs, dAct d = fam -> bytes_ok input ->
    run G C f d (nm_of G names k) input p0 = Res Ok c' evs ->
    exists l, PegA g (att G names C fam) vt (dA d) (SRef k) input (pbyte p0) (Some (rest c', pbyte (cpos c'), l)) /\
              map sact_bytes (survivors evs) = map (lab G names) l.
Proof. exact survivors_exact. Qed.
Print Assumptions C04_survivors_exact_partial.

(* the same for every invocation inside a run, including failing ones: a failing invocation contributes nothing *)
Theorem C04_invocation_exact_partial :
  forall G g names C fam vt, table_wf G -> action_cfg G names C fam vt ->
  (forall k e, nth_error g k = Some e -> not_ref e = true /\
      exists n nd, nth_error G (nm_of G names k) = Some nd /\ den_node (adenb G g names n) nd e = true) ->
  forall f n d r e c o c' evs, dAct d = fam -> adenb G g names n r e = true -> bytes_ok (rest c) ->
    eval G C f d r c = Res o c' evs -> conclA G g names C fam vt (dA d) e c o c' evs.
Proof.
  intros G g names C fam vt HG [H1 [H2 [H3 [H4 [H5 H6]]]]] Hdefs.
  exact (exact_soundA G g names C fam vt HG H1 H2 H3 H4 H5 H6 Hdefs).
Qed.
Print Assumptions C04_invocation_exact_partial.

(* the reference derivation is unique, and the executable reference interpreter (mirrored in Python by the check's
   oracle) computes it *)
Theorem C04_reference_deterministic :
  forall g att vt A e s o r1 r2, PegA g att vt A e s o r1 -> PegA g att vt A e s o r2 -> r1 = r2.
Proof. intros g att vt A e s o r1 r2 H1 H2. exact (PegA_deterministic g att vt A e s o r1 H1 r2 H2). Qed.
Print Assumptions C04_reference_deterministic.
Theorem C04_reference_executable :
  forall g att vt n A e s o r, peg_acts g att vt n A e s o = Some r -> PegA g att vt A e s o r.
Proof. exact peg_acts_sound. Qed.
Print Assumptions C04_reference_executable.

(* ---------- examples (non-vacuity) ---------- *)
(* struct N0 : seq< one<'a'>, opt< one<'b'> > >;  struct G : seq< at< N0 >, N0, disable< N0 >, enable< N0 > > *)
Definition ex_G : grammar :=
  [ mknode HSeq [1; 2; 6; 7]%nat true;               (* 0 G *)
    mknode HAt [2]%nat false;                         (* 1 at< N0 > *)
    mknode HSeq [3; 4]%nat true;                      (* 2 N0 *)
    mknode (HOne true PkChar [97%Z]) [] true;         (* 3 one<'a'> *)
    mknode HPartial [5]%nat true;                     (* 4 opt< one<'b'> > *)
    mknode (HOne true PkChar [98%Z]) [] true;         (* 5 one<'b'> *)
    mknode HDisable [2]%nat false;                    (* 6 disable< N0 > *)
    mknode HEnable [2]%nat false ].                   (* 7 enable< N0 > *)
Definition ex_noen : grammar := firstn 7 ex_G.
Definition ex_G2 : grammar :=                         (* G : seq< at< N0 >, N0, disable< N0 > > *)
  mknode HSeq [1; 2; 6]%nat true :: tl ex_noen.
(* bool apply on every rule; rule 5 (one<'b'>) vetoes *)
Definition ex_C : cfg :=
  mkcfg EolLfCrlf (fun _ _ => AKApply true) (fun _ r _ _ => ARet (negb (Nat.eqb r 5))) (fun _ _ _ => ARet true) (fun _ => true) (fun _ _ => false).
Definition ex_in : list byte := [97; 97; 98; 97; 98]%N.
Definition ex_enabler (r : rid) : bool := Nat.eqb r 7.

Example C04_example_disabled :
  no_enable ex_G2 ex_C /\
  exists c' evs, run ex_G2 ex_C 20 (mkdyn false true 0 0 0) 0%nat ex_in pos0 = Res Ok c' evs /\ quietb evs = true /\ Nat.ltb 20 (length evs) = true.
Proof.
  split.
  - split; [|intros; discriminate]. intros r nd H. do 7 (destruct r as [|r]; [simpl in H; inversion H; subst; discriminate|]). destruct r; discriminate.
  - eexists. eexists. split; [vm_compute; reflexivity|]. split; vm_compute; reflexivity.
Qed.
Print Assumptions C04_example_disabled.

(* with actions enabled: accepted by the machine from the empty stack; the at<> part and the disable<> part are
   action-free while the plain N0 fires (with a veto on one<'b'> that makes opt<> succeed empty) *)
Example C04_example_protocol :
  enabler_ok ex_G ex_C ex_enabler /\
  exists c' evs, run ex_G ex_C 20 (mkdyn true false 0 0 0) 0%nat ex_in pos0 = Res Ok c' evs /\
    arun ex_enabler (vetoes_of ex_C) [] evs = Some [] /\
    survivors evs =
      [ (3, true, mkpos 0 1 1, mkpos 1 1 2); (4, true, mkpos 1 1 2, mkpos 1 1 2); (2, true, mkpos 0 1 1, mkpos 1 1 2);
        (3, true, mkpos 3 1 4, mkpos 4 1 5); (4, true, mkpos 4 1 5, mkpos 4 1 5); (2, true, mkpos 3 1 4, mkpos 4 1 5);
        (0, true, mkpos 0 1 1, mkpos 4 1 5) ]%nat.
Proof.
  split.
  - split; [|intros; discriminate]. intros r nd H Hh. do 8 (destruct r as [|r]; [simpl in H; inversion H; subst; try discriminate Hh; reflexivity|]). destruct r; discriminate.
  - eexists. eexists. split; [vm_compute; reflexivity|]. split; vm_compute; reflexivity.
Qed.
Print Assumptions C04_example_protocol.

(* veto: the attempt of one<'b'> (rule 5) on "b" with the vetoing action fails locally with the cursor restored *)
Example C04_example_veto :
  exists evs, eval ex_G ex_C 5 (mkdyn true false 0 0 0) 5%nat (mkcur [98]%N pos0) = Res Fail (mkcur [98]%N pos0) evs /\
    In (EApply 0 5 pos0 (mkpos 1 1 2)) evs /\ In (EHook HkFailure 0 5 (mkpos 1 1 2)) evs /\ ~ In (EHook HkSuccess 0 5 (mkpos 1 1 2)) evs.
Proof.
  eexists. split; [vm_compute; reflexivity|]. split; [simpl; tauto|]. split; [simpl; tauto|].
  simpl. intros [H|[H|[H|[H|[H|H]]]]]; try discriminate H; exact H.
Qed.
Print Assumptions C04_example_veto.

(* the central statement on a concrete table:  struct N0 : seq< one<'a'>, opt< one<'b'> > >;
   struct G : seq< at< N0 >, star< N0 > >;  bool apply on the named rules G (node 0) and N0 (node 3); the action of
   N0 vetoes the match [2,4).  Input "ababa": at< N0 > matches with actions off (no veto there), N0 matches [0,2),
   the second N0 [2,4) is vetoed after its action ran, star<> stops at 2: survivors N0[0,2) then G[0,2). *)
Definition sx_G : grammar :=
  [ mknode HSeq [1; 2]%nat true; mknode HAt [3]%nat false; mknode HStarPartial [3]%nat true;
    mknode HSeq [4; 5]%nat true; mknode (HOne true PkChar [97%Z]) [] true; mknode HPartial [6]%nat true;
    mknode (HOne true PkChar [98%Z]) [] true ].
Definition sx_g : sgrammar := [ SSeq (SAt (SRef 1)) (SStar (SRef 1)); SSeq (SOne [97%N]) (SOpt (SOne [98%N])) ].
Definition sx_names : list rid := [0; 3]%nat.
Definition sx_vtf (r : rid) (b e : N) : bool := Nat.eqb r 3 && N.eqb b 2 && N.eqb e 4.
Definition sx_C : cfg :=
  mkcfg EolLfCrlf (fun _ r => if existsb (Nat.eqb r) sx_names then AKApply true else AKNone)
        (fun _ r b e => ARet (negb (sx_vtf r (pbyte b) (pbyte e)))) (fun _ _ _ => ARet true) (fun _ => true) (fun _ _ => false).
Definition sx_vt (k : nat) : N -> N -> bool := sx_vtf (nm_of sx_G sx_names k).
Example C04_example_survivors :
  table_wf sx_G /\ action_cfg sx_G sx_names sx_C 0 sx_vt /\ action_tie sx_G sx_g sx_names 6 = true /\
  exists c' evs, run sx_G sx_C 30 (mkdyn true true 0 0 0) 0%nat [97; 98; 97; 98; 97]%N pos0 = Res Ok c' evs /\
    rest c' = [97; 98; 97]%N /\
    survivors evs = [ (3%nat, true, mkpos 0 1 1, mkpos 2 1 3); (0%nat, true, mkpos 0 1 1, mkpos 2 1 3) ] /\
    In (EApply 0 3 (mkpos 2 1 3) (mkpos 4 1 5)) evs /\
    peg_acts sx_g (att sx_G sx_names sx_C 0) sx_vt 30 true (SRef 0) [97; 98; 97; 98; 97]%N 0
      = Some (Some ([97; 98; 97]%N, 2%N, [ (1%nat, true, 0%N, 2%N); (0%nat, true, 0%N, 2%N) ])).
Proof.
  split.
  { intros r nd H. do 7 (destruct r as [|r]; [simpl in H; inversion H; subst; exact I|]). destruct r; discriminate. }
  split.
  { split; [intros f r; change (plain_ak (if existsb (Nat.eqb r) sx_names then AKApply true else AKNone)); destruct (existsb (Nat.eqb r) sx_names); exact I|].
    split; [intros; eexists; reflexivity|]. split; [intros; reflexivity|].
    split; [intros f r Ha; unfold anon in Ha; change (acts sx_C f r) with (if existsb (Nat.eqb r) sx_names then AKApply true else AKNone); destruct (existsb (Nat.eqb r) sx_names); [discriminate Ha | reflexivity]|].
    split; [|intros; reflexivity].
    intros f r nd Ha Hn. do 7 (destruct r as [|r]; [simpl in Hn; inversion Hn; subst; try reflexivity; exfalso; apply Ha; reflexivity|]).
    destruct r; discriminate. }
  split; [vm_compute; reflexivity|].
  eexists. eexists. split; [vm_compute; reflexivity|]. split; [reflexivity|]. split; [vm_compute; reflexivity|].
  split; [vm_compute; tauto | vm_compute; reflexivity].
Qed.
Print Assumptions C04_example_survivors.

(* ---------- 6. the central statement beyond the classical fragment ---------- *)
(* Reference: ActionSpec2.PegT G att vt A fam r input offset verdict — the PEG formalism with semantic actions read
   off the TABLE as pure syntax (no modes, cursors, events, fuel), verdicts TOk rest offset actions | TFail | TRaise,
   actions = list of (node, apply / apply0, begin byte, end byte) in order of match completion.  Reading of the heads:
       rep<N,R> = seq<R,...,R>;  rep_opt<N,R> = up to N times, greedy;
       rep_min_max<m,M,R> = seq< rep<m,R>, rep_opt<M-m,R>, not_at<R> >                       (doc/Rule-Reference.md)
       until<C> / until<C,R>;  if_then_else<C,T,E>;
       partial<Rs...> = the maximal successful PREFIX of seq<Rs...>, whose actions SURVIVE;  star_partial = star of that
       strict<R,Rs...>, star_strict<R,Rs...>;
       at / not_at / disable: the sub-rule is evaluated with actions OFF;  enable: ON;  action<F,R>: family F below
       must<R> = sor< R, raise<R> >;  raise<T>;  if_must<D,C,R...> = if_then_else< C, must<R...>, D ? success : failure >
       try_catch_return_false<R>: a raise of R becomes a local failure when the catch clause catches parse errors
       every node: its own action AFTER the actions of its body, begin = offset at entry (apply) / begin = end (apply0);
       a bool action returning false turns the node into a local failure; a raise aborts every enclosing operator.
   Fragment (ActionSpec2.ta_table): every node has one of the heads
       seq sor star/star_partial plus opt/partial at not_at                       (any number of sub-rules where the
       until<C> until<C,R> rep rep_opt rep_min_max if_then_else strict star_strict      C++ class takes a pack)
       disable enable action<F> control<K> must raise if_must try_catch_return_false
       any one not_one range string eof success failure over char
   with the right number of sub-rules, closed sub-rule ids, and the must<...> part of an if_must being a single must
   node without an action of its own.  Configurations (action_cfg2): void or bool (vetoing) apply / apply0 attached to
   ANY control-enabled node (named or anonymous), in any action family, verdict a function of family, node and byte
   span; no throwing action, no match-level action, no raising failure hook.
   Inside the fragment: every apply mode, rewind mode, action family, control family, initial position, fuel, input.
   PROVED: C04_survivors_exact_ext (runs ending in success: survivors = THE action list of the reference, exact spans,
   same consumption), C04_survivors_none_ext (runs ending in failure / exception: the reference fails / raises and no
   action survives), C04_invocation_exact_ext (every invocation inside a run), C04_reference_ext_deterministic,
   C04_reference_ext_executable, C04_reference_ext_conservative (PegT = PegA on the classical fragment),
   C04_reference_ext_off_nil, C04_reference_ext_mode_independent.
   SIDE CONDITION rmm_stable: for the sub-rule R of a rep_min_max node, "R fails with actions on" implies "R fails with
   actions off".  It holds when nothing vetoes (C04_rmm_stable_no_veto, hence C04_survivors_exact_ext_no_veto is
   unconditional), when the table has no rep_min_max (C04_rmm_stable_no_rep_min_max), when R is an atom without action
   (C04_rmm_stable_atomic_sub).  It cannot be dropped: C04_rep_min_max_doc_equivalence_refuted (the library does NOT
   implement the documented equivalence of rep_min_max when an action of R vetoes: candidate library defect).
   NOT covered by an exactness statement (see also the comment before section 5): state, rematch,
   try_catch_raise_nested, inline and match-level actions, throwing actions, raising failure hooks, non-char atoms;
   if_must only with a single plain must<> part (must<R1,R2> = seq< must<R1>, must<R2> > is not); for runs ending in an
   exception only "the reference raises too and nothing survives" is stated (not which rule is blamed: that is C05). *)
Theorem C04_survivors_exact_ext :
  forall G C vt, action_cfg2 G C vt -> ta_table G (att_of C) -> rmm_stable G (att_of C) vt ->
  forall f d r input p0 c' evs, (r < length G)%nat -> bytes_ok input ->
    run G C f d r input p0 = Res Ok c' evs ->
    exists l, PegT G (att_of C) vt (dA d) (dAct d) r input (pbyte p0) (TOk (rest c') (pbyte (cpos c')) l) /\
              map sact_bytes (survivors evs) = l.
Proof. exact survivors_exact2. Qed.
Print Assumptions C04_survivors_exact_ext.

(* runs that end in a local failure or in an exception: the reference fails / raises, and NO action survives *)
Theorem C04_survivors_none_ext :
  forall G C vt, action_cfg2 G C vt -> ta_table G (att_of C) -> rmm_stable G (att_of C) vt ->
  forall f d r input p0 o c' evs, (r < length G)%nat -> bytes_ok input -> o <> Ok ->
    run G C f d r input p0 = Res o c' evs ->
    PegT G (att_of C) vt (dA d) (dAct d) r input (pbyte p0) (match o with Fail => TFail | _ => TRaise end) /\
    survivors evs = [].
Proof. exact survivors_none2. Qed.
Print Assumptions C04_survivors_none_ext.

(* the same for every invocation inside a run: Contrib evs S says that the log segment of the invocation adds exactly S
   to the survivors of any log it is part of; a failing invocation and one left by an exception contribute nothing,
   and the only exceptions are the parse errors raised by must<> / raise<> *)
Theorem C04_invocation_exact_ext :
  forall G C vt, action_cfg2 G C vt -> ta_table G (att_of C) -> rmm_stable G (att_of C) vt ->
  forall f d r c o c' evs, (r < length G)%nat -> bytes_ok (rest c) -> eval G C f d r c = Res o c' evs ->
  match o with
  | Ok => exists l S, PegT G (att_of C) vt (dA d) (dAct d) r (rest c) (pbyte (cpos c)) (TOk (rest c') (pbyte (cpos c')) l) /\
                      Contrib evs S /\ map sact_bytes S = l
  | Fail => PegT G (att_of C) vt (dA d) (dAct d) r (rest c) (pbyte (cpos c)) TFail /\ Contrib evs []
  | Exc e => PegT G (att_of C) vt (dA d) (dAct d) r (rest c) (pbyte (cpos c)) TRaise /\ (exists w p, e = EParse w p) /\ Contrib evs []
  end.
Proof. exact invocation_exact2. Qed.
Print Assumptions C04_invocation_exact_ext.

Theorem C04_rmm_stable_no_rep_min_max :
  forall G att vt, (forall r nd mn mx, nth_error G r = Some nd -> nhead nd <> HRepMinMax mn mx) -> rmm_stable G att vt.
Proof. exact rmm_stable_none. Qed.
Print Assumptions C04_rmm_stable_no_rep_min_max.
Theorem C04_rmm_stable_atomic_sub :
  forall G att vt,
  (forall r1, rmm_sub G r1 -> exists nd a, nth_error G r1 = Some nd /\ nsubs nd = [] /\ atom_den (nhead nd) a /\ forall f, att f r1 = KNone) ->
  rmm_stable G att vt.
Proof. exact rmm_stable_atoms. Qed.
Print Assumptions C04_rmm_stable_atomic_sub.

(* without a vetoing action (void actions, or bool actions that never return false) the side condition holds, and more
   generally the verdict, rest and offset of the reference do not depend on the apply mode (the action lists do) *)
Theorem C04_rmm_stable_no_veto :
  forall G att vt, (forall fam r b e, vt fam r b e = false) -> rmm_stable G att vt.
Proof. exact rmm_stable_no_veto. Qed.
Print Assumptions C04_rmm_stable_no_veto.
Theorem C04_reference_ext_mode_independent :
  forall G att vt, (forall fam r b e, vt fam r b e = false) ->
  forall A A' fam r s o x, PegT G att vt A fam r s o x -> exists y, PegT G att vt A' fam r s o y /\ sv x y.
Proof. exact PegT_mode_indep. Qed.
Print Assumptions C04_reference_ext_mode_independent.
(* hence, for configurations whose actions never veto, the central statement holds on the whole fragment, rep_min_max included *)
Theorem C04_survivors_exact_ext_no_veto :
  forall G C vt, action_cfg2 G C vt -> ta_table G (att_of C) -> (forall fam r b e, vt fam r b e = false) ->
  forall f d r input p0 c' evs, (r < length G)%nat -> bytes_ok input ->
    run G C f d r input p0 = Res Ok c' evs ->
    exists l, PegT G (att_of C) vt (dA d) (dAct d) r input (pbyte p0) (TOk (rest c') (pbyte (cpos c')) l) /\
              map sact_bytes (survivors evs) = l.
Proof. intros G C vt Hc Hta Hnv. exact (survivors_exact2 G C vt Hc Hta (rmm_stable_no_veto G (att_of C) vt Hnv)). Qed.
Print Assumptions C04_survivors_exact_ext_no_veto.

(* the extended reference derivation is unique ("THE derivation"), and the executable reference interpreter computes it *)
Theorem C04_reference_ext_deterministic :
  forall G att vt A fam r s o x y, PegT G att vt A fam r s o x -> PegT G att vt A fam r s o y -> x = y.
Proof. exact PegT_deterministic. Qed.
Print Assumptions C04_reference_ext_deterministic.
Theorem C04_reference_ext_executable :
  forall G att vt n A fam r s o x, pegt G att vt n A fam r s o = Some x -> PegT G att vt A fam r s o x.
Proof. exact pegt_sound. Qed.
Print Assumptions C04_reference_ext_executable.

(* in the reference, a rule evaluated with actions off (look-ahead at / not_at, disable<> sections, the final not_at of
   rep_min_max, runs started with apply_mode::nothing) carries no action at all, unless an enable<> lies below;
   with C04_survivors_exact_ext: such sections contribute nothing to the survivors (cf. theorems 1 of this file) *)
Theorem C04_reference_ext_off_nil :
  forall G att vt, (forall r nd, nth_error G r = Some nd -> nhead nd <> HEnable) ->
  forall fam r s o s' o' l, PegT G att vt false fam r s o (TOk s' o' l) -> l = [].
Proof. exact PegT_off_nil. Qed.
Print Assumptions C04_reference_ext_off_nil.

(* CONSERVATIVITY over the classical reference of section 5: on a table that denotes a surface grammar (adenb /
   action_tie), with the table-level attachment agreeing with the surface-level one (att_agree: the node of named
   rule k carries the action and the veto predicate of rule k, anonymous nodes carry none), every PegA derivation of
   a surface expression IS a PegT derivation of every node that denotes it: same verdict, rest, offset, and the same
   action list with rule numbers relabelled by their nodes.  With C04_reference_deterministic /
   C04_reference_ext_deterministic the two references define the same function on the classical fragment. *)
Theorem C04_reference_ext_conservative :
  forall G g names att vt attT vtT fam, att_agree G g names att vt attT vtT fam ->
  (forall k e, nth_error g k = Some e -> not_ref e = true /\
      exists n nd, nth_error G (nm_of G names k) = Some nd /\ den_node (adenb G g names n) nd e = true) ->
  forall A e s o x, PegA g att vt A e s o x ->
  forall n r, adenb G g names n r e = true -> PegT G attT vtT A fam r s o (liftT G names x).
Proof. exact reference_conservative. Qed.
Print Assumptions C04_reference_ext_conservative.
Theorem C04_reference_ext_conservative_tie :
  forall G g names att vt attT vtT fam n, att_agree G g names att vt attT vtT fam -> action_tie G g names n = true ->
  forall k, (k < length g)%nat -> forall A s o x, PegA g att vt A (SRef k) s o x ->
  PegT G attT vtT A fam (nm_of G names k) s o (liftT G names x).
Proof. exact reference_conservative_tie. Qed.
Print Assumptions C04_reference_ext_conservative_tie.

(* REFUTED: the side condition rmm_stable cannot be dropped, because the library does not implement the documented
   equivalence  rep_min_max< m, M, R > = seq< rep< m, R >, rep_opt< M - m, R >, not_at< R > >  (doc/Rule-Reference.md) in
   the presence of a vetoing action.  Witness: rep_min_max< 0, 2, one<'a'> >, bool apply on one<'a'> returning false on
   the match that begins at byte 1, input "aa".  The library (and the model) matches 'a' [0,1), the second match [1,2) is
   vetoed, the rep_opt part stops early and rep_min_max RETURNS TRUE having consumed one byte (it skips the not_at);
   the documented equivalent evaluates not_at< one<'a'> > at byte 1 with actions off, where one<'a'> matches, and FAILS.
   (Confirmed on the real library: parse< rep_min_max<0,2,R>, act > returns true, parse< seq< rep<0,R>, rep_opt<2,R>,
   not_at<R> >, act > returns false.)  By C04_reference_ext_deterministic the reference has no successful derivation. *)
Theorem C04_rep_min_max_doc_equivalence_refuted :
  action_cfg2 rf_G rf_C rf_vt /\ ta_table rf_G (att_of rf_C) /\
  (exists c' evs, run rf_G rf_C 20 (mkdyn true true 0 0 0) 0%nat [97; 97]%N pos0 = Res Ok c' evs /\ rest c' = [97]%N /\
                  map sact_bytes (survivors evs) = [(1%nat, true, 0%N, 1%N)]) /\
  PegT rf_G (att_of rf_C) rf_vt true 0 0%nat [97; 97]%N 0 TFail.
Proof. exact rmm_doc_equivalence_refuted. Qed.
Print Assumptions C04_rep_min_max_doc_equivalence_refuted.

(* ---------- examples for section 6 (non-vacuity) ---------- *)
(* struct N : one<'b'>;  struct G : seq< rep_min_max< 1, 2, one<'a'> >, until< one<';'> >, disable< N >, must< N > >;
   void apply on G (node 0), bool apply on one<';'> (node 4) which vetoes the match beginning at byte 2, bool apply on N
   (node 6).  Input "aa;x;bb": rep_min_max takes "aa"; until<> rejects the first ';' (its action ran and vetoed), skips
   'x', accepts the second ';' [4,5); disable< N > matches 'b' [5,6) silently; must< N > matches [6,7) and fires. *)
Definition xt_G : grammar :=
  [ mknode HSeq [1; 3; 5; 7]%nat true;
    mknode (HRepMinMax 1 2) [2]%nat false;
    mknode (HOne true PkChar [97%Z]) [] true;
    mknode HUntil1 [4]%nat false;
    mknode (HOne true PkChar [59%Z]) [] true;
    mknode HDisable [6]%nat false;
    mknode (HOne true PkChar [98%Z]) [] true;
    mknode HMust [6]%nat false ].
Definition xt_vt (f : nat) (r : rid) (b e : N) : bool := Nat.eqb r 4 && N.eqb b 2.
Definition xt_C : cfg :=
  mkcfg EolLfCrlf (fun _ r => match r with 0%nat => AKApply false | 4%nat => AKApply true | 6%nat => AKApply true | _ => AKNone end)
        (fun f r b e => ARet (negb (xt_vt f r (pbyte b) (pbyte e)))) (fun _ _ _ => ARet true) (fun _ => true) (fun _ _ => false).
Definition xt_in : list byte := [97; 97; 59; 120; 59; 98; 98]%N.
Example C04_example_ext_survivors :
  action_cfg2 xt_G xt_C xt_vt /\ ta_table xt_G (att_of xt_C) /\ rmm_stable xt_G (att_of xt_C) xt_vt /\
  exists c' evs, run xt_G xt_C 30 (mkdyn true true 0 0 0) 0%nat xt_in pos0 = Res Ok c' evs /\ rest c' = [] /\
    map sact_bytes (survivors evs) = [ (4%nat, true, 4%N, 5%N); (6%nat, true, 6%N, 7%N); (0%nat, true, 0%N, 7%N) ] /\
    In (EApply 0 4 (mkpos 2 1 3) (mkpos 3 1 4)) evs /\
    PegT xt_G (att_of xt_C) xt_vt true 0 0%nat xt_in 0
      (TOk [] 7 [ (4%nat, true, 4%N, 5%N); (6%nat, true, 6%N, 7%N); (0%nat, true, 0%N, 7%N) ]).
Proof.
  assert (Hta : ta_table xt_G (att_of xt_C)).
  { intros r nd H. do 8 (destruct r as [|r]; [simpl in H; inversion H; subst; split; cbn;
      [ta_closed | first [exact I | eexists; reflexivity | split; [reflexivity | eexists; apply atom_sexp_den; vm_compute; reflexivity]]]|]).
    destruct r; discriminate H. }
  split.
  { split; [intros f r; do 7 (destruct r as [|r]; [exact I|]); exact I|]. split; [intros; reflexivity|]. split; [intros; reflexivity|].
    intros f r nd Ha Hn. do 8 (destruct r as [|r]; [simpl in Hn; inversion Hn; subst; first [reflexivity | exfalso; apply Ha; reflexivity]|]).
    exfalso; apply Ha; reflexivity. }
  split; [exact Hta|]. split.
  { apply rmm_stable_atoms. intros r1 [r [nd [mn [mx [Hn [Hh Hs]]]]]].
    do 8 (destruct r as [|r]; [simpl in Hn; inversion Hn; subst; first [discriminate Hh | (simpl in Hs; inversion Hs; subst;
      eexists; exists (SOne [97%N]); split; [reflexivity | split; [reflexivity | split; [split; reflexivity | intros; reflexivity]]])]|]).
    destruct r; discriminate Hn. }
  eexists. eexists. split; [vm_compute; reflexivity|]. split; [reflexivity|]. split; [vm_compute; reflexivity|].
  split; [vm_compute; tauto|].
  apply (pegt_sound xt_G (att_of xt_C) xt_vt 30). vm_compute. reflexivity.
Qed.
Print Assumptions C04_example_ext_survivors.

(* more heads, two action families, no veto.  Nodes: 20 one<'a'>  22 one<'z'>  23 one<'b'>  24 one<'c'>  26 one<'d'>
   G = seq< sor< try_catch_return_false< seq< a, must< z > > >, success >,      a's action is discarded with the caught raise
             partial< a, b, c >,                                                  the actions of the prefix a b survive
             action< F1, star_partial< a, b > >,                                  family 1: apply0 on a only; a b a b a
             if_then_else< c, a, rep_opt< 2, d > >,
             strict< c, a >,
             disable< seq< b, enable< b > > > >                                   only the re-enabled b fires *)
Definition xu_G : grammar :=
  [ mknode HSeq [1; 4; 8; 11; 14; 16]%nat true;
    mknode HSor [2; 13]%nat false;
    mknode (HTryCatchFalse FParse) [3]%nat false;
    mknode HSeq [20; 21]%nat false;
    mknode HPartial [20; 23; 24]%nat false;
    mknode HFailure [] true; mknode HFailure [] true; mknode HFailure [] true;
    mknode (HAction 1) [9]%nat false;
    mknode HStarPartial [20; 23]%nat false;
    mknode HFailure [] true;
    mknode HIfThenElse [24; 20; 12]%nat false;
    mknode (HRepOpt 2) [26]%nat false;
    mknode HSuccess [] true;
    mknode HStrict [24; 20]%nat false;
    mknode HFailure [] true;
    mknode HDisable [17]%nat false;
    mknode HSeq [23; 18]%nat false;
    mknode HEnable [23]%nat false;
    mknode HFailure [] true;
    mknode (HOne true PkChar [97%Z]) [] true;
    mknode HMust [22]%nat false;
    mknode (HOne true PkChar [122%Z]) [] true;
    mknode (HOne true PkChar [98%Z]) [] true;
    mknode (HOne true PkChar [99%Z]) [] true;
    mknode HFailure [] true;
    mknode (HOne true PkChar [100%Z]) [] true ].
Definition xu_acts (f : nat) (r : rid) : akind :=
  match f, r with
  | 0%nat, 0%nat => AKApply false | 0%nat, 20%nat => AKApply true | 0%nat, 23%nat => AKApply false | 0%nat, 26%nat => AKApply0 false
  | 1%nat, 20%nat => AKApply0 false
  | _, _ => AKNone end.
Definition xu_C : cfg := mkcfg EolLfCrlf xu_acts (fun f r b e => ARet true) (fun _ _ _ => ARet true) (fun _ => true) (fun _ _ => false).
Definition xu_in : list byte := [97; 98; 97; 98; 97; 98; 97; 100; 100; 98; 98]%N.
Definition xu_acts_expected : list tact :=
  [ (20%nat, true, 0%N, 1%N); (23%nat, true, 1%N, 2%N); (20%nat, false, 3%N, 3%N); (20%nat, false, 5%N, 5%N); (20%nat, false, 7%N, 7%N);
    (26%nat, false, 8%N, 8%N); (26%nat, false, 9%N, 9%N); (23%nat, true, 10%N, 11%N); (0%nat, true, 0%N, 11%N) ].
Lemma xu_acts_plain f r : plain_ak (xu_acts f r) /\ (xu_acts f r <> AKNone -> (r = 0 \/ r = 20 \/ r = 23 \/ r = 26)%nat).
Proof.
  unfold xu_acts. destruct f as [|[|f]].
  - do 27 (destruct r as [|r]; [split; [exact I | intros H; first [lia | exfalso; apply H; reflexivity]]|]). split; [exact I | intros H; exfalso; apply H; reflexivity].
  - do 27 (destruct r as [|r]; [split; [exact I | intros H; first [lia | exfalso; apply H; reflexivity]]|]). split; [exact I | intros H; exfalso; apply H; reflexivity].
  - split; [exact I | intros H; exfalso; apply H; reflexivity].
Qed.
Print Assumptions xu_acts_plain.
Example C04_example_ext_heads :
  action_cfg2 xu_G xu_C (fun _ _ _ _ => false) /\ ta_table xu_G (att_of xu_C) /\ rmm_stable xu_G (att_of xu_C) (fun _ _ _ _ => false) /\
  exists c' evs, run xu_G xu_C 40 (mkdyn true true 0 0 0) 0%nat xu_in pos0 = Res Ok c' evs /\ rest c' = [] /\
    map sact_bytes (survivors evs) = xu_acts_expected /\
    In (EApply 0 20 (mkpos 0 1 1) (mkpos 1 1 2)) (firstn 12 evs) /\
    PegT xu_G (att_of xu_C) (fun _ _ _ _ => false) true 0 0%nat xu_in 0 (TOk [] 11 xu_acts_expected).
Proof.
  split.
  { split; [intros f r; exact (proj1 (xu_acts_plain f r))|]. split; [intros; reflexivity|]. split; [intros; reflexivity|].
    intros f r nd Ha Hn. destruct (proj2 (xu_acts_plain f r) Ha) as [-> | [-> | [-> | ->]]]; simpl in Hn; inversion Hn; reflexivity. }
  split.
  { intros r nd H. do 27 (destruct r as [|r]; [simpl in H; inversion H; subst; split; cbn;
      [ta_closed | first [exact I | eexists; reflexivity | eexists; eexists; reflexivity | eexists; eexists; eexists; reflexivity
                          | split; [reflexivity | eexists; apply atom_sexp_den; vm_compute; reflexivity]]]|]).
    destruct r; discriminate H. }
  split.
  { apply rmm_stable_none. intros r nd mn mx Hn Hh.
    do 27 (destruct r as [|r]; [simpl in Hn; inversion Hn; subst; discriminate Hh|]). destruct r; discriminate Hn. }
  eexists. eexists. split; [vm_compute; reflexivity|]. split; [reflexivity|]. split; [vm_compute; reflexivity|].
  split; [vm_compute; tauto|].
  apply (pegt_sound xu_G (att_of xu_C) (fun _ _ _ _ => false) 40). vm_compute. reflexivity.
Qed.
Print Assumptions C04_example_ext_heads.

(* conservativity on the table of C04_example_survivors: the derivation computed by the classical interpreter peg_acts
   is a derivation of the extended reference for node 0, with rule numbers 1, 0 relabelled to nodes 3, 0 *)
Example C04_example_ext_conservative :
  att_agree sx_G sx_g sx_names (att sx_G sx_names sx_C 0) sx_vt (att_of sx_C) (fun _ r b e => sx_vtf r b e) 0 /\
  PegT sx_G (att_of sx_C) (fun _ r b e => sx_vtf r b e) true 0 0%nat [97; 98; 97; 98; 97]%N 0
    (TOk [97; 98; 97]%N 2 [ (3%nat, true, 0%N, 2%N); (0%nat, true, 0%N, 2%N) ]).
Proof.
  assert (Hag : att_agree sx_G sx_g sx_names (att sx_G sx_names sx_C 0) sx_vt (att_of sx_C) (fun _ r b e => sx_vtf r b e) 0).
  { split; [|split; intros; reflexivity].
    intros r Ha. unfold anon in Ha. unfold att_of. change (acts sx_C 0 r) with (if existsb (Nat.eqb r) sx_names then AKApply true else AKNone).
    destruct (existsb (Nat.eqb r) sx_names); [discriminate Ha | reflexivity]. }
  split; [exact Hag|].
  assert (HP : PegA sx_g (att sx_G sx_names sx_C 0) sx_vt true (SRef 0) [97; 98; 97; 98; 97]%N 0
                 (Some ([97; 98; 97]%N, 2%N, [ (1%nat, true, 0%N, 2%N); (0%nat, true, 0%N, 2%N) ]))).
  { apply (peg_acts_sound sx_g (att sx_G sx_names sx_C 0) sx_vt 30). vm_compute. reflexivity. }
  assert (Ht : action_tie sx_G sx_g sx_names 6 = true) by (vm_compute; reflexivity).
  exact (reference_conservative_tie sx_G sx_g sx_names _ _ _ _ 0 6 Hag Ht 0%nat (Nat.lt_0_succ 1) true _ _ _ HP).
Qed.
Print Assumptions C04_example_ext_conservative.
