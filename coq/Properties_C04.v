(* Properties_C04.v — C04: actions fire once per surviving successful match with the exact matched span.
   Theorems only.  Quantifiers (unless a theorem says otherwise): EVERY grammar table G (all heads of
   Engine.v, well-formed or not), every configuration C (any attachment of void/bool apply, apply0,
   throwing actions, match-level actions, controls with/without unwind, raising failure hooks), every
   dyn d (apply mode, rewind mode, action family, control family), every fuel, cursor and input.
   Specification side: ActionSpec.v (quiet, the protocol machine arun, survivors, PegA / peg_acts). *)
From PegtlV Require Import Base Decode Grammar Engine EngineFacts AtomFacts Spec Denote ExactSound ActionSpec ActionFacts ActionExact.

(* ---------- 1. no action while actions are disabled ---------- *)
(* apply_mode::nothing and no enable<> / enable_action anywhere: not a single apply / apply0 / inline action *)
Theorem C04_none_when_disabled :
  forall G C f d r c o c' evs, no_enable G C -> dA d = false ->
    eval G C f d r c = Res o c' evs -> quiet evs.
Proof.
  intros G C f d r c o c' evs Hno Hd H.
  pose proof (eval_quiet G C Hno f d r c) as K. rewrite H in K. exact (K Hd).
Qed.
Print Assumptions C04_none_when_disabled.

(* at<>, not_at<> and disable<> pass apply_mode::nothing down whatever mode they were called with: whatever
   happens below them (success, failure, exception) invokes no action *)
Theorem C04_lookahead_quiet :
  forall G C f n self h r1 d c o c' evs, no_enable G C ->
    (h = HAt \/ h = HNotAt \/ h = HDisable) ->
    eval_head C (eval G C f) n self h [r1] d c = Res o c' evs -> quiet evs.
Proof.
  intros G C f n self h r1 d c o c' evs Hno Hh H.
  assert (K : forall x, GP Pq false x -> x = Res o c' evs -> quiet evs).
  { intros x Hx ->. exact (Hx eq_refl). }
  destruct Hh as [-> | [-> | ->]]; unfold eval_head in H; simpl in H.
  - unfold h_at in H. eapply K; [|exact H]. apply look_P. apply (eval_quiet G C Hno f (set_A (opt_ d) false) r1 c).
  - unfold h_at in H. eapply K; [|exact H]. apply look_P. apply (eval_quiet G C Hno f (set_A (opt_ d) false) r1 c).
  - eapply K; [|exact H]. apply (eval_quiet G C Hno f (set_A d false) r1 c).
Qed.
Print Assumptions C04_lookahead_quiet.

(* and the sub-rule of at<> / not_at<> / disable<> is ENTERED with apply_mode::nothing, whatever the mode of the caller
   (the first event of the section is the invocation record of the sub-rule carrying A = false) *)
Theorem C04_section_entry_mode :
  forall G C f n self h r1 d c o c' evs, (h = HAt \/ h = HNotAt \/ h = HDisable) ->
    eval_head C (eval G C f) n self h [r1] d c = Res o c' evs ->
    evs = [] \/ exists k m p tl, evs = EEnter k r1 false m p :: tl.
Proof.
  intros G C f n self h r1 d c o c' evs Hh H.
  assert (K : forall d' x, dA d' = false -> eval G C f d' r1 c = x -> forall o1 c1, x = Res o1 c1 evs ->
                evs = [] \/ exists k m p tl, evs = EEnter k r1 false m p :: tl).
  { intros d' x Hd Hx o1 c1 ->. destruct (eval_first G C f d' r1 c o1 c1 evs Hx) as [E | [tl E]]; [left; exact E|].
    right. rewrite Hd in E. eauto. }
  destruct Hh as [-> | [-> | ->]]; unfold eval_head in H; simpl in H.
  - unfold h_at in H. destruct (eval G C f (set_A (opt_ d) false) r1 c) as [[| |e] c1 e1| |] eqn:E; simpl in H; inversion H; subst;
    eapply (K (set_A (opt_ d) false)); eauto.
  - unfold h_at in H. destruct (eval G C f (set_A (opt_ d) false) r1 c) as [[| |e] c1 e1| |] eqn:E; simpl in H; inversion H; subst;
    eapply (K (set_A (opt_ d) false)); eauto.
  - eapply (K (set_A d false)); eauto.
Qed.
Print Assumptions C04_section_entry_mode.

(* ---------- 2. the action protocol (all heads, enable included) ---------- *)
(* every log the engine produces is accepted by the protocol machine (ActionSpec.arun) and leaves its stack as
   it found it.  Acceptance means: an Action< Rule >::apply/apply0 event for rule r occurs only while r's
   attempt is the innermost open one (after start( b ), after its body: no deeper attempt open, before its
   closing hook), at most once per attempt, only in an invocation entered with apply_mode::action, with
   action-input begin = the position of that attempt's start; the closing hook carries the action's end position
   and is success iff the action did not return false (failure iff it did); after a veto the invocation does
   not return true and its exit position is its entry position; apply_mode::action is never passed down from an
   invocation that has apply_mode::nothing, except by enable<> / enable_action; inline actions (apply<>, apply0<>,
   if_apply<>) only run with actions enabled and begin at the entry position of their rule *)
Theorem C04_protocol :
  forall G C enabler f d r c o c' evs, enabler_ok G C enabler ->
    eval G C f d r c = Res o c' evs ->
    forall st, implb (dA d) (eff enabler st) = true -> arun enabler (vetoes_of C) st evs = Some st.
Proof.
  intros G C enabler f d r c o c' evs He H.
  pose proof (eval_arun G C enabler He f d r c) as K. rewrite H in K. exact K.
Qed.
Print Assumptions C04_protocol.

(* what acceptance means at an apply event: the machine is inside the attempt of that very rule, started at the
   action's begin, no action fired yet, invocation entered with apply_mode::action *)
Theorem C04_protocol_apply_inv :
  forall enabler vetoes st l1 fam r b e l2 st',
    arun enabler vetoes st (l1 ++ EApply fam r b e :: l2) = Some st' ->
    exists tl p0 s, arun enabler vetoes st l1 = Some (AHook r b None :: AInv r true p0 s :: tl) /\
                    arun enabler vetoes (AHook r b (Some (e, vetoes fam r b e)) :: AInv r true p0 s :: tl) l2 = Some st'.
Proof. exact arun_apply_inv. Qed.
Print Assumptions C04_protocol_apply_inv.

(* ---------- 3. span: one attempt of match.hpp ---------- *)
(* the log of an attempt is start( begin ), the log of the rule's own match, then — exactly when that match
   succeeded, actions are enabled and the rule has apply/apply0 — ONE action event whose begin is the cursor at
   the start of the attempt and whose end is the cursor the match left (the parse input's position at that
   moment), then at most one closing hook; a successful attempt returns exactly that end cursor *)
Theorem C04_span :
  forall C ak body d r c o c' evs, match_hpp C ak body d r c = Res o c' evs ->
  exists o1 c1 evs1 post,
    body (if use_guard d ak then opt_ d else d) c = Res o1 c1 evs1 /\
    evs = EHook HkStart (dCtl d) r (cpos c) :: evs1 ++ (if is_ok o1 then action_events d ak r (cpos c) (cpos c1) else []) ++ post /\
    quiet post /\ (length post <= 1)%nat /\
    (o = Ok -> o1 = Ok /\ c' = c1 /\ post = [EHook HkSuccess (dCtl d) r (cpos c1)]).
Proof. exact match_hpp_shape. Qed.
Print Assumptions C04_span.

(* ---------- 4. veto ---------- *)
(* a bool apply / apply0 returning false turns the match into a local failure; the cursor is restored to the
   start of that match in EVERY rewind mode (the guard is taken), failure() is called instead of success() *)
Theorem C04_veto :
  forall C ak body d r c c1 evs1,
    dA d = true -> (ak = AKApply true \/ ak = AKApply0 true) ->
    body (opt_ d) c = Res Ok c1 evs1 ->
    abeh C (dAct d) r (cpos c) (cpos c1) = ARet false ->
    raise_on_failure C (dCtl d) r = false ->
    use_guard d ak = true /\
    match_hpp C ak body d r c =
      Res Fail c ((EHook HkStart (dCtl d) r (cpos c) :: evs1 ++ action_events d ak r (cpos c) (cpos c1)) ++ [EHook HkFailure (dCtl d) r (cpos c1)]).
Proof. exact match_hpp_veto. Qed.
Print Assumptions C04_veto.

(* ---------- 5. the central statement: survivors = the reference derivation's action list ---------- *)
(* PARTIAL (fragment): tables that denote a surface grammar over seq sor star plus opt at not_at and the char atoms
   any one not_one range string eof success failure with (mutually recursive) named rules, every named rule
   (the root included) being a definition of the surface grammar (action_tie: the boolean tie also checks that the
   nodes of non-reference sub-expressions are not named nodes); configurations attaching void or bool (vetoing)
   apply / apply0 to NAMED rules only, whose verdict depends on the byte span (action_cfg); no throwing action,
   no match-level action, no raising failure hook.  Inside the fragment: every apply mode, rewind mode, control
   family, initial position, fuel, input.
   In a run that ends in success the surviving action invocations (transactional truncation of the log) are
   exactly, in order of match completion, the action list of THE derivation of the formalism-with-actions
   (PegA: failing alternatives and look-ahead contribute nothing, look-ahead is evaluated with actions off, a
   vetoing action turns its rule into failure), rule by rule with the exact begin / end byte of every match,
   and the run consumed exactly what that derivation consumes.
   The unrestricted statement (all heads: until, rep*, must, try_catch, state, action<>, enable/disable, inline
   actions, match-level actions, anonymous rules with actions) is NOT proved here; those are covered by the
   protocol-level theorems 1-4 above, which hold for every table and configuration. *)
Theorem C04_survivors_exact_partial :
  forall G g names C fam vt n, table_wf G -> action_cfg G names C fam vt -> action_tie G g names n = true ->
  forall k, (k < length g)%nat -> forall f d input p0 c' evs, dAct d = fam -> bytes_ok input ->
    run G C f d (nm_of G names k) input p0 = Res Ok c' evs ->
    exists l, PegA g (att G names C fam) vt (dA d) (SRef k) input (pbyte p0) (Some (rest c', pbyte (cpos c'), l)) /\
              map sact_bytes (survivors evs) = map (lab G names) l.
Proof. exact survivors_exact. Qed.
Print Assumptions C04_survivors_exact_partial.

(* the same for every invocation inside a run, including failing ones: a failing invocation contributes nothing *)
Theorem C04_invocation_exact_partial :
  forall G g names C fam vt, table_wf G -> action_cfg G names C fam vt ->
  (forall k e, nth_error g k = Some e -> not_ref e = true /\
      exists n nd, nth_error G (nm_of G names k) = Some nd /\ den_node (adenb G g names n) nd e = true) ->
  forall f n d r e c o c' evs, dAct d = fam -> adenb G g names n r e = true -> bytes_ok (rest c) ->
    eval G C f d r c = Res o c' evs -> conclA G g names C fam vt (dA d) e c o c' evs.
Proof.
  intros G g names C fam vt HG [H1 [H2 [H3 [H4 [H5 H6]]]]] Hdefs.
  exact (exact_soundA G g names C fam vt HG H1 H2 H3 H4 H5 H6 Hdefs).
Qed.
Print Assumptions C04_invocation_exact_partial.

(* the reference derivation is unique, and the executable reference interpreter (mirrored in Python by the check's
   oracle) computes it *)
Theorem C04_reference_deterministic :
  forall g att vt A e s o r1 r2, PegA g att vt A e s o r1 -> PegA g att vt A e s o r2 -> r1 = r2.
Proof. intros g att vt A e s o r1 r2 H1 H2. exact (PegA_deterministic g att vt A e s o r1 H1 r2 H2). Qed.
Print Assumptions C04_reference_deterministic.
Theorem C04_reference_executable :
  forall g att vt n A e s o r, peg_acts g att vt n A e s o = Some r -> PegA g att vt A e s o r.
Proof. exact peg_acts_sound. Qed.
Print Assumptions C04_reference_executable.

(* ---------- examples (non-vacuity) ---------- *)
(* struct N0 : seq< one<'a'>, opt< one<'b'> > >;  struct G : seq< at< N0 >, N0, disable< N0 >, enable< N0 > > *)
Definition ex_G : grammar :=
  [ mknode HSeq [1; 2; 6; 7]%nat true;               (* 0 G *)
    mknode HAt [2]%nat false;                         (* 1 at< N0 > *)
    mknode HSeq [3; 4]%nat true;                      (* 2 N0 *)
    mknode (HOne true PkChar [97%Z]) [] true;         (* 3 one<'a'> *)
    mknode HPartial [5]%nat true;                     (* 4 opt< one<'b'> > *)
    mknode (HOne true PkChar [98%Z]) [] true;         (* 5 one<'b'> *)
    mknode HDisable [2]%nat false;                    (* 6 disable< N0 > *)
    mknode HEnable [2]%nat false ].                   (* 7 enable< N0 > *)
Definition ex_noen : grammar := firstn 7 ex_G.
Definition ex_G2 : grammar :=                         (* G : seq< at< N0 >, N0, disable< N0 > > *)
  mknode HSeq [1; 2; 6]%nat true :: tl ex_noen.
(* bool apply on every rule; rule 5 (one<'b'>) vetoes *)
Definition ex_C : cfg :=
  mkcfg EolLfCrlf (fun _ _ => AKApply true) (fun _ r _ _ => ARet (negb (Nat.eqb r 5))) (fun _ _ _ => ARet true) (fun _ => true) (fun _ _ => false).
Definition ex_in : list byte := [97; 97; 98; 97; 98]%N.
Definition ex_enabler (r : rid) : bool := Nat.eqb r 7.

Example C04_example_disabled :
  no_enable ex_G2 ex_C /\
  exists c' evs, run ex_G2 ex_C 20 (mkdyn false true 0 0 0) 0%nat ex_in pos0 = Res Ok c' evs /\ quietb evs = true /\ Nat.ltb 20 (length evs) = true.
Proof.
  split.
  - split; [|intros; discriminate]. intros r nd H. do 7 (destruct r as [|r]; [simpl in H; inversion H; subst; discriminate|]). destruct r; discriminate.
  - eexists. eexists. split; [vm_compute; reflexivity|]. split; vm_compute; reflexivity.
Qed.
Print Assumptions C04_example_disabled.

(* with actions enabled: accepted by the machine from the empty stack; the at<> part and the disable<> part are
   action-free while the plain N0 fires (with a veto on one<'b'> that makes opt<> succeed empty) *)
Example C04_example_protocol :
  enabler_ok ex_G ex_C ex_enabler /\
  exists c' evs, run ex_G ex_C 20 (mkdyn true false 0 0 0) 0%nat ex_in pos0 = Res Ok c' evs /\
    arun ex_enabler (vetoes_of ex_C) [] evs = Some [] /\
    survivors evs =
      [ (3, true, mkpos 0 1 1, mkpos 1 1 2); (4, true, mkpos 1 1 2, mkpos 1 1 2); (2, true, mkpos 0 1 1, mkpos 1 1 2);
        (3, true, mkpos 3 1 4, mkpos 4 1 5); (4, true, mkpos 4 1 5, mkpos 4 1 5); (2, true, mkpos 3 1 4, mkpos 4 1 5);
        (0, true, mkpos 0 1 1, mkpos 4 1 5) ]%nat.
Proof.
  split.
  - split; [|intros; discriminate]. intros r nd H Hh. do 8 (destruct r as [|r]; [simpl in H; inversion H; subst; try discriminate Hh; reflexivity|]). destruct r; discriminate.
  - eexists. eexists. split; [vm_compute; reflexivity|]. split; vm_compute; reflexivity.
Qed.
Print Assumptions C04_example_protocol.

(* veto: the attempt of one<'b'> (rule 5) on "b" with the vetoing action fails locally with the cursor restored *)
Example C04_example_veto :
  exists evs, eval ex_G ex_C 5 (mkdyn true false 0 0 0) 5%nat (mkcur [98]%N pos0) = Res Fail (mkcur [98]%N pos0) evs /\
    In (EApply 0 5 pos0 (mkpos 1 1 2)) evs /\ In (EHook HkFailure 0 5 (mkpos 1 1 2)) evs /\ ~ In (EHook HkSuccess 0 5 (mkpos 1 1 2)) evs.
Proof.
  eexists. split; [vm_compute; reflexivity|]. split; [simpl; tauto|]. split; [simpl; tauto|].
  simpl. intros [H|[H|[H|[H|[H|H]]]]]; try discriminate H; exact H.
Qed.
Print Assumptions C04_example_veto.

(* the central statement on a concrete table:  struct N0 : seq< one<'a'>, opt< one<'b'> > >;
   struct G : seq< at< N0 >, star< N0 > >;  bool apply on the named rules G (node 0) and N0 (node 3); the action of
   N0 vetoes the match [2,4).  Input "ababa": at< N0 > matches with actions off (no veto there), N0 matches [0,2),
   the second N0 [2,4) is vetoed after its action ran, star<> stops at 2: survivors N0[0,2) then G[0,2). *)
Definition sx_G : grammar :=
  [ mknode HSeq [1; 2]%nat true; mknode HAt [3]%nat false; mknode HStarPartial [3]%nat true;
    mknode HSeq [4; 5]%nat true; mknode (HOne true PkChar [97%Z]) [] true; mknode HPartial [6]%nat true;
    mknode (HOne true PkChar [98%Z]) [] true ].
Definition sx_g : sgrammar := [ SSeq (SAt (SRef 1)) (SStar (SRef 1)); SSeq (SOne [97%N]) (SOpt (SOne [98%N])) ].
Definition sx_names : list rid := [0; 3]%nat.
Definition sx_vtf (r : rid) (b e : N) : bool := Nat.eqb r 3 && N.eqb b 2 && N.eqb e 4.
Definition sx_C : cfg :=
  mkcfg EolLfCrlf (fun _ r => if existsb (Nat.eqb r) sx_names then AKApply true else AKNone)
        (fun _ r b e => ARet (negb (sx_vtf r (pbyte b) (pbyte e)))) (fun _ _ _ => ARet true) (fun _ => true) (fun _ _ => false).
Definition sx_vt (k : nat) : N -> N -> bool := sx_vtf (nm_of sx_G sx_names k).
Example C04_example_survivors :
  table_wf sx_G /\ action_cfg sx_G sx_names sx_C 0 sx_vt /\ action_tie sx_G sx_g sx_names 6 = true /\
  exists c' evs, run sx_G sx_C 30 (mkdyn true true 0 0 0) 0%nat [97; 98; 97; 98; 97]%N pos0 = Res Ok c' evs /\
    rest c' = [97; 98; 97]%N /\
    survivors evs = [ (3%nat, true, mkpos 0 1 1, mkpos 2 1 3); (0%nat, true, mkpos 0 1 1, mkpos 2 1 3) ] /\
    In (EApply 0 3 (mkpos 2 1 3) (mkpos 4 1 5)) evs /\
    peg_acts sx_g (att sx_G sx_names sx_C 0) sx_vt 30 true (SRef 0) [97; 98; 97; 98; 97]%N 0
      = Some (Some ([97; 98; 97]%N, 2%N, [ (1%nat, true, 0%N, 2%N); (0%nat, true, 0%N, 2%N) ])).
Proof.
  split.
  { intros r nd H. do 7 (destruct r as [|r]; [simpl in H; inversion H; subst; exact I|]). destruct r; discriminate. }
  split.
  { split; [intros f r; change (plain_ak (if existsb (Nat.eqb r) sx_names then AKApply true else AKNone)); destruct (existsb (Nat.eqb r) sx_names); exact I|].
    split; [intros; eexists; reflexivity|]. split; [intros; reflexivity|].
    split; [intros f r Ha; unfold anon in Ha; change (acts sx_C f r) with (if existsb (Nat.eqb r) sx_names then AKApply true else AKNone); destruct (existsb (Nat.eqb r) sx_names); [discriminate Ha | reflexivity]|].
    split; [|intros; reflexivity].
    intros f r nd Ha Hn. do 7 (destruct r as [|r]; [simpl in Hn; inversion Hn; subst; try reflexivity; exfalso; apply Ha; reflexivity|]).
    destruct r; discriminate. }
  split; [vm_compute; reflexivity|].
  eexists. eexists. split; [vm_compute; reflexivity|]. split; [reflexivity|]. split; [vm_compute; reflexivity|].
  split; [vm_compute; tauto | vm_compute; reflexivity].
Qed.
Print Assumptions C04_example_survivors.
