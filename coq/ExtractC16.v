(* ExtractC16.v — extraction of the raw_string model for the C16 correspondence
   (ExtrOcamlBasic only; numbers stay Coq's positive/N/nat inductives). *)
From PegtlV Require Import Base Engine RawString.
From Coq Require Import Extraction ExtrOcamlBasic.
Extraction Language OCaml.
Extraction "c16_model.ml" raw_string raw_string_rule cr_any cr_not_one cr_bytes start.
