(* UriCompleteAbs.v — C20: completeness (hence exactness) of uri::absolute_URI on the generated table, by the computed certificate of
   UriCert2.v (soundness of the certificate: UriComplete2.cert2_sound); one file per production so that the three
   certificates are evaluated in parallel. *)
From PegtlV Require Import Base Grammar Engine ExactSound Regex Rfc3986 UriModel UriProof UriSoundAbs UriCert2 UriComplete2.

Lemma complete_absolute_URI : forall s, bytes_ok s -> matches (rfc Tabsolute_URI) s -> uri_accepts Tabsolute_URI s.
Proof. apply complete_of_cert2. vm_cast_no_check (eq_refl true). Qed.

Lemma exact_absolute_URI : forall s, bytes_ok s -> (uri_accepts Tabsolute_URI s <-> matches (rfc Tabsolute_URI) s).
Proof. intros s Hs. split; [apply sound_absolute_URI; exact Hs | apply complete_absolute_URI; exact Hs]. Qed.
