(* ExtractC20.v — extraction for the C20 correspondence and oracle (ExtrOcamlBasic only; numbers
   stay Coq's positive/N/Z/nat inductives).
     uri_verdict  : the engine model (UriModel.evalx) on the GENERATED table gen/Uri_gen.v
     rfc, deriv, nullable, re_match : the verified RFC 3986 recogniser (Regex.v / Rfc3986.v),
                    re_match r s = nullable (fold of deriv over s)  — the driver shares the
                    derivatives of common prefixes between consecutive inputs, nothing else. *)
From PegtlV Require Import Base Regex Rfc3986 UriModel.
From Coq Require Import Extraction ExtrOcamlBasic.
Extraction Language OCaml.
Extraction "c20_model.ml" uri_verdict rfc deriv nullable re_match rfc_match.
