(* ActionExact.v — C04, the central statement on the classical fragment: in a successful run the surviving
   action invocations (ActionSpec.survivors of the log: transactional truncation) are exactly, in order, the
   action list of the reference derivation (ActionSpec.PegA: PEG with semantic actions, vetoes, look-ahead
   evaluated with actions off), with the exact byte span of every match.
   Fragment: tables that denote a surface grammar over seq sor star plus opt at not_at + the char atoms with
   (mutually recursive) named rules (action_tie); void or bool (vetoing) apply / apply0 attached to NAMED rules
   (anonymous nodes carry none); no throwing action, no match-level action, no raising failure hook.
   Every apply mode, rewind mode, control family, initial position, fuel. *)
From Coq Require Import Lia.
From PegtlV Require Import Base Decode Grammar Engine EngineFacts AtomFacts Mono Spec Denote ExactSound ActionSpec ActionFacts.
Local Open Scope N_scope.

(* ---------- contribution of a log segment to the survivors ---------- *)
Definition Contrib (evs : list event) (S : list sact) : Prop :=
  forall stk cur tl, surv stk cur (evs ++ tl) = surv stk (cur ++ S) tl.
Lemma Contrib_nil : Contrib [] [].
Proof. intros stk cur tl. rewrite app_nil_r. reflexivity. Qed.
Lemma Contrib_app a b Sa Sb : Contrib a Sa -> Contrib b Sb -> Contrib (a ++ b) (Sa ++ Sb).
Proof. intros Ha Hb stk cur tl. rewrite <- app_assoc, Ha, Hb, app_assoc. reflexivity. Qed.
Lemma Contrib_hook h k r p : Contrib [EHook h k r p] [].
Proof. intros stk cur tl. rewrite app_nil_r. reflexivity. Qed.
Lemma Contrib_cons_hook h k r p evs S : Contrib evs S -> Contrib (EHook h k r p :: evs) S.
Proof. intros H. change (EHook h k r p :: evs) with ([EHook h k r p] ++ evs). change S with ([] ++ S). apply Contrib_app; [apply Contrib_hook | exact H]. Qed.
Lemma Contrib_traced k r a m p o p' evs S : Contrib evs S ->
  Contrib (EEnter k r a m p :: evs ++ [EExit k r o p']) (if is_true o then S else []).
Proof.
  intros H stk cur tl. cbn [app surv]. rewrite <- app_assoc, H. cbn [app surv].
  destruct (is_true o); [reflexivity | rewrite app_nil_r; reflexivity].
Qed.
Definition own (a : bool) (ak : akind) (r : rid) (b e : pos) : list sact :=
  if a then match ak with AKApply _ => [(r, true, b, e)] | AKApply0 _ => [(r, false, e, e)] | _ => [] end else [].
Lemma Contrib_action_events d ak r b e : Contrib (action_events d ak r b e) (own (dA d) ak r b e).
Proof.
  unfold action_events, own. destruct (dA d); [|apply Contrib_nil].
  destruct ak; try apply Contrib_nil; intros stk cur tl; reflexivity.
Qed.

(* ---------- byte offsets of the classical atoms ---------- *)
Definition PB (c c' : cursor) : Prop :=
  pbyte (cpos c') = pbyte (cpos c) + N.of_nat (length (rest c) - length (rest c')).
Lemma PB_refl c : PB c c.
Proof. unfold PB. rewrite Nat.sub_diag. cbn [N.of_nat]. rewrite N.add_0_r. reflexivity. Qed.
Lemma bump_scan_PB ch n : forall c c', bump_scan ch n c = Some c' -> PB c c' /\ (length (rest c') <= length (rest c))%nat.
Proof.
  induction n as [|n IH]; intros c c' H; simpl in H.
  - inversion H; subst. split; [apply PB_refl | lia].
  - destruct (rest c) as [|b tl] eqn:E; [discriminate|]. apply IH in H. destruct H as [H1 H2]. unfold PB in *. simpl in *.
    assert (Hb : pbyte (bump1_pos ch (cpos c) b) = pbyte (cpos c) + 1) by (unfold bump1_pos; destruct (b =? ch); reflexivity).
    rewrite Hb in H1. rewrite E. cbn [length]. split; lia.
Qed.
Lemma bump_in_line_PB n c c' : bump_in_line n c = Some c' -> PB c c'.
Proof.
  unfold bump_in_line. destruct (drop n (rest c)) as [tl|] eqn:E; [|discriminate]. intros H. inversion H; subst.
  apply drop_app in E. destruct E as [pre [E L]]. unfold PB. simpl. unfold byte in *. rewrite E, app_length. f_equal. lia.
Qed.
Lemma bump_help_PB ch t n c c' evs : bump_help ch t n c = Res Ok c' evs -> PB c c'.
Proof.
  unfold bump_help, ok_or_err. destruct t.
  - destruct (bump_scan ch n c) as [c2|] eqn:E; [|discriminate]. intros H. inversion H; subst. apply (bump_scan_PB ch n c c' E).
  - destruct (bump_in_line n c) as [c2|] eqn:E; [|discriminate]. intros H. inversion H; subst. apply (bump_in_line_PB n c c' E).
Qed.
Lemma ptb_PB ch test c c' evs : peek_test_bump ch PkChar test c = Res Ok c' evs -> PB c c'.
Proof.
  unfold peek_test_bump, do_peek, peek_char. destruct (in_empty c); [discriminate|]. unfold rd.
  destruct (peek_at c 0); [|discriminate]. destruct (test (schar b)); [|discriminate]. apply bump_help_PB.
Qed.
Definition catom (h : head) : bool :=
  match h with
  | HSuccess | HFailure | HEof | HAny PkChar | HOne _ PkChar _ | HRange _ PkChar _ _ | HString _ => true
  | _ => false end.
Lemma catom_PB eol h c c' evs : catom h = true -> eval_atom eol h c = Some (Res Ok c' evs) -> PB c c'.
Proof.
  intros Hh. destruct h; try discriminate Hh; cbn [eval_atom]; intros H.
  - inversion H; subst. apply PB_refl.
  - inversion H.
  - destruct (in_empty c); inversion H; subst; apply PB_refl.
  - destruct pk; try discriminate Hh. injection H as H. destruct (in_empty c); [discriminate|].
    change (ok_or_err (bump_scan (eol_ch eol) 1 c) = Res Ok c' evs) in H.
    destruct (bump_scan (eol_ch eol) 1 c) as [c2|] eqn:E; [|discriminate]. inversion H; subst.
    apply (bump_scan_PB _ 1 c c' E).
  - destruct pk; try discriminate Hh. injection H as H. eapply ptb_PB; eauto.
  - destruct pk; try discriminate Hh. injection H as H. eapply ptb_PB; eauto.
  - injection H as H. destruct (length cs <=? in_size c)%nat; [|discriminate]. destruct (take (length cs) (rest c)); [|discriminate].
    destruct (eqb_bytes cs l); [|discriminate]. eapply bump_help_PB; eauto.
Qed.

(* ---------- inversion of eval / match.hpp for plain (non match-level), non-throwing actions ---------- *)
Definition plain_ak (ak : akind) : Prop := match ak with AKMatch _ => False | _ => True end.
Definition vetoedb (C : cfg) (d : dyn) (ak : akind) (r : rid) (b e : pos) : bool :=
  dA d && match ak with
          | AKApply true | AKApply0 true => match abeh C (dAct d) r b e with ARet false => true | _ => false end
          | _ => false end.

Section Inv.
Variable C : cfg.
Hypothesis Habeh : forall f r b e, exists x, abeh C f r b e = ARet x.
Hypothesis Hrof : forall k r, raise_on_failure C k r = false.

Lemma match_hpp_inv ak body d r c o c' evs : match_hpp C ak body d r c = Res o c' evs ->
  exists d' o1 c1 evs1, (d' = d \/ d' = opt_ d) /\ body d' c = Res o1 c1 evs1 /\
    match o1 with
    | Ok => if vetoedb C d ak r (cpos c) (cpos c1)
            then o = Fail /\ evs = (EHook HkStart (dCtl d) r (cpos c) :: evs1 ++ action_events d ak r (cpos c) (cpos c1)) ++ [EHook HkFailure (dCtl d) r (cpos c1)]
            else o = Ok /\ c' = c1 /\ evs = EHook HkStart (dCtl d) r (cpos c) :: evs1 ++ action_events d ak r (cpos c) (cpos c1) ++ [EHook HkSuccess (dCtl d) r (cpos c1)]
    | Fail => o = Fail /\ evs = (EHook HkStart (dCtl d) r (cpos c) :: evs1) ++ [EHook HkFailure (dCtl d) r (cpos c1)]
    | Exc e => o = Exc e
    end.
Proof.
  unfold match_hpp. set (d' := if use_guard d ak then opt_ d else d).
  assert (Hd : d' = d \/ d' = opt_ d) by (unfold d'; destruct (use_guard d ak); auto).
  destruct (body d' c) as [[| |e] c1 evs1| |] eqn:Eb; try discriminate.
  - pose proof (run_action_evs C d ak r (cpos c) (cpos c1)) as Hea.
    assert (Hres : fst (run_action C d ak r (cpos c) (cpos c1)) = ARet (negb (vetoedb C d ak r (cpos c) (cpos c1)))).
    { unfold run_action, vetoedb. destruct (dA d); [|reflexivity]. cbn [andb].
      destruct ak as [|isb|isb|m]; try reflexivity;
      destruct (Habeh (dAct d) r (cpos c) (cpos c1)) as [x Hx]; rewrite Hx; destruct isb, x; reflexivity. }
    destruct (run_action C d ak r (cpos c) (cpos c1)) as [ar ea]. simpl in Hea, Hres. subst ea ar.
    intros H. exists d', Ok, c1, evs1. split; [exact Hd|]. split; [exact Eb|].
    destruct (vetoedb C d ak r (cpos c) (cpos c1)); cbn [negb] in H.
    + unfold fail_hook in H. rewrite Hrof in H. inversion H; subst. auto.
    + inversion H; subst. auto.
  - unfold fail_hook. rewrite Hrof. intros H. inversion H; subst. exists d', Fail, c1, evs1. auto.
  - intros H. inversion H; subst. exists d', (Exc e), c1, evs1. auto.
Qed.
End Inv.

Lemma PegA_false_nil g att vt A e s o r : PegA g att vt A e s o r -> A = false ->
  match r with Some (_, _, l) => l = [] | None => True end.
Proof.
  induction 1; intros HA; subst; simpl; auto;
  try (match goal with |- match ret_atom _ _ ?x with _ => _ end => destruct x; simpl; auto end).
  all: try (specialize (IHPegA1 eq_refl); specialize (IHPegA2 eq_refl); simpl in IHPegA1; subst l1; destruct r as [[[s2 o2] l2]|]; simpl in *; auto; fail).
  all: try (specialize (IHPegA eq_refl); destruct x as [[s1 o1] l1]; exact IHPegA).
  all: try (apply IHPegA2; reflexivity).
  all: try (specialize (IHPegA eq_refl); exact IHPegA).
Qed.

Section AExact.
Variable G : grammar.
Variable g : sgrammar.
Variable names : list rid.
Variable C : cfg.
Variable fam : nat.
Variable vt : nat -> N -> N -> bool.
Notation nm := (nm_of G names).
Hypothesis HG : table_wf G.
Hypothesis Hacts : forall f r, plain_ak (acts C f r).
Hypothesis Habeh : forall f r b e, exists x, abeh C f r b e = ARet x.
Hypothesis Hrof : forall k r, raise_on_failure C k r = false.
Hypothesis Hanon : forall f r, anon names r = true -> acts C f r = AKNone.
Hypothesis Hen : forall f r nd, acts C f r <> AKNone -> nth_error G r = Some nd -> nenabled nd = true.
Hypothesis Hvt : forall k b e, abeh C fam (nm k) b e = ARet (negb (vt k (pbyte b) (pbyte e))).
Definition skind_of (ak : akind) : skind :=
  match ak with AKApply isb => KAct true isb | AKApply0 isb => KAct false isb | _ => KNone end.
Definition att (k : nat) : skind := skind_of (acts C fam (nm k)).
Hypothesis Hdefs : forall k e, nth_error g k = Some e ->
  not_ref e = true /\ exists n nd, nth_error G (nm k) = Some nd /\ den_node (adenb G g names n) nd e = true.
Notation PA := (PegA g att vt).

Definition lab (x : pact) : rid * bool * N * N := match x with (k, sp, b, e) => (nm k, sp, b, e) end.
Definition Rel (S : list sact) (l : list pact) : Prop := map sact_bytes S = map lab l.
Lemma Rel_nil : Rel [] []. Proof. reflexivity. Qed.
Lemma Rel_app S1 l1 S2 l2 : Rel S1 l1 -> Rel S2 l2 -> Rel (S1 ++ S2) (l1 ++ l2).
Proof. unfold Rel. intros H1 H2. rewrite !map_app, H1, H2. reflexivity. Qed.
Lemma Rel_nil_l S : Rel S [] -> S = [].
Proof. unfold Rel. destruct S; [reflexivity | discriminate]. Qed.

Definition pb (c : cursor) : N := pbyte (cpos c).
(* head level: a failing result may still carry segments (dropped by the enclosing invocation) *)
Definition conclW (A : bool) (e : sexp) (c : cursor) (o : outcome) (c' : cursor) (evs : list event) : Prop :=
  match o with
  | Ok => exists l S, PA A e (rest c) (pb c) (Some (rest c', pb c', l)) /\ Contrib evs S /\ Rel S l
  | Fail => PA A e (rest c) (pb c) None /\ exists S, Contrib evs S
  | Exc _ => False
  end.
(* invocation level *)
Definition conclA (A : bool) (e : sexp) (c : cursor) (o : outcome) (c' : cursor) (evs : list event) : Prop :=
  match o with
  | Ok => exists l S, PA A e (rest c) (pb c) (Some (rest c', pb c', l)) /\ Contrib evs S /\ Rel S l
  | Fail => PA A e (rest c) (pb c) None /\ Contrib evs []
  | Exc _ => False
  end.
Lemma conclA_W A e c o c' evs : conclA A e c o c' evs -> conclW A e c o c' evs.
Proof. destruct o; simpl; auto. intros [H1 H2]. split; [exact H1 | exists []; exact H2]. Qed.

Lemma atom_concl A e c o c1 evs1 r :
  PA A e (rest c) (pb c) (ret_atom (rest c) (pb c) r) ->
  vres (Res o c1 evs1) = Some r -> evs1 = [] -> (o = Ok -> PB c c1) -> conclW A e c o c1 evs1.
Proof.
  intros HP Hv He Hpb. subst evs1. destruct o; simpl in Hv; inversion Hv; subst r; simpl.
  - exists [], []. split; [|split; [apply Contrib_nil | apply Rel_nil]].
    unfold ret_atom, adv_off in HP. unfold pb in *. rewrite (Hpb eq_refl). exact HP.
  - split; [exact HP | exists []; apply Contrib_nil].
Qed.

Lemma eval_invA f' d r c o c' evs nd : nth_error G r = Some nd -> eval G C (S f') d r c = Res o c' evs ->
  exists evs0, evs = EEnter (dCtl d) r (dA d) (dM d) (cpos c) :: evs0 ++ [EExit (dCtl d) r (okind o) (cpos c')] /\
    (if nenabled nd then match_hpp C (acts C (dAct d) r) (eval_head C (eval G C f') f' r (nhead nd) (nsubs nd)) d r c
     else eval_head C (eval G C f') f' r (nhead nd) (nsubs nd) d c) = Res o c' evs0.
Proof.
  intros Hn. simpl. rewrite Hn. pose proof (Hacts (dAct d) r) as Hp.
  destruct (acts C (dAct d) r) as [|isb|isb|m]; simpl in Hp; try contradiction;
  (match goal with |- traced _ _ _ _ _ ?x = _ -> _ => destruct x as [o0 c0 e0| |]; simpl; intros H; inversion H; subst; eexists; split; reflexivity end).
Qed.

Section Step.
Variable f : nat.
Variable n : nat.
Hypothesis IH : forall d r e c o c' evs, dAct d = fam -> adenb G g names n r e = true -> bytes_ok (rest c) ->
  eval G C f d r c = Res o c' evs -> conclA (dA d) e c o c' evs.

Lemma seq_soundA rs : forall e d c o c' evs, dAct d = fam -> den_seqb (adenb G g names n) rs e = true -> bytes_ok (rest c) ->
  seq_all (eval G C f) d rs c = Res o c' evs -> conclW (dA d) e c o c' evs.
Proof.
  induction rs as [|r rs IHrs]; intros e d c o c' evs Hf Hd Hb H; [discriminate|].
  destruct rs as [|r2 rs'].
  - simpl in Hd, H. unfold bind in H. destruct (eval G C f d r c) as [[| |ex] c1 vs1| |] eqn:E; try discriminate.
    + simpl in H. rewrite app_nil_r in H. inversion H; subst. apply conclA_W. eapply IH; eauto.
    + inversion H; subst. apply conclA_W. eapply IH; eauto.
    + inversion H; subst. apply conclA_W. eapply IH; eauto.
  - cbn [den_seqb] in Hd. destruct e; try discriminate. apply andb_true_iff in Hd. destruct Hd as [Hd1 Hd2].
    rewrite seq_all_cons in H. unfold bind in H.
    destruct (eval G C f d r c) as [[| |ex] c1 vs1| |] eqn:E; try discriminate.
    + pose proof (IH _ _ _ _ _ _ _ Hf Hd1 Hb E) as K1. simpl in K1. destruct K1 as [l1 [S1 [P1 [C1 R1]]]].
      destruct (seq_all (eval G C f) d (r2 :: rs') c1) as [o2 c2 e2'| |] eqn:E2; try discriminate.
      simpl in H. inversion H; subst.
      assert (Hb1 : bytes_ok (rest c1)) by (eapply ev_bytes; eauto; discriminate).
      pose proof (IHrs _ _ _ _ _ _ Hf Hd2 Hb1 E2) as K2.
      destruct o; simpl in K2 |- *.
      * destruct K2 as [l2 [S2 [P2 [C2 R2]]]]. exists (l1 ++ l2), (S1 ++ S2).
        split; [exact (A_seq_ok g att vt _ _ _ _ _ _ _ _ _ P1 P2) | split; [apply Contrib_app; assumption | apply Rel_app; assumption]].
      * destruct K2 as [P2 [S2 C2]]. split; [exact (A_seq_ok g att vt _ _ _ _ _ _ _ _ _ P1 P2) | exists (S1 ++ S2); apply Contrib_app; assumption].
      * exact K2.
    + inversion H; subst. pose proof (IH _ _ _ _ _ _ _ Hf Hd1 Hb E) as K1. simpl in K1 |- *. destruct K1 as [P1 C1].
      split; [apply A_seq_fail; exact P1 | exists []; exact C1].
    + inversion H; subst. pose proof (IH _ _ _ _ _ _ _ Hf Hd1 Hb E) as K1. exact K1.
Qed.

Lemma sor_soundA rs : forall e d c o c' evs, dAct d = fam -> den_sorb (adenb G g names n) rs e = true -> bytes_ok (rest c) ->
  sor_any (eval G C f) d rs c = Res o c' evs -> conclW (dA d) e c o c' evs.
Proof.
  induction rs as [|r rs IHrs]; intros e d c o c' evs Hf Hd Hb H; [discriminate|].
  destruct rs as [|r2 rs'].
  - simpl in Hd, H. apply conclA_W. eapply IH; eauto.
  - cbn [den_sorb] in Hd. destruct e; try discriminate. apply andb_true_iff in Hd. destruct Hd as [Hd1 Hd2].
    change (sor_any (eval G C f) d (r :: r2 :: rs') c) with
      (match eval G C f (req d) r c with Res Fail c1 vs1 => prepend vs1 (sor_any (eval G C f) d (r2 :: rs') c1) | x => x end) in H.
    destruct (eval G C f (req d) r c) as [[| |ex] c1 vs1| |] eqn:E; try discriminate.
    + inversion H; subst. pose proof (IH (req d) _ _ _ _ _ _ Hf Hd1 Hb E) as K1. simpl in K1 |- *.
      destruct K1 as [l1 [S1 [P1 [C1 R1]]]]. exists l1, S1. split; [eapply A_sor_ok; exact P1 | auto].
    + pose proof (ev_req_fail G C HG _ _ _ _ _ _ E) as ->.
      destruct (sor_any (eval G C f) d (r2 :: rs') c) as [o2 c2 e2'| |] eqn:E2; try discriminate.
      simpl in H. inversion H; subst.
      pose proof (IH (req d) _ _ _ _ _ _ Hf Hd1 Hb E) as K1. pose proof (IHrs _ _ _ _ _ _ Hf Hd2 Hb E2) as K2.
      simpl in K1. destruct K1 as [P1 C1].
      destruct o; simpl in K2 |- *.
      * destruct K2 as [l2 [S2 [P2 [C2 R2]]]]. exists l2, S2. split; [eapply A_sor_next; eauto|]. split; [|exact R2].
        change S2 with ([] ++ S2). apply Contrib_app; assumption.
      * destruct K2 as [P2 [S2 C2]]. split; [eapply A_sor_next; eauto|]. exists ([] ++ S2). apply Contrib_app; assumption.
      * exact K2.
    + inversion H; subst. pose proof (IH (req d) _ _ _ _ _ _ Hf Hd1 Hb E) as K1. exact K1.
Qed.

Lemma star_soundA k : forall e1 d r1 c o c' evs, dAct d = fam -> adenb G g names n r1 e1 = true -> bytes_ok (rest c) ->
  star_loop (eval G C f) k d [r1] c = Res o c' evs -> conclW (dA d) (SStar e1) c o c' evs /\ o <> Fail.
Proof.
  induction k as [|k IHk]; intros e1 d r1 c o c' evs Hf Hd Hb H; [discriminate|].
  cbn [star_loop seq_all] in H. unfold bind in H.
  destruct (eval G C f (req d) r1 c) as [[| |ex] c1 e1'| |] eqn:E; try discriminate.
  - simpl in H. rewrite app_nil_r in H.
    destruct (star_loop (eval G C f) k d [r1] c1) as [o2 c2 e2'| |] eqn:E2; try discriminate.
    simpl in H. inversion H; subst.
    assert (Hb1 : bytes_ok (rest c1)) by (eapply ev_bytes; eauto; discriminate).
    pose proof (IH (req d) _ _ _ _ _ _ Hf Hd Hb E) as K1. destruct (IHk _ _ _ _ _ _ _ Hf Hd Hb1 E2) as [K2 N2]. simpl in K1.
    destruct K1 as [l1 [S1 [P1 [C1 R1]]]].
    split; [|exact N2]. destruct o; simpl in K2 |- *; [|congruence | exact K2].
    destruct K2 as [l2 [S2 [P2 [C2 R2]]]]. exists (l1 ++ l2), (S1 ++ S2).
    split; [exact (A_star_step g att vt _ _ _ _ _ _ _ _ P1 P2) | split; [apply Contrib_app; assumption | apply Rel_app; assumption]].
  - pose proof (ev_req_fail G C HG _ _ _ _ _ _ E) as ->. inversion H; subst.
    pose proof (IH (req d) _ _ _ _ _ _ Hf Hd Hb E) as K1. simpl in K1. destruct K1 as [P1 C1].
    split; [|discriminate]. simpl. exists [], []. split; [apply A_star_end; exact P1 | split; [exact C1 | apply Rel_nil]].
  - inversion H; subst. pose proof (IH (req d) _ _ _ _ _ _ Hf Hd Hb E) as K1. simpl in K1. contradiction.
Qed.

Lemma look_invA inv s x o c' evs : look inv s x = Res o c' evs ->
  exists o1 c1, x = Res o1 c1 evs /\ c' = s /\
    o = match o1 with Ok => if inv then Fail else Ok | Fail => if inv then Ok else Fail | Exc e => Exc e end.
Proof. destruct x as [[| |e] c1 e1| |]; simpl; intros H; inversion H; subst; eexists; eexists; split; eauto. Qed.

Lemma eqb_true_r' x : Bool.eqb x true = x.
Proof. destruct x; reflexivity. Qed.

Lemma head_soundA nd e d r c o c1 evs1 : dAct d = fam ->
  den_node (adenb G g names n) nd e = true -> bytes_ok (rest c) ->
  eval_head C (eval G C f) f r (nhead nd) (nsubs nd) d c = Res o c1 evs1 -> conclW (dA d) e c o c1 evs1.
Proof.
  intros Hf Hd Hb Hh. unfold den_node in Hd. unfold eval_head in Hh.
  destruct (nhead nd) eqn:Eh; try discriminate Hd.
  - (* success *) destruct (nsubs nd); [|discriminate]. destruct e; try discriminate. simpl in Hh. inversion Hh; subst.
    simpl. exists [], []. split; [apply A_success | split; [apply Contrib_nil | apply Rel_nil]].
  - (* failure *) destruct (nsubs nd); [|discriminate]. destruct e; try discriminate. simpl in Hh. inversion Hh; subst.
    simpl. split; [apply A_failure | exists []; apply Contrib_nil].
  - (* eof *) destruct (nsubs nd); [|discriminate]. destruct e; try discriminate.
    destruct (eval_atom (ceol C) HEof c) as [x|] eqn:Ea; [|discriminate Ea]. subst x.
    pose proof (eval_atom_noev C _ _ _ Ea) as Hn. simpl in Hn.
    eapply atom_concl; [apply A_eof | exact (eof_verdict _ _ _ Ea) | exact Hn | intros ->; eapply catom_PB; [|exact Ea]; reflexivity].
  - (* any *) destruct pk; try discriminate. destruct (nsubs nd); [|discriminate]. destruct e; try discriminate.
    destruct (eval_atom (ceol C) (HAny PkChar) c) as [x|] eqn:Ea; [|discriminate Ea]. subst x.
    pose proof (eval_atom_noev C _ _ _ Ea) as Hn. simpl in Hn.
    eapply atom_concl; [apply A_any | exact (any_verdict _ _ _ Ea) | exact Hn | intros ->; eapply catom_PB; [|exact Ea]; reflexivity].
  - (* one / not_one *)
    destruct found; destruct pk; try discriminate; destruct (nsubs nd); try discriminate; destruct e; try discriminate;
    apply andb_true_iff in Hd; destruct Hd as [Hz Hs]; apply eqb_zs_eq in Hz; subst cs;
    (match type of Hh with match ?t with Some _ => _ | None => _ end = _ => destruct t as [x|] eqn:Ea; [|discriminate Ea] end); subst x;
    pose proof (eval_atom_noev C _ _ _ Ea) as Hn; simpl in Hn.
    + eapply atom_concl; [apply A_one | | exact Hn | intros ->; eapply catom_PB; [|exact Ea]; reflexivity].
      cbn [eval_atom] in Ea. injection Ea as Ea. rewrite <- Ea.
      apply (ptb_char (eol_ch (ceol C)) (test_one_set true (map Z.of_N cs0)) (fun b => mem b cs0) c Hb).
      intros b Hb'. rewrite (test_set_mem true cs0 b Hb' Hs). apply eqb_true_r'.
    + eapply atom_concl; [apply A_not_one | | exact Hn | intros ->; eapply catom_PB; [|exact Ea]; reflexivity].
      cbn [eval_atom] in Ea. injection Ea as Ea. rewrite <- Ea.
      apply (ptb_char (eol_ch (ceol C)) (test_one_set false (map Z.of_N cs0)) (fun b => negb (mem b cs0)) c Hb).
      intros b Hb'. rewrite (test_set_mem false cs0 b Hb' Hs). destruct (mem b cs0); reflexivity.
  - (* range *)
    destruct found; destruct pk; try discriminate; destruct (nsubs nd); try discriminate; destruct e; try discriminate.
    apply andb_true_iff in Hd. destruct Hd as [Hd Hh2]. apply andb_true_iff in Hd. destruct Hd as [Hd Hl2].
    apply andb_true_iff in Hd. destruct Hd as [Hz1 Hz2]. apply Z.eqb_eq in Hz1, Hz2. subst lo hi.
    apply N.ltb_lt in Hl2, Hh2.
    (match type of Hh with match ?t with Some _ => _ | None => _ end = _ => destruct t as [x|] eqn:Ea; [|discriminate Ea] end); subst x.
    pose proof (eval_atom_noev C _ _ _ Ea) as Hn; simpl in Hn.
    eapply atom_concl; [apply A_range | | exact Hn | intros ->; eapply catom_PB; [|exact Ea]; reflexivity].
    cbn [eval_atom] in Ea. injection Ea as Ea. rewrite <- Ea.
    apply (ptb_char (eol_ch (ceol C)) (test_one_range true (Z.of_N lo0) (Z.of_N hi0)) (fun b => (lo0 <=? b) && (b <=? hi0)) c Hb).
    intros b Hb'. apply (test_range_mem lo0 hi0 b Hb' Hl2 Hh2).
  - (* string *)
    destruct (nsubs nd); try discriminate; destruct e; try discriminate. apply eqb_ns_eq in Hd. subst cs.
    destruct (eval_atom (ceol C) (HString cs0) c) as [x|] eqn:Ea; [|discriminate Ea]. subst x.
    pose proof (eval_atom_noev C _ _ _ Ea) as Hn. simpl in Hn.
    eapply atom_concl; [apply A_string | exact (string_verdict _ _ _ _ Ea) | exact Hn | intros ->; eapply catom_PB; [|exact Ea]; reflexivity].
  - (* seq *) simpl in Hh. unfold h_seq in Hh. apply andb_true_iff in Hd. destruct Hd as [Hl Hd].
    destruct (nsubs nd) as [|r1 [|r2 rs]] eqn:Es; [discriminate Hd | discriminate Hl |].
    apply guard_inv in Hh. destruct Hh as [c2 [Hh Hc2]].
    pose proof (seq_soundA _ _ (opt_ d) _ _ _ _ Hf Hd Hb Hh) as K.
    destruct o; simpl in K |- *; auto. rewrite <- (Hc2 eq_refl). exact K.
  - (* sor *) simpl in Hh. apply andb_true_iff in Hd. destruct Hd as [Hl Hd]. eapply sor_soundA; eauto.
  - (* star *) destruct (nsubs nd) as [|r1 [|? ?]]; try discriminate. destruct e; try discriminate. simpl in Hh.
    destruct (star_soundA _ _ _ _ _ _ _ _ Hf Hd Hb Hh) as [K _]. exact K.
  - (* plus *) destruct (nsubs nd) as [|r1 [|? ?]]; try discriminate. destruct e; try discriminate. simpl in Hh.
    unfold h_plus, bind in Hh.
    destruct (eval G C f d r1 c) as [[| |ex] c2 e2| |] eqn:E; try discriminate.
    + destruct (star_loop (eval G C f) f d [r1] c2) as [o3 c3 e3| |] eqn:E3; try discriminate.
      simpl in Hh. inversion Hh; subst.
      assert (Hb2 : bytes_ok (rest c2)) by (eapply ev_bytes; eauto; discriminate).
      pose proof (IH _ _ _ _ _ _ _ Hf Hd Hb E) as K1. destruct (star_soundA _ _ _ _ _ _ _ _ Hf Hd Hb2 E3) as [K2 N2]. simpl in K1.
      destruct K1 as [l1 [S1 [P1 [C1 R1]]]].
      destruct o; simpl in K2 |- *; [|congruence | exact K2].
      destruct K2 as [l2 [S2 [P2 [C2 R2]]]]. exists (l1 ++ l2), (S1 ++ S2).
      split; [exact (A_plus_step g att vt _ _ _ _ _ _ _ _ P1 P2) | split; [apply Contrib_app; assumption | apply Rel_app; assumption]].
    + inversion Hh; subst. pose proof (IH _ _ _ _ _ _ _ Hf Hd Hb E) as K1. simpl in K1 |- *. destruct K1 as [P1 C1].
      split; [apply A_plus_fail; exact P1 | exists []; exact C1].
    + inversion Hh; subst. pose proof (IH _ _ _ _ _ _ _ Hf Hd Hb E) as K1. exact K1.
  - (* opt *) destruct (nsubs nd) as [|r1 [|? ?]]; try discriminate. destruct e; try discriminate. simpl in Hh.
    unfold h_partial in Hh. cbn [seq_all] in Hh. unfold bind in Hh.
    destruct (eval G C f (req d) r1 c) as [[| |ex] c2 e2| |] eqn:E; try discriminate.
    + simpl in Hh. rewrite app_nil_r in Hh. inversion Hh; subst. pose proof (IH (req d) _ _ _ _ _ _ Hf Hd Hb E) as K1. simpl in K1 |- *.
      destruct K1 as [l1 [S1 [P1 [C1 R1]]]]. exists l1, S1. split; [eapply A_opt_ok; exact P1 | auto].
    + pose proof (ev_req_fail G C HG _ _ _ _ _ _ E) as ->. inversion Hh; subst.
      pose proof (IH (req d) _ _ _ _ _ _ Hf Hd Hb E) as K1. simpl in K1 |- *. destruct K1 as [P1 C1].
      exists [], []. split; [apply A_opt_none; exact P1 | split; [exact C1 | apply Rel_nil]].
    + inversion Hh; subst. pose proof (IH (req d) _ _ _ _ _ _ Hf Hd Hb E) as K1. exact K1.
  - (* at *) destruct (nsubs nd) as [|r1 [|? ?]]; try discriminate. destruct e; try discriminate. simpl in Hh.
    unfold h_at in Hh. apply look_invA in Hh. destruct Hh as [o1 [c2 [E [-> Ho]]]].
    pose proof (IH (set_A (opt_ d) false) _ _ _ _ _ _ Hf Hd Hb E) as K1. destruct o1 as [| |ex]; subst o; simpl in K1 |- *.
    + destruct K1 as [l1 [S1 [P1 [C1 R1]]]].
      pose proof (PegA_false_nil _ _ _ _ _ _ _ _ P1 eq_refl) as Hl. simpl in Hl. subst l1. apply Rel_nil_l in R1. subst S1.
      exists [], []. split; [eapply A_at_ok; exact P1 | split; [exact C1 | apply Rel_nil]].
    + destruct K1 as [P1 C1]. split; [apply A_at_fail; exact P1 | exists []; exact C1].
    + exact K1.
  - (* not_at *) destruct (nsubs nd) as [|r1 [|? ?]]; try discriminate. destruct e; try discriminate. simpl in Hh.
    unfold h_at in Hh. apply look_invA in Hh. destruct Hh as [o1 [c2 [E [-> Ho]]]].
    pose proof (IH (set_A (opt_ d) false) _ _ _ _ _ _ Hf Hd Hb E) as K1. destruct o1 as [| |ex]; subst o; simpl in K1 |- *.
    + destruct K1 as [l1 [S1 [P1 [C1 R1]]]]. split; [eapply A_not_at_ok; exact P1 | exists S1; exact C1].
    + destruct K1 as [P1 C1]. exists [], []. split; [apply A_not_at_fail; exact P1 | split; [exact C1 | apply Rel_nil]].
    + exact K1.
Qed.

Lemma Contrib_inner_ok d ak r c c1 evs1 S1 : Contrib evs1 S1 ->
  Contrib (EHook HkStart (dCtl d) r (cpos c) :: evs1 ++ action_events d ak r (cpos c) (cpos c1) ++ [EHook HkSuccess (dCtl d) r (cpos c1)])
          (S1 ++ own (dA d) ak r (cpos c) (cpos c1)).
Proof.
  intros H. apply Contrib_cons_hook. apply Contrib_app; [exact H|].
  rewrite <- (app_nil_r (own _ _ _ _ _)). apply Contrib_app; [apply Contrib_action_events | apply Contrib_hook].
Qed.
Lemma Contrib_traced_fail k r a m p p' evs : (exists S, Contrib evs S) ->
  Contrib (EEnter k r a m p :: evs ++ [EExit k r (Some false) p']) [].
Proof. intros [S H]. exact (Contrib_traced k r a m p (Some false) p' evs S H). Qed.
Lemma own_none a r b e : own a AKNone r b e = [].
Proof. unfold own. destruct a; reflexivity. Qed.

(* one invocation of a node that denotes e: the body's derivation wrapped by the node's own action *)
Lemma node_soundA nd e d r c o c' evs : dAct d = fam -> nth_error G r = Some nd ->
  den_node (adenb G g names n) nd e = true -> bytes_ok (rest c) ->
  eval G C (S f) d r c = Res o c' evs ->
  match acts C fam r with
  | AKNone => conclA (dA d) e c o c' evs
  | _ => forall k, r = nm k -> nth_error g k = Some e -> conclA (dA d) (SRef k) c o c' evs
  end.
Proof.
  intros Hf Hn Hd Hb H. destruct (eval_invA _ _ _ _ _ _ _ _ Hn H) as [evs0 [-> Hp]]. rewrite Hf in Hp.
  destruct (nenabled nd) eqn:Een.
  2:{ pose proof (head_soundA _ _ _ _ _ _ _ _ Hf Hd Hb Hp) as K.
      assert (KA : conclA (dA d) e c o c' (EEnter (dCtl d) r (dA d) (dM d) (cpos c) :: evs0 ++ [EExit (dCtl d) r (okind o) (cpos c')])).
      { destruct o; simpl in K |- *.
        - destruct K as [l [S [P [Cn R]]]]. exists l, S. split; [exact P | split; [|exact R]].
          exact (Contrib_traced _ _ _ _ _ (Some true) _ _ _ Cn).
        - destruct K as [P Cn]. split; [exact P | apply Contrib_traced_fail; exact Cn].
        - exact K. }
      destruct (acts C fam r) eqn:Ea; try exact KA;
      (intros; exfalso; assert (Ht : nenabled nd = true) by (eapply (Hen fam r nd); [rewrite Ea; discriminate | exact Hn]); congruence). }
  destruct (match_hpp_inv C Habeh Hrof _ _ _ _ _ _ _ _ Hp) as [d' [o1 [c1 [evs1 [Hd' [Hbody Hcase]]]]]].
  assert (Hf' : dAct d' = fam) by (destruct Hd' as [-> | ->]; exact Hf).
  assert (HA' : dA d' = dA d) by (destruct Hd' as [-> | ->]; reflexivity).
  pose proof (head_soundA _ _ _ _ _ _ _ _ Hf' Hd Hb Hbody) as K. rewrite HA' in K.
  destruct o1 as [| |ex]; simpl in K.
  - destruct K as [l1 [S1 [P1 [C1 R1]]]].
    destruct (vetoedb C d (acts C fam r) r (cpos c) (cpos c1)) eqn:Ev.
    + (* vetoed *)
      destruct Hcase as [-> ->].
      assert (CX : Contrib (EEnter (dCtl d) r (dA d) (dM d) (cpos c)
                    :: ((EHook HkStart (dCtl d) r (cpos c) :: evs1 ++ action_events d (acts C fam r) r (cpos c) (cpos c1)) ++ [EHook HkFailure (dCtl d) r (cpos c1)])
                    ++ [EExit (dCtl d) r (Some false) (cpos c')]) []).
      { apply Contrib_traced_fail. eexists. apply Contrib_app; [|apply Contrib_hook].
        apply Contrib_cons_hook. apply Contrib_app; [exact C1 | apply Contrib_action_events]. }
      unfold vetoedb in Ev. apply andb_true_iff in Ev. destruct Ev as [HdA Ev]. rewrite Hf in Ev.
      destruct (acts C fam r) as [|isb|isb|m] eqn:Ea; try discriminate Ev;
      (destruct isb; [|discriminate Ev]); intros k -> Hk; simpl; (split; [|exact CX]);
      pose proof (A_ref_ok g att vt (dA d) k e (rest c) (pb c) (rest c1) (pb c1) l1 Hk P1) as PR;
      (assert (Hw : rule_wrap att vt (dA d) k (pb c) (rest c1) (pb c1) l1 = None);
       [unfold rule_wrap, att; rewrite HdA, Ea; cbn [skind_of andb];
        rewrite (Hvt k (cpos c) (cpos c1)) in Ev; unfold pb; destruct (vt k (pbyte (cpos c)) (pbyte (cpos c1))); [reflexivity | discriminate Ev]
       | rewrite Hw in PR; exact PR]).
    + (* accepted *)
      destruct Hcase as [-> [-> ->]].
      assert (CX : Contrib (EEnter (dCtl d) r (dA d) (dM d) (cpos c)
                    :: (EHook HkStart (dCtl d) r (cpos c) :: evs1 ++ action_events d (acts C fam r) r (cpos c) (cpos c1) ++ [EHook HkSuccess (dCtl d) r (cpos c1)])
                    ++ [EExit (dCtl d) r (okind Ok) (cpos c1)]) (S1 ++ own (dA d) (acts C fam r) r (cpos c) (cpos c1))).
      { exact (Contrib_traced _ _ _ _ _ (Some true) _ _ _ (Contrib_inner_ok d _ r c c1 evs1 S1 C1)). }
      unfold vetoedb in Ev. rewrite Hf in Ev.
      destruct (acts C fam r) as [|isb|isb|m] eqn:Ea.
      * simpl. rewrite own_none, app_nil_r in CX. exists l1, S1. auto.
      * intros k -> Hk. simpl.
        pose proof (A_ref_ok g att vt (dA d) k e (rest c) (pb c) (rest c1) (pb c1) l1 Hk P1) as PR.
        unfold rule_wrap, att in PR. rewrite Ea in PR. cbn [skind_of] in PR. unfold own in CX.
        destruct (dA d) eqn:HdA.
        -- cbn [andb] in Ev.
           assert (Hv : isb && vt k (pb c) (pb c1) = false).
           { destruct isb; [|reflexivity]. rewrite (Hvt k (cpos c) (cpos c1)) in Ev. unfold pb. destruct (vt k (pbyte (cpos c)) (pbyte (cpos c1))); [discriminate Ev | reflexivity]. }
           rewrite Hv in PR. eexists. eexists. split; [exact PR | split; [exact CX | apply Rel_app; [exact R1 | reflexivity]]].
        -- rewrite app_nil_r in CX. exists l1, S1. auto.
      * intros k -> Hk. simpl.
        pose proof (A_ref_ok g att vt (dA d) k e (rest c) (pb c) (rest c1) (pb c1) l1 Hk P1) as PR.
        unfold rule_wrap, att in PR. rewrite Ea in PR. cbn [skind_of] in PR. unfold own in CX.
        destruct (dA d) eqn:HdA.
        -- cbn [andb] in Ev.
           assert (Hv : isb && vt k (pb c) (pb c1) = false).
           { destruct isb; [|reflexivity]. rewrite (Hvt k (cpos c) (cpos c1)) in Ev. unfold pb. destruct (vt k (pbyte (cpos c)) (pbyte (cpos c1))); [discriminate Ev | reflexivity]. }
           rewrite Hv in PR. eexists. eexists. split; [exact PR | split; [exact CX | apply Rel_app; [exact R1 | reflexivity]]].
        -- rewrite app_nil_r in CX. exists l1, S1. auto.
      * pose proof (Hacts fam r) as Hp'. rewrite Ea in Hp'. contradiction.
  - (* the body failed *)
    destruct Hcase as [-> ->]. destruct K as [P1 [S1 C1]].
    assert (CX : Contrib (EEnter (dCtl d) r (dA d) (dM d) (cpos c)
                  :: ((EHook HkStart (dCtl d) r (cpos c) :: evs1) ++ [EHook HkFailure (dCtl d) r (cpos c1)])
                  ++ [EExit (dCtl d) r (Some false) (cpos c')]) []).
    { apply Contrib_traced_fail. eexists. apply Contrib_app; [|apply Contrib_hook]. apply Contrib_cons_hook. exact C1. }
    destruct (acts C fam r); simpl; try (split; [exact P1 | exact CX]);
    (intros k -> Hk; split; [eapply A_ref_fail; eauto | exact CX]).
  - contradiction.
Qed.
End Step.


Lemma adenb_nonref n r e : not_ref e = true -> adenb G g names (S n) r e = true ->
  anon names r = true /\ exists nd, nth_error G r = Some nd /\ den_node (adenb G g names n) nd e = true.
Proof.
  intros Hr H. destruct e; try discriminate Hr; cbn [adenb] in H;
  (apply andb_true_iff in H; destruct H as [H1 H2]; split; [exact H1|];
   destruct (nth_error G r) as [nd|]; [exists nd; auto | discriminate H2]).
Qed.
Lemma ref_none A k e c o c' evs : nth_error g k = Some e -> att k = KNone ->
  conclA A e c o c' evs -> conclA A (SRef k) c o c' evs.
Proof.
  intros Hk Ha. destruct o; simpl; auto.
  - intros [l [S [P [Cn R]]]]. exists l, S. split; [|auto].
    pose proof (A_ref_ok g att vt A k e _ _ _ _ _ Hk P) as PR. unfold rule_wrap in PR. rewrite Ha in PR. destruct A; exact PR.
  - intros [P Cn]. split; [eapply A_ref_fail; eauto | exact Cn].
Qed.

Theorem exact_soundA : forall f n d r e c o c' evs, dAct d = fam ->
  adenb G g names n r e = true -> bytes_ok (rest c) -> eval G C f d r c = Res o c' evs -> conclA (dA d) e c o c' evs.
Proof.
  induction f as [|f IHf]; intros n d r e c o c' evs Hf Hd Hb H; [discriminate|].
  destruct n as [|n]; [discriminate|].
  destruct (not_ref e) eqn:Hr.
  - destruct (adenb_nonref n r e Hr Hd) as [Han [nd [Hn Hden]]].
    pose proof (node_soundA f n (IHf n) nd e d r c o c' evs Hf Hn Hden Hb H) as K.
    rewrite (Hanon fam r Han) in K. exact K.
  - destruct e; try discriminate Hr. cbn [adenb] in Hd. apply andb_true_iff in Hd. destruct Hd as [Hd1 Hd2].
    apply Nat.eqb_eq in Hd1. subst r. apply Nat.ltb_lt in Hd2.
    destruct (nth_error g k) as [ek|] eqn:Hk; [|apply nth_error_None in Hk; lia].
    destruct (Hdefs k ek Hk) as [Hnr [n2 [nd [Hn Hden]]]].
    pose proof (node_soundA f n2 (IHf n2) nd ek d (nm k) c o c' evs Hf Hn Hden Hb H) as K.
    destruct (acts C fam (nm k)) as [|isb|isb|m] eqn:Ea.
    + apply (ref_none _ _ ek); [exact Hk | unfold att; rewrite Ea; reflexivity | exact K].
    + exact (K k eq_refl Hk).
    + exact (K k eq_refl Hk).
    + exact (K k eq_refl Hk).
Qed.
End AExact.

(* ---------- from the boolean tie to the statement about whole runs ---------- *)
Lemma adefs_ok_nth G g names n : forall g' k0, adefs_ok G g names n g' k0 = true ->
  forall k e, nth_error g' k = Some e ->
    not_ref e = true /\ exists nd, nth_error G (nm_of G names (k0 + k)) = Some nd /\ den_node (adenb G g names n) nd e = true.
Proof.
  induction g' as [|e0 g' IH]; intros k0 H k e Hk; [destruct k; discriminate|].
  cbn [adefs_ok] in H. apply andb_true_iff in H. destruct H as [H H2]. apply andb_true_iff in H. destruct H as [H0 H1].
  destruct k as [|k]; simpl in Hk.
  - inversion Hk; subst. rewrite Nat.add_0_r. split; [exact H0|].
    destruct (nth_error G (nm_of G names k0)) as [nd|]; [exists nd; auto | discriminate H1].
  - replace (k0 + S k)%nat with (S k0 + k)%nat by lia. eapply IH; eauto.
Qed.

Definition action_cfg (G : grammar) (names : list rid) (C : cfg) (fam : nat) (vt : nat -> N -> N -> bool) : Prop :=
  (forall f r, plain_ak (acts C f r)) /\
  (forall f r b e, exists x, abeh C f r b e = ARet x) /\
  (forall k r, raise_on_failure C k r = false) /\
  (forall f r, anon names r = true -> acts C f r = AKNone) /\
  (forall f r nd, acts C f r <> AKNone -> nth_error G r = Some nd -> nenabled nd = true) /\
  (forall k b e, abeh C fam (nm_of G names k) b e = ARet (negb (vt k (pbyte b) (pbyte e)))).

Theorem survivors_exact G g names C fam vt n : table_wf G -> action_cfg G names C fam vt -> action_tie G g names n = true ->
  forall k, (k < length g)%nat -> forall f d input p0 c' evs, dAct d = fam -> bytes_ok input ->
    run G C f d (nm_of G names k) input p0 = Res Ok c' evs ->
    exists l, PegA g (att G names C fam) vt (dA d) (SRef k) input (pbyte p0) (Some (rest c', pbyte (cpos c'), l)) /\
              map sact_bytes (survivors evs) = map (lab G names) l.
Proof.
  intros HG [H1 [H2 [H3 [H4 [H5 H6]]]]] Ht k Hk f d input p0 c' evs Hf Hb H.
  unfold action_tie in Ht. apply andb_true_iff in Ht. destruct Ht as [_ Ht].
  assert (Hdefs : forall k e, nth_error g k = Some e ->
            not_ref e = true /\ exists n nd, nth_error G (nm_of G names k) = Some nd /\ den_node (adenb G g names n) nd e = true).
  { intros k0 e Hk0. destruct (adefs_ok_nth G g names n g 0 Ht k0 e Hk0) as [A [nd [B Cc]]]. split; [exact A | exists n, nd; auto]. }
  assert (Hd : adenb G g names 1 (nm_of G names k) (SRef k) = true).
  { cbn [adenb]. rewrite Nat.eqb_refl. apply Nat.ltb_lt in Hk. rewrite Hk. reflexivity. }
  pose proof (exact_soundA G g names C fam vt HG H1 H2 H3 H4 H5 H6 Hdefs f 1 d (nm_of G names k) (SRef k) (mkcur input p0) Ok c' evs Hf Hd Hb H) as K.
  simpl in K. destruct K as [l [S [P [Cn R]]]]. exists l. split; [exact P|].
  unfold survivors. specialize (Cn [] [] []). rewrite app_nil_r in Cn. simpl in Cn. rewrite Cn. exact R.
Qed.


(* ---------- the executable reference (mirrored by the check's Python interpreter) computes the relation ---------- *)
Theorem peg_acts_sound g att vt n : forall A e s o r, peg_acts g att vt n A e s o = Some r -> PegA g att vt A e s o r.
Proof.
  induction n as [|n IH]; intros A e s o r H; [discriminate|].
  destruct e; simpl in H.
  all: try (inversion H; subst; constructor; fail).
  - destruct (peg_acts g att vt n A e1 s o) as [[[[s1 o1] l1]|]|] eqn:E1; try discriminate.
    + unfold cat in H. destruct (peg_acts g att vt n A e2 s1 o1) as [[[[s2 o2] l2]|]|] eqn:E2; try discriminate; inversion H; subst.
      * exact (A_seq_ok g att vt _ _ _ _ _ _ _ _ _ (IH _ _ _ _ _ E1) (IH _ _ _ _ _ E2)).
      * exact (A_seq_ok g att vt _ _ _ _ _ _ _ _ _ (IH _ _ _ _ _ E1) (IH _ _ _ _ _ E2)).
    + inversion H; subst. apply A_seq_fail. apply IH; exact E1.
  - destruct (peg_acts g att vt n A e1 s o) as [[x|]|] eqn:E1; try discriminate.
    + inversion H; subst. eapply A_sor_ok. apply IH; exact E1.
    + eapply A_sor_next; [apply IH; exact E1 | apply IH; exact H].
  - destruct (peg_acts g att vt n A e s o) as [[[[s1 o1] l1]|]|] eqn:E1; try discriminate.
    + unfold cat in H. destruct (peg_acts g att vt n A (SStar e) s1 o1) as [[[[s2 o2] l2]|]|] eqn:E2; try discriminate; inversion H; subst.
      * exact (A_star_step g att vt _ _ _ _ _ _ _ _ (IH _ _ _ _ _ E1) (IH _ _ _ _ _ E2)).
      * exact (A_star_step g att vt _ _ _ _ _ _ _ _ (IH _ _ _ _ _ E1) (IH _ _ _ _ _ E2)).
    + inversion H; subst. apply A_star_end. apply IH; exact E1.
  - destruct (peg_acts g att vt n A e s o) as [[[[s1 o1] l1]|]|] eqn:E1; try discriminate.
    + unfold cat in H. destruct (peg_acts g att vt n A (SStar e) s1 o1) as [[[[s2 o2] l2]|]|] eqn:E2; try discriminate; inversion H; subst.
      * exact (A_plus_step g att vt _ _ _ _ _ _ _ _ (IH _ _ _ _ _ E1) (IH _ _ _ _ _ E2)).
      * exact (A_plus_step g att vt _ _ _ _ _ _ _ _ (IH _ _ _ _ _ E1) (IH _ _ _ _ _ E2)).
    + inversion H; subst. apply A_plus_fail. apply IH; exact E1.
  - destruct (peg_acts g att vt n A e s o) as [[x|]|] eqn:E1; try discriminate; inversion H; subst.
    + eapply A_opt_ok. apply IH; exact E1.
    + apply A_opt_none. apply IH; exact E1.
  - destruct (peg_acts g att vt n false e s o) as [[x|]|] eqn:E1; try discriminate; inversion H; subst.
    + eapply A_at_ok. apply IH; exact E1.
    + apply A_at_fail. apply IH; exact E1.
  - destruct (peg_acts g att vt n false e s o) as [[x|]|] eqn:E1; try discriminate; inversion H; subst.
    + eapply A_not_at_ok. apply IH; exact E1.
    + apply A_not_at_fail. apply IH; exact E1.
  - destruct (nth_error g k) as [e1|] eqn:Ek; [|discriminate].
    destruct (peg_acts g att vt n A e1 s o) as [[[[s1 o1] l1]|]|] eqn:E1; try discriminate; inversion H; subst.
    + eapply A_ref_ok; [exact Ek | apply IH; exact E1].
    + eapply A_ref_fail; [exact Ek | apply IH; exact E1].
Qed.

(* the reference derivation is unique: "the" action list of a successful parse *)
Theorem PegA_deterministic g att vt A e s o r1 : PegA g att vt A e s o r1 -> forall r2, PegA g att vt A e s o r2 -> r1 = r2.
Proof.
  induction 1; intros r2 H2; inversion H2; subst; try reflexivity;
  repeat match goal with
  | IH : forall r, PegA _ _ _ ?A ?e ?s ?o r -> Some ?x = r, H : PegA _ _ _ ?A ?e ?s ?o (Some ?y) |- _ => apply IH in H; inversion H; subst; clear H
  | IH : forall r, PegA _ _ _ ?A ?e ?s ?o r -> Some ?x = r, H : PegA _ _ _ ?A ?e ?s ?o None |- _ => apply IH in H; discriminate
  | IH : forall r, PegA _ _ _ ?A ?e ?s ?o r -> None = r, H : PegA _ _ _ ?A ?e ?s ?o (Some ?y) |- _ => apply IH in H; discriminate
  end; try reflexivity;
  try (match goal with IH : forall r, PegA _ _ _ ?A ?e ?s ?o r -> ?x = r, H : PegA _ _ _ ?A ?e ?s ?o ?y |- _ => apply IH in H; subst; reflexivity end).
  all: try (match goal with H1 : nth_error ?gg ?k = Some _, H2 : nth_error ?gg ?k = Some _ |- _ => rewrite H1 in H2; inversion H2; subst end).
  all: repeat match goal with
  | IH : forall r, PegA _ _ _ ?A ?e ?s ?o r -> Some ?x = r, H : PegA _ _ _ ?A ?e ?s ?o (Some ?y) |- _ => apply IH in H; inversion H; subst; clear H
  | IH : forall r, PegA _ _ _ ?A ?e ?s ?o r -> Some ?x = r, H : PegA _ _ _ ?A ?e ?s ?o None |- _ => apply IH in H; discriminate
  | IH : forall r, PegA _ _ _ ?A ?e ?s ?o r -> None = r, H : PegA _ _ _ ?A ?e ?s ?o (Some ?y) |- _ => apply IH in H; discriminate
  end; try reflexivity.
Qed.
