(* UriProof.v — proofs of property C20 about the GENERATED table gen/Uri_gen.v. *)
From Coq Require Import List NArith ZArith Bool Lia.
From PegtlV Require Import Base Decode Grammar Engine Integer Regex Rfc3986 UriModel.
From PegtlV.gen Require Import Uri_gen.
Import ListNotations.
Local Open Scope N_scope.

(* ---------- the recorded finding, computed on the generated table ---------- *)
(* "//1.2.3.4a" *)
Definition host_witness : list byte := [47; 47; 49; 46; 50; 46; 51; 46; 52; 97].

Lemma complete_refuted :
  exists s, matches (rfc TURI_reference) s /\ uri_rejects TURI_reference s.
Proof.
  exists host_witness. split.
  - apply re_match_correct. vm_compute. reflexivity.
  - exists (uri_fuel host_witness). vm_compute. do 2 eexists. left. reflexivity.
Qed.
