(* UriProof.v — proofs of property C20 about the GENERATED table gen/Uri_gen.v.

   Part 1  evalx inherits the generic engine facts: cursor invariant (EngineFacts), fuel monotonicity (Mono).
   Part 2  PEG-in-CFG reading: whatever evalx accepts on a table lies in the regular language re_of
           computes from that table; locally never-failing nodes never fail; every exception is a
           parse_error raised by must / if_must (generic in the table, for the fragment re_of supports).
   Part 3  the language of maximum_rule< uint8_t, 255 > (C15 model) is RFC 3986 dec-octet.
   Part 4  the generated URI table: soundness against Rfc3986.v by the verified inclusion checker,
           exactness for IPv4address, the recorded counterexample to completeness. *)
From Coq Require Import List NArith ZArith Bool Lia.
From PegtlV Require Import Base Decode Grammar Engine EngineFacts AtomFacts Mono Spec ExactSound Integer IntegerSpec.
From PegtlV Require IntegerFacts.
From PegtlV Require Import Regex RegexIncl Rfc3986 UriModel.
From PegtlV.gen Require Import Uri_gen.
Import ListNotations.
Local Open Scope N_scope.

Ltac dres x := destruct x as [[| |?e] ?c ?evs| |].

(* ================================================================== Part 1 *)

(* ---------- maximum_rule never leaves [current, end) and restores nothing it did not touch ---------- *)
Definition mgood (c : cursor) (m : mres N) : Prop :=
  match m with
  | MOk c' _ => adv PT c c'
  | MFail c' _ => c' = c
  | _ => False
  end.

Lemma bump_ok_good n c (st : N) : (n <= in_size c)%nat -> mgood c (bump_ok n c st).
Proof.
  intros H. unfold bump_ok. destruct (bump_in_line_some n c H) as [c' Hc]. rewrite Hc. simpl.
  eapply bump_in_line_adv; eauto.
Qed.

Lemma peek_at_lt c i : (i < in_size c)%nat -> exists b, peek_at c i = Some b.
Proof.
  unfold in_size, peek_at. intros H. destruct (nth_error (rest c) i) eqn:E; [eexists; reflexivity|].
  apply nth_error_None in E. lia.
Qed.

Lemma nothrow_loop_good : forall fuel w Max c st ch b,
  (b < in_size c)%nat -> (in_size c <= length fuel + b + 1)%nat -> mgood c (nothrow_loop fuel w Max c st ch b).
Proof.
  induction fuel as [|x fuel IH]; intros w Max c st ch b Hb Hf; rewrite IntegerFacts.nothrow_loop_eq;
    (destruct (accumulate_digit w Max st (digit_value w ch)) as [st'|]; [|reflexivity]); cbv zeta.
  - simpl in Hf. destruct (S b <? in_size c)%nat eqn:E; [apply Nat.ltb_lt in E; lia|].
    apply bump_ok_good. lia.
  - destruct (S b <? in_size c)%nat eqn:E.
    + apply Nat.ltb_lt in E. destruct (peek_at_lt c (S b) E) as [ch' Hp]. rewrite Hp.
      destruct (is_digit ch'); [|apply bump_ok_good; lia].
      apply IH; [exact E | simpl in Hf; lia].
    + apply bump_ok_good. lia.
Qed.

Lemma match_nothrow_good w Max c st : mgood c (match_nothrow w Max c st).
Proof.
  unfold match_nothrow. destruct (in_empty c) eqn:Ee; [reflexivity|].
  assert (Hs : (1 <= in_size c)%nat) by (apply in_empty_size; exact Ee).
  destruct (peek_at_lt c 0) as [ch Hp]; [lia|]. rewrite Hp.
  destruct (ch =? 48).
  - unfold zero_case. destruct (in_size c <? 2)%nat eqn:E2; [apply bump_ok_good; lia|].
    apply Nat.ltb_ge in E2. destruct (peek_at_lt c 1) as [c1 Hp1]; [lia|]. rewrite Hp1.
    destruct (negb (is_digit c1)); [apply bump_ok_good; lia | reflexivity].
  - destruct (is_digit ch); [|reflexivity].
    apply nothrow_loop_good; [lia | unfold in_size; lia].
Qed.

Lemma mx_result_good w mx c m : goodT m c (mx_result (maximum_rule w mx c tt)).
Proof.
  unfold maximum_rule, goodT. pose proof (match_nothrow_good w mx c 0) as H.
  destruct (match_nothrow w mx c 0) as [c' st|c' st|k p c' st|]; simpl in H; cbn [keep_state mx_result].
  - exact H.
  - rewrite H. apply (good_fail_same PT PT_refl).
  - contradiction.
  - contradiction.
Qed.

(* ---------- the cursor invariant and fuel monotonicity hold for evalx ---------- *)
Section Generic.
Variable G : grammar.
Variable C : cfg.
Variable MX : rid -> option (nat * N).
Hypothesis HG : table_wf G.

Theorem evalx_good f : forall d r c, goodT (dM d) c (evalx G C MX f d r c).
Proof.
  unfold goodT.
  assert (Hscan : forall n c c', bump_scan (eol_ch (ceol C)) n c = Some c' -> adv PT c c') by (intros; eapply bump_scan_adv; eauto).
  assert (Hatom : forall h c x m, head_wf h -> eval_atom (ceol C) h c = Some x -> good PT m c x) by (intros; eapply eval_atom_good; eauto).
  induction f as [|f IH]; intros d r c; simpl; [exact I|].
  destruct (nth_error G r) as [nd|] eqn:En; [|apply good_fail_same; exact PT_refl].
  apply good_traced.
  set (body := match MX r with
               | Some (w, mx) => fun (_ : dyn) (c' : cursor) => mx_result (maximum_rule w mx c' tt)
               | None => eval_head C (evalx G C MX f) f r (nhead nd) (nsubs nd) end).
  assert (Hbody : forall d2 c2, good PT (dM d2) c2 (body d2 c2)).
  { intros d2 c2. unfold body. destruct (MX r) as [[w mx]|].
    - apply mx_result_good.
    - apply (eval_head_good PT PT_refl PT_trans C head_wf Hscan Hatom); [exact IH | eapply HG; eauto]. }
  assert (Hplain : forall ak d' c', good PT (dM d') c' (if nenabled nd then match_hpp C ak body d' r c' else body d' c')).
  { intros ak d' c'. destruct (nenabled nd); [|apply Hbody].
    apply (match_hpp_good PT PT_refl). exact Hbody. }
  destruct (acts C (dAct d) r) as [| | |mk]; try apply Hplain.
  apply (action_match_good PT PT_refl); [exact IH | apply Hplain].
Qed.

Theorem evalx_mono f1 : forall f2, (f1 <= f2)%nat -> forall d r c, le_res (evalx G C MX f1 d r c) (evalx G C MX f2 d r c).
Proof.
  induction f1 as [|f1 IH]; intros f2 Hf d r c; [apply le_oof|].
  destruct f2 as [|f2]; [lia|]. simpl.
  destruct (nth_error G r) as [nd|]; [|apply le_refl].
  assert (Hle : forall d r c, le_res (evalx G C MX f1 d r c) (evalx G C MX f2 d r c)) by (apply IH; lia).
  apply traced_mono.
  set (b1 := match MX r with
             | Some (w, mx) => fun (_ : dyn) (c' : cursor) => mx_result (maximum_rule w mx c' tt)
             | None => eval_head C (evalx G C MX f1) f1 r (nhead nd) (nsubs nd) end).
  set (b2 := match MX r with
             | Some (w, mx) => fun (_ : dyn) (c' : cursor) => mx_result (maximum_rule w mx c' tt)
             | None => eval_head C (evalx G C MX f2) f2 r (nhead nd) (nsubs nd) end).
  assert (Hb : forall d2 c2, le_res (b1 d2 c2) (b2 d2 c2)).
  { intros d2 c2. unfold b1, b2. destruct (MX r) as [[w mx]|]; [apply le_refl|].
    apply eval_head_mono; [exact Hle | lia]. }
  assert (Hplain : forall ak d' c', le_res
            (if nenabled nd then match_hpp C ak b1 d' r c' else b1 d' c')
            (if nenabled nd then match_hpp C ak b2 d' r c' else b2 d' c')).
  { intros ak d' c'. destruct (nenabled nd); [apply match_hpp_mono; exact Hb | apply Hb]. }
  destruct (acts C (dAct d) r) as [| | |mk]; try apply Hplain.
  apply action_match_mono; [exact Hle | apply Hplain].
Qed.

Corollary evalx_mono_res f1 f2 d r c o c' evs :
  evalx G C MX f1 d r c = Res o c' evs -> (f1 <= f2)%nat -> evalx G C MX f2 d r c = Res o c' evs.
Proof.
  intros H L. destruct (evalx_mono f1 f2 L d r c) as [E|E]; [congruence | rewrite <- E; exact H].
Qed.

Corollary evalx_functional f1 f2 d r c o1 c1 e1 o2 c2 e2 :
  evalx G C MX f1 d r c = Res o1 c1 e1 -> evalx G C MX f2 d r c = Res o2 c2 e2 -> o1 = o2 /\ c1 = c2 /\ e1 = e2.
Proof.
  intros H1 H2. destruct (Nat.le_ge_cases f1 f2) as [L|L].
  - pose proof (evalx_mono_res _ _ _ _ _ _ _ _ H1 L) as E. rewrite H2 in E. inversion E. auto.
  - pose proof (evalx_mono_res _ _ _ _ _ _ _ _ H2 L) as E. rewrite H1 in E. inversion E. auto.
Qed.
End Generic.

(* ================================================================== Part 3 *)
(* the numerals maximum_rule< uint8_t, 255 > accepts are exactly the RFC's dec-octet strings *)

Lemma digits_value_ge : forall ds acc, Forall isdigit ds -> (0 <= acc)%Z -> (acc <= digits_value acc ds)%Z.
Proof.
  induction ds as [|x ds IH]; intros acc Hd Ha; cbn [digits_value]; [lia|].
  inversion Hd as [|? ? Hx Hd']; subst. unfold isdigit in Hx.
  specialize (IH (10 * acc + (Z.of_N x - 48))%Z Hd'). lia.
Qed.

Definition dig09 : list N := map N.of_nat (seq 48 10).
Definition dig19 : list N := map N.of_nat (seq 49 9).
Lemma dig09_in b : isdigit b -> In b dig09.
Proof. unfold isdigit, dig09. intros H. rewrite <- (N2Nat.id b). apply in_map, in_seq. lia. Qed.
Lemma dig19_in b : 49 <= b <= 57 -> In b dig19.
Proof. unfold dig19. intros H. rewrite <- (N2Nat.id b). apply in_map, in_seq. lia. Qed.

Definition octet_ok (ds : list N) : bool := implb (unsigned_value ds <=? 255)%Z (re_match Rfc3986.dec_octet ds).
Lemma octet_sweep :
  forallb (fun d => octet_ok [d] &&
    forallb (fun a => octet_ok [d; a] && forallb (fun b => octet_ok [d; a; b]) dig09) dig09) dig19 = true.
Proof. vm_compute. reflexivity. Qed.

Lemma numeral_dec_octet ds : unsigned_numeral ds -> (unsigned_value ds <= 255)%Z -> matches Rfc3986.dec_octet ds.
Proof.
  intros Hn Hv. apply re_match_correct. destruct Hn as [|d tl Hd Htl].
  - vm_compute. reflexivity.
  - pose proof octet_sweep as S. rewrite forallb_forall in S. specialize (S d (dig19_in d Hd)).
    apply andb_true_iff in S. destruct S as [S1 S].
    assert (Use : forall l, octet_ok l = true -> (unsigned_value l <= 255)%Z -> re_match Rfc3986.dec_octet l = true).
    { intros l Ho Hl. unfold octet_ok in Ho. apply Z.leb_le in Hl. rewrite Hl in Ho. exact Ho. }
    destruct tl as [|a tl]; [apply Use; assumption|].
    inversion Htl as [|? ? Ha Htl']; subst.
    rewrite forallb_forall in S. specialize (S a (dig09_in a Ha)). apply andb_true_iff in S. destruct S as [S2 S].
    destruct tl as [|b tl]; [apply Use; assumption|].
    inversion Htl' as [|? ? Hb Htl'']; subst.
    rewrite forallb_forall in S. specialize (S b (dig09_in b Hb)).
    destruct tl as [|x tl]; [apply Use; assumption|].
    exfalso. inversion Htl'' as [|? ? Hx Htl3]; subst.
    unfold unsigned_value in Hv. cbn [digits_value] in Hv.
    unfold isdigit in *.
    pose proof (digits_value_ge tl (10 * (10 * (10 * (10 * 0 + (Z.of_N d - 48)) + (Z.of_N a - 48)) + (Z.of_N b - 48)) + (Z.of_N x - 48))%Z Htl3) as K.
    lia.
Qed.

(* ================================================================== Part 2 *)

Definition Inv (R : re) (nf : bool) (c : cursor) (x : result) : Prop :=
  match x with
  | Res Ok c' _ => exists pre, rest c = pre ++ rest c' /\ matches R pre
  | Res Fail _ _ => nf = false
  | Res (Exc e) _ _ => exists w p, e = EParse w p
  | Oof => True
  | Err => True
  end.

Lemma Inv_mono R R' nf nf' c x : incl_re R R' -> (nf' = true -> nf = true) -> Inv R nf c x -> Inv R' nf' c x.
Proof.
  intros HR Hn. dres x; simpl; auto.
  - intros [pre [H1 H2]]. exists pre. split; [exact H1 | apply HR; exact H2].
  - intros ->. destruct nf'; [specialize (Hn eq_refl); discriminate | reflexivity].
Qed.
Lemma Inv_prepend R nf c evs x : Inv R nf c x -> Inv R nf c (prepend evs x).
Proof. dres x; simpl; auto. Qed.
Lemma Inv_guard R nf c m x : Inv R nf c x -> Inv R nf c (guard m c x).
Proof. dres x; simpl; auto. Qed.
Lemma Inv_traced R nf c k r a mm c0 x : Inv R nf c x -> Inv R nf c (traced k r a mm c0 x).
Proof. dres x; simpl; auto. Qed.

Lemma bytes_ok_adv c c' : adv PT c c' -> bytes_ok (rest c) -> bytes_ok (rest c').
Proof. intros [pre [H _]] Hb. rewrite H in Hb. eapply bytes_ok_app_r; eauto. Qed.

(* shifting an invariant established at a later cursor back to an earlier one *)
Lemma Inv_shift R1 R2 nf c c1 pre y :
  rest c = pre ++ rest c1 -> matches R1 pre -> Inv R2 nf c1 y -> Inv (Cat R1 R2) nf c y.
Proof.
  intros E M. dres y; simpl; auto.
  intros [p2 [E2 M2]]. exists (pre ++ p2). split; [rewrite E, E2, app_assoc; reflexivity | apply MCat; assumption].
Qed.

Lemma Inv_bind R1 nf1 R2 nf2 c x k :
  Inv R1 nf1 c x -> (forall c1 evs, x = Res Ok c1 evs -> Inv R2 nf2 c1 (k c1)) ->
  Inv (Cat R1 R2) (nf1 && nf2) c (bind x k).
Proof.
  intros H1 Hk. dres x; simpl in *; auto.
  - destruct H1 as [pre [E M]]. specialize (Hk c0 evs eq_refl). apply Inv_prepend.
    eapply Inv_mono; [| |eapply Inv_shift; eauto]; [intros s Hs; exact Hs|].
    intros Hn. apply andb_true_iff in Hn. tauto.
  - subst nf1. reflexivity.
Qed.

Definition fr (l : list re) : re := fold_right Cat Eps l.
Definition fa (l : list re) : re := fold_right Alt Empty l.
Lemma cat_list_iff l : forall s, matches (cat_list l) s <-> matches (fr l) s.
Proof.
  induction l as [|r l IH]; intros s; [simpl; tauto|].
  destruct l as [|r2 l'].
  - simpl. rewrite cat_inv. split.
    + intros H. exists s, []. rewrite app_nil_r. split; [reflexivity | split; [exact H | constructor]].
    + intros [s1 [s2 [-> [H1 H2]]]]. apply eps_inv in H2. subst. rewrite app_nil_r. exact H1.
  - change (cat_list (r :: r2 :: l')) with (Cat r (cat_list (r2 :: l'))).
    change (fr (r :: r2 :: l')) with (Cat r (fr (r2 :: l'))).
    rewrite !cat_inv. split; intros [s1 [s2 [E [H1 H2]]]]; exists s1, s2; (split; [exact E | split; [exact H1 | apply IH; exact H2]]).
Qed.
Lemma alt_list_iff l : forall s, matches (alt_list l) s <-> matches (fa l) s.
Proof.
  induction l as [|r l IH]; intros s; [simpl; tauto|].
  destruct l as [|r2 l'].
  - simpl. rewrite alt_inv. split; [auto | intros [H|H]; [exact H | exfalso; eapply empty_inv; eauto]].
  - change (alt_list (r :: r2 :: l')) with (Alt r (alt_list (r2 :: l'))).
    change (fa (r :: r2 :: l')) with (Alt r (fa (r2 :: l'))).
    rewrite !alt_inv, IH. tauto.
Qed.

Lemma pow_opt_nil k R : matches (pow k (Alt R Eps)) [].
Proof.
  induction k as [|k IH]; simpl; [constructor|].
  change (@nil N) with (@nil N ++ @nil N). apply MCat; [apply MAltR; constructor | exact IH].
Qed.

Lemma strip_app cs : forall s s', strip cs s = Some s' -> s = cs ++ s'.
Proof.
  induction cs as [|c cs IH]; intros s s' H; simpl in H; [inversion H; reflexivity|].
  destruct s as [|b s]; [discriminate|]. destruct (c =? b) eqn:E; [|discriminate].
  apply N.eqb_eq in E. subst. simpl. f_equal. apply IH. exact H.
Qed.
Lemma lits_match cs : matches (fr (map lit cs)) cs.
Proof.
  induction cs as [|c cs IH]; simpl; [constructor|].
  change (c :: cs) with ([c] ++ cs). apply MCat; [|exact IH].
  constructor. unfold cs_mem, in_range. simpl. rewrite N.leb_refl. reflexivity.
Qed.

Section InvHelpers.
Variable C : cfg.
Variable sub : rid -> option (re * bool).
Variable ev : dyn -> rid -> cursor -> result.
Hypothesis Hgood : forall d r c, goodT (dM d) c (ev d r c).
Hypothesis Hev : forall d r c R nf, sub r = Some (R, nf) -> bytes_ok (rest c) -> Inv R nf c (ev d r c).

Lemma ev_ok_bytes d r c c' evs : ev d r c = Res Ok c' evs -> bytes_ok (rest c) -> bytes_ok (rest c').
Proof. intros E Hb. pose proof (Hgood d r c) as G. rewrite E in G. simpl in G. eapply bytes_ok_adv; eauto. Qed.
Lemma ev_fail_req d r c c' evs : dM d = true -> ev d r c = Res Fail c' evs -> c' = c.
Proof. intros Hd E. pose proof (Hgood d r c) as G. rewrite E, Hd in G. exact G. Qed.

Lemma seq_all_inv d : forall rs l, subs_re sub rs = Some l ->
  forall c, bytes_ok (rest c) -> Inv (fr (map fst l)) (forallb snd l) c (seq_all ev d rs c).
Proof.
  induction rs as [|r rs IH]; intros l Hs c Hb; simpl in Hs.
  - inversion Hs; subst. simpl. exists []. split; [reflexivity | constructor].
  - destruct (sub r) as [[R nf]|] eqn:Er; [|discriminate].
    destruct (subs_re sub rs) as [l'|] eqn:El; [|discriminate]. inversion Hs; subst. clear Hs.
    cbn [map fst snd forallb fr fold_right seq_all].
    apply Inv_bind; [apply Hev; assumption|].
    intros c1 evs E. apply IH; [reflexivity | eapply ev_ok_bytes; eauto].
Qed.

Lemma sor_any_inv d : forall rs l, subs_re sub rs = Some l ->
  forall c, bytes_ok (rest c) -> Inv (fa (map fst l)) (existsb snd l) c (sor_any ev d rs c).
Proof.
  induction rs as [|r rs IH]; intros l Hs c Hb.
  - simpl in Hs. inversion Hs; subst. simpl. reflexivity.
  - cbn [subs_re] in Hs. destruct (sub r) as [[R nf]|] eqn:Er; [|discriminate].
    destruct (subs_re sub rs) as [l'|] eqn:El; [|discriminate]. inversion Hs; subst. clear Hs.
    cbn [map fst snd existsb fa fold_right].
    destruct rs as [|r2 rs'].
    + simpl in El. inversion El; subst. simpl.
      eapply Inv_mono; [| |apply (Hev d r c R nf Er Hb)].
      * intros s Hm. apply MAltL. exact Hm.
      * rewrite orb_false_r. auto.
    + change (sor_any ev d (r :: r2 :: rs') c) with
        (match ev (req d) r c with Res Fail c' evs => prepend evs (sor_any ev d (r2 :: rs') c') | x => x end).
      pose proof (Hev (req d) r c R nf Er Hb) as H1.
      destruct (ev (req d) r c) as [[| |e] c0 evs| |] eqn:E; simpl in H1; simpl; auto.
      * destruct H1 as [pre [E1 M1]]. exists pre. split; [exact E1 | apply MAltL; exact M1].
      * assert (c0 = c) by (eapply (ev_fail_req (req d)); [reflexivity | exact E]). subst c0.
        apply Inv_prepend. eapply Inv_mono; [| |apply (IH l' eq_refl c Hb)].
        -- intros s Hm. apply MAltR. exact Hm.
        -- subst nf. simpl. auto.
Qed.

Lemma single_step d r R nf c : sub r = Some (R, nf) -> bytes_ok (rest c) ->
  match seq_all ev (req d) [r] c with
  | Res Ok c' _ => (exists pre, rest c = pre ++ rest c' /\ matches R pre) /\ bytes_ok (rest c')
  | Res Fail c' _ => c' = c
  | Res (Exc e) _ _ => exists w p, e = EParse w p
  | _ => True
  end.
Proof.
  intros Er Hb. cbn [seq_all]. unfold bind.
  pose proof (Hev (req d) r c R nf Er Hb) as H1.
  destruct (ev (req d) r c) as [[| |e] c0 evs| |] eqn:E; simpl in H1; simpl; auto.
  - split; [exact H1 | eapply ev_ok_bytes; eauto].
  - eapply (ev_fail_req (req d)); [reflexivity | exact E].
Qed.

Lemma star_loop_inv d r R nf : sub r = Some (R, nf) ->
  forall n c, bytes_ok (rest c) -> Inv (Star R) true c (star_loop ev n d [r] c).
Proof.
  intros Er. induction n as [|n IH]; intros c Hb; [exact I|].
  cbn [star_loop]. pose proof (single_step d r R nf c Er Hb) as S.
  destruct (seq_all ev (req d) [r] c) as [[| |e] c0 evs| |]; simpl; auto.
  - destruct S as [[pre [E M]] Hb0]. apply Inv_prepend.
    eapply Inv_mono; [| |eapply (Inv_shift R (Star R) true c c0 pre); eauto]; [|auto].
    intros s Hs. apply cat_inv in Hs. destruct Hs as [s1 [s2 [-> [A B]]]]. apply MStarS; assumption.
  - subst c0. exists []. split; [reflexivity | constructor].
Qed.

Lemma h_plus_inv n d r R nf c : sub r = Some (R, nf) -> bytes_ok (rest c) ->
  Inv (Cat R (Star R)) nf c (h_plus ev n d r c).
Proof.
  intros Er Hb. unfold h_plus.
  eapply Inv_mono; [| |apply (Inv_bind R nf (Star R) true)].
  - intros s Hs. exact Hs.
  - intros Hn. rewrite Hn. reflexivity.
  - apply Hev; assumption.
  - intros c1 evs E. apply (star_loop_inv d r R nf Er). eapply ev_ok_bytes; eauto.
Qed.

Lemma h_partial_inv d r R nf c : sub r = Some (R, nf) -> bytes_ok (rest c) ->
  Inv (Alt R Eps) true c (h_partial ev d [r] c).
Proof.
  intros Er Hb. unfold h_partial. pose proof (single_step d r R nf c Er Hb) as S.
  destruct (seq_all ev (req d) [r] c) as [[| |e] c0 evs| |]; simpl; auto.
  - destruct S as [[pre [E M]] _]. exists pre. split; [exact E | apply MAltL; exact M].
  - subst c0. exists []. split; [reflexivity | apply MAltR; constructor].
Qed.

Lemma rep_loop_inv d r R nf : sub r = Some (R, nf) ->
  forall k c, bytes_ok (rest c) -> Inv (pow k R) false c (rep_loop ev k d r c).
Proof.
  intros Er. induction k as [|k IH]; intros c Hb; cbn [rep_loop pow].
  - exists []. split; [reflexivity | constructor].
  - eapply Inv_mono; [| |apply (Inv_bind R nf (pow k R) false)].
    + intros s Hs. exact Hs.
    + discriminate.
    + apply Hev; assumption.
    + intros c1 evs E. apply IH. eapply ev_ok_bytes; eauto.
Qed.

Lemma repopt_loop_inv d r R nf : sub r = Some (R, nf) ->
  forall k c, bytes_ok (rest c) -> Inv (pow k (Alt R Eps)) true c (fst (repopt_loop ev k d r c)).
Proof.
  intros Er. induction k as [|k IH]; intros c Hb; cbn [repopt_loop pow].
  - simpl. exists []. split; [reflexivity | constructor].
  - pose proof (Hev (req d) r c R nf Er Hb) as H1.
    destruct (ev (req d) r c) as [[| |e] c0 evs| |] eqn:E; simpl in H1; simpl; auto.
    + assert (Hb0 : bytes_ok (rest c0)) by (eapply ev_ok_bytes; eauto).
      specialize (IH c0 Hb0). destruct (repopt_loop ev k d r c0) as [x b]. simpl in IH |- *.
      apply Inv_prepend. destruct H1 as [pre [E1 M1]].
      eapply (Inv_shift (Alt R Eps)); [exact E1 | apply MAltL; exact M1 | exact IH].
    + assert (c0 = c) by (eapply (ev_fail_req (req d)); [reflexivity | exact E]). subst c0.
      exists []. split; [reflexivity|]. apply (pow_opt_nil (S k)).
Qed.

Lemma h_rep_min_max_inv mn mx d r R nf c : sub r = Some (R, nf) -> bytes_ok (rest c) ->
  Inv (Cat (pow mn R) (pow (mx - mn) (Alt R Eps))) false c (h_rep_min_max ev mn mx d r c).
Proof.
  intros Er Hb. unfold h_rep_min_max. apply Inv_guard.
  eapply Inv_mono; [| |apply (Inv_bind (pow mn R) false (pow (mx - mn) (Alt R Eps)) false)].
  - intros s Hs. exact Hs.
  - discriminate.
  - apply (rep_loop_inv (opt_ d) r R nf Er). exact Hb.
  - intros c1 evs E.
    assert (Hb1 : bytes_ok (rest c1)).
    { pose proof (rep_loop_good PT PT_refl PT_trans ev Hgood mn (opt_ d) r eq_refl c) as G.
      rewrite E in G. simpl in G. eapply bytes_ok_adv; eauto. }
    pose proof (repopt_loop_inv d r R nf Er (mx - mn) c1 Hb1) as K.
    destruct (repopt_loop ev (mx - mn) d r c1) as [x b]. simpl in K.
    assert (Kw : Inv (pow (mx - mn) (Alt R Eps)) false c1 x).
    { eapply Inv_mono; [| |exact K]; [intros s Hs; exact Hs | discriminate]. }
    destruct x as [[| |e] c2 evs2| |]; try exact Kw.
    destruct b; [|exact Kw].
    apply Inv_prepend. unfold h_at, look. simpl in K. destruct K as [pre [E2 M2]].
    assert (Hb2 : bytes_ok (rest c2)) by (rewrite E2 in Hb1; eapply bytes_ok_app_r; eauto).
    pose proof (Hev (set_A (opt_ (opt_ d)) false) r c2 R nf Er Hb2) as H3.
    destruct (ev (set_A (opt_ (opt_ d)) false) r c2) as [[| |e] c3 evs3| |]; simpl in H3; simpl; auto; try (exists pre; auto).
Qed.

Lemma h_if_must_inv (dflt : bool) d cnd m Rc nfc Rm c : sub cnd = Some (Rc, nfc) -> sub m = Some (Rm, true) -> bytes_ok (rest c) ->
  Inv (if dflt then Alt (Cat Rc Rm) Eps else Cat Rc Rm) dflt c (h_if_must ev dflt d cnd [m] c).
Proof.
  intros Ec Em Hb. unfold h_if_must.
  pose proof (Hev (if dflt then req d else d) cnd c Rc nfc Ec Hb) as H1.
  destruct (ev (if dflt then req d else d) cnd c) as [[| |e] c1 evs| |] eqn:E; simpl in H1; auto.
  - assert (Hb1 : bytes_ok (rest c1)) by (eapply ev_ok_bytes; eauto).
    pose proof (Hev d m c1 Rm true Em Hb1) as H2. destruct H1 as [pre [E1 M1]].
    assert (K : forall y, Inv Rm true c1 y -> Inv (if dflt then Alt (Cat Rc Rm) Eps else Cat Rc Rm) dflt c y).
    { intros y Hy. eapply Inv_mono; [| |eapply (Inv_shift Rc Rm true c c1 pre); eauto]; [|auto].
      intros s Hs. destruct dflt; [apply MAltL; exact Hs | exact Hs]. }
    destruct (ev d m c1) as [[| |e] c2 evs2| |]; simpl in H2; try discriminate.
    + apply (K (Res Ok c2 (evs ++ evs2))). exact H2.
    + apply (K (Res (Exc e) c2 (evs ++ evs2))). exact H2.
    + exact I.
    + exact I.
  - destruct dflt; simpl; [|reflexivity].
    assert (c1 = c) by (eapply (ev_fail_req (req d)); [reflexivity | exact E]). subst c1.
    exists []. split; [reflexivity | apply MAltR; constructor].
Qed.

Lemma h_must_inv d r R nf c : sub r = Some (R, nf) -> bytes_ok (rest c) -> Inv R true c (h_must ev d r c).
Proof.
  intros Er Hb. unfold h_must, raise_at.
  pose proof (Hev (opt_ d) r c R nf Er Hb) as H1.
  destruct (ev (opt_ d) r c) as [[| |e] c1 evs| |]; simpl in H1; simpl; auto.
  eexists; eexists; reflexivity.
Qed.

Lemma h_at_inv inv d r R nf c : sub r = Some (R, nf) -> bytes_ok (rest c) -> Inv Eps false c (h_at ev inv d r c).
Proof.
  intros Er Hb. unfold h_at, look.
  pose proof (Hev (set_A (opt_ d) false) r c R nf Er Hb) as H1.
  destruct (ev (set_A (opt_ d) false) r c) as [[| |e] c1 evs| |]; simpl in H1; destruct inv; simpl;
    try reflexivity; try exact H1; try exact I; exists []; (split; [reflexivity | constructor]).
Qed.

(* ---------- atoms ---------- *)
Lemma class_checked_spec cs t : class_checked cs t = true -> forall b, b < 256 -> t (schar b) = cs_mem b cs.
Proof.
  unfold class_checked. rewrite forallb_forall. intros H b Hb.
  specialize (H b (all_bytes_in b Hb)). apply eqb_prop in H. symmetry. exact H.
Qed.
Lemma class_atom ch cs t c : class_checked cs t = true -> bytes_ok (rest c) ->
  Inv (Chr cs) false c (peek_test_bump ch PkChar t c).
Proof.
  intros Hc Hb. pose proof (ptb_char ch t (fun b => cs_mem b cs) c Hb (class_checked_spec cs t Hc)) as V.
  destruct (peek_test_bump ch PkChar t c) as [[| |e] c1 evs| |]; simpl in V; simpl; try discriminate; auto.
  injection V as V. unfold atom1 in V. destruct (rest c) as [|b tl]; [discriminate|].
  destruct (cs_mem b cs) eqn:Em; [|discriminate]. injection V as V. subst tl.
  exists [b]. split; [reflexivity | constructor; exact Em].
Qed.

Lemma atom_inv h c x R nf : atom_re h = Some (Some (R, nf)) -> eval_atom (ceol C) h c = Some x ->
  bytes_ok (rest c) -> Inv R nf c x.
Proof.
  intros Ha He Hb. destruct h; cbn [atom_re] in Ha; try discriminate.
  - (* success *) inversion Ha; subst. simpl in He. inversion He; subst. exists []. split; [reflexivity | constructor].
  - (* failure *) inversion Ha; subst. simpl in He. inversion He; subst. reflexivity.
  - (* eof *) inversion Ha; subst. simpl in He. inversion He; subst. destruct (in_empty c); simpl; [|reflexivity].
    exists []. split; [reflexivity | constructor].
  - (* one *) destruct found; try discriminate. destruct pk; try discriminate.
    unfold class_re in Ha. destruct (class_checked (cs_of_one cs) (test_one_set true cs)) eqn:Ec; [|discriminate].
    inversion Ha; subst. cbn [eval_atom] in He. inversion He; subst. apply class_atom; assumption.
  - (* range *) destruct found; try discriminate. destruct pk; try discriminate.
    unfold class_re in Ha. destruct (class_checked [(z2n lo, z2n hi)] (test_one_range true lo hi)) eqn:Ec; [|discriminate].
    inversion Ha; subst. cbn [eval_atom] in He. inversion He; subst. apply class_atom; assumption.
  - (* ranges *) destruct pk; try discriminate.
    unfold class_re in Ha. destruct (class_checked (cs_of_ranges cs) (test_ranges cs)) eqn:Ec; [|discriminate].
    inversion Ha; subst. cbn [eval_atom] in He. inversion He; subst. apply class_atom; assumption.
  - (* string *) inversion Ha; subst. pose proof (string_verdict (ceol C) cs c x He) as V.
    destruct x as [[| |e] c1 evs| |]; simpl in V; simpl; try discriminate; auto.
    injection V as V. symmetry in V. apply strip_app in V.
    exists cs. split; [exact V | apply cat_list_iff; apply lits_match].
  - (* opaque *) inversion Ha; subst. simpl in He. inversion He; subst. reflexivity.
Qed.

Lemma atom_is_atom h eol c y : atom_re h = Some (Some y) -> exists x, eval_atom eol h c = Some x.
Proof.
  intros Ha. destruct h; cbn [atom_re] in Ha; try discriminate; try (eexists; reflexivity).
Qed.

Lemma eval_head_inv n self nd d c R nf :
  re_step (fun _ => None) sub self nd = Some (R, nf) -> bytes_ok (rest c) ->
  Inv R nf c (eval_head C ev n self (nhead nd) (nsubs nd) d c).
Proof.
  unfold re_step. intros Hs Hb.
  destruct (atom_re (nhead nd)) as [[y|]|] eqn:Ea.
  - inversion Hs; subst y. destruct (atom_is_atom (nhead nd) (ceol C) c (R, nf) Ea) as [x Hx].
    unfold eval_head. rewrite Hx. eapply atom_inv; eauto.
  - discriminate.
  - unfold eval_head.
    destruct (nhead nd) eqn:Eh; cbn [atom_re] in Ea; try discriminate;
      try (destruct found; discriminate); cbn [eval_atom].
    + (* seq *) destruct (subs_re sub (nsubs nd)) as [l|] eqn:El; [|discriminate]. simpl in Hs. inversion Hs; subst.
      unfold h_seq.
      assert (K : forall m0, Inv (cat_list (map fst l)) (forallb snd l) c (guard m0 c (seq_all ev (opt_ d) (nsubs nd) c))).
      { intros m0. apply Inv_guard. eapply Inv_mono; [| |apply (seq_all_inv (opt_ d) (nsubs nd) l El c Hb)]; [|auto].
        intros s Hm. apply cat_list_iff. exact Hm. }
      destruct (nsubs nd) as [|r1 [|r2 rs]]; try apply K.
      simpl in El. destruct (sub r1) as [[R1 nf1]|] eqn:E1; [|discriminate]. inversion El; subst. simpl.
      rewrite andb_true_r. apply Hev; assumption.
    + (* sor *) destruct (subs_re sub (nsubs nd)) as [l|] eqn:El; [|discriminate]. simpl in Hs. inversion Hs; subst.
      eapply Inv_mono; [| |apply (sor_any_inv d (nsubs nd) l El c Hb)]; [|auto].
      intros s Hm. apply alt_list_iff. exact Hm.
    + (* star *) destruct (nsubs nd) as [|r1 [|? ?]]; try discriminate.
      destruct (sub r1) as [[R1 nf1]|] eqn:E1; [|discriminate]. simpl in Hs. inversion Hs; subst.
      eapply star_loop_inv; eauto.
    + (* plus *) destruct (nsubs nd) as [|r1 [|? ?]]; try discriminate.
      destruct (sub r1) as [[R1 nf1]|] eqn:E1; [|discriminate]. simpl in Hs. inversion Hs; subst.
      eapply h_plus_inv; eauto.
    + (* partial *) destruct (nsubs nd) as [|r1 [|? ?]]; try discriminate.
      destruct (sub r1) as [[R1 nf1]|] eqn:E1; [|discriminate]. simpl in Hs. inversion Hs; subst.
      eapply h_partial_inv; eauto.
    + (* at *) destruct (nsubs nd) as [|r1 [|? ?]]; try discriminate.
      destruct (sub r1) as [[R1 nf1]|] eqn:E1; [|discriminate]. simpl in Hs. inversion Hs; subst.
      eapply h_at_inv; eauto.
    + (* not_at *) destruct (nsubs nd) as [|r1 [|? ?]]; try discriminate.
      destruct (sub r1) as [[R1 nf1]|] eqn:E1; [|discriminate]. simpl in Hs. inversion Hs; subst.
      eapply h_at_inv; eauto.
    + (* rep *) destruct (nsubs nd) as [|r1 [|? ?]]; try discriminate.
      destruct (sub r1) as [[R1 nf1]|] eqn:E1; [|discriminate]. simpl in Hs. inversion Hs; subst.
      unfold h_rep. apply Inv_guard. eapply rep_loop_inv; eauto.
    + (* rep_min_max *) destruct (nsubs nd) as [|r1 [|? ?]]; try discriminate.
      destruct (sub r1) as [[R1 nf1]|] eqn:E1; [|discriminate]. simpl in Hs. inversion Hs; subst.
      eapply h_rep_min_max_inv; eauto.
    + (* rep_opt *) destruct (nsubs nd) as [|r1 [|? ?]]; try discriminate.
      destruct (sub r1) as [[R1 nf1]|] eqn:E1; [|discriminate]. simpl in Hs. inversion Hs; subst.
      unfold h_rep_opt. eapply repopt_loop_inv; eauto.
    + (* if_must *) destruct (nsubs nd) as [|cnd [|m [|? ?]]]; try discriminate.
      destruct (sub cnd) as [[Rc nfc]|] eqn:Ec; [|discriminate].
      destruct (sub m) as [[Rm [|]]|] eqn:Em; try discriminate. inversion Hs; subst.
      eapply h_if_must_inv; eauto.
    + (* must *) destruct (nsubs nd) as [|r1 [|? ?]]; try discriminate.
      destruct (sub r1) as [[R1 nf1]|] eqn:E1; [|discriminate]. simpl in Hs. inversion Hs; subst.
      eapply h_must_inv; eauto.
Qed.
End InvHelpers.

Lemma maxrule_lang w mx R c : re_maxrule w mx = Some R -> bytes_ok (rest c) ->
  Inv R false c (mx_result (maximum_rule w mx c tt)).
Proof.
  unfold re_maxrule. intros H Hb. destruct (Nat.eqb w 8 && (mx =? 255)) eqn:E; [|discriminate]. inversion H; subst R.
  apply andb_true_iff in E. destruct E as [E1 E2]. apply Nat.eqb_eq in E1. apply N.eqb_eq in E2. subst w mx.
  unfold maximum_rule.
  assert (Hw : (4 <= 8)%nat) by lia. assert (HM : 255 < pow2 8) by (vm_compute; reflexivity).
  pose proof (IntegerFacts.match_nothrow_char 8 255 c Hw HM Hb) as K.
  destruct (lex_unsigned (rest c)) as [k|] eqn:El.
  - cbv zeta in K. destruct K as [K1 K2]. change (Z.of_N 255) with 255%Z in *.
    destruct (Z.le_gt_cases (unsigned_value (firstn k (rest c))) 255) as [L|L].
    + rewrite (K1 L). simpl. exists (firstn k (rest c)). split; [symmetry; apply firstn_skipn|].
      apply numeral_dec_octet; [|exact L].
      apply IntegerFacts.lex_unsigned_iff in El. apply IntegerFacts.unsigned_lexeme_prefix in El. tauto.
    + destruct (K2 L) as [st' Hs]. rewrite Hs. simpl. reflexivity.
  - rewrite K. simpl. reflexivity.
Qed.

Section Top.
Variable G : grammar.
Variable C : cfg.
Variable MX : rid -> option (nat * N).
Hypothesis HG : table_wf G.
Hypothesis Hacts : forall fam r, acts C fam r = AKNone.
Hypothesis Hrof : forall k r, raise_on_failure C k r = false.

Lemma Inv_match_hpp R nf (body : dyn -> cursor -> result) d r c :
  Inv R nf c (body d c) -> Inv R nf c (match_hpp C AKNone body d r c).
Proof.
  intros H. unfold match_hpp.
  assert (Eg : use_guard d AKNone = false) by (unfold use_guard; apply andb_false_r). rewrite Eg.
  destruct (body d c) as [[| |e] c1 evs| |]; auto.
  - unfold run_action. destruct (dA d); exact H.
  - unfold fail_hook. rewrite Hrof. exact H.
Qed.

(* PEG-in-CFG reading, generic in the table: accepted prefixes lie in the language re_of computes,
   nodes flagged never-failing never fail locally, every exception is a parse_error raised by the engine *)
Theorem evalx_inv f : forall n d r c R nf, re_of G MX n r = Some (R, nf) -> bytes_ok (rest c) ->
  Inv R nf c (evalx G C MX f d r c).
Proof.
  induction f as [|f IH]; intros n d r c R nf Hr Hb; [exact I|].
  destruct n as [|n]; [discriminate|]. cbn [re_of] in Hr. cbn [evalx].
  destruct (nth_error G r) as [nd|] eqn:En.
  - apply Inv_traced. rewrite Hacts.
    set (body := match MX r with
                 | Some (w, mx) => fun (_ : dyn) (c' : cursor) => mx_result (maximum_rule w mx c' tt)
                 | None => eval_head C (evalx G C MX f) f r (nhead nd) (nsubs nd) end).
    assert (Hbody : Inv R nf c (body d c)).
    { unfold body. unfold re_step in Hr. destruct (MX r) as [[w mx]|] eqn:Em.
      - destruct (re_maxrule w mx) as [R0|] eqn:Er; [|discriminate]. simpl in Hr. inversion Hr; subst.
        apply maxrule_lang; assumption.
      - apply (eval_head_inv C (re_of G MX n) (evalx G C MX f) (evalx_good G C MX HG f) (fun d0 r0 c0 R0 nf0 => IH n d0 r0 c0 R0 nf0)).
        + unfold re_step. exact Hr.
        + exact Hb. }
    destruct (nenabled nd); [apply Inv_match_hpp; exact Hbody | exact Hbody].
  - inversion Hr; subst. reflexivity.
Qed.
End Top.

(* ================================================================== Part 4 *)
(* ---------- inversion of the top-level  seq< X, eof >  ---------- *)
Lemma traced_ok k r a m c x c' evs : traced k r a m c x = Res Ok c' evs -> exists evs', x = Res Ok c' evs'.
Proof. destruct x as [[| |e] c1 evs1| |]; simpl; intros H; inversion H; subst. eexists; reflexivity. Qed.
Lemma guard_ok m s x c' evs : guard m s x = Res Ok c' evs -> x = Res Ok c' evs.
Proof. destruct x as [[| |e] c1 evs1| |]; simpl; intros H; inversion H; subst. reflexivity. Qed.
Lemma bind_ok x k c' evs : bind x k = Res Ok c' evs -> exists c1 e1 e2, x = Res Ok c1 e1 /\ k c1 = Res Ok c' e2.
Proof.
  destruct x as [[| |e] c1 evs1| |]; simpl; intros H; try discriminate.
  destruct (k c1) as [[| |e] c2 evs2| |] eqn:Ek; simpl in H; inversion H; subst. eauto.
Qed.
Lemma match_hpp_ok (body : dyn -> cursor -> result) d r c c' evs :
  match_hpp C0 AKNone body d r c = Res Ok c' evs -> exists evs', body d c = Res Ok c' evs'.
Proof.
  unfold match_hpp. assert (Eg : use_guard d AKNone = false) by (unfold use_guard; apply andb_false_r). rewrite Eg.
  destruct (body d c) as [[| |e] c1 evs1| |]; try discriminate.
  unfold run_action. destruct (dA d); simpl; intros H; inversion H; subst; eexists; reflexivity.
Qed.

Section UriTop.
Variable G : grammar.
Variable MX : rid -> option (nat * N).

Lemma plain_ok f d r c nd c' evs : nth_error G r = Some nd -> MX r = None ->
  evalx G C0 MX (S f) d r c = Res Ok c' evs ->
  exists d' evs', eval_head C0 (evalx G C0 MX f) f r (nhead nd) (nsubs nd) d' c = Res Ok c' evs'.
Proof.
  intros En Em H. cbn [evalx] in H. rewrite En, Em in H. apply traced_ok in H. destruct H as [e1 H].
  change (acts C0 (dAct d) r) with AKNone in H. cbv iota in H.
  destruct (nenabled nd).
  - apply match_hpp_ok in H. destruct H as [e2 H]. eauto.
  - eauto.
Qed.

Lemma root_inv f d root x e en1 en2 c c' evs :
  nth_error G root = Some (mknode HSeq [x; e] en1) -> MX root = None ->
  nth_error G e = Some (mknode HEof [] en2) -> MX e = None ->
  evalx G C0 MX f d root c = Res Ok c' evs ->
  rest c' = [] /\ exists f' d' evs', evalx G C0 MX f' d' x c = Res Ok c' evs'.
Proof.
  intros Er Mr Ee Me H. destruct f as [|f]; [discriminate|].
  destruct (plain_ok f d root c _ c' evs Er Mr H) as [d1 [e1 H1]]. cbn [nhead nsubs] in H1.
  unfold eval_head in H1. cbn [eval_atom] in H1. unfold h_seq in H1. apply guard_ok in H1.
  cbn [seq_all] in H1. apply bind_ok in H1. destruct H1 as [c1 [ea [eb [Hx H2]]]].
  apply bind_ok in H2. destruct H2 as [c2 [ec [ed [He H3]]]]. inversion H3; subst c2.
  destruct f as [|f]; [discriminate|].
  destruct (plain_ok f (opt_ d1) e c1 _ c' ec Ee Me He) as [d2 [e2 H4]]. cbn [nhead nsubs] in H4.
  unfold eval_head in H4. cbn [eval_atom] in H4.
  destruct (in_empty c1) eqn:Ei; [|discriminate H4]. inversion H4; subst c1.
  split.
  - unfold in_empty in Ei. destruct (rest c'); [reflexivity | discriminate].
  - eauto.
Qed.
End UriTop.

(* ---------- the generated table ---------- *)
Definition head_wf_b (h : head) : bool :=
  match h with
  | HAny pk | HOne _ pk _ | HRange _ pk _ _ | HRanges pk _ => match pk with PkChar => true | _ => false end
  | _ => true
  end.
Lemma head_wf_b_ok h : head_wf_b h = true -> head_wf h.
Proof. destruct h; simpl; try (intros; exact I); destruct pk; simpl; try discriminate; intros; exact I. Qed.
Lemma table_wf_of G : forallb (fun nd => head_wf_b (nhead nd)) G = true -> table_wf G.
Proof.
  intros H r nd Hn. rewrite forallb_forall in H. apply head_wf_b_ok. apply H. eapply nth_error_In; eauto.
Qed.
Lemma uri_table_wf : table_wf uri_table.
Proof. apply table_wf_of. vm_compute. reflexivity. Qed.

Lemma C0_acts : forall fam r, acts C0 fam r = AKNone.
Proof. reflexivity. Qed.
Lemma C0_rof : forall k r, raise_on_failure C0 k r = false.
Proof. reflexivity. Qed.

Definition uri_evalx_inv := evalx_inv uri_table C0 uri_mx uri_table_wf C0_acts C0_rof.

(* shape of the root  seq< uri::X, eof >  : (node of uri::X, node of eof) *)
Definition root_shape (t : top) : option (rid * rid) :=
  match nth_error uri_table (uri_root t) with
  | Some (mknode HSeq [x; e] _) =>
      match nth_error uri_table e with
      | Some (mknode HEof [] _) => Some (x, e)
      | _ => None
      end
  | _ => None
  end.

Definition incl_fuel : nat := 1000 * 1000.

(* everything the soundness argument needs from the concrete table, as one computable certificate *)
Definition sound_cert (t : top) : bool :=
  match root_shape t with
  | Some (x, e) =>
      match uri_mx (uri_root t), uri_mx e, re_of uri_table uri_mx uri_re_depth x with
      | None, None, Some (R, _) => incl_auto incl_fuel R (rfc t)
      | _, _, _ => false
      end
  | None => false
  end.

Lemma sound_of_cert t : sound_cert t = true ->
  forall s, bytes_ok s -> uri_accepts t s -> matches (rfc t) s.
Proof.
  unfold sound_cert, root_shape. intros Hc s Hs [f [c' [evs Hrun]]].
  destruct (nth_error uri_table (uri_root t)) as [[h subs en1]|] eqn:Er; [|discriminate].
  destruct h; try discriminate. destruct subs as [|x [|e [|? ?]]]; try discriminate.
  destruct (nth_error uri_table e) as [[h2 subs2 en2]|] eqn:Ee; [|discriminate].
  destruct h2; try discriminate. destruct subs2; try discriminate.
  destruct (uri_mx (uri_root t)) eqn:M1; [discriminate|].
  destruct (uri_mx e) eqn:M2; [discriminate|].
  destruct (re_of uri_table uri_mx uri_re_depth x) as [[R nf]|] eqn:ER; [|discriminate].
  unfold uri_run in Hrun.
  destruct (root_inv uri_table uri_mx f d0 (uri_root t) x e en1 en2 _ c' evs Er M1 Ee M2 Hrun) as [Hend [f' [d' [evs' Hx]]]].
  pose proof (uri_evalx_inv f' uri_re_depth d' x (mkcur s pos0) R nf ER Hs) as K.
  rewrite Hx in K. simpl in K. destruct K as [pre [E M]]. rewrite Hend, app_nil_r in E. subst pre.
  eapply incl_auto_sound; eauto.
Qed.

(* ---------- no exception other than parse_error ---------- *)
Definition is_some {A} (o : option A) : bool := match o with Some _ => true | None => false end.
Lemma only_parse_error_of t : is_some (uri_re t) = true ->
  forall f s e c' evs, bytes_ok s -> uri_run f t s = Res (Exc e) c' evs -> exists w p, e = EParse w p.
Proof.
  unfold uri_re. intros Hc f s e c' evs Hs Hrun.
  destruct (re_of uri_table uri_mx uri_re_depth (uri_root t)) as [[R nf]|] eqn:ER; [|discriminate].
  pose proof (uri_evalx_inv f uri_re_depth d0 (uri_root t) (mkcur s pos0) R nf ER Hs) as K.
  unfold uri_run in Hrun. rewrite Hrun in K. exact K.
Qed.
Lemma uri_re_all : forallb (fun t => is_some (uri_re t)) [TURI; TURI_reference; Tabsolute_URI; TIPv4address; TIPv6address] = true.
Proof. vm_compute. reflexivity. Qed.
Lemma only_parse_error : forall t f s e c' evs, bytes_ok s -> uri_run f t s = Res (Exc e) c' evs -> exists w p, e = EParse w p.
Proof.
  intros t. apply only_parse_error_of.
  pose proof uri_re_all as H. rewrite forallb_forall in H. apply H. destruct t; simpl; tauto.
Qed.

(* acceptance and rejection exclude each other (fuel monotonicity) *)
Lemma accepts_not_rejects t s : uri_accepts t s -> uri_rejects t s -> False.
Proof.
  intros [f1 [c1 [e1 H1]]] [f2 [c2 [e2 [H2|[e H2]]]]]; unfold uri_run in *;
    destruct (evalx_functional _ _ _ _ _ _ _ _ _ _ _ _ _ _ H1 H2) as [E _]; discriminate.
Qed.

(* ---------- soundness, rule by rule (URI, absolute_URI, URI_reference: UriSoundURI.v, UriSoundAbs.v, UriSoundRef.v) ---------- *)
Lemma sound_IPv4address : forall s, bytes_ok s -> uri_accepts TIPv4address s -> matches (rfc TIPv4address) s.
Proof. apply sound_of_cert. vm_cast_no_check (eq_refl true). Qed.
Lemma sound_IPv6address : forall s, bytes_ok s -> uri_accepts TIPv6address s -> matches (rfc TIPv6address) s.
Proof. apply sound_of_cert. vm_cast_no_check (eq_refl true). Qed.

(* ---------- the repaired host rule, computed on the generated table (regression witnesses) ----------
   Before /repo b222ba6, uri::host = sor< IP_literal, IPv4address, reg_name > committed to an IPv4address that was only the
   prefix of a reg-name and the strings below were REJECTED although RFC 3986 derives them (host = reg-name); that refuted
   completeness of the three URI forms.  The table regenerated from the repaired uri.hpp accepts them. *)
(* "//1.2.3.4a" *)
Definition host_witness : list byte := [47; 47; 49; 46; 50; 46; 51; 46; 52; 97].
(* "a://1.2.3.4a" *)
Definition host_witness_abs : list byte := [97; 58; 47; 47; 49; 46; 50; 46; 51; 46; 52; 97].

Lemma accepted_for (t : top) (w : list byte) :
  verdict_code (uri_run (uri_fuel w) t w) = 1 -> uri_accepts t w.
Proof.
  intros Hv. exists (uri_fuel w).
  destruct (uri_run (uri_fuel w) t w) as [[| |e] c evs| |] eqn:E; simpl in Hv; try discriminate.
  - exists c, evs. reflexivity.
  - destruct (is_parse_error e); discriminate.
Qed.
Lemma host_prefix_accepted :
  matches (rfc TURI_reference) host_witness /\ uri_accepts TURI_reference host_witness /\
  matches (rfc TURI) host_witness_abs /\ uri_accepts TURI host_witness_abs /\
  matches (rfc Tabsolute_URI) host_witness_abs /\ uri_accepts Tabsolute_URI host_witness_abs.
Proof.
  repeat split; try (apply re_match_correct; vm_compute; reflexivity); apply accepted_for; vm_compute; reflexivity.
Qed.

(* ================================================================== Part 5: IPv4address is exact *)

(* ---------- RFC dec-octet strings are the canonical numerals <= 255 (converse of numeral_dec_octet) ---------- *)
Definition r_oct : re := Rfc3986.dec_octet.
Definition dead (r : re) : bool := is_empty r.
Lemma dead_step r x w : dead (deriv x r) = true -> ~ matches r (x :: w).
Proof.
  unfold dead. intros H M. apply deriv_iff in M. destruct (deriv x r); try discriminate. eapply empty_inv; eauto.
Qed.

Lemma oct_sweep1 : forallb (fun a => sdigit a || dead (deriv a r_oct)) all_bytes = true.
Proof. vm_compute. reflexivity. Qed.
Lemma oct_sweep2 : forallb (fun a => forallb (fun b => sdigit b || dead (derivs r_oct [a; b])) all_bytes) dig09 = true.
Proof. vm_compute. reflexivity. Qed.
Lemma oct_sweep3 : forallb (fun a => forallb (fun b => forallb (fun c => sdigit c || dead (derivs r_oct [a; b; c])) all_bytes) dig09) dig09 = true.
Proof. vm_compute. reflexivity. Qed.
Lemma oct_sweep4 : forallb (fun a => forallb (fun b => forallb (fun c => forallb (fun x => dead (derivs r_oct [a; b; c; x])) all_bytes) dig09) dig09) dig09 = true.
Proof. vm_compute. reflexivity. Qed.
Definition oct_conv (l : list N) : bool := implb (re_match r_oct l) (numeral_b l && (unsigned_value l <=? 255)%Z).
Lemma oct_sweep5 : forallb (fun a => oct_conv [a] && forallb (fun b => oct_conv [a; b] && forallb (fun c => oct_conv [a; b; c]) dig09) dig09) dig09 = true.
Proof. vm_compute. reflexivity. Qed.

Lemma sdigit_dig09 b : sdigit b = true -> In b dig09.
Proof. intros H. apply dig09_in. apply IntegerFacts.sdigit_iff. exact H. Qed.

Lemma dec_octet_numeral w : bytes_ok w -> matches Rfc3986.dec_octet w ->
  unsigned_numeral w /\ (unsigned_value w <= 255)%Z.
Proof.
  intros Hb M. fold r_oct in M.
  assert (Conv : forall l, oct_conv l = true -> matches r_oct l -> unsigned_numeral l /\ (unsigned_value l <= 255)%Z).
  { intros l Hc Hm. apply re_match_correct in Hm. unfold oct_conv in Hc. rewrite Hm in Hc. simpl in Hc.
    apply andb_true_iff in Hc. destruct Hc as [H1 H2]. split; [apply IntegerFacts.numeral_b_iff; exact H1 | apply Z.leb_le; exact H2]. }
  destruct w as [|a w].
  { exfalso. apply re_match_correct in M. vm_compute in M. discriminate. }
  inversion Hb as [|? ? Ha Hb1]; subst.
  pose proof oct_sweep1 as S1. rewrite forallb_forall in S1. specialize (S1 a (all_bytes_in a Ha)).
  apply orb_true_iff in S1. destruct S1 as [Da|Da]; [|exfalso; exact (dead_step _ _ _ Da M)].
  pose proof (sdigit_dig09 a Da) as Ia.
  pose proof oct_sweep5 as S5. rewrite forallb_forall in S5. specialize (S5 a Ia). apply andb_true_iff in S5. destruct S5 as [C1 S5].
  destruct w as [|b w]; [apply Conv; assumption|].
  inversion Hb1 as [|? ? Hb' Hb2]; subst.
  pose proof oct_sweep2 as S2. rewrite forallb_forall in S2. specialize (S2 a Ia). rewrite forallb_forall in S2.
  specialize (S2 b (all_bytes_in b Hb')). apply orb_true_iff in S2. destruct S2 as [Db|Db].
  2:{ exfalso. apply deriv_iff in M. exact (dead_step _ _ _ Db M). }
  pose proof (sdigit_dig09 b Db) as Ib.
  rewrite forallb_forall in S5. specialize (S5 b Ib). apply andb_true_iff in S5. destruct S5 as [C2 S5].
  destruct w as [|c w]; [apply Conv; assumption|].
  inversion Hb2 as [|? ? Hc' Hb3]; subst.
  pose proof oct_sweep3 as S3. rewrite forallb_forall in S3. specialize (S3 a Ia). rewrite forallb_forall in S3.
  specialize (S3 b Ib). rewrite forallb_forall in S3. specialize (S3 c (all_bytes_in c Hc')).
  apply orb_true_iff in S3. destruct S3 as [Dc|Dc].
  2:{ exfalso. apply deriv_iff in M. apply deriv_iff in M. exact (dead_step _ _ _ Dc M). }
  pose proof (sdigit_dig09 c Dc) as Ic.
  rewrite forallb_forall in S5. specialize (S5 c Ic).
  destruct w as [|x w]; [apply Conv; assumption|].
  exfalso. inversion Hb3 as [|? ? Hx' Hb4]; subst.
  pose proof oct_sweep4 as S4. rewrite forallb_forall in S4. specialize (S4 a Ia). rewrite forallb_forall in S4.
  specialize (S4 b Ib). rewrite forallb_forall in S4. specialize (S4 c Ic). rewrite forallb_forall in S4.
  specialize (S4 x (all_bytes_in x Hx')).
  apply deriv_iff in M. apply deriv_iff in M. apply deriv_iff in M. exact (dead_step _ _ _ S4 M).
Qed.

(* ---------- forward evaluation ---------- *)
Lemma match_hpp_fwd (body : dyn -> cursor -> result) d r c c' evs :
  body d c = Res Ok c' evs -> exists evs', match_hpp C0 AKNone body d r c = Res Ok c' evs'.
Proof.
  intros H. unfold match_hpp. assert (Eg : use_guard d AKNone = false) by (unfold use_guard; apply andb_false_r). rewrite Eg.
  rewrite H. unfold run_action. destruct (dA d); eexists; reflexivity.
Qed.

Section Forward.
Variable G : grammar.
Variable MX : rid -> option (nat * N).

(* r takes c to c' (for every mode) with fuel f *)
Definition steps (f : nat) (r : rid) (c c' : cursor) : Prop :=
  forall d, exists evs, evalx G C0 MX f d r c = Res Ok c' evs.

Lemma steps_mono f1 f2 r c c' : (f1 <= f2)%nat -> steps f1 r c c' -> steps f2 r c c'.
Proof. intros L H d. destruct (H d) as [evs E]. exists evs. eapply evalx_mono_res; eauto. Qed.

Lemma fwd_plain f r nd c c' : nth_error G r = Some nd -> MX r = None ->
  (forall d, exists evs, eval_head C0 (evalx G C0 MX f) f r (nhead nd) (nsubs nd) d c = Res Ok c' evs) ->
  steps (S f) r c c'.
Proof.
  intros En Em H d. cbn [evalx]. rewrite En, Em. change (acts C0 (dAct d) r) with AKNone. cbv iota.
  destruct (H d) as [evs E].
  destruct (nenabled nd).
  - destruct (match_hpp_fwd _ d r c c' evs E) as [e2 E2]. rewrite E2. eexists; reflexivity.
  - rewrite E. eexists; reflexivity.
Qed.

Lemma fwd_mx f r nd w mx c c' : nth_error G r = Some nd -> MX r = Some (w, mx) ->
  maximum_rule w mx c tt = MOk c' tt -> steps (S f) r c c'.
Proof.
  intros En Em H d. cbn [evalx]. rewrite En, Em. change (acts C0 (dAct d) r) with AKNone. cbv iota.
  assert (E : (fun (_ : dyn) (c0 : cursor) => mx_result (maximum_rule w mx c0 tt)) d c = Res Ok c' []) by (cbv beta; rewrite H; reflexivity).
  destruct (nenabled nd).
  - destruct (match_hpp_fwd _ d r c c' [] E) as [e2 E2]. rewrite E2. eexists; reflexivity.
  - cbv beta. rewrite H. eexists; reflexivity.
Qed.

Inductive chain (f : nat) : list rid -> cursor -> cursor -> Prop :=
| ch_nil c : chain f [] c c
| ch_cons r rs c c1 c2 : steps f r c c1 -> chain f rs c1 c2 -> chain f (r :: rs) c c2.

Lemma seq_all_chain f d rs : forall c c', chain f rs c c' -> exists evs, seq_all (evalx G C0 MX f) d rs c = Res Ok c' evs.
Proof.
  induction rs as [|r rs IH]; intros c c' H; inversion H; subst; cbn [seq_all].
  - eexists; reflexivity.
  - match goal with S : steps f r c ?c1, K : chain f rs ?c1 c' |- _ => destruct (S d) as [e1 E1]; destruct (IH _ _ K) as [e2 E2]; rewrite E1; simpl; rewrite E2 end.
    eexists; reflexivity.
Qed.

Lemma fwd_seq f r en rs c c' : nth_error G r = Some (mknode HSeq rs en) -> MX r = None ->
  (2 <= length rs)%nat -> chain f rs c c' -> steps (S f) r c c'.
Proof.
  intros En Em Hl Hc. eapply fwd_plain; eauto. intros d. cbn [nhead nsubs]. unfold eval_head. cbn [eval_atom]. unfold h_seq.
  destruct (seq_all_chain f (opt_ d) rs c c' Hc) as [evs E].
  destruct rs as [|r1 [|r2 rs']]; simpl in Hl; try lia. rewrite E. eexists; reflexivity.
Qed.

Lemma fwd_eof f r en c : nth_error G r = Some (mknode HEof [] en) -> MX r = None -> rest c = [] -> steps (S f) r c c.
Proof.
  intros En Em Hr. eapply fwd_plain; eauto. intros d. cbn [nhead nsubs]. unfold eval_head. cbn [eval_atom].
  unfold in_empty. rewrite Hr. eexists; reflexivity.
Qed.

Lemma fwd_dot f r en c tl : nth_error G r = Some (mknode (HOne true PkChar [46%Z]) [] en) -> MX r = None ->
  rest c = 46 :: tl -> exists c', steps (S f) r c c' /\ rest c' = tl.
Proof.
  intros En Em Hr. destruct c as [rs p]. simpl in Hr. subst rs.
  eexists. split.
  - eapply fwd_plain; eauto. intros d. cbn [nhead nsubs]. unfold eval_head. cbn [eval_atom]. vm_compute. eexists; reflexivity.
  - reflexivity.
Qed.

Lemma fwd_oct f r nd c w tl : nth_error G r = Some nd -> MX r = Some (8%nat, 255) ->
  rest c = w ++ tl -> bytes_ok (rest c) -> matches Rfc3986.dec_octet w -> no_digit_follows tl ->
  exists c', steps (S f) r c c' /\ rest c' = tl.
Proof.
  intros En Em Hr Hb Mw Hnd.
  assert (Hbw : bytes_ok w) by (rewrite Hr in Hb; unfold bytes_ok in *; rewrite Forall_app in Hb; tauto).
  destruct (dec_octet_numeral w Hbw Mw) as [Hn Hv].
  assert (Hw : (4 <= 8)%nat) by lia. assert (HM : 255 < pow2 8) by (vm_compute; reflexivity).
  destruct (IntegerFacts.maximum_rule_syntax_exact unit 8 255 c tt Hw HM Hb) as [K _].
  assert (Lx : unsigned_lexeme (rest c) (length w)) by (exists w, tl; auto).
  destruct (K (length w) Lx) as [K1 _]. cbv zeta in K1.
  rewrite Hr, IntegerFacts.firstn_app_exact in K1. change (Z.of_N 255) with 255%Z in K1.
  destruct (K1 Hv) as [c' [Hbump Hmax]]. exists c'. split; [eapply fwd_mx; eauto|].
  apply IntegerFacts.bump_some_advance in Hbump. destruct Hbump as [-> _]. simpl. rewrite Hr.
  rewrite skipn_app, skipn_all, Nat.sub_diag. reflexivity.
Qed.
End Forward.

(* ---------- the IPv4address rule of the generated table ---------- *)
(* root = seq< IPv4address, eof >, IPv4address = seq< o, d, o, d, o, d, o > with o the maximum_rule leaf and d = one< '.' > *)
Definition ipv4_shape : option (rid * rid * rid * rid) :=
  match root_shape TIPv4address with
  | Some (x, e) =>
      match nth_error uri_table x with
      | Some (mknode HSeq [o1; d1; o2; d2; o3; d3; o4] _) =>
          if Nat.eqb o1 o2 && Nat.eqb o1 o3 && Nat.eqb o1 o4 && Nat.eqb d1 d2 && Nat.eqb d1 d3 then
            match nth_error uri_table d1, nth_error uri_table o1 with
            | Some (mknode (HOne true PkChar [z]) [] _), Some _ =>
                match uri_mx (uri_root TIPv4address), uri_mx x, uri_mx e, uri_mx d1, uri_mx o1 with
                | None, None, None, None, Some (w, mx) =>
                    if (z =? 46)%Z && Nat.eqb w 8 && (mx =? 255) then Some (x, e, o1, d1) else None
                | _, _, _, _, _ => None
                end
            | _, _ => None
            end
          else None
      | _ => None
      end
  | None => None
  end.

Lemma dot_inv s : matches (lit 46) s -> s = [46].
Proof.
  intros H. apply chr_inv in H. destruct H as [b [-> Hm]]. unfold cs_mem, in_range in Hm. simpl in Hm.
  rewrite orb_false_r in Hm. apply andb_true_iff in Hm. destruct Hm as [H1 H2].
  apply N.leb_le in H1. apply N.leb_le in H2. f_equal. lia.
Qed.

Lemma complete_IPv4_of_shape : is_some ipv4_shape = true ->
  forall s, bytes_ok s -> matches (rfc TIPv4address) s -> uri_accepts TIPv4address s.
Proof.
  unfold ipv4_shape, root_shape. intros Hc s Hs M.
  destruct (nth_error uri_table (uri_root TIPv4address)) as [[h subs en1]|] eqn:Er; [|discriminate].
  destruct h; try discriminate. destruct subs as [|x [|e [|? ?]]]; try discriminate.
  destruct (nth_error uri_table e) as [[h2 subs2 en2]|] eqn:Ee; [|discriminate].
  destruct h2; try discriminate. destruct subs2; try discriminate.
  destruct (nth_error uri_table x) as [[h3 subs3 en3]|] eqn:Ex; [|discriminate].
  destruct h3; try discriminate.
  destruct subs3 as [|o1 [|d1 [|o2 [|d2 [|o3 [|d3 [|o4 [|? ?]]]]]]]]; try discriminate.
  destruct (Nat.eqb o1 o2 && Nat.eqb o1 o3 && Nat.eqb o1 o4 && Nat.eqb d1 d2 && Nat.eqb d1 d3) eqn:Eq; [|discriminate].
  rewrite !andb_true_iff in Eq. destruct Eq as [[[[Q1 Q2] Q3] Q4] Q5].
  apply Nat.eqb_eq in Q1, Q2, Q3, Q4, Q5. subst o2 o3 o4 d2 d3.
  destruct (nth_error uri_table d1) as [[hd sd end_]|] eqn:Ed; [|discriminate].
  destruct hd; try discriminate. destruct found; try discriminate. destruct pk; try discriminate.
  destruct cs as [|z [|? ?]]; try discriminate.
  destruct sd; try discriminate.
  destruct (nth_error uri_table o1) as [ndo|] eqn:Eo; [|discriminate].
  destruct (uri_mx (uri_root TIPv4address)) eqn:M0; [discriminate|].
  destruct (uri_mx x) eqn:M1; [discriminate|].
  destruct (uri_mx e) eqn:M2; [discriminate|].
  destruct (uri_mx d1) eqn:M3; [discriminate|].
  destruct (uri_mx o1) as [[w mx]|] eqn:M4; [|discriminate].
  destruct ((z =? 46)%Z && Nat.eqb w 8 && (mx =? 255)) eqn:Ew; [|discriminate].
  rewrite !andb_true_iff in Ew. destruct Ew as [[Ez Ew1] Ew2].
  apply Z.eqb_eq in Ez. apply Nat.eqb_eq in Ew1. apply N.eqb_eq in Ew2. subst z w mx. clear Hc.
  (* decompose the RFC string *)
  unfold rfc, Rfc3986.IPv4address in M. cbn [cats] in M.
  apply cat_inv in M. destruct M as [w1 [r1 [-> [W1 M]]]].
  apply cat_inv in M. destruct M as [p1 [r2 [-> [P1 M]]]]. apply dot_inv in P1. subst p1.
  apply cat_inv in M. destruct M as [w2 [r3 [-> [W2 M]]]].
  apply cat_inv in M. destruct M as [p2 [r4 [-> [P2 M]]]]. apply dot_inv in P2. subst p2.
  apply cat_inv in M. destruct M as [w3 [r5 [-> [W3 M]]]].
  apply cat_inv in M. destruct M as [p3 [w4 [-> [P3 W4]]]]. apply dot_inv in P3. subst p3.
  set (c0 := mkcur (w1 ++ [46] ++ w2 ++ [46] ++ w3 ++ [46] ++ w4) pos0).
  assert (ND : forall tl, no_digit_follows (46 :: tl)) by (intros tl; simpl; unfold isdigit; lia).
  assert (Suf : forall c pre, rest c0 = pre ++ rest c -> bytes_ok (rest c)).
  { intros c pre E. assert (Hs0 : bytes_ok (rest c0)) by exact Hs. rewrite E in Hs0. eapply bytes_ok_app_r; eauto. }
  destruct (fwd_oct uri_table uri_mx 0 o1 ndo c0 w1 _ Eo M4 eq_refl Hs W1 (ND _)) as [c1 [S1 R1]].
  destruct (fwd_dot uri_table uri_mx 0 d1 end_ c1 _ Ed M3 R1) as [c2 [S2 R2]].
  assert (B2 : bytes_ok (rest c2)) by (apply (Suf c2 (w1 ++ [46])); rewrite R2, <- app_assoc; reflexivity).
  destruct (fwd_oct uri_table uri_mx 0 o1 ndo c2 w2 _ Eo M4 R2 B2 W2 (ND _)) as [c3 [S3 R3]].
  destruct (fwd_dot uri_table uri_mx 0 d1 end_ c3 _ Ed M3 R3) as [c4 [S4 R4]].
  assert (B4 : bytes_ok (rest c4)) by (apply (Suf c4 (w1 ++ [46] ++ w2 ++ [46])); rewrite R4, <- !app_assoc; reflexivity).
  destruct (fwd_oct uri_table uri_mx 0 o1 ndo c4 w3 _ Eo M4 R4 B4 W3 (ND _)) as [c5 [S5 R5]].
  destruct (fwd_dot uri_table uri_mx 0 d1 end_ c5 _ Ed M3 R5) as [c6 [S6 R6]].
  assert (B6 : bytes_ok (rest c6)) by (apply (Suf c6 (w1 ++ [46] ++ w2 ++ [46] ++ w3 ++ [46])); rewrite R6, <- !app_assoc; reflexivity).
  assert (R6' : rest c6 = w4 ++ []) by (rewrite app_nil_r; exact R6).
  destruct (fwd_oct uri_table uri_mx 0 o1 ndo c6 w4 [] Eo M4 R6' B6 W4 I) as [c7 [S7 R7]].
  assert (Sx : steps uri_table uri_mx 2 x c0 c7).
  { apply (fwd_seq uri_table uri_mx 1 x en3 [o1; d1; o1; d1; o1; d1; o1] c0 c7 Ex M1); [simpl; lia|].
    eapply ch_cons; [exact S1|]. eapply ch_cons; [exact S2|]. eapply ch_cons; [exact S3|]. eapply ch_cons; [exact S4|].
    eapply ch_cons; [exact S5|]. eapply ch_cons; [exact S6|]. eapply ch_cons; [exact S7|]. apply ch_nil. }
  assert (Se : steps uri_table uri_mx 2 e c7 c7) by (exact (fwd_eof uri_table uri_mx 1 e en2 c7 Ee M2 R7)).
  assert (Sr : steps uri_table uri_mx 3 (uri_root TIPv4address) c0 c7).
  { apply (fwd_seq uri_table uri_mx 2 (uri_root TIPv4address) en1 [x; e] c0 c7 Er M0); [simpl; lia|].
    eapply ch_cons; [exact Sx|]. eapply ch_cons; [exact Se|]. apply ch_nil. }
  destruct (Sr d0) as [evs E]. exists 3%nat, c7, evs. exact E.
Qed.

Lemma ipv4_shape_ok : is_some ipv4_shape = true.
Proof. vm_compute. reflexivity. Qed.

Lemma complete_IPv4address : forall s, bytes_ok s -> matches (rfc TIPv4address) s -> uri_accepts TIPv4address s.
Proof. exact (complete_IPv4_of_shape ipv4_shape_ok). Qed.

Lemma exact_IPv4address : forall s, bytes_ok s -> (uri_accepts TIPv4address s <-> matches (rfc TIPv4address) s).
Proof. intros s Hs. split; [apply sound_IPv4address; exact Hs | apply complete_IPv4address; exact Hs]. Qed.
