(* ContribFacts.v — lemmas and proofs about the contrib models of Contrib.v against ContribSpec.v. *)
From Coq Require Import Lia ZifyBool.
From PegtlV Require Import Base Decode Grammar Engine EngineFacts AtomFacts Utf DecodeFacts PosFacts PosFacts2.
From PegtlV Require Import Contrib ContribSpec.
Ltac Zify.zify_post_hook ::= Z.to_euclidean_division_equations.
Local Open Scope N_scope.

(* ====================================================================================== *)
(* 1. consuming n bytes                                                                    *)
(* ====================================================================================== *)

Lemma advance_0 ch c : advance ch 0 c = c.
Proof. unfold advance. cbn [skipn firstn]. apply cursor_eta. Qed.

Lemma advance_S ch n c b tl : rest c = b :: tl ->
  advance ch (S n) c = advance ch n (advance ch 1 c).
Proof. intros E. unfold advance. rewrite E. reflexivity. Qed.

Lemma advance_1_rest ch c b tl : rest c = b :: tl -> rest (advance ch 1 c) = tl.
Proof. intros E. unfold advance. rewrite E. reflexivity. Qed.

Lemma advance_add ch : forall a b c, advance ch b (advance ch a c) = advance ch (a + b) c.
Proof.
  induction a as [|a IH]; intros b c.
  - rewrite advance_0. reflexivity.
  - destruct (rest c) as [|x tl] eqn:E.
    + unfold advance. cbn [rest cpos]. rewrite E. cbn [Nat.add].
      rewrite !skipn_nil, !firstn_nil. reflexivity.
    + cbn [Nat.add]. rewrite (advance_S ch a c x tl E), (advance_S ch (a + b) c x tl E). apply IH.
Qed.

Lemma adv_advance_intro ch n c : (n <= length (rest c))%nat -> adv (PTr ch) c (advance ch n c).
Proof.
  intros _. exists (firstn n (rest c)). unfold advance. cbn [rest cpos]. split.
  - symmetry. apply firstn_skipn.
  - reflexivity.
Qed.

Lemma advance_consumed ch n c : (n <= length (rest c))%nat -> consumed c (advance ch n c) n.
Proof.
  intros L. unfold consumed, advance. cbn [rest cpos]. split; [reflexivity|]. split; [exact L|].
  destruct (track_spec ch (firstn n (rest c)) (cpos c)) as [H _]. rewrite H.
  unfold byte in *. rewrite firstn_length_le by exact L. reflexivity.
Qed.

(* a cursor reached with tracked position after consuming exactly n bytes IS advance n *)
Lemma adv_advance ch c c' n : adv (PTr ch) c c' -> rest c' = skipn n (rest c) -> (n <= length (rest c))%nat ->
  c' = advance ch n c.
Proof.
  intros [pre [E T]] R L. unfold PTr in T. unfold byte in *.
  assert (Hl : length pre = length (firstn n (rest c))).
  { rewrite firstn_length_le by exact L.
    pose proof (f_equal (@length N) E) as K. rewrite app_length, R, skipn_length in K. lia. }
  assert (X : pre ++ rest c' = firstn n (rest c) ++ skipn n (rest c)).
  { rewrite <- E. symmetry. apply firstn_skipn. }
  rewrite R in X. destruct (app_eq_len _ _ _ _ _ X Hl) as [P _].
  unfold advance. unfold byte in *. rewrite <- P, <- T, <- R. symmetry. apply cursor_eta.
Qed.

Lemma bump_scan_advance ch : forall n c, (n <= length (rest c))%nat -> bump_scan ch n c = Some (advance ch n c).
Proof.
  induction n as [|n IH]; intros c L.
  - cbn [bump_scan]. rewrite advance_0. reflexivity.
  - cbn [bump_scan]. destruct (rest c) as [|b tl] eqn:E; [cbn [length] in L; lia|].
    rewrite IH by (cbn [rest]; cbn [length] in L; lia).
    unfold advance. rewrite E. reflexivity.
Qed.

Lemma bump_in_line_advance n c : (n <= length (rest c))%nat -> bump_in_line n c = Some (advance_in_line n c).
Proof. intros L. unfold bump_in_line. rewrite (drop_ok n (rest c) L). reflexivity. Qed.

Lemma advance_in_line_eq ch n c : (n <= length (rest c))%nat ->
  Forall (fun b => b <> ch) (firstn n (rest c)) -> advance_in_line n c = advance ch n c.
Proof.
  intros L F. unfold advance_in_line, advance. f_equal.
  rewrite (track_no_ch ch (firstn n (rest c)) (cpos c) F).
  unfold byte in *. rewrite firstn_length_le by exact L. reflexivity.
Qed.

Lemma bump_help_advance ch flag n c : (n <= length (rest c))%nat ->
  (flag = false -> Forall (fun b => b <> ch) (firstn n (rest c))) ->
  bump_help ch flag n c = Res Ok (advance ch n c) [].
Proof.
  intros L F. unfold bump_help. destruct flag.
  - rewrite (bump_scan_advance ch n c L). reflexivity.
  - rewrite (bump_in_line_advance n c L), (advance_in_line_eq ch n c L (F eq_refl)). reflexivity.
Qed.

Lemma good_advance ch m n c : (n <= length (rest c))%nat -> good (PTr ch) m c (Res Ok (advance ch n c) []).
Proof. intros L. cbn [good]. apply adv_advance_intro. exact L. Qed.

(* ====================================================================================== *)
(* 2. maximal runs                                                                         *)
(* ====================================================================================== *)

Lemma run_len_le f : forall l, (run_len f l <= length l)%nat.
Proof. induction l as [|b tl IH]; cbn [run_len length]; [lia|]. destruct (f b); lia. Qed.

Lemma run_len_maximal f : forall l, maximal_run f l (run_len f l).
Proof.
  induction l as [|b tl IH]; unfold maximal_run; cbn [run_len].
  - split; [cbn; lia|]. split; [intros i b Hi; lia | intros b H; discriminate].
  - destruct (f b) eqn:Fb.
    + destruct IH as [I1 [I2 I3]]. split; [cbn [length]; lia|]. split.
      * intros [|i] x Hi Hx; cbn [nth_error] in Hx; [inversion Hx; subst; exact Fb|]. apply (I2 i x); [lia | exact Hx].
      * intros x Hx. cbn [nth_error] in Hx. apply I3. exact Hx.
    + split; [lia|]. split; [intros i x Hi; lia|]. intros x Hx. cbn [nth_error] in Hx. inversion Hx; subst. exact Fb.
Qed.

Lemma maximal_run_unique f : forall l n, maximal_run f l n -> n = run_len f l.
Proof.
  induction l as [|b tl IH]; intros n [H1 [H2 H3]]; cbn [run_len].
  - cbn [length] in H1. lia.
  - destruct (f b) eqn:Fb.
    + destruct n as [|n]; [specialize (H3 b eq_refl); congruence|]. f_equal. apply IH.
      split; [cbn [length] in H1; lia|]. split.
      * intros i x Hi Hx. apply (H2 (S i) x); [lia | exact Hx].
      * intros x Hx. apply H3. exact Hx.
    + destruct n as [|n]; [reflexivity|]. specialize (H2 O b ltac:(lia) eq_refl). congruence.
Qed.

Lemma run_len_firstn f : forall l n, (n <= run_len f l)%nat -> Forall (fun b => f b = true) (firstn n l).
Proof.
  induction l as [|b tl IH]; intros n H; cbn [run_len] in H.
  - rewrite firstn_nil. constructor.
  - destruct n as [|n]; [constructor|]. cbn [firstn]. destruct (f b) eqn:Fb; [|lia].
    constructor; [exact Fb | apply IH; lia].
Qed.

Lemma run_len_skipn f : forall l n, (n <= run_len f l)%nat -> run_len f (skipn n l) = (run_len f l - n)%nat.
Proof.
  induction l as [|b tl IH]; intros n H; cbn [run_len] in *.
  - rewrite skipn_nil. reflexivity.
  - destruct n as [|n]; [cbn [skipn run_len]; lia|]. destruct (f b) eqn:Fb; [|lia].
    cbn [skipn]. rewrite IH by lia. lia.
Qed.

(* ====================================================================================== *)
(* 3. rep_one_min_max                                                                      *)
(* ====================================================================================== *)

Lemma rom_loop_spec c cc : forall k i, (i + k <= length (rest c))%nat ->
  rom_loop c cc k i = Some (i + Nat.min k (run_len (fun b => (schar b =? cc)%Z) (skipn i (rest c))))%nat.
Proof.
  induction k as [|k IH]; intros i L; cbn [rom_loop].
  - f_equal. lia.
  - unfold peek_at. destruct (nth_error (rest c) i) as [b|] eqn:Nb.
    + rewrite (skipn_nth _ (rest c) i b Nb). cbn [run_len]. destruct (schar b =? cc)%Z.
      * rewrite IH by lia. f_equal. lia.
      * f_equal. lia.
    + apply nth_error_None in Nb. lia.
Qed.

Lemma eol_small e : eol_ch e < 128.
Proof. destruct e; reflexivity. Qed.

(* the bytes of a run of C are not the eol character unless C is *)
Lemma rom_flag cb ch n l : (n <= run_len (is_char cb) l)%nat -> rom_test_any cb ch = false ->
  Forall (fun b => b <> ch) (firstn n l).
Proof.
  intros H T. pose proof (run_len_firstn (is_char cb) l n H) as F.
  eapply Forall_impl; [|exact F]. cbn beta. intros b Hb -> .
  unfold is_char in Hb. unfold rom_test_any in T. rewrite Z.eqb_sym in T. congruence.
Qed.

Lemma size_ok_nat a avail c : size_ok (N.of_nat a) avail c ->
  (Nat.min a (length (rest c)) <= avail <= length (rest c))%nat.
Proof. unfold size_ok, in_size. intros [H1 H2]. lia. Qed.

Lemma rom_gen_exact mn mx cb e avail c : size_ok (N.of_nat (S mx)) avail c ->
  rep_one_min_max_gen mn mx cb (eol_ch e) avail c = rom_spec mn mx cb (eol_ch e) c.
Proof.
  intros S0. apply size_ok_nat in S0. unfold rep_one_min_max_gen, rom_spec.
  pose proof (run_len_le (is_char cb) (rest c)) as RL.
  set (r := run_len (is_char cb) (rest c)) in *.
  destruct (avail <? mn)%nat eqn:Em.
  - assert (X : (mn <=? r)%nat && (r <=? mx)%nat = false) by lia. rewrite X. reflexivity.
  - rewrite (rom_loop_spec c (schar cb) avail 0) by lia. cbn [skipn Nat.add].
    change (run_len (fun b => (schar b =? schar cb)%Z) (rest c)) with r.
    destruct ((mn <=? Nat.min avail r)%nat && (Nat.min avail r <=? mx)%nat) eqn:Ea.
    + assert (Nat.min avail r = r) as -> by lia.
      assert (X : (mn <=? r)%nat && (r <=? mx)%nat = true) by lia. rewrite X.
      apply bump_help_advance; [lia|]. intros T. apply (rom_flag cb (eol_ch e) r (rest c)); [unfold r; lia | exact T].
    + assert (X : (mn <=? r)%nat && (r <=? mx)%nat = false) by lia. rewrite X. reflexivity.
Qed.

Lemma rom_0_is_gen mx cb ch avail c :
  rep_one_min_max_0 mx cb ch avail c = rep_one_min_max_gen 0 mx cb ch avail c.
Proof. unfold rep_one_min_max_0, rep_one_min_max_gen. cbn [Nat.ltb Nat.leb andb]. reflexivity. Qed.

Lemma rom_is_gen mn mx cb ch avail c :
  rep_one_min_max mn mx cb ch avail c = rep_one_min_max_gen mn mx cb ch avail c.
Proof. destruct mn; [apply rom_0_is_gen | reflexivity]. Qed.

Lemma rom_exact mn mx cb e avail c : size_ok (N.of_nat (S mx)) avail c ->
  rep_one_min_max mn mx cb (eol_ch e) avail c = rom_spec mn mx cb (eol_ch e) c.
Proof. intros H. rewrite rom_is_gen. apply rom_gen_exact. exact H. Qed.

Lemma rom_avail_indep mn mx cb e a1 a2 c :
  size_ok (N.of_nat (S mx)) a1 c -> size_ok (N.of_nat (S mx)) a2 c ->
  rep_one_min_max mn mx cb (eol_ch e) a1 c = rep_one_min_max mn mx cb (eol_ch e) a2 c.
Proof. intros H1 H2. rewrite (rom_exact _ _ _ _ _ _ H1), (rom_exact _ _ _ _ _ _ H2). reflexivity. Qed.

Lemma rom_spec_good mn mx cb ch m c : good (PTr ch) m c (rom_spec mn mx cb ch c).
Proof.
  unfold rom_spec. destruct (_ && _).
  - apply good_advance. apply run_len_le.
  - apply good_fail_same. apply PTr_refl.
Qed.

Lemma rom_good mn mx cb e avail c m : size_ok (N.of_nat (S mx)) avail c ->
  good (PTr (eol_ch e)) m c (rep_one_min_max mn mx cb (eol_ch e) avail c).
Proof. intros H. rewrite (rom_exact _ _ _ _ _ _ H). apply rom_spec_good. Qed.

Lemma is_char_bytes cb b : is_byte cb -> is_byte b -> is_char cb b = (b =? cb).
Proof.
  unfold is_char. intros Hc Hb. destruct (N.eqb_spec b cb) as [->|Ne]; [apply Z.eqb_refl|].
  apply Z.eqb_neq. intros E. apply Ne. apply schar_inj; assumption.
Qed.

(* ====================================================================================== *)
(* 4. the documented expansion rep_min_max< Min, Max, one< C > > on the engine's helper     *)
(* ====================================================================================== *)

Lemma ev_one_is_atom e cb d r c :
  eval_atom e (HOne true PkChar [schar cb]) c = Some (ev_one (eol_ch e) cb d r c).
Proof. reflexivity. Qed.

Lemma ev_one_run e cb d r c :
  ev_one (eol_ch e) cb d r c =
    if (0 <? run_len (is_char cb) (rest c))%nat then Res Ok (advance (eol_ch e) 1 c) [] else Res Fail c [].
Proof.
  unfold ev_one, peek_test_bump. cbn [do_peek]. unfold peek_char, in_empty, rd, peek_at.
  destruct (rest c) as [|b tl] eqn:E; cbn [nth_error run_len]; [reflexivity|].
  unfold test_one_set at 1. cbn [existsb]. rewrite orb_false_r. unfold is_char.
  destruct (schar b =? schar cb)%Z eqn:Eb; cbn [Bool.eqb Nat.ltb Nat.leb]; [|reflexivity].
  apply bump_help_advance; [rewrite E; cbn [length]; lia|].
  intros T. rewrite E. cbn [firstn]. constructor; [|constructor]. intros ->.
  unfold test_one_set, ch_as_data in T. cbn [existsb] in T. rewrite orb_false_r in T.
  rewrite (schar_ascii (eol_ch e) (eol_small e)) in Eb. rewrite Eb in T. discriminate.
Qed.

Section Expansion.
Variable e : eolp.
Variable cb : byte.
Let ch := eol_ch e.
Let ev := ev_one ch cb.
Let f := is_char cb.

Lemma run_len_advance n c : (n <= run_len f (rest c))%nat ->
  run_len f (rest (advance ch n c)) = (run_len f (rest c) - n)%nat.
Proof. intros H. unfold advance. cbn [rest]. apply run_len_skipn. exact H. Qed.

Lemma rep_loop_one d r : forall k c,
  rep_loop ev k d r c =
    if (k <=? run_len f (rest c))%nat then Res Ok (advance ch k c) []
    else Res Fail (advance ch (run_len f (rest c)) c) [].
Proof.
  induction k as [|k IH]; intros c; cbn [rep_loop].
  - cbn [Nat.leb]. rewrite advance_0. reflexivity.
  - unfold ev at 1. unfold ch. rewrite ev_one_run. fold ch. fold f.
    destruct (rest c) as [|b tl] eqn:E; cbn [run_len].
    + cbn [Nat.ltb Nat.leb bind]. rewrite advance_0. reflexivity.
    + destruct (f b) eqn:Fb; cbn [Nat.ltb Nat.leb bind].
      * rewrite IH. rewrite (advance_1_rest ch c b tl E).
        destruct (k <=? run_len f tl)%nat; cbn [prepend app].
        -- rewrite (advance_S ch k c b tl E). reflexivity.
        -- rewrite (advance_S ch (run_len f tl) c b tl E). reflexivity.
      * rewrite advance_0. reflexivity.
Qed.

Lemma repopt_loop_one d r : forall k c,
  repopt_loop ev k d r c =
    (Res Ok (advance ch (Nat.min k (run_len f (rest c))) c) [], (k <=? run_len f (rest c))%nat).
Proof.
  induction k as [|k IH]; intros c; cbn [repopt_loop].
  - cbn [Nat.min Nat.leb]. rewrite advance_0. reflexivity.
  - unfold ev at 1. unfold ch. rewrite ev_one_run. fold ch. fold f.
    destruct (rest c) as [|b tl] eqn:E; cbn [run_len].
    + cbn [Nat.ltb Nat.leb]. rewrite Nat.min_0_r, advance_0. reflexivity.
    + destruct (f b) eqn:Fb; cbn [Nat.ltb Nat.leb].
      * rewrite IH. rewrite (advance_1_rest ch c b tl E). cbn [prepend app Nat.min].
        rewrite (advance_S ch (Nat.min k (run_len f tl)) c b tl E). reflexivity.
      * rewrite Nat.min_0_r, advance_0. reflexivity.
Qed.

Lemma not_at_one d r c :
  h_at ev true d r c = if (0 <? run_len f (rest c))%nat then Res Fail c [] else Res Ok c [].
Proof.
  unfold h_at. unfold ev. unfold ch. rewrite ev_one_run. fold ch. fold f.
  destruct (0 <? run_len f (rest c))%nat; reflexivity.
Qed.

(* the body under the rewind guard: accepts exactly like the specification; where it fails it may
   leave the cursor advanced (that is what the guard is for) *)
Lemma expansion_inner mn mx d r1 c : (mn <= mx)%nat ->
  let r := run_len f (rest c) in
  exists cf,
  bind (rep_loop ev mn (opt_ d) r1 c) (fun c1 =>
     match repopt_loop ev (mx - mn) d r1 c1 with
     | (Res Ok c2 evs, true) => prepend evs (h_at ev true (opt_ d) r1 c2)
     | (x, _) => x
     end) =
  if (mn <=? r)%nat && (r <=? mx)%nat then Res Ok (advance ch r c) [] else Res Fail cf [].
Proof.
  intros Hm r. rewrite rep_loop_one. fold r.
  destruct (mn <=? r)%nat eqn:E1; cbn [bind andb].
  - rewrite repopt_loop_one. rewrite run_len_advance by (fold r; lia). fold r.
    rewrite advance_add.
    destruct (mx - mn <=? r - mn)%nat eqn:E2; cbn [prepend app].
    + rewrite not_at_one. rewrite run_len_advance by (fold r; lia). fold r.
      assert (mn + Nat.min (mx - mn) (r - mn) = mx)%nat as -> by lia.
      destruct (0 <? r - mx)%nat eqn:E3.
      * assert ((r <=? mx)%nat = false) as -> by lia. eexists. cbn [prepend app]. reflexivity.
      * assert ((r <=? mx)%nat = true) as -> by lia. exists c. cbn [prepend app].
        assert (mx = r) as -> by lia. reflexivity.
    + assert ((r <=? mx)%nat = true) as -> by lia. exists c.
      assert (mn + Nat.min (mx - mn) (r - mn) = r)%nat as -> by lia. reflexivity.
  - eexists. reflexivity.
Qed.

Lemma expansion_exact mn mx d r1 c : (mn <= mx)%nat -> dM d = true ->
  h_rep_min_max ev mn mx d r1 c = rom_spec mn mx cb ch c.
Proof.
  intros Hm Hd. unfold h_rep_min_max. destruct (expansion_inner mn mx d r1 c Hm) as [cf ->].
  unfold rom_spec. fold f. rewrite Hd.
  destruct ((mn <=? run_len f (rest c))%nat && (run_len f (rest c) <=? mx)%nat); reflexivity.
Qed.

(* in optional mode the expansion may leave the cursor anywhere on failure (its caller rewinds);
   verdict and accepted prefix are still those of the specification *)
Definition same_verdict (x y : result) : Prop :=
  match x, y with
  | Res Fail _ e1, Res Fail _ e2 => e1 = e2
  | _, _ => x = y
  end.

Lemma expansion_verdict mn mx d r1 c : (mn <= mx)%nat ->
  same_verdict (h_rep_min_max ev mn mx d r1 c) (rom_spec mn mx cb ch c).
Proof.
  intros Hm. unfold h_rep_min_max. destruct (expansion_inner mn mx d r1 c Hm) as [cf ->].
  unfold rom_spec. fold f.
  destruct ((mn <=? run_len f (rest c))%nat && (run_len f (rest c) <=? mx)%nat); cbn [guard same_verdict]; reflexivity.
Qed.

End Expansion.

Lemma rom_equals_expansion e cb mn mx avail d r1 c :
  (mn <= mx)%nat -> size_ok (N.of_nat (S mx)) avail c -> dM d = true ->
  rep_one_min_max mn mx cb (eol_ch e) avail c = h_rep_min_max (ev_one (eol_ch e) cb) mn mx d r1 c.
Proof. intros Hm Hs Hd. rewrite (rom_exact _ _ _ _ _ _ Hs). symmetry. apply expansion_exact; assumption. Qed.

Lemma rom_expansion_verdict e cb mn mx avail d r1 c :
  (mn <= mx)%nat -> size_ok (N.of_nat (S mx)) avail c ->
  same_verdict (h_rep_min_max (ev_one (eol_ch e) cb) mn mx d r1 c) (rep_one_min_max mn mx cb (eol_ch e) avail c).
Proof. intros Hm Hs. rewrite (rom_exact _ _ _ _ _ _ Hs). apply expansion_verdict. exact Hm. Qed.

(* ====================================================================================== *)
(* 5. predicates                                                                           *)
(* ====================================================================================== *)

Section PredInd.
Variable Q : pred -> Prop.
Hypothesis H_one : forall f cs, Q (POne f cs).
Hypothesis H_range : forall f lo hi, Q (PRange f lo hi).
Hypothesis H_ranges : forall cs, Q (PRanges cs).
Hypothesis H_and : forall ps, Forall Q ps -> Q (PAnd ps).
Hypothesis H_or : forall ps, Forall Q ps -> Q (POr ps).
Hypothesis H_not : forall p, Q p -> Q (PNot p).
Fixpoint pred_ind' (p : pred) : Q p :=
  match p with
  | POne f cs => H_one f cs
  | PRange f lo hi => H_range f lo hi
  | PRanges cs => H_ranges cs
  | PAnd ps => H_and ps ((fix go (l : list pred) : Forall Q l :=
                            match l with [] => Forall_nil Q | q :: l' => Forall_cons q (pred_ind' q) (go l') end) ps)
  | POr ps => H_or ps ((fix go (l : list pred) : Forall Q l :=
                          match l with [] => Forall_nil Q | q :: l' => Forall_cons q (pred_ind' q) (go l') end) ps)
  | PNot q => H_not q (pred_ind' q)
  end.
End PredInd.

Lemma pred_test_spec p v : pred_test p v = true <-> pred_sat p v.
Proof.
  induction p as [f cs|f lo hi|cs|ps IH|ps IH|q IH] using pred_ind'.
  - apply test_one_set_spec.
  - apply test_one_range_spec.
  - apply test_ranges_spec.
  - cbn [pred_test pred_sat]. induction IH as [|q l Hq _ IHl]; [tauto|].
    rewrite andb_true_iff, Hq, IHl. tauto.
  - cbn [pred_test pred_sat]. induction IH as [|q l Hq _ IHl]; [split; [discriminate | tauto]|].
    rewrite orb_true_iff, Hq, IHl. tauto.
  - cbn [pred_test pred_sat]. rewrite negb_true_iff. rewrite <- IH. destruct (pred_test q v); split; congruence.
Qed.

(* the fold notation of the specification is conjunction / disjunction over the list *)
Lemma pred_sat_and ps v : pred_sat (PAnd ps) v <-> Forall (fun q => pred_sat q v) ps.
Proof.
  cbn [pred_sat]. induction ps as [|q l IH]; [split; [constructor | tauto]|].
  rewrite IH. split; [intros [A B]; constructor; assumption | intros H; inversion H; subst; tauto].
Qed.
Lemma pred_sat_or ps v : pred_sat (POr ps) v <-> Exists (fun q => pred_sat q v) ps.
Proof.
  cbn [pred_sat]. induction ps as [|q l IH]; [split; [tauto | intros H; inversion H]|].
  rewrite IH. split; [intros [A|B]; [left | right]; assumption | intros H; inversion H; subst; tauto].
Qed.

Lemma predicates_is_ptb ch pk p c : predicates ch pk p c = peek_test_bump ch pk (pred_test p) c.
Proof. reflexivity. Qed.

Definition unit_peek (pk : peek) : bool := match pk with PkChar | PkUtf8 => true | _ => false end.

Lemma unit_peek_test_ok e pk test : unit_peek pk = true -> test_ok (eol_ch e) pk test = true.
Proof.
  unfold test_ok. destruct pk; try discriminate; intros _; cbn [peek_wfb byte_peek ch_data andb];
    destruct (test (Z.of_N (eol_ch e))); reflexivity.
Qed.

Lemma predicates_good e pk p c m : unit_peek pk = true ->
  good (PTr (eol_ch e)) m c (predicates (eol_ch e) pk p c).
Proof. intros U. rewrite predicates_is_ptb. apply peek_test_bump_goodP. apply unit_peek_test_ok. exact U. Qed.

(* C02 / C03 for every decoder class of the library (positions are not claimed here) *)
Lemma predicates_goodT ch pk p c m : peek_wf pk -> goodT m c (predicates ch pk p c).
Proof. intros W. rewrite predicates_is_ptb. apply peek_test_bump_good. exact W. Qed.

Lemma predicates_exact e pk p c : unit_peek pk = true ->
  predicates_spec (eol_ch e) pk p c (predicates (eol_ch e) pk p c).
Proof.
  intros U. pose proof (predicates_good e pk p c true U) as G.
  rewrite predicates_is_ptb in *.
  pose proof (peek_test_bump_outcome (eol_ch e) pk (pred_test p) c) as O.
  unfold atom_outcome in O. unfold predicates_spec.
  destruct (do_peek pk c) as [|v n|]; [exact O | | contradiction].
  destruct (pred_test p v) eqn:T.
  - left. split; [apply pred_test_spec; exact T|]. destruct O as [c' [Hr [R [L _]]]].
    rewrite Hr in *. cbn [good] in G. rewrite (adv_advance (eol_ch e) c c' n G R L). reflexivity.
  - right. split; [|exact O]. intros S. apply pred_test_spec in S. congruence.
Qed.

(* peek_char: the unit is the next byte, its value the signed char *)
Lemma predicates_char_exact e p c :
  predicates (eol_ch e) PkChar p c =
    match rest c with
    | b :: _ => if pred_test p (schar b) then Res Ok (advance (eol_ch e) 1 c) [] else Res Fail c []
    | [] => Res Fail c []
    end.
Proof.
  pose proof (predicates_exact e PkChar p c eq_refl) as X. unfold predicates_spec in X.
  cbn [do_peek] in X. unfold peek_char, in_empty, rd, peek_at in X.
  destruct (rest c) as [|b tl]; cbn [nth_error] in X; [exact X|].
  destruct X as [[S ->]|[S ->]].
  - apply pred_test_spec in S. rewrite S. reflexivity.
  - destruct (pred_test p (schar b)) eqn:T; [|reflexivity]. exfalso. apply S. apply pred_test_spec. exact T.
Qed.

(* ====================================================================================== *)
(* 6. http::chunk_size                                                                     *)
(* ====================================================================================== *)

Definition opt_eqb (a b : option N) : bool :=
  match a, b with Some x, Some y => x =? y | None, None => true | _, _ => false end.
Lemma hexval_sweep : forallb (fun b => opt_eqb (hexval b) (hexdigit b)) bytes256 = true.
Proof. vm_compute. reflexivity. Qed.
Lemma hexval_hexdigit b : is_byte b -> hexval b = hexdigit b.
Proof.
  intros H. pose proof (sweep1 _ hexval_sweep b H) as E. cbn beta in E. unfold opt_eqb in E.
  destruct (hexval b) as [x|], (hexdigit b) as [y|]; try discriminate; [|reflexivity].
  apply N.eqb_eq in E. subst. reflexivity.
Qed.

Lemma hexdigit_lt b d : hexdigit b = Some d -> d < 16.
Proof.
  unfold hexdigit. intros H.
  destruct ((48 <=? b) && (b <=? 57)) eqn:E1; [inversion H; lia|].
  destruct ((65 <=? b) && (b <=? 70)) eqn:E2; [inversion H; lia|].
  destruct ((97 <=? b) && (b <=? 102)) eqn:E3; [inversion H; lia | discriminate].
Qed.

Lemma is_hex_not_eol e b : is_hex b = true -> b <> eol_ch e.
Proof. intros H ->. destruct e; vm_compute in H; discriminate. Qed.

Lemma pow2_64 : 2 ^ 64 = 18446744073709551616. Proof. reflexivity. Qed.

(* size <<= 4; size |= d  on 64 bits  =  ( 16 * size + d ) mod 2^64 *)
Lemma shl4_or_arith size d : d < 16 -> shl4_or size d = (size * 16 + d) mod 2 ^ 64.
Proof.
  intros Hd. unfold shl4_or, w64.
  assert (E : (size * 16) mod 2 ^ 64 = N.shiftl (size mod 2 ^ 60) 4).
  { rewrite N.shiftl_mul_pow2. change (2 ^ 64) with (2 ^ 60 * 2 ^ 4). change 16 with (2 ^ 4).
    rewrite N.mul_mod_distr_r by discriminate. reflexivity. }
  rewrite E. rewrite (lor_shiftl_add (size mod 2 ^ 60) d 4 Hd).
  change (2 ^ 4) with 16. change (2 ^ 60) with 1152921504606846976. rewrite pow2_64. lia.
Qed.

Definition dig (b : byte) : N := match hexdigit b with Some d => d | None => 0 end.

Lemma hex_value_snoc_fold ds : forall v, fold_left (fun acc b => acc * 16 + dig b) ds v =
  fold_left (fun acc b => acc * 16 + match hexdigit b with Some d => d | None => 0 end) ds v.
Proof. reflexivity. Qed.

(* the 64-bit accumulation follows the arbitrary-precision value modulo 2^64 *)
Lemma shl_fold_mod : forall ds acc v, acc = v mod 2 ^ 64 ->
  fold_left (fun a b => shl4_or a (dig b)) ds acc = (fold_left (fun a b => a * 16 + dig b) ds v) mod 2 ^ 64.
Proof.
  induction ds as [|b ds IH]; intros acc v H; cbn [fold_left]; [exact H|].
  apply IH. subst acc.
  assert (Hd : dig b < 16).
  { unfold dig. destruct (hexdigit b) as [d|] eqn:E; [eapply hexdigit_lt; eauto | reflexivity]. }
  rewrite (shl4_or_arith _ _ Hd).
  rewrite <- (N.add_mod_idemp_l (v mod 2 ^ 64 * 16)) by discriminate.
  rewrite N.mul_mod_idemp_l by discriminate.
  rewrite N.add_mod_idemp_l by discriminate. reflexivity.
Qed.

Lemma sz_ok_test sz c i : sz_ok sz c -> (S i <=? sz (N.of_nat (S i)))%nat = (S i <=? length (rest c))%nat.
Proof.
  intros H. specialize (H (N.of_nat (S i))). apply size_ok_nat in H.
  destruct (S i <=? length (rest c))%nat eqn:E; lia.
Qed.

Lemma chunk_size_loop_spec sz c : sz_ok sz c -> Forall is_byte (rest c) ->
  forall fuel i size, (length (rest c) < i + fuel)%nat -> (i <= length (rest c))%nat ->
  let k := run_len is_hex (skipn i (rest c)) in
  chunk_size_loop sz c fuel i size =
    Some ((i + k)%nat, fold_left (fun a b => shl4_or a (dig b)) (firstn k (skipn i (rest c))) size).
Proof.
  intros Hs Hb. induction fuel as [|fuel IH]; intros i size Hf Hi; [lia|].
  cbn [chunk_size_loop]. rewrite (sz_ok_test sz c i Hs).
  destruct (S i <=? length (rest c))%nat eqn:E.
  - unfold peek_at. destruct (nth_error (rest c) i) as [b|] eqn:Nb; [|apply nth_error_None in Nb; lia].
    rewrite (skipn_nth _ (rest c) i b Nb). cbn [run_len].
    assert (Bb : is_byte b). { rewrite Forall_forall in Hb. apply Hb. eapply nth_error_In; eauto. }
    rewrite (hexval_hexdigit b Bb). destruct (hexdigit b) as [d|] eqn:Hd.
    + assert (Hx : is_hex b = true) by (unfold is_hex; rewrite Hd; reflexivity). rewrite Hx.
      rewrite IH by lia. cbn zeta. cbn [firstn fold_left]. unfold dig at 3. rewrite Hd. f_equal. f_equal. lia.
    + assert (Hx : is_hex b = false) by (unfold is_hex; rewrite Hd; reflexivity). rewrite Hx.
      cbn [firstn fold_left]. f_equal. f_equal. lia.
  - assert (i = length (rest c)) as -> by lia. rewrite skipn_all. cbn [run_len firstn fold_left]. f_equal. f_equal. lia.
Qed.

Lemma chunk_size_exact e sz c : sz_ok sz c -> Forall is_byte (rest c) ->
  chunk_size sz c = chunk_size_spec (eol_ch e) c.
Proof.
  intros Hs Hb. unfold chunk_size, chunk_size_spec.
  rewrite (chunk_size_loop_spec sz c Hs Hb (S (in_size c)) 0 0) by (unfold in_size; lia).
  cbn [skipn Nat.add]. pose proof (run_len_le is_hex (rest c)) as RL.
  set (k := run_len is_hex (rest c)) in *.
  rewrite (bump_in_line_advance k c RL).
  rewrite (shl_fold_mod (firstn k (rest c)) 0 0 eq_refl).
  f_equal. destruct (0 <? k)%nat eqn:E.
  - f_equal. apply advance_in_line_eq; [exact RL|].
    pose proof (run_len_firstn is_hex (rest c) k (Nat.le_refl _)) as F.
    eapply Forall_impl; [|exact F]. cbn beta. intros b Hh. apply is_hex_not_eol. exact Hh.
  - assert (k = O) as -> by lia. f_equal. unfold advance_in_line. cbn [skipn N.of_nat].
    rewrite !N.add_0_r. destruct c as [l [pb pl pc]]. reflexivity.
Qed.

Lemma hex_value_bound : forall ds v, fold_left (fun a b => a * 16 + dig b) ds v < (v + 1) * 16 ^ N.of_nat (length ds).
Proof.
  induction ds as [|b ds IH]; intros v; cbn [fold_left length].
  - change (N.of_nat 0) with 0. rewrite N.pow_0_r. lia.
  - assert (Hd : dig b < 16).
    { unfold dig. destruct (hexdigit b) as [d|] eqn:E; [eapply hexdigit_lt; eauto | reflexivity]. }
    eapply N.lt_le_trans; [apply IH|]. rewrite Nat2N.inj_succ, N.pow_succ_r'.
    rewrite N.mul_assoc. apply N.mul_le_mono_r. lia.
Qed.

(* up to 16 digits nothing is lost *)
Lemma chunk_size_no_wrap sz c : sz_ok sz c -> Forall is_byte (rest c) ->
  (run_len is_hex (rest c) <= 16)%nat ->
  snd (chunk_size sz c) = hex_value (firstn (run_len is_hex (rest c)) (rest c)).
Proof.
  intros Hs Hb Hk. rewrite (chunk_size_exact EolLf sz c Hs Hb). unfold chunk_size_spec. cbn [snd].
  apply N.mod_small. unfold hex_value.
  pose proof (hex_value_bound (firstn (run_len is_hex (rest c)) (rest c)) 0) as B. fold dig in B.
  change (fun acc b => acc * 16 + match hexdigit b with Some d => d | None => 0 end) with (fun a b => a * 16 + dig b).
  eapply N.lt_le_trans; [exact B|]. rewrite N.add_0_l, N.mul_1_l.
  change (2 ^ 64) with (16 ^ 16). apply N.pow_le_mono_r; [discriminate|].
  rewrite firstn_length. lia.
Qed.

Lemma chunk_size_spec_good ch m c : good (PTr ch) m c (fst (chunk_size_spec ch c)).
Proof.
  unfold chunk_size_spec. cbn [fst]. destruct (0 <? _)%nat.
  - apply good_advance. apply run_len_le.
  - apply good_fail_same. apply PTr_refl.
Qed.

Lemma chunk_size_good e sz c m : sz_ok sz c -> Forall is_byte (rest c) ->
  good (PTr (eol_ch e)) m c (fst (chunk_size sz c)).
Proof. intros Hs Hb. rewrite (chunk_size_exact e sz c Hs Hb). apply chunk_size_spec_good. Qed.

(* ====================================================================================== *)
(* 7. http::chunk_data                                                                     *)
(* ====================================================================================== *)

Lemma chunk_data_exact ch avail size c : size_ok size avail c ->
  chunk_data ch avail size c = chunk_data_spec ch size c.
Proof.
  unfold size_ok, chunk_data, chunk_data_spec, in_size. intros [H1 H2].
  destruct (size <=? N.of_nat (length (rest c))) eqn:E.
  - assert ((size <=? N.of_nat avail) = true) as -> by lia.
    rewrite bump_scan_advance by lia. reflexivity.
  - assert ((size <=? N.of_nat avail) = false) as -> by lia. reflexivity.
Qed.

Lemma chunk_data_spec_good ch size m c : good (PTr ch) m c (chunk_data_spec ch size c).
Proof.
  unfold chunk_data_spec, in_size. destruct (size <=? N.of_nat (length (rest c))) eqn:E.
  - apply good_advance. lia.
  - apply good_fail_same. apply PTr_refl.
Qed.

Lemma chunk_data_good ch avail size c m : size_ok size avail c ->
  good (PTr ch) m c (chunk_data ch avail size c).
Proof. intros H. rewrite (chunk_data_exact ch avail size c H). apply chunk_data_spec_good. Qed.

(* the two extreme input classes are admissible *)
Lemma sz_mem_ok c : sz_ok (sz_mem c) c.
Proof. intros a. unfold size_ok, sz_mem. lia. Qed.
Lemma avail_min_ok a c : size_ok a (avail_min a c) c.
Proof. unfold size_ok, avail_min. destruct (a <? N.of_nat (in_size c)) eqn:E; lia. Qed.
Lemma sz_min_ok c : sz_ok (sz_min c) c.
Proof. intros a. apply avail_min_ok. Qed.

(* ====================================================================================== *)
(* 8. http::chunk without extensions: the size travels from chunk_size to chunk_data        *)
(* ====================================================================================== *)

Lemma crlf_is_atom e c : eval_atom e (HString [13; 10]) c = Some (crlf (eol_ch e) c).
Proof. reflexivity. Qed.

Lemma crlf_good e m c : good (PTr (eol_ch e)) m c (crlf (eol_ch e) c).
Proof. apply (eval_atom_goodP e (HString [13; 10]) c _ m eq_refl (crlf_is_atom e c)). Qed.

Lemma adv_bytes ch c c1 : adv (PTr ch) c c1 -> Forall is_byte (rest c) -> Forall is_byte (rest c1).
Proof. intros [pre [E _]] H. rewrite E in H. apply Forall_app in H. tauto. Qed.

Lemma http_chunk_noext_good e m szf c x size :
  (forall c', sz_ok (szf c') c') -> Forall is_byte (rest c) ->
  http_chunk_noext m (eol_ch e) szf c = CkRes x size -> good (PTr (eol_ch e)) m c x.
Proof.
  intros Hs Hb. unfold http_chunk_noext.
  pose proof (chunk_size_good e (szf c) c true (Hs c) Hb) as G.
  destruct (chunk_size (szf c) c) as [r sizev]. cbn [fst] in G.
  destruct r as [[| |ex] c1 evs| |]; cbn [good] in G.
  - destruct (peek_at c1 0) as [b|] eqn:Pk.
    + assert (K : forall y, CkRes (guard m c
          (bind (crlf (eol_ch e) c1) (fun c2 =>
           bind (chunk_data (eol_ch e) (szf c2 sizev) sizev c2) (fun c3 => crlf (eol_ch e) c3)))) sizev = CkRes y size ->
          good (PTr (eol_ch e)) m c y).
      { intros y H. inversion H; subst. apply guard_good; [apply PTr_refl|].
        apply (good_adv_l _ (PTr_trans (eol_ch e)) c c1 _ G).
        apply bind_good; [apply PTr_trans | apply crlf_good|]. intros c2 _.
        apply bind_good; [apply PTr_trans | apply chunk_data_good; apply Hs|]. intros c3 _. apply crlf_good. }
      destruct b as [|p]; [exact (K x)|].
      do 6 (destruct p as [p|p|]; try exact (K x)). discriminate.
    + intros H. inversion H; subst. apply guard_good; [apply PTr_refl|].
      apply (good_adv_l _ (PTr_trans (eol_ch e)) c c1 _ G).
      apply bind_good; [apply PTr_trans | apply crlf_good|]. intros c2 _.
      apply bind_good; [apply PTr_trans | apply chunk_data_good; apply Hs|]. intros c3 _. apply crlf_good.
  - intros H. inversion H; subst. cbn [guard]. destruct m; cbn [good]; [reflexivity | apply adv_refl; apply PTr_refl].
  - intros H. inversion H; subst. cbn [guard good]. destruct m; [apply adv_refl; apply PTr_refl | exact G].
  - intros H. inversion H; subst. exact I.
  - contradiction.
Qed.

(* exactness of the composition under rewind_mode::required *)
Lemma crlf_exact e c :
  crlf (eol_ch e) c =
    if starts_with [13; 10] (rest c) then Res Ok (advance (eol_ch e) 2 c) [] else Res Fail c [].
Proof.
  unfold crlf, starts_with, in_size. destruct (rest c) as [|a [|b tl]] eqn:E.
  - reflexivity.
  - cbn [length Nat.leb firstn eqb_bytes]. destruct (13 =? a); reflexivity.
  - cbn [length Nat.leb take option_map firstn].
    destruct (eqb_bytes [13; 10] [a; b]); [|reflexivity].
    apply bump_help_advance; [rewrite E; cbn [length]; lia|].
    intros F. exfalso. destruct e; vm_compute in F; discriminate.
Qed.

Lemma nth_error_skipn0 (A : Type) : forall k (l : list A), nth_error (skipn k l) 0 = nth_error l k.
Proof. induction k as [|k IH]; intros [|x l]; cbn [skipn nth_error]; try reflexivity. apply IH. Qed.

Lemma advance_rest ch n c : rest (advance ch n c) = skipn n (rest c).
Proof. reflexivity. Qed.

Lemma skipn_skipn_add (A : Type) : forall a b (l : list A), skipn b (skipn a l) = skipn (a + b) l.
Proof.
  induction a as [|a IH]; intros b l; [reflexivity|]. destruct l as [|x l]; [rewrite !skipn_nil; reflexivity|].
  cbn [Nat.add skipn]. apply IH.
Qed.

Lemma http_chunk_tail e szf c k size :
  (forall c', sz_ok (szf c') c') -> (k <= length (rest c))%nat ->
  guard true c
    (bind (crlf (eol_ch e) (advance (eol_ch e) k c)) (fun c2 =>
     bind (chunk_data (eol_ch e) (szf c2 size) size c2) (fun c3 => crlf (eol_ch e) c3))) =
  (if starts_with [13; 10] (skipn k (rest c))
      && (size <=? N.of_nat (length (rest c) - (k + 2)))
      && starts_with [13; 10] (skipn (k + 2 + N.to_nat size) (rest c))
   then Res Ok (advance (eol_ch e) (k + 2 + N.to_nat size + 2) c) []
   else Res Fail c []).
Proof.
  intros Hs Hk. rewrite crlf_exact, advance_rest.
  destruct (starts_with [13; 10] (skipn k (rest c))); cbn [bind andb guard]; [|reflexivity].
  rewrite advance_add.
  rewrite (chunk_data_exact (eol_ch e) _ size _ (Hs _ size)). unfold chunk_data_spec, in_size.
  rewrite advance_rest, skipn_length.
  destruct (size <=? N.of_nat (length (rest c) - (k + 2))); cbn [bind prepend app andb guard]; [|reflexivity].
  rewrite advance_add, crlf_exact, advance_rest.
  destruct (starts_with [13; 10] (skipn (k + 2 + N.to_nat size) (rest c))); cbn [prepend app guard]; [|reflexivity].
  rewrite advance_add. reflexivity.
Qed.

Lemma http_chunk_required_exact e szf c :
  (forall c', sz_ok (szf c') c') -> Forall is_byte (rest c) ->
  http_chunk_noext true (eol_ch e) szf c = http_chunk_spec (eol_ch e) c.
Proof.
  intros Hs Hb. unfold http_chunk_noext, http_chunk_spec.
  rewrite (chunk_size_exact e (szf c) c (Hs c) Hb). unfold chunk_size_spec.
  pose proof (run_len_le is_hex (rest c)) as RL.
  set (k := run_len is_hex (rest c)) in *.
  set (size := hex_value (firstn k (rest c)) mod 2 ^ 64).
  destruct (0 <? k)%nat eqn:Ek.
  - unfold peek_at. rewrite advance_rest, nth_error_skipn0.
    pose proof (http_chunk_tail e szf c k size Hs RL) as T.
    destruct (nth_error (rest c) k) as [b|]; [|rewrite T; reflexivity].
    destruct b as [|p]; [rewrite T; reflexivity|].
    do 6 (destruct p as [p|p|]; try (rewrite T; reflexivity)); try reflexivity.
  - cbn [guard]. assert (k = O) as -> by lia. unfold size. cbn [firstn]. reflexivity.
Qed.
