(* Properties_C01.v — C01: core PEG operators match exactly as the PEG formalism defines.
   Theorems only.  Quantifiers: every surface grammar g over seq sor star plus opt at not_at and the
   atoms any one not_one range string eof success failure with (mutually recursive) named rules;
   every table G that the boolean structure tie accepts for it (the driver runs structure_tie on
   the table the C++ compiler dumped, for every classical corpus grammar); every input of bytes;
   every configuration attaching only void apply/apply0 actions (void_cfg), every apply mode,
   rewind mode, action family, control family (d), every initial position. *)
From PegtlV Require Import Base Decode Grammar Engine EngineFacts AtomFacts Mono Spec Denote ExactSound ExactComplete ExactTop.

(* success exactly when the formalism matches a prefix, consuming exactly the prescribed prefix *)
Theorem C01_exact_success :
  forall G g names C n root e, table_wf G -> void_cfg C -> structure_tie n G names g root e = true ->
  forall d c s', bytes_ok (rest c) ->
    (Peg g e (rest c) (Some s') <-> exists f c' evs, eval G C f d root c = Res Ok c' evs /\ rest c' = s').
Proof.
  intros G g names C n root e HG HC Ht d c s' Hb. split.
  - intros H. destruct (top_complete G g names C n root e HG HC Ht (Some s') d c Hb H) as [f [c' [evs [K P]]]].
    exists f, c', evs. split; [exact K | apply P; reflexivity].
  - intros [f [c' [evs [K <-]]]]. exact (top_sound G g names C n root e HG HC Ht f d c Ok c' evs Hb K).
Qed.
Print Assumptions C01_exact_success.

(* local failure exactly when the formalism says the expression fails *)
Theorem C01_exact_failure :
  forall G g names C n root e, table_wf G -> void_cfg C -> structure_tie n G names g root e = true ->
  forall d c, bytes_ok (rest c) ->
    (Peg g e (rest c) None <-> exists f c' evs, eval G C f d root c = Res Fail c' evs).
Proof.
  intros G g names C n root e HG HC Ht d c Hb. split.
  - intros H. destruct (top_complete G g names C n root e HG HC Ht None d c Hb H) as [f [c' [evs [K _]]]]. exists f, c', evs. exact K.
  - intros [f [c' [evs K]]]. exact (top_sound G g names C n root e HG HC Ht f d c Fail c' evs Hb K).
Qed.
Print Assumptions C01_exact_failure.

(* a classical grammar with void actions never raises *)
Theorem C01_never_raises :
  forall G g names C n root e, table_wf G -> void_cfg C -> structure_tie n G names g root e = true ->
  forall f d c x c' evs, bytes_ok (rest c) -> eval G C f d root c <> Res (Exc x) c' evs.
Proof.
  intros G g names C n root e HG HC Ht f d c x c' evs Hb K.
  exact (top_sound G g names C n root e HG HC Ht f d c (Exc x) c' evs Hb K).
Qed.
Print Assumptions C01_never_raises.

(* the outcome and the consumed prefix do not depend on which void actions are attached (C1 vs C2),
   on the apply mode, the top-level rewind mode, the action/control family (d1 vs d2), the initial
   position, or the fuel *)
Theorem C01_cfg_independent :
  forall G g names C1 C2 n root e, table_wf G -> void_cfg C1 -> void_cfg C2 -> structure_tie n G names g root e = true ->
  forall f1 f2 d1 d2 c1 c2 o1 o2 c1' c2' evs1 evs2, bytes_ok (rest c1) -> rest c1 = rest c2 ->
    eval G C1 f1 d1 root c1 = Res o1 c1' evs1 -> eval G C2 f2 d2 root c2 = Res o2 c2' evs2 ->
    o1 = o2 /\ (o1 = Ok -> rest c1' = rest c2').
Proof.
  intros G g names C1 C2 n root e HG H1 H2 Ht f1 f2 d1 d2 c1 c2 o1 o2 c1' c2' evs1 evs2 Hb Hr K1 K2.
  assert (Hb2 : bytes_ok (rest c2)) by (rewrite <- Hr; exact Hb).
  pose proof (top_sound G g names C1 n root e HG H1 Ht f1 d1 c1 o1 c1' evs1 Hb K1) as P1.
  pose proof (top_sound G g names C2 n root e HG H2 Ht f2 d2 c2 o2 c2' evs2 Hb2 K2) as P2.
  rewrite <- Hr in P2.
  destruct o1 as [| |x1]; destruct o2 as [| |x2]; try contradiction;
  pose proof (Peg_deterministic _ _ _ _ P1 _ P2) as E; try discriminate E.
  - injection E as E'. split; [reflexivity | intros _; exact E'].
  - split; [reflexivity | discriminate].
Qed.
Print Assumptions C01_cfg_independent.

(* the executable oracle used by the check is the formalism *)
Theorem C01_oracle_is_formalism :
  forall g e s r, (exists n, peg_fn n g e s = Some r) <-> Peg g e s r.
Proof. intros g e s r. split; [intros [n H]; eapply peg_fn_sound; eauto | apply peg_fn_complete]. Qed.
Print Assumptions C01_oracle_is_formalism.

(* non-vacuity: struct R0 : sor< seq< one<'a'>, R0 >, eof >;  root = seq< R0, opt<eof> > as dumped by the
   compiler (named nodes enabled, hidden nodes not), on "aa": hypotheses hold and the run succeeds *)
Definition ex_G : grammar :=
  [ mknode HSeq [1; 5]%nat true;                       (* 0 G = seq< R0, opt<eof> > *)
    mknode HSor [2; 4]%nat true;                       (* 1 R0 *)
    mknode HSeq [3; 1]%nat true;                       (* 2 seq< one<'a'>, R0 > *)
    mknode (HOne true PkChar [97%Z]) [] true;          (* 3 one<'a'> *)
    mknode HEof [] true;                               (* 4 eof *)
    mknode HPartial [4]%nat true ].                    (* 5 opt<eof> *)
Definition ex_g : sgrammar := [ SSor (SSeq (SOne [97%N]) (SRef 0)) SEof ].
Definition ex_e : sexp := SSeq (SRef 0) (SOpt SEof).
Definition ex_C : cfg := mkcfg EolLfCrlf (fun _ _ => AKApply false) (fun _ _ _ _ => ARet true) (fun _ _ _ => ARet true) (fun _ => true) (fun _ _ => false).
Example C01_example :
  structure_tie 10 ex_G [1%nat] ex_g 0%nat ex_e = true /\ void_cfg ex_C /\ table_wf ex_G /\
  exists c' evs, eval ex_G ex_C 20 (mkdyn true true 0 0 0) 0%nat (mkcur [97; 97]%N pos0) = Res Ok c' evs /\ rest c' = [].
Proof.
  split; [vm_compute; reflexivity|]. split.
  - split; [intros; exact I|]. split; [intros; eexists; reflexivity | intros; reflexivity].
  - split.
    + intros r nd H. do 6 (destruct r as [|r]; [simpl in H; inversion H; subst; exact I|]). destruct r; discriminate.
    + eexists. eexists. vm_compute. split; reflexivity.
Qed.
Print Assumptions C01_example.
