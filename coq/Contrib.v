(* Contrib.v — executable models of three contrib rule classes that have no head in the engine:
     contrib/rep_one_min_max.hpp   rep_one_min_max< Min, Max, C >  (+ the Min = 0 specialisation)
     contrib/predicates.hpp        predicates_and / predicates_or / predicate_not over peek_char, peek_utf8
     contrib/http.hpp              chunk_size, chunk_data (and the state plumbing of http::chunk)
   Model file: definitions only (proofs live in ContribFacts.v).

   Conventions
   * written statement by statement against the input API of Base.v (in_size, peek_at,
     bump_in_line, bump_scan) and the decoders of Decode.v; `Err` = a read or a bump outside
     [current,end); results are Engine.result values without events (these classes have
     enable_control = false resp. are called with the events of their callers);
   * `in.size( amount )`: memory_input ignores the amount and answers end - current; buffer inputs
     answer the number of buffered bytes after require( amount ), which is at least
     min( amount, what the source can still deliver ) and at most everything that is left.  The
     answer is therefore a PARAMETER of the models (`avail`, resp. a function `sz` of the amount
     where the code asks repeatedly); size_ok states which answers an input class may give;
   * `char` is signed (Base.schar): comparisons between chars are made on the signed values, exactly
     as in the C++; std::size_t is 64 bit: the only statements that can wrap (size <<= 4) carry an
     explicit `mod 2^64`; loop counters (i, i + 1) stay far below 2^64. *)
From PegtlV Require Import Base Decode Grammar Engine.
Local Open Scope N_scope.

(* ------------------------------------------------------------------ in.size( amount ) *)

(* the answers an input class may give to in.size( amount ) while the cursor is at c *)
Definition size_ok (amount : N) (avail : nat) (c : cursor) : Prop :=
  N.min amount (N.of_nat (in_size c)) <= N.of_nat avail /\ (avail <= in_size c)%nat.
Definition sz_ok (sz : N -> nat) (c : cursor) : Prop :=
  forall a, size_ok a (sz a) c.

(* the two extreme input classes (used by the extracted correspondence driver) *)
Definition avail_min (amount : N) (c : cursor) : nat :=
  if amount <? N.of_nat (in_size c) then N.to_nat amount else in_size c.
Definition sz_mem (c : cursor) : N -> nat := fun _ => in_size c.          (* memory_input *)
Definition sz_min (c : cursor) : N -> nat := fun a => avail_min a c.      (* laziest buffer input *)

(* ------------------------------------------------------------------ rep_one_min_max *)

(* std::size_t i = 0;  while( ( i < size ) && ( in.peek_char( i ) == C ) ) { ++i; }
   k = size - i is the loop variant: `i < size` is false exactly when k = 0.
   None = peek_char( i ) outside the input. *)
Fixpoint rom_loop (c : cursor) (cc : Z) (k : nat) (i : nat) : option nat :=
  match k with
  | O => Some i
  | S k' => match peek_at c i with
            | None => None
            | Some b => if (schar b =? cc)%Z then rom_loop c cc k' (S i) else Some i
            end
  end.

(* test_any( ParseInput::eol_t::ch ):  C == char( eol ) *)
Definition rom_test_any (cb : byte) (eolch : N) : bool := (schar cb =? schar eolch)%Z.

(* primary template (Min != 0):
     const auto size = in.size( Max + 1 );
     if( size < Min ) return false;
     i = 0; while( ... ) ++i;
     if( ( Min <= i ) && ( i <= Max ) ) { bump_help< rep_one_min_max >( in, i ); return true; }
     return false; *)
Definition rep_one_min_max_gen (mn mx : nat) (cb : byte) (eolch : N) (avail : nat) (c : cursor) : result :=
  let size := avail in
  if (size <? mn)%nat then Res Fail c []
  else match rom_loop c (schar cb) size 0 with
       | None => Err
       | Some i => if (mn <=? i)%nat && (i <=? mx)%nat
                   then bump_help eolch (rom_test_any cb eolch) i c
                   else Res Fail c []
       end.

(* specialisation rep_one_min_max< 0, Max, C >: no size test, only `i <= Max` *)
Definition rep_one_min_max_0 (mx : nat) (cb : byte) (eolch : N) (avail : nat) (c : cursor) : result :=
  let size := avail in
  match rom_loop c (schar cb) size 0 with
  | None => Err
  | Some i => if (i <=? mx)%nat
              then bump_help eolch (rom_test_any cb eolch) i c
              else Res Fail c []
  end.

(* template selection; avail = the answer to in.size( Max + 1 ) *)
Definition rep_one_min_max (mn mx : nat) (cb : byte) (eolch : N) (avail : nat) (c : cursor) : result :=
  match mn with
  | O => rep_one_min_max_0 mx cb eolch avail c
  | _ => rep_one_min_max_gen mn mx cb eolch avail c
  end.

(* ------------------------------------------------------------------ predicates *)

(* the types that may appear in Ps...: anything with a test_one, i.e. one/not_one, range/not_range,
   ranges, and predicates themselves *)
Inductive pred :=
| POne (found : bool) (cs : list Z)
| PRange (found : bool) (lo hi : Z)
| PRanges (cs : list Z)
| PAnd (ps : list pred)          (* predicates_and_test:  ( Ps::test_one( c ) && ... ) *)
| POr (ps : list pred)           (* predicates_or_test:   ( Ps::test_one( c ) || ... ) *)
| PNot (p : pred).               (* predicate_not_test:   !P::test_one( c ) *)

(* test_one( c ) = test_any( c ) = Test< Peek, Ps... >::test_impl( c ) *)
Fixpoint pred_test (p : pred) (v : Z) : bool :=
  match p with
  | POne found cs => test_one_set found cs v
  | PRange found lo hi => test_one_range found lo hi v
  | PRanges cs => test_ranges cs v
  | PAnd ps => (fix go (l : list pred) : bool :=
                  match l with [] => true | q :: l' => pred_test q v && go l' end) ps
  | POr ps => (fix go (l : list pred) : bool :=
                 match l with [] => false | q :: l' => pred_test q v || go l' end) ps
  | PNot q => negb (pred_test q v)
  end.

(* predicates< Test, Peek, Ps... >::match:
     if( const auto t = Peek::peek( in ) ) {
        if( test_one( t.data ) ) { bump_help< predicates >( in, t.size ); return true; } }
     return false;
   bump_help asks test_any( eol_t::ch ) = test_impl( data_t( eol ) ) *)
Definition predicates (eolch : N) (pk : peek) (p : pred) (c : cursor) : result :=
  match do_peek pk c with
  | POob => Err
  | PNone => Res Fail c []
  | PSome v n =>
      if pred_test p v then bump_help eolch (pred_test p (ch_as_data pk eolch)) n c
      else Res Fail c []
  end.

(* ------------------------------------------------------------------ http::chunk_size *)

Definition w64 : N := 2 ^ 64.

(* the three tests of the loop body on the (signed) char c; Some d = the value that is or-ed in:
     if( ( '0' <= c ) && ( c <= '9' ) )  size |= std::size_t( c - '0' );
     if( ( 'a' <= c ) && ( c <= 'f' ) )  size |= std::size_t( c - 'a' + 10 );
     if( ( 'A' <= c ) && ( c <= 'F' ) )  size |= std::size_t( c - 'A' + 10 );
   (int arithmetic; the results are 0..15, so the conversion to size_t is the identity) *)
Definition hexval (b : byte) : option N :=
  let s := schar b in
  if ((48 <=? s) && (s <=? 57))%Z then Some (Z.to_N (s - 48))
  else if ((97 <=? s) && (s <=? 102))%Z then Some (Z.to_N (s - 97 + 10))
  else if ((65 <=? s) && (s <=? 70))%Z then Some (Z.to_N (s - 65 + 10))
  else None.

(* size <<= 4;  size |= d;   on a 64-bit std::size_t: the shift drops the top four bits *)
Definition shl4_or (size d : N) : N := N.lor ((size * 16) mod w64) d.

(* while( in.size( i + 1 ) >= i + 1 ) { const auto c = in.peek_char( i ); <digit> { ...; ++i; continue; } break; }
   sz = the answers of in.size( . ) (the cursor does not move inside the loop);
   fuel: every iteration increments i, and in.size( i + 1 ) >= i + 1 fails at the latest for
   i = in_size c, so S (in_size c) iterations always suffice; running out of fuel (impossible for
   admissible sz) is reported like an out-of-bounds access.
   Some (i, size) = the values of i and size when the loop is left. *)
Fixpoint chunk_size_loop (sz : N -> nat) (c : cursor) (fuel : nat) (i : nat) (size : N) : option (nat * N) :=
  match fuel with
  | O => None
  | S fuel' =>
      if (S i <=? sz (N.of_nat (S i)))%nat then
        match peek_at c i with
        | None => None
        | Some b => match hexval b with
                    | Some d => chunk_size_loop sz c fuel' (S i) (shl4_or size d)
                    | None => Some (i, size)
                    end
        end
      else Some (i, size)
  end.

(* chunk_size::match( in, size ):
     size = 0;  i = 0;  <loop>;  in.bump_in_this_line( i );  return i > 0;
   second component = content of the state `size` afterwards *)
Definition chunk_size (sz : N -> nat) (c : cursor) : result * N :=
  match chunk_size_loop sz c (S (in_size c)) 0 0 with
  | None => (Err, 0)
  | Some (i, size) =>
      match bump_in_line i c with
      | None => (Err, size)
      | Some c' => (Res (if (0 <? i)%nat then Ok else Fail) c' [], size)
      end
  end.

(* ------------------------------------------------------------------ http::chunk_data *)

(* chunk_data::match( in, size ):
     if( in.size( size ) >= size ) { in.bump( size ); return true; }  return false;
   avail = the answer to in.size( size ); in.bump scans for the eol character *)
Definition chunk_data (eolch : N) (avail : nat) (size : N) (c : cursor) : result :=
  if size <=? N.of_nat avail then ok_or_err (bump_scan eolch (N.to_nat size) c)
  else Res Fail c [].

(* ------------------------------------------------------------------ http::chunk without extensions *)

(* http::chunk::match:  std::size_t size{};  return impl::match< A, M, Action, bind< Control > >( in, size, st... );
   impl = seq< chunk_size, chunk_ext, abnf::CRLF, chunk_data, abnf::CRLF >; the bound control hands `size`
   to chunk_size and chunk_data only.  chunk_ext = star_must< one< ';' >, ... > matches the empty string
   unless the next byte is ';' — that case is outside this model (CkExt).
   CRLF = string< '\r', '\n' > (internal/string.hpp: size test, compare, bump_help with test_any( eol ));
   seq: rewind guard of mode M around the members. *)
Inductive chunk_res := CkRes (x : result) (size : N) | CkExt.

Definition crlf (eolch : N) (c : cursor) : result :=
  if (2 <=? in_size c)%nat then
    match take 2 (rest c) with
    | None => Err
    | Some bs => if eqb_bytes [13; 10] bs
                 then bump_help eolch (existsb (N.eqb eolch) [13; 10]) 2 c
                 else Res Fail c []
    end
  else Res Fail c [].

Definition http_chunk_noext (m : bool) (eolch : N) (szf : cursor -> N -> nat) (c : cursor) : chunk_res :=
  match chunk_size (szf c) c with
  | (Res Ok c1 _, size) =>
      match peek_at c1 0 with
      | Some 59 => CkExt
      | _ =>
        CkRes (guard m c
          (bind (crlf eolch c1) (fun c2 =>
           bind (chunk_data eolch (szf c2 size) size c2) (fun c3 =>
           crlf eolch c3)))) size
      end
  | (Res o c1 evs, size) => CkRes (guard m c (Res o c1 evs)) size
  | (x, size) => CkRes x size
  end.
