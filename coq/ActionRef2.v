(* ActionRef2.v — C04, facts about the extended reference semantics ActionSpec2.PegT by itself (no engine):
   determinism ("THE derivation"), an executable version (fuel) proved sound, conservativity over the classical
   reference ActionSpec.PegA, and when the rep_min_max side condition holds. *)
From Coq Require Import Lia.
From PegtlV Require Import Base Decode Grammar Spec Denote ActionSpec RaiseSpec ActionSpec2.
Local Open Scope N_scope.

(* ---------- determinism ---------- *)
Ltac fin_eqT E :=
  first [ discriminate E
        | match type of E with ?a = ?a => clear E end
        | inversion E; subst; try clear E ].
Ltac use_ihT :=
  repeat match goal with
  | IH : forall y, PegT ?G ?a ?v ?A ?f ?r ?s ?o y -> ?x = y, H : PegT ?G ?a ?v ?A ?f ?r ?s ?o ?z |- _ =>
      let E := fresh "E" in pose proof (IH _ H) as E; clear H; fin_eqT E
  | IH : forall y, TBody ?G ?a ?v ?A ?f ?h ?rs ?s ?o y -> ?x = y, H : TBody ?G ?a ?v ?A ?f ?h ?rs ?s ?o ?z |- _ =>
      let E := fresh "E" in pose proof (IH _ H) as E; clear H; fin_eqT E
  | IH : forall y, TSeq ?G ?a ?v ?A ?f ?rs ?s ?o y -> ?x = y, H : TSeq ?G ?a ?v ?A ?f ?rs ?s ?o ?z |- _ =>
      let E := fresh "E" in pose proof (IH _ H) as E; clear H; fin_eqT E
  | IH : forall y, TSor ?G ?a ?v ?A ?f ?rs ?s ?o y -> ?x = y, H : TSor ?G ?a ?v ?A ?f ?rs ?s ?o ?z |- _ =>
      let E := fresh "E" in pose proof (IH _ H) as E; clear H; fin_eqT E
  | IH : forall b' y, TPar ?G ?a ?v ?A ?f ?rs ?s ?o b' y -> ?b = b' /\ ?x = y, H : TPar ?G ?a ?v ?A ?f ?rs ?s ?o ?b2 ?z |- _ =>
      let E := fresh "Eb" in let E' := fresh "Ex" in destruct (IH _ _ H) as [E E']; clear H; try (fin_eqT E); try (fin_eqT E')
  | IH : forall y, TStar ?G ?a ?v ?A ?f ?rs ?s ?o y -> ?x = y, H : TStar ?G ?a ?v ?A ?f ?rs ?s ?o ?z |- _ =>
      let E := fresh "E" in pose proof (IH _ H) as E; clear H; fin_eqT E
  | IH : forall y, TUntil1 ?G ?a ?v ?A ?f ?r ?s ?o y -> ?x = y, H : TUntil1 ?G ?a ?v ?A ?f ?r ?s ?o ?z |- _ =>
      let E := fresh "E" in pose proof (IH _ H) as E; clear H; fin_eqT E
  | IH : forall y, TUntil2 ?G ?a ?v ?A ?f ?r ?r2 ?s ?o y -> ?x = y, H : TUntil2 ?G ?a ?v ?A ?f ?r ?r2 ?s ?o ?z |- _ =>
      let E := fresh "E" in pose proof (IH _ H) as E; clear H; fin_eqT E
  | IH : forall y, TRepOpt ?G ?a ?v ?A ?f ?k ?r ?s ?o y -> ?x = y, H : TRepOpt ?G ?a ?v ?A ?f ?k ?r ?s ?o ?z |- _ =>
      let E := fresh "E" in pose proof (IH _ H) as E; clear H; fin_eqT E
  | IH : forall y, TSStrict ?G ?a ?v ?A ?f ?r ?rs ?s ?o y -> ?x = y, H : TSStrict ?G ?a ?v ?A ?f ?r ?rs ?s ?o ?z |- _ =>
      let E := fresh "E" in pose proof (IH _ H) as E; clear H; fin_eqT E
  end.
Ltac no_atomT :=
  match goal with
  | Ha : atom_den ?h _ |- _ => solve [destruct Ha as [_ Hd]; unfold den_node in Hd; cbn in Hd; discriminate Hd]
  end.

Lemma PegT_det_all G att vt :
  (forall A fam r s o x, PegT G att vt A fam r s o x -> forall y, PegT G att vt A fam r s o y -> x = y) /\
  (forall A fam h rs s o x, TBody G att vt A fam h rs s o x -> forall y, TBody G att vt A fam h rs s o y -> x = y) /\
  (forall A fam rs s o x, TSeq G att vt A fam rs s o x -> forall y, TSeq G att vt A fam rs s o y -> x = y) /\
  (forall A fam rs s o x, TSor G att vt A fam rs s o x -> forall y, TSor G att vt A fam rs s o y -> x = y) /\
  (forall A fam rs s o b x, TPar G att vt A fam rs s o b x -> forall b' y, TPar G att vt A fam rs s o b' y -> b = b' /\ x = y) /\
  (forall A fam rs s o x, TStar G att vt A fam rs s o x -> forall y, TStar G att vt A fam rs s o y -> x = y) /\
  (forall A fam r s o x, TUntil1 G att vt A fam r s o x -> forall y, TUntil1 G att vt A fam r s o y -> x = y) /\
  (forall A fam r r2 s o x, TUntil2 G att vt A fam r r2 s o x -> forall y, TUntil2 G att vt A fam r r2 s o y -> x = y) /\
  (forall A fam k r s o x, TRepOpt G att vt A fam k r s o x -> forall y, TRepOpt G att vt A fam k r s o y -> x = y) /\
  (forall A fam r rs s o x, TSStrict G att vt A fam r rs s o x -> forall y, TSStrict G att vt A fam r rs s o y -> x = y).
Proof.
  apply PegT_mutind; intros;
  match goal with
  | H : TPar _ _ _ _ _ _ _ _ ?b' ?y |- _ = ?b' /\ _ = ?y => inversion H; subst
  | H : _ |- _ = ?y => match type of H with context [y] => inversion H; subst end
  end;
  try no_atomT; same_node; use_ihT; try reflexivity; try (simpl in *; contradiction); try congruence; try (split; reflexivity).
  - (* atom / atom *)
    match goal with A1 : atom_den _ ?a, A2 : atom_den _ ?b |- _ => pose proof (atom_den_inj _ _ _ A1 A2); subst end.
    match goal with P1 : Peg [] ?a ?s ?x, P2 : Peg [] ?a ?s ?y |- _ => rewrite (Peg_deterministic _ _ _ _ P1 _ P2) end.
    reflexivity.
Qed.

Theorem PegT_deterministic G att vt A fam r s o x y : PegT G att vt A fam r s o x -> PegT G att vt A fam r s o y -> x = y.
Proof. intros H1 H2. exact (proj1 (PegT_det_all G att vt) A fam r s o x H1 y H2). Qed.

(* ---------- an executable version of the reference (outer None = out of fuel / outside the fragment) ---------- *)
Definition atom_sexp (h : head) : option sexp :=
  let cand := match h with
              | HAny PkChar => Some SAny
              | HOne true PkChar zs => Some (SOne (map Z.to_N zs))
              | HOne false PkChar zs => Some (SNotOne (map Z.to_N zs))
              | HRange true PkChar lo hi => Some (SRange (Z.to_N lo) (Z.to_N hi))
              | HString bs => Some (SString bs)
              | HEof => Some SEof
              | HSuccess => Some SSuccess
              | HFailure => Some SFailure
              | _ => None
              end in
  match cand with
  | Some a => if is_atom_sexp a && den_node (fun _ _ => false) (mknode h [] true) a then Some a else None
  | None => None
  end.
Lemma atom_sexp_den h a : atom_sexp h = Some a -> atom_den h a.
Proof.
  unfold atom_sexp. intros H.
  match type of H with match ?c with _ => _ end = _ => destruct c as [a0|]; [|discriminate H] end.
  destruct (is_atom_sexp a0 && den_node (fun _ _ => false) (mknode h [] true) a0) eqn:E; [|discriminate H].
  inversion H; subst a0. apply andb_true_iff in E. exact E.
Qed.

Section Exec.
Variable G : grammar.
Variable att : nat -> rid -> skind.
Variable vt : nat -> rid -> N -> N -> bool.

Section Helpers.
Variable go : bool -> nat -> rid -> list byte -> N -> option tres.

Fixpoint xseq (A : bool) (fam : nat) (rs : list rid) (s : list byte) (o : N) : option tres :=
  match rs with
  | [] => Some (TOk s o [])
  | r :: rs' => match go A fam r s o with
                | Some (TOk s1 o1 l1) => option_map (tcat l1) (xseq A fam rs' s1 o1)
                | y => y end
  end.
Fixpoint xsor (A : bool) (fam : nat) (rs : list rid) (s : list byte) (o : N) : option tres :=
  match rs with
  | [] => Some TFail
  | r :: rs' => match go A fam r s o with Some TFail => xsor A fam rs' s o | y => y end
  end.
Fixpoint xpar (A : bool) (fam : nat) (rs : list rid) (s : list byte) (o : N) : option (bool * tres) :=
  match rs with
  | [] => Some (true, TOk s o [])
  | r :: rs' => match go A fam r s o with
                | Some (TOk s1 o1 l1) => option_map (fun bx => (fst bx, tcat l1 (snd bx))) (xpar A fam rs' s1 o1)
                | Some TFail => Some (false, TOk s o [])
                | Some TRaise => Some (false, TRaise)
                | None => None end
  end.
Fixpoint xstar (k : nat) (A : bool) (fam : nat) (rs : list rid) (s : list byte) (o : N) : option tres :=
  match k with
  | O => None
  | S k' => match xpar A fam rs s o with
            | Some (true, TOk s1 o1 l1) => option_map (tcat l1) (xstar k' A fam rs s1 o1)
            | Some (false, x) => Some x
            | _ => None end
  end.
Fixpoint xuntil1 (k : nat) (A : bool) (fam : nat) (cnd : rid) (s : list byte) (o : N) : option tres :=
  match k with
  | O => None
  | S k' => match go A fam cnd s o with
            | Some TFail => match s with [] => Some TFail | _ :: s' => xuntil1 k' A fam cnd s' (o + 1) end
            | y => y end
  end.
Fixpoint xuntil2 (k : nat) (A : bool) (fam : nat) (cnd r1 : rid) (s : list byte) (o : N) : option tres :=
  match k with
  | O => None
  | S k' => match go A fam cnd s o with
            | Some TFail => match go A fam r1 s o with
                            | Some (TOk s1 o1 l1) => option_map (tcat l1) (xuntil2 k' A fam cnd r1 s1 o1)
                            | y => y end
            | y => y end
  end.
Fixpoint xrepopt (A : bool) (fam : nat) (k : nat) (r1 : rid) (s : list byte) (o : N) : option tres :=
  match k with
  | O => Some (TOk s o [])
  | S k' => match go A fam r1 s o with
            | Some (TOk s1 o1 l1) => option_map (tcat l1) (xrepopt A fam k' r1 s1 o1)
            | Some TFail => Some (TOk s o [])
            | y => y end
  end.
Fixpoint xsstrict (k : nat) (A : bool) (fam : nat) (r1 : rid) (rs : list rid) (s : list byte) (o : N) : option tres :=
  match k with
  | O => None
  | S k' => match go A fam r1 s o with
            | Some TFail => Some (TOk s o [])
            | Some (TOk s1 o1 l1) =>
                match xseq A fam rs s1 o1 with
                | Some (TOk s2 o2 l2) => option_map (fun x => tcat l1 (tcat l2 x)) (xsstrict k' A fam r1 rs s2 o2)
                | y => y end
            | y => y end
  end.

Definition tcomb (k : nat) (A : bool) (fam : nat) (h : head) (subs : list rid) (s : list byte) (o : N) : option tres :=
    match h, subs with
    | HSeq, rs => xseq A fam rs s o
    | HSor, rs => xsor A fam rs s o
    | HStarPartial, rs => xstar k A fam rs s o
    | HPlus, [r1] => match go A fam r1 s o with
                     | Some (TOk s1 o1 l1) => option_map (tcat l1) (xstar k A fam [r1] s1 o1)
                     | y => y end
    | HPartial, rs => option_map snd (xpar A fam rs s o)
    | HAt, [r1] => option_map (fun x => match x with TOk _ _ l => TOk s o l | y => y end) (go false fam r1 s o)
    | HNotAt, [r1] => option_map (fun x => match x with TOk _ _ _ => TFail | TFail => TOk s o [] | TRaise => TRaise end) (go false fam r1 s o)
    | HUntil1, [cnd] => xuntil1 k A fam cnd s o
    | HUntil2, [cnd; r1] => xuntil2 k A fam cnd r1 s o
    | HRep n, [r1] => xseq A fam (repeat r1 n) s o
    | HRepOpt n, [r1] => xrepopt A fam n r1 s o
    | HRepMinMax mn mx, [r1] =>
        match xseq A fam (repeat r1 mn) s o with
        | Some (TOk s1 o1 l1) =>
            match xrepopt A fam (mx - mn) r1 s1 o1 with
            | Some (TOk s2 o2 l2) =>
                option_map (fun y => match y with TOk _ _ _ => TFail | TFail => TOk s2 o2 (l1 ++ l2) | TRaise => TRaise end)
                           (go false fam r1 s2 o2)
            | y => y end
        | y => y end
    | HIfThenElse, [cnd; t; e] =>
        match go A fam cnd s o with
        | Some (TOk s1 o1 l1) => option_map (tcat l1) (go A fam t s1 o1)
        | Some TFail => go A fam e s o
        | y => y end
    | HStrict, r1 :: rs =>
        match go A fam r1 s o with
        | Some TFail => Some (TOk s o [])
        | Some (TOk s1 o1 l1) => option_map (tcat l1) (xseq A fam rs s1 o1)
        | y => y end
    | HStarStrict, r1 :: rs => xsstrict k A fam r1 rs s o
    | HDisable, [r1] => go false fam r1 s o
    | HEnable, [r1] => go true fam r1 s o
    | HAction fam', [r1] => go A fam' r1 s o
    | HControl _, [r1] => go A fam r1 s o
    | HMust, [r1] => option_map (fun x => match x with TFail => TRaise | y => y end) (go A fam r1 s o)
    | HRaise, [_] => Some TRaise
    | HIfMust dflt, [cnd; m] =>
        match go A fam cnd s o with
        | Some (TOk s1 o1 l1) => option_map (tcat l1) (go A fam m s1 o1)
        | Some TFail => Some (if dflt then TOk s o [] else TFail)
        | y => y end
    | HTryCatchFalse flt, [r1] =>
        option_map (fun x => match x with TRaise => if catches_parse flt then TFail else TRaise | y => y end) (go A fam r1 s o)
    | _, _ => None
    end.
Definition tbody (k : nat) (A : bool) (fam : nat) (h : head) (subs : list rid) (s : list byte) (o : N) : option tres :=
  match atom_sexp h, subs with
  | Some a, [] => option_map (tatom s o) (peg_fn 1 [] a s)
  | _, _ => tcomb k A fam h subs s o
  end.

(* ----- soundness of the helpers, given a sound callee ----- *)
Hypothesis Hgo : forall A fam r s o x, go A fam r s o = Some x -> PegT G att vt A fam r s o x.

Lemma option_map_inv {X Y} (f : X -> Y) x y : option_map f x = Some y -> exists z, x = Some z /\ y = f z.
Proof. destruct x; simpl; intros H; inversion H; eauto. Qed.

Lemma xseq_sound rs : forall A fam s o x, xseq A fam rs s o = Some x -> TSeq G att vt A fam rs s o x.
Proof.
  induction rs as [|r rs IHrs]; intros A fam s o x H; simpl in H.
  - inversion H; subst. apply Ts_nil.
  - destruct (go A fam r s o) as [[s1 o1 l1| |]|] eqn:E.
    + apply option_map_inv in H. destruct H as [z [Hz ->]]. eapply Ts_ok; [apply Hgo; exact E | apply IHrs; exact Hz].
    + inversion H; subst. apply Ts_nok; [apply Hgo; exact E | exact I].
    + inversion H; subst. apply Ts_nok; [apply Hgo; exact E | exact I].
    + discriminate H.
Qed.
Lemma xsor_sound rs : forall A fam s o x, xsor A fam rs s o = Some x -> TSor G att vt A fam rs s o x.
Proof.
  induction rs as [|r rs IHrs]; intros A fam s o x H; simpl in H.
  - inversion H; subst. apply To_nil.
  - destruct (go A fam r s o) as [[s1 o1 l1| |]|] eqn:E.
    + inversion H; subst. apply To_stop; [apply Hgo; exact E | discriminate].
    + apply To_next; [apply Hgo; exact E | apply IHrs; exact H].
    + inversion H; subst. apply To_stop; [apply Hgo; exact E | discriminate].
    + discriminate H.
Qed.
Lemma xpar_sound rs : forall A fam s o b x, xpar A fam rs s o = Some (b, x) -> TPar G att vt A fam rs s o b x.
Proof.
  induction rs as [|r rs IHrs]; intros A fam s o b x H; simpl in H.
  - inversion H; subst. apply Tp_nil.
  - destruct (go A fam r s o) as [[s1 o1 l1| |]|] eqn:E.
    + apply option_map_inv in H. destruct H as [[b2 x2] [Hz Hp]]. simpl in Hp. inversion Hp; subst.
      eapply Tp_ok; [apply Hgo; exact E | apply IHrs; exact Hz].
    + inversion H; subst. apply Tp_fail. apply Hgo; exact E.
    + inversion H; subst. apply Tp_raise. apply Hgo; exact E.
    + discriminate H.
Qed.
Lemma xstar_sound k : forall A fam rs s o x, xstar k A fam rs s o = Some x -> TStar G att vt A fam rs s o x.
Proof.
  induction k as [|k IHk]; intros A fam rs s o x H; simpl in H; [discriminate H|].
  destruct (xpar A fam rs s o) as [[b y]|] eqn:E; [|discriminate H]. apply xpar_sound in E.
  destruct b.
  - destruct y as [s1 o1 l1| |]; try discriminate H.
    apply option_map_inv in H. destruct H as [z [Hz ->]]. eapply Tt_step; [exact E | apply IHk; exact Hz].
  - inversion H; subst. apply Tt_stop. exact E.
Qed.
Lemma xuntil1_sound k : forall A fam cnd s o x, xuntil1 k A fam cnd s o = Some x -> TUntil1 G att vt A fam cnd s o x.
Proof.
  induction k as [|k IHk]; intros A fam cnd s o x H; simpl in H; [discriminate H|].
  destruct (go A fam cnd s o) as [[s1 o1 l1| |]|] eqn:E.
  - inversion H; subst. apply Tu1_stop; [apply Hgo; exact E | discriminate].
  - destruct s as [|b s'].
    + inversion H; subst. apply Tu1_eof. apply Hgo; exact E.
    + apply Tu1_skip; [apply Hgo; exact E | apply IHk; exact H].
  - inversion H; subst. apply Tu1_stop; [apply Hgo; exact E | discriminate].
  - discriminate H.
Qed.
Lemma xuntil2_sound k : forall A fam cnd r1 s o x, xuntil2 k A fam cnd r1 s o = Some x -> TUntil2 G att vt A fam cnd r1 s o x.
Proof.
  induction k as [|k IHk]; intros A fam cnd r1 s o x H; simpl in H; [discriminate H|].
  destruct (go A fam cnd s o) as [[s1 o1 l1| |]|] eqn:E.
  - inversion H; subst. apply Tu2_stop; [apply Hgo; exact E | discriminate].
  - destruct (go A fam r1 s o) as [[s1 o1 l1| |]|] eqn:E1.
    + apply option_map_inv in H. destruct H as [z [Hz ->]].
      eapply Tu2_step; [apply Hgo; exact E | apply Hgo; exact E1 | apply IHk; exact Hz].
    + inversion H; subst. apply Tu2_nok; [apply Hgo; exact E | apply Hgo; exact E1 | exact I].
    + inversion H; subst. apply Tu2_nok; [apply Hgo; exact E | apply Hgo; exact E1 | exact I].
    + discriminate H.
  - inversion H; subst. apply Tu2_stop; [apply Hgo; exact E | discriminate].
  - discriminate H.
Qed.
Lemma xrepopt_sound k : forall A fam r1 s o x, xrepopt A fam k r1 s o = Some x -> TRepOpt G att vt A fam k r1 s o x.
Proof.
  induction k as [|k IHk]; intros A fam r1 s o x H; simpl in H.
  - inversion H; subst. apply Tr_zero.
  - destruct (go A fam r1 s o) as [[s1 o1 l1| |]|] eqn:E.
    + apply option_map_inv in H. destruct H as [z [Hz ->]]. eapply Tr_step; [apply Hgo; exact E | apply IHk; exact Hz].
    + inversion H; subst. apply Tr_fail. apply Hgo; exact E.
    + inversion H; subst. apply Tr_raise. apply Hgo; exact E.
    + discriminate H.
Qed.
Lemma xsstrict_sound k : forall A fam r1 rs s o x, xsstrict k A fam r1 rs s o = Some x -> TSStrict G att vt A fam r1 rs s o x.
Proof.
  induction k as [|k IHk]; intros A fam r1 rs s o x H; simpl in H; [discriminate H|].
  destruct (go A fam r1 s o) as [[s1 o1 l1| |]|] eqn:E.
  - destruct (xseq A fam rs s1 o1) as [[s2 o2 l2| |]|] eqn:E2.
    + apply option_map_inv in H. destruct H as [z [Hz ->]].
      eapply Tss_step; [apply Hgo; exact E | apply xseq_sound; exact E2 | apply IHk; exact Hz].
    + inversion H; subst. eapply Tss_nok; [apply Hgo; exact E | apply xseq_sound; exact E2 | exact I].
    + inversion H; subst. eapply Tss_nok; [apply Hgo; exact E | apply xseq_sound; exact E2 | exact I].
    + discriminate H.
  - inversion H; subst. apply Tss_end. apply Hgo; exact E.
  - inversion H; subst. apply Tss_raise. apply Hgo; exact E.
  - discriminate H.
Qed.

Lemma tcomb_sound k A fam h subs s o x : tcomb k A fam h subs s o = Some x -> TBody G att vt A fam h subs s o x.
Proof.
  unfold tcomb. intros H.
  destruct h; try discriminate H.
  - (* seq *) apply B_seq. apply xseq_sound. exact H.
  - apply B_sor. apply xsor_sound. exact H.
  - apply B_star. eapply xstar_sound. exact H.
  - (* plus *) destruct subs as [|r1 [|? ?]]; try discriminate H.
    destruct (go A fam r1 s o) as [[s1 o1 l1| |]|] eqn:E.
    + apply option_map_inv in H. destruct H as [z [Hz ->]]. eapply B_plus_ok; [apply Hgo; exact E | eapply xstar_sound; exact Hz].
    + inversion H; subst. apply B_plus_nok; [apply Hgo; exact E | exact I].
    + inversion H; subst. apply B_plus_nok; [apply Hgo; exact E | exact I].
    + discriminate H.
  - (* partial *) apply option_map_inv in H. destruct H as [[b y] [Hz ->]]. simpl. eapply B_partial. apply xpar_sound. exact Hz.
  - (* at *) destruct subs as [|r1 [|? ?]]; try discriminate H.
    apply option_map_inv in H. destruct H as [z [Hz ->]]. apply (B_at G att vt A fam r1 s o z). apply Hgo; exact Hz.
  - destruct subs as [|r1 [|? ?]]; try discriminate H.
    apply option_map_inv in H. destruct H as [z [Hz ->]]. apply (B_not_at G att vt A fam r1 s o z). apply Hgo; exact Hz.
  - destruct subs as [|r1 [|? ?]]; try discriminate H. apply B_until1. eapply xuntil1_sound; exact H.
  - destruct subs as [|r1 [|r2 [|? ?]]]; try discriminate H. apply B_until2. eapply xuntil2_sound; exact H.
  - destruct subs as [|r1 [|? ?]]; try discriminate H. apply B_rep. apply xseq_sound; exact H.
  - (* rep_min_max *) destruct subs as [|r1 [|? ?]]; try discriminate H.
    destruct (xseq A fam (repeat r1 mn) s o) as [[s1 o1 l1| |]|] eqn:E1; try discriminate H.
    + apply xseq_sound in E1.
      destruct (xrepopt A fam (mx - mn) r1 s1 o1) as [[s2 o2 l2| |]|] eqn:E2; try discriminate H.
      * apply xrepopt_sound in E2. apply option_map_inv in H. destruct H as [z [Hz ->]].
        exact (B_rmm G att vt A fam mn mx r1 s o s1 o1 l1 s2 o2 l2 z E1 E2 (Hgo _ _ _ _ _ _ Hz)).
      * apply xrepopt_sound in E2. inversion H; subst. eapply B_rmm_nok2; [exact E1 | exact E2 | exact I].
      * apply xrepopt_sound in E2. inversion H; subst. eapply B_rmm_nok2; [exact E1 | exact E2 | exact I].
    + apply xseq_sound in E1. inversion H; subst. apply B_rmm_nok1; [exact E1 | exact I].
    + apply xseq_sound in E1. inversion H; subst. apply B_rmm_nok1; [exact E1 | exact I].
  - destruct subs as [|r1 [|? ?]]; try discriminate H. apply B_rep_opt. apply xrepopt_sound; exact H.
  - (* if_then_else *) destruct subs as [|cnd [|t [|e [|? ?]]]]; try discriminate H.
    destruct (go A fam cnd s o) as [[s1 o1 l1| |]|] eqn:E.
    + apply option_map_inv in H. destruct H as [z [Hz ->]]. eapply B_ite_then; [apply Hgo; exact E | apply Hgo; exact Hz].
    + eapply B_ite_else; [apply Hgo; exact E | apply Hgo; exact H].
    + inversion H; subst. apply B_ite_raise. apply Hgo; exact E.
    + discriminate H.
  - (* if_must *) destruct subs as [|cnd [|m [|? ?]]]; try discriminate H.
    destruct (go A fam cnd s o) as [[s1 o1 l1| |]|] eqn:E.
    + apply option_map_inv in H. destruct H as [z [Hz ->]]. eapply B_ifm_ok; [apply Hgo; exact E | apply Hgo; exact Hz].
    + inversion H; subst. apply B_ifm_fail. apply Hgo; exact E.
    + inversion H; subst. apply B_ifm_raise. apply Hgo; exact E.
    + discriminate H.
  - (* must *) destruct subs as [|r1 [|? ?]]; try discriminate H.
    apply option_map_inv in H. destruct H as [z [Hz ->]]. apply (B_must G att vt A fam r1 s o z). apply Hgo; exact Hz.
  - (* raise *) destruct subs as [|r1 [|? ?]]; try discriminate H. inversion H; subst. apply B_raise.
  - (* strict *) destruct subs as [|r1 rs]; try discriminate H.
    destruct (go A fam r1 s o) as [[s1 o1 l1| |]|] eqn:E.
    + apply option_map_inv in H. destruct H as [z [Hz ->]]. eapply B_strict_ok; [apply Hgo; exact E | apply xseq_sound; exact Hz].
    + inversion H; subst. apply B_strict_none. apply Hgo; exact E.
    + inversion H; subst. apply B_strict_raise. apply Hgo; exact E.
    + discriminate H.
  - destruct subs as [|r1 rs]; try discriminate H. apply B_star_strict. eapply xsstrict_sound; exact H.
  - (* try_catch_return_false *) destruct subs as [|r1 [|? ?]]; try discriminate H.
    apply option_map_inv in H. destruct H as [z [Hz ->]]. apply (B_try G att vt A fam f r1 s o z). apply Hgo; exact Hz.
  - destruct subs as [|r1 [|? ?]]; try discriminate H. apply B_action. apply Hgo; exact H.
  - destruct subs as [|r1 [|? ?]]; try discriminate H. apply B_control. apply Hgo; exact H.
  - destruct subs as [|r1 [|? ?]]; try discriminate H. apply B_enable. apply Hgo; exact H.
  - destruct subs as [|r1 [|? ?]]; try discriminate H. apply B_disable. apply Hgo; exact H.
Qed.

Lemma tbody_sound k A fam h subs s o x : tbody k A fam h subs s o = Some x -> TBody G att vt A fam h subs s o x.
Proof.
  unfold tbody. destruct (atom_sexp h) as [a|] eqn:Ea; [|apply tcomb_sound].
  destruct subs as [|r1 rs]; [|apply tcomb_sound].
  intros H. apply option_map_inv in H. destruct H as [z [Hz ->]].
  apply (B_atom G att vt A fam h a s o z); [exact (atom_sexp_den _ _ Ea) | exact (peg_fn_sound _ _ _ _ _ Hz)].
Qed.
End Helpers.

Fixpoint pegt (n : nat) (A : bool) (fam : nat) (r : rid) (s : list byte) (o : N) {struct n} : option tres :=
  match n with
  | O => None
  | S n' => match nth_error G r with
            | None => None
            | Some nd => option_map (twrap att vt A fam r o) (tbody (pegt n') n' A fam (nhead nd) (nsubs nd) s o)
            end
  end.

Theorem pegt_sound n : forall A fam r s o x, pegt n A fam r s o = Some x -> PegT G att vt A fam r s o x.
Proof.
  induction n as [|n IH]; intros A fam r s o x H; simpl in H; [discriminate H|].
  destruct (nth_error G r) as [nd|] eqn:Hn; [|discriminate H].
  apply option_map_inv in H. destruct H as [z [Hz ->]].
  eapply T_node; [exact Hn | exact (tbody_sound (pegt n) IH _ _ _ _ _ _ _ _ Hz)].
Qed.
End Exec.

(* ---------- the rep_min_max side condition: simple sufficient conditions ---------- *)
(* the verdict of an atomic node without an action does not depend on the apply mode *)
Lemma PegT_atom_mode G att vt r nd a : nth_error G r = Some nd -> nsubs nd = [] -> atom_den (nhead nd) a ->
  (forall f, att f r = KNone) -> forall A A' fam s o x, PegT G att vt A fam r s o x -> PegT G att vt A' fam r s o x.
Proof.
  intros Hn Hs Ha Hk A A' fam s o x H.
  destruct H as [A fam r nd0 s o x Hn0 Hb]. rewrite Hn in Hn0. inversion Hn0; subst nd0.
  rewrite (twrap_none att vt A fam r o x (Hk fam)). rewrite Hs in Hb.
  assert (Hb' : TBody G att vt A' fam (nhead nd) [] s o x).
  { inversion Hb; subst;
    try (match goal with E : _ = nhead nd |- _ => rewrite <- E in Ha end; no_atomT).
    eapply B_atom; eauto. }
  rewrite <- Hs in Hb'. pose proof (T_node G att vt A' fam r nd s o x Hn Hb') as T.
  rewrite (twrap_none att vt A' fam r o x (Hk fam)) in T. exact T.
Qed.
Lemma rmm_stable_atoms G att vt :
  (forall r1, rmm_sub G r1 -> exists nd a, nth_error G r1 = Some nd /\ nsubs nd = [] /\ atom_den (nhead nd) a /\ forall f, att f r1 = KNone) ->
  rmm_stable G att vt.
Proof.
  intros H fam r1 s o Hsub Hp. destruct (H r1 Hsub) as [nd [a [Hn [Hs [Ha Hk]]]]].
  exact (PegT_atom_mode G att vt r1 nd a Hn Hs Ha Hk true false fam s o TFail Hp).
Qed.

(* ---------- without a vetoing action the verdict does not depend on the apply mode ---------- *)
Definition sv (x y : tres) : Prop :=
  match x, y with
  | TOk s o _, TOk s' o' _ => s = s' /\ o = o'
  | TFail, TFail => True
  | TRaise, TRaise => True
  | _, _ => False
  end.
Lemma sv_tcat l l' x y : sv x y -> sv (tcat l x) (tcat l' y).
Proof. destruct x, y; simpl; auto. Qed.
Lemma sv_refl x : sv x x.
Proof. destruct x; simpl; auto. Qed.
Lemma sv_nok x y : sv x y -> nok x -> nok y.
Proof. destruct x, y; simpl; auto. Qed.
Lemma sv_nfail x y : sv x y -> x <> TFail -> y <> TFail.
Proof. destruct x, y; simpl; intros; try contradiction; congruence. Qed.

Section NoVeto.
Variable G : grammar.
Variable att : nat -> rid -> skind.
Variable vt : nat -> rid -> N -> N -> bool.
Hypothesis Hnv : forall fam r b e, vt fam r b e = false.

Lemma sv_twrap A A' fam r o x y : sv x y -> sv (twrap att vt A fam r o x) (twrap att vt A' fam r o y).
Proof.
  destruct x as [s1 o1 l1| |], y as [s2 o2 l2| |]; simpl; try tauto. intros [-> ->].
  destruct A, A'; destruct (att fam r) as [|sp isb]; rewrite ?Hnv, ?andb_false_r; simpl; auto.
Qed.

Ltac inst_ih A' :=
  repeat match goal with
  | IH : forall a : bool, exists y, _ |- _ =>
      let y1 := fresh "y" in let P1 := fresh "P" in let S1 := fresh "S" in
      let y2 := fresh "y" in let P2 := fresh "P" in let S2 := fresh "S" in
      let y3 := fresh "y" in let P3 := fresh "P" in let S3 := fresh "S" in
      destruct (IH A') as [y1 [P1 S1]]; destruct (IH false) as [y2 [P2 S2]]; destruct (IH true) as [y3 [P3 S3]]; clear IH
  end.
Ltac norm_sv :=
  repeat match goal with
  | S : sv (TOk _ _ _) ?y |- _ => destruct y; simpl in S; [destruct S; subst | contradiction | contradiction]
  | S : sv TFail ?y |- _ => destruct y; simpl in S; [contradiction | clear S | contradiction]
  | S : sv TRaise ?y |- _ => destruct y; simpl in S; [contradiction | contradiction | clear S]
  end.

Lemma PegT_mode_all :
  (forall A fam r s o x, PegT G att vt A fam r s o x -> forall A', exists y, PegT G att vt A' fam r s o y /\ sv x y) /\
  (forall A fam h rs s o x, TBody G att vt A fam h rs s o x -> forall A', exists y, TBody G att vt A' fam h rs s o y /\ sv x y) /\
  (forall A fam rs s o x, TSeq G att vt A fam rs s o x -> forall A', exists y, TSeq G att vt A' fam rs s o y /\ sv x y) /\
  (forall A fam rs s o x, TSor G att vt A fam rs s o x -> forall A', exists y, TSor G att vt A' fam rs s o y /\ sv x y) /\
  (forall A fam rs s o b x, TPar G att vt A fam rs s o b x -> forall A', exists y, TPar G att vt A' fam rs s o b y /\ sv x y) /\
  (forall A fam rs s o x, TStar G att vt A fam rs s o x -> forall A', exists y, TStar G att vt A' fam rs s o y /\ sv x y) /\
  (forall A fam r s o x, TUntil1 G att vt A fam r s o x -> forall A', exists y, TUntil1 G att vt A' fam r s o y /\ sv x y) /\
  (forall A fam r r2 s o x, TUntil2 G att vt A fam r r2 s o x -> forall A', exists y, TUntil2 G att vt A' fam r r2 s o y /\ sv x y) /\
  (forall A fam k r s o x, TRepOpt G att vt A fam k r s o x -> forall A', exists y, TRepOpt G att vt A' fam k r s o y /\ sv x y) /\
  (forall A fam r rs s o x, TSStrict G att vt A fam r rs s o x -> forall A', exists y, TSStrict G att vt A' fam r rs s o y /\ sv x y).
Proof.
  apply PegT_mutind; intros; inst_ih A'; norm_sv.
  all: try (eexists; split;
     [ econstructor; first [eassumption | (eapply sv_nok; [eassumption | assumption]) | (eapply sv_nfail; [eassumption | assumption])]
     | first [ apply sv_twrap; assumption
             | repeat apply sv_tcat; first [assumption | apply sv_refl]
             | match goal with |- sv (match ?x with _ => _ end) (match ?y with _ => _ end) =>
                 destruct x, y; simpl in *; try contradiction; try (destruct (catches_parse _)); simpl; intuition congruence end ] ]; fail).
Qed.

Theorem PegT_mode_indep A A' fam r s o x : PegT G att vt A fam r s o x -> exists y, PegT G att vt A' fam r s o y /\ sv x y.
Proof. intros H. exact (proj1 PegT_mode_all A fam r s o x H A'). Qed.
Lemma rmm_stable_no_veto : rmm_stable G att vt.
Proof.
  intros fam r1 s o _ H. destruct (PegT_mode_indep true false fam r1 s o TFail H) as [y [P S]].
  destruct y; simpl in S; try contradiction. exact P.
Qed.
End NoVeto.

(* ---------- with actions off and no enable<> below, the reference derivation carries no action:
   look-ahead (at, not_at), disable<> sections and runs started with apply_mode::nothing contribute nothing ---------- *)
Definition acts_nil (x : tres) : Prop := match x with TOk _ _ l => l = [] | _ => True end.
Lemma acts_nil_tcat l x : l = [] -> acts_nil x -> acts_nil (tcat l x).
Proof. intros ->. destruct x; simpl; auto. Qed.
Lemma acts_nil_twrap att vt fam r o x : acts_nil x -> acts_nil (twrap att vt false fam r o x).
Proof. rewrite twrap_off. auto. Qed.

Lemma PegT_off_nil_all G att vt : (forall r nd, nth_error G r = Some nd -> nhead nd <> HEnable) ->
  (forall A fam r s o x, PegT G att vt A fam r s o x -> A = false -> acts_nil x) /\
  (forall A fam h rs s o x, TBody G att vt A fam h rs s o x -> A = false -> h <> HEnable -> acts_nil x) /\
  (forall A fam rs s o x, TSeq G att vt A fam rs s o x -> A = false -> acts_nil x) /\
  (forall A fam rs s o x, TSor G att vt A fam rs s o x -> A = false -> acts_nil x) /\
  (forall A fam rs s o b x, TPar G att vt A fam rs s o b x -> A = false -> acts_nil x) /\
  (forall A fam rs s o x, TStar G att vt A fam rs s o x -> A = false -> acts_nil x) /\
  (forall A fam r s o x, TUntil1 G att vt A fam r s o x -> A = false -> acts_nil x) /\
  (forall A fam r r2 s o x, TUntil2 G att vt A fam r r2 s o x -> A = false -> acts_nil x) /\
  (forall A fam k r s o x, TRepOpt G att vt A fam k r s o x -> A = false -> acts_nil x) /\
  (forall A fam r rs s o x, TSStrict G att vt A fam r rs s o x -> A = false -> acts_nil x).
Proof.
  intros Hno. apply PegT_mutind; intros; subst;
  repeat match goal with
  | IH : ?a = ?a -> _ |- _ => specialize (IH eq_refl)
  | IH : false = false -> _ |- _ => specialize (IH eq_refl)
  end;
  try (match goal with H : HEnable <> HEnable |- _ => exfalso; apply H; reflexivity end).
  all: try (simpl in *; subst; simpl; auto; fail).
  all: try (repeat apply acts_nil_tcat; simpl in *; auto; fail).
  all: try (apply acts_nil_twrap; match goal with IH : _ <> HEnable -> _ |- _ => apply IH; eapply Hno; eassumption end).
  all: try (match goal with |- acts_nil (tatom _ _ ?x) => destruct x; simpl; auto end).
  all: try (match goal with |- acts_nil (match ?x with _ => _ end) => destruct x; simpl in *; subst; simpl; auto; try (destruct (catches_parse _); simpl; auto) end).
Qed.

Theorem PegT_off_nil G att vt : (forall r nd, nth_error G r = Some nd -> nhead nd <> HEnable) ->
  forall fam r s o s' o' l, PegT G att vt false fam r s o (TOk s' o' l) -> l = [].
Proof. intros Hno fam r s o s' o' l H. exact (proj1 (PegT_off_nil_all G att vt Hno) false fam r s o _ H eq_refl). Qed.
