(* UriCert2.v — C20: the completeness certificate of UriComplete.v extended to the whole fragment the URI grammar
   uses (definitions only; soundness is proved in UriComplete2.v):
     star / plus           (termination: the body's language is not nullable, fuel >= input length)
     must / if_must / opt_must   (commit points: on every input of the language in question the rule after the
                                  commit point succeeds, so no parse_error is raised)
     not_at                (the continuation language contains no string that starts with a word of the operand)
   Two mutually recursive checks on a table G:
     cc2 n r K = true  ->  on every input in R.K (R = regular reading of node r) the engine SUCCEEDS on r and
                           leaves a rest in K                                              (completeness)
     nr  n r L = true  ->  on every input in L the engine returns true or false on r: it neither raises nor
                           runs out of fuel                                                (no raise)
   The no-raise check follows the input language through the rule with verified LEFT QUOTIENTS (lq): after a
   sub-rule with reading R succeeded on an input of L, the rest lies in R \ L.  Nodes of the fragment of
   UriComplete.v (no star / must / look-ahead below them) are delegated to its certificate cc. *)
From Coq Require Import List NArith ZArith Bool Lia FMapPositive.
From PegtlV Require Import Base Decode Grammar Engine Regex RegexIncl RegexQuot Rfc3986 UriModel UriProof UriComplete.
From PegtlV.gen Require Import Uri_gen.
Import ListNotations.
Local Open Scope N_scope.

(* vm_compute is call-by-value: andb / orb evaluate both arguments.  The certificate uses the lazy forms (convertible
   with andb / orb) wherever one side can be expensive and irrelevant. *)
Notation "a &&& b" := (if a then b else false) (at level 40, left associativity).
Notation "a ||| b" := (if a then true else b) (at level 50, left associativity).

(* ---------- emptiness (sufficient syntactic test) ---------- *)
Fixpoint re_empty (r : re) : bool :=
  match r with
  | Empty => true
  | Eps => false
  | Chr cs => match cs with [] => true | _ => false end
  | Cat a b => re_empty a || re_empty b
  | Alt a b => re_empty a && re_empty b
  | Star _ => false
  end.

(* ---------- a verified left quotient:  lq fuel R L = Some Q -> forall w in R, w ++ t in L -> t in Q ---------- *)
Section LQ.
Variable reps : list N.
Variable Ks : list re.
Definition lq_pair (tbl : table) (p : re * re) : bool :=
  implb (nullable (fst p)) (existsb (re_eqb (snd p)) Ks) && forallb (seen tbl) (succs reps p).
Definition lqcheck (tbl : table) : bool := tbl_forall (lq_pair tbl) tbl.
End LQ.

Definition lq_collect (tbl : table) : list re :=
  fold_left (fun acc kv => fold_left (fun acc2 (p : re * re) => if nullable (fst p) then snd p :: acc2 else acc2) (snd kv) acc)
            (PositiveMap.elements tbl) [].
Definition alt_of (l : list re) : re := fold_left (fun acc k => mkalt k acc) l Empty.

Definition lq (fuel : nat) (R L : re) : option re :=
  let a := norm R in
  let l := norm L in
  let atoms := dedup (csets a ++ csets l) [] in
  let reps := pick_reps atoms in
  match qexplore reps fuel [(a, l)] (PositiveMap.empty _) with
  | Some tbl =>
      let Ks := lq_collect tbl in
      if reps_ok atoms reps && atoms_in atoms a && atoms_in atoms l && seen tbl (a, l) && lqcheck reps Ks tbl
      then Some (alt_of Ks) else None
  | None => None
  end.

(* ---------- inclusion of several languages in one, with ONE table, and the quotient check built on it:
     quot2 fuel R L K = true -> forall w in R, w ++ t in L -> t in K
   (same statement as RegexQuot.quot_auto; the residuals found at the nullable pairs are collected and their
    inclusion in K is decided by a single shared exploration instead of one run of incl_auto per pair) ---------- *)
Fixpoint alt_elems (r : re) : list re := match r with Alt a b => alt_elems a ++ alt_elems b | x => [x] end.
(* every alternative of l occurs literally among the alternatives of k *)
Definition alt_sub (l k : re) : bool :=
  let ke := alt_elems k in forallb (fun x => is_empty x || existsb (re_eqb x) ke) (alt_elems l).
Definition incl_many (fuel : nat) (ls : list re) (K : re) : bool :=
  let k := norm K in
  match filter (fun l => negb (alt_sub l k)) ls with
  | [] => true
  | ls' =>
    let atoms := dedup (flat_map csets ls' ++ csets k) [] in
    let reps := pick_reps atoms in
    match explore reps fuel (map (fun l => (l, k)) ls') (PositiveMap.empty _) with
    | Some tbl => reps_ok atoms reps && atoms_in atoms k && forallb (fun l => atoms_in atoms l && ok_pair tbl (l, k)) ls' && check reps tbl
    | None => false
    end
  end.
Fixpoint dedup_re (l acc : list re) : list re :=
  match l with [] => acc | x :: l' => if existsb (re_eqb x) acc then dedup_re l' acc else dedup_re l' (x :: acc) end.
Definition quot2 (fuel : nat) (R L K : re) : bool :=
  let a := norm R in
  let l := norm L in
  let atoms := dedup (csets a ++ csets l) [] in
  let reps := pick_reps atoms in
  match qexplore reps fuel [(a, l)] (PositiveMap.empty _) with
  | Some tbl =>
      let Ks := dedup_re (lq_collect tbl) [] in
      reps_ok atoms reps && atoms_in atoms a && atoms_in atoms l && seen tbl (a, l) && lqcheck reps Ks tbl && incl_many fuel Ks K
  | None => false
  end.

(* ---------- first-byte abstraction of a continuation K:  fabs K = (first bytes of K).Any [+ Eps]  contains K,
     cofabs K is disjoint from it (both facts are CHECKED by fabs_ok, the construction is not trusted) ---------- *)
Fixpoint mk_ranges (bs : list N) (f : N -> bool) (cur : option (N * N)) (acc : cset) : cset :=
  match bs with
  | [] => match cur with Some p => p :: acc | None => acc end
  | b :: bs' => if f b then mk_ranges bs' f (match cur with Some (lo, _) => Some (lo, b) | None => Some (b, b) end) acc
                else mk_ranges bs' f None (match cur with Some p => p :: acc | None => acc end)
  end.
Definition first_cs (k : re) : cset := mk_ranges all_bytes (fun b => negb (is_empty (deriv b k))) None [].
Definition rest_cs (k : re) : cset := mk_ranges all_bytes (fun b => is_empty (deriv b k)) None [].
Definition opt_eps (b : bool) : re := if b then Eps else Empty.
Definition fabs (K : re) : re := let k := norm K in Alt (Cat (Chr (first_cs k)) Any) (opt_eps (nullable k)).
Definition cofabs (K : re) : re := let k := norm K in Alt (Cat (Chr (rest_cs k)) Any) (opt_eps (negb (nullable k))).
Definition fabs_ok (K : re) : bool :=
  let k := norm K in
  let cs := first_cs k in
  let cs' := rest_cs k in
  forallb (fun b => (is_empty (deriv b k) || cs_mem b cs) && negb (cs_mem b cs && cs_mem b cs')) all_bytes.

(* ---------- what cannot follow a successful match, as a language ---------- *)
Definition Kx2 (o : option re) (K : re) : re := match o with Some X => Alt K X | None => K end.
Definition is_none {A} (o : option A) : bool := match o with Some _ => false | None => true end.

Section Cert.
Variable G : grammar.
Variable MX : rid -> option (nat * N).

(* the certificate of UriComplete.v (same fragment, same conditions) with quot2 in place of quot_auto *)
Fixpoint ccf_sor (sub : rid -> re -> bool) (subre : rid -> option (re * bool)) (fol : rid -> option cset) (rs : list rid) (K : re) : bool :=
  match rs with
  | [] => true
  | r :: rs' => match subre r, subs_re subre rs' with
                | Some (R, _), Some l => sub r K && quot2 CF R (Cat (fa (map fst l)) K) (Kx (fol r) K) && ccf_sor sub subre fol rs' K
                | _, _ => false
                end
  end.
Fixpoint ccf_repopt (sub : rid -> re -> bool) (o : option cset) (r : rid) (R : re) (k : nat) (K : re) : bool :=
  match k with
  | O => true
  | S k' => let L := Cat (pow k' (Alt R Eps)) K in sub r L && quot2 CF R L (Kx o L) && ccf_repopt sub o r R k' K
  end.
Fixpoint ccf (n : nat) (r : rid) (K : re) : bool :=
  match n with
  | O => false
  | S n' =>
    match nth_error G r with
    | None => false
    | Some nd =>
      match MX r with
      | Some (w, mx) => Nat.eqb w 8 && (mx =? 255) && noprefix [(48, 57)] K
      | None =>
        match atom_re (nhead nd) with
        | Some (Some _) => match nhead nd with HEof => incl_auto CF K Eps | _ => true end
        | Some None => false
        | None =>
          match nhead nd, nsubs nd with
          | HSeq, rs => cc_seq (ccf n') (re_of G MX n') rs K
          | HSor, rs => ccf_sor (ccf n') (re_of G MX n') (nfol G MX n') rs K
          | HPartial, [r1] => match re_of G MX n' r1 with
                              | Some (R, _) => ccf n' r1 K && quot2 CF R K (Kx (nfol G MX n' r1) K)
                              | None => false end
          | HRep (S k), [r1] => match re_of G MX n' r1 with Some (R, _) => cc_rep (ccf n') r1 R (S k) K | None => false end
          | HRepOpt (S k), [r1] => match re_of G MX n' r1 with Some (R, _) => ccf_repopt (ccf n') (nfol G MX n' r1) r1 R (S k) K | None => false end
          | HRepMinMax (S mn0) mx, [r1] =>
              let mn := S mn0 in
              match re_of G MX n' r1 with
              | Some (Chr cs, _) => noprefix cs K && ccf n' r1 Any
                                    && cc_rep (ccf n') r1 (Chr cs) mn (Cat (pow (mx - mn) (Alt (Chr cs) Eps)) K)
                                    && ccf_repopt (ccf n') None r1 (Chr cs) (mx - mn) K
              | _ => false end
          | _, _ => false
          end
        end
      end
    end
  end.

(* what cannot follow a successful match of r certified for the continuation K:
     not_at< r1 >   the rest does not start with a word of r1      (r1 is certified complete w.r.t. Any)
     star / plus    the rest is not in R1.(R1*.K): the body failed there, and it is certified complete w.r.t. R1*.K
   a sequence inherits the information of its last element *)
Fixpoint nfol2 (n : nat) (r : rid) (K : re) : option re :=
  match n with
  | O => None
  | S n' =>
    match nth_error G r with
    | None => None
    | Some nd =>
      match MX r with
      | Some _ => None
      | None =>
        match nhead nd, nsubs nd with
        | HNotAt, [r1] => match re_of G MX n' r1 with Some (R1, _) => Some (Cat R1 Any) | None => None end
        | HStarPartial, [r1] => match re_of G MX n' r1 with Some (R1, _) => Some (Cat R1 (Cat (Star R1) K)) | None => None end
        | HPlus, [r1] => match re_of G MX n' r1 with Some (R1, _) => Some (Cat R1 (Cat (Star R1) K)) | None => None end
        | HSeq, rs => match rs with _ :: _ :: _ => match lastopt rs with Some rl => nfol2 n' rl (Cat Eps K) | None => None end | _ => None end
        | _, _ => None
        end
      end
    end
  end.

(* the fragment of UriComplete.cc *)
Fixpoint old_frag (n : nat) (r : rid) : bool :=
  match n with
  | O => false
  | S n' =>
    match nth_error G r with
    | None => false
    | Some nd =>
      match MX r with
      | Some _ => true
      | None =>
        match atom_re (nhead nd) with
        | Some (Some _) => true
        | Some None => false
        | None =>
          match nhead nd, nsubs nd with
          | HSeq, rs => forallb (old_frag n') rs
          | HSor, rs => forallb (old_frag n') rs
          | HPartial, [r1] => old_frag n' r1
          | HRep _, [r1] => old_frag n' r1
          | HRepOpt _, [r1] => old_frag n' r1
          | HRepMinMax _ _, [r1] => old_frag n' r1
          | _, _ => false
          end
        end
      end
    end
  end.

Definition nonnull (o : option (re * bool)) : bool := match o with Some (R, _) => negb (nullable R) | None => false end.

(* no must / if_must below r: the engine returns true or false on every input *)
Fixpoint pure (n : nat) (r : rid) : bool :=
  match n with
  | O => false
  | S n' =>
    match nth_error G r with
    | None => false
    | Some nd =>
      match MX r with
      | Some _ => true
      | None =>
        match atom_re (nhead nd) with
        | Some (Some _) => true
        | Some None => false
        | None =>
          match nhead nd, nsubs nd with
          | HSeq, rs => forallb (pure n') rs
          | HSor, rs => forallb (pure n') rs
          | HStarPartial, [r1] => pure n' r1 && nonnull (re_of G MX n' r1)
          | HPlus, [r1] => pure n' r1 && nonnull (re_of G MX n' r1)
          | HPartial, [r1] => pure n' r1
          | HAt, [r1] => pure n' r1
          | HNotAt, [r1] => pure n' r1
          | HRep _, [r1] => pure n' r1
          | HRepOpt _, [r1] => pure n' r1
          | HRepMinMax _ _, [r1] => pure n' r1
          | _, _ => false
          end
        end
      end
    end
  end.

Fixpoint cc2_seq (sub : rid -> re -> bool) (subre : rid -> option (re * bool)) (rs : list rid) (K : re) : bool :=
  match rs with
  | [] => true
  | r :: rs' => match subs_re subre rs' with
                | Some l => sub r (Cat (fr (map fst l)) K) &&& cc2_seq sub subre rs' K
                | None => false
                end
  end.
Fixpoint cc2_sor (sub subnr : rid -> re -> bool) (subre : rid -> option (re * bool)) (fol : rid -> re -> option re) (rs : list rid) (K : re) : bool :=
  match rs with
  | [] => true
  | r :: rs' => match subre r, subs_re subre rs' with
                | Some (R, _), Some l =>
                    let L := Cat (fa (map fst l)) K in
                    sub r K &&& subnr r L &&& quot2 CF R L (Kx2 (fol r K) K) &&& cc2_sor sub subnr subre fol rs' K
                | _, _ => false
                end
  end.
Fixpoint nr_seq (subnr : rid -> re -> bool) (pur : rid -> bool) (subre : rid -> option (re * bool)) (rs : list rid) (L : re) : bool :=
  match rs with
  | [] => true
  | r :: rs' =>
      subnr r L &&&
      (forallb pur rs' |||
       match subre r with
       | Some (R, _) => match lq CF R L with Some Q => nr_seq subnr pur subre rs' Q | None => false end
       | None => false
       end)
  end.

(* a node of the fragment of UriComplete.v: certified by ccf, for composite nodes preferably w.r.t. the first-byte
   abstraction of K (every check below the node then runs on a small continuation), completed by ONE quotient check
   with the real K: whatever prefix in R the engine consumed, if the rest starts like K it is in K *)
Definition cc2_old (n' : nat) (r : rid) (K : re) : bool :=
  match nth_error G r with
  | Some nd =>
      match MX r, atom_re (nhead nd) with
      | None, None =>
          match re_of G MX (S n') r with
          | Some (R, _) => (fabs_ok K &&& ccf (S n') r (fabs K) &&& quot2 CF R (Cat R K) (Alt K (cofabs K))) ||| ccf (S n') r K
          | None => false
          end
      | _, _ => ccf (S n') r K
      end
  | None => false
  end.

(* one level of the two checks, over the checks of the level below (subc, subn) *)
Definition cc2_step (subc subn : rid -> re -> bool) (n' : nat) (r : rid) (K : re) : bool :=
    (old_frag (S n') r &&& is_none (nfol2 (S n') r K) &&& cc2_old n' r K) |||
    match nth_error G r with
    | None => false
    | Some nd =>
      match MX r with
      | Some _ => false
      | None =>
        match nhead nd, nsubs nd with
        | HSeq, rs => cc2_seq subc (re_of G MX n') rs K
        | HSor, rs => cc2_sor subc subn (re_of G MX n') (nfol2 n') rs K
        | HPartial, [r1] =>
            match re_of G MX n' r1 with
            | Some (R, _) => subc r1 K &&& subn r1 K &&& quot2 CF R K (Kx2 (nfol2 n' r1 K) K)
            | None => false
            end
        | HStarPartial, [r1] =>
            match re_of G MX n' r1 with
            | Some (R, _) => let L := Cat (Star R) K in
                             negb (nullable R) &&& subc r1 L &&& subn r1 L &&& quot2 CF R L (Kx2 (nfol2 n' r1 L) L)
            | None => false
            end
        | HPlus, [r1] =>
            match re_of G MX n' r1 with
            | Some (R, _) => let L := Cat (Star R) K in
                             negb (nullable R) &&& subc r1 L &&& subn r1 L &&& quot2 CF R L (Kx2 (nfol2 n' r1 L) L)
            | None => false
            end
        | HIfMust dflt, [cnd; m] =>
            match re_of G MX n' cnd, re_of G MX n' m with
            | Some (Rc, _), Some (Rm, true) =>
                subc cnd (Cat Rm K) &&& subc m K &&&
                (if dflt then subn cnd K &&& quot2 CF Rc K (Kx2 (nfol2 n' cnd (Cat Rm K)) (Cat Rm K)) else true)
            | _, _ => false
            end
        | HMust, [r1] => subc r1 K
        | HNotAt, [r1] =>
            match re_of G MX n' r1 with
            | Some (R1, _) => subc r1 Any &&& subn r1 K &&& quot2 CF R1 K Empty
            | None => false
            end
        | _, _ => false
        end
      end
    end.

Definition nr_step (subc subn : rid -> re -> bool) (n' : nat) (r : rid) (L : re) : bool :=
    re_empty L ||| pure (S n') r |||
    match nth_error G r with
    | None => false
    | Some nd =>
      match MX r with
      | Some _ => false
      | None =>
        match nhead nd, nsubs nd with
        | HSeq, rs => nr_seq subn (pure n') (re_of G MX n') rs L
        | HSor, rs => forallb (fun r1 => subn r1 L) rs
        | HPartial, [r1] => subn r1 L
        | HAt, [r1] => subn r1 L
        | HNotAt, [r1] => subn r1 L
        | HStarPartial, [r1] =>
            match re_of G MX n' r1 with
            | Some (R, _) => negb (nullable R) &&& match lq CF (Star R) L with Some X => subn r1 X | None => false end
            | None => false
            end
        | HPlus, [r1] =>
            match re_of G MX n' r1 with
            | Some (R, _) => negb (nullable R) &&& match lq CF (Star R) L with Some X => subn r1 X | None => false end
            | None => false
            end
        | HIfMust _, [cnd; m] =>
            match re_of G MX n' cnd with
            | Some (Rc, _) => subn cnd L &&& match lq CF Rc L with Some Q => subn m Q | None => false end
            | None => false
            end
        | HMust, [r1] =>
            match re_of G MX n' r1 with
            | Some (R1, _) => match lq CF R1 L with
                              | Some Q => incl_auto CF L (Cat R1 Q) &&& subc r1 Q
                              | None => false end
            | None => false
            end
        | _, _ => false
        end
      end
    end.

Fixpoint cc2 (n : nat) (r : rid) (K : re) {struct n} : bool :=
  match n with
  | O => false
  | S n' => cc2_step (cc2 n') (nr n') n' r K
  end
with nr (n : nat) (r : rid) (L : re) {struct n} : bool :=
  match n with
  | O => false
  | S n' => nr_step (cc2 n') (nr n') n' r L
  end.
End Cert.

(* ---------- the generated URI table ---------- *)
Definition complete_cert2 (t : top) : bool :=
  match uri_re t with
  | Some (R, _) => incl_auto CF (rfc t) R && cc2 uri_table uri_mx uri_re_depth (uri_root t) Eps
  | None => false
  end.
