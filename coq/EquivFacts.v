(* EquivFacts.v — C09: congruence of every engine helper for the observational refinement `sim`.

   Two callees e1 (left) and e2 (right) that are related on a relation R of rule ids give related
   helper results.  Sim s m1 m2 fixes the flags of `sim` from the rewind modes of the two sides:
     s = false ("cross", different rules):  failure cursors compared iff both sides required; exception cursors never
     s = true  ("self", the same rule):     failure and exception cursors compared iff both sides run in the same mode
   The self flavour is what makes must< R > congruent: the position of the exception it raises is
   the cursor the failing sub-rule leaves behind in OPTIONAL mode.  No invariant on the callees
   is needed here. *)
From Coq Require Import Lia Bool.
From PegtlV Require Import Base Decode Grammar Engine Mono Equiv.

Ltac dres x := destruct x as [[| |?e] ?c ?evs| |].

Definition callee := dyn -> rid -> cursor -> result.
Definition flagf (s m1 m2 : bool) : bool := if s then Bool.eqb m1 m2 else m1 && m2.
Definition flagx (s m1 m2 : bool) : bool := s && Bool.eqb m1 m2.
Definition Sim (s m1 m2 : bool) (x y : result) : Prop := sim (flagf s m1 m2) (flagx s m1 m2) x y.

Lemma flagf_tt s : flagf s true true = true. Proof. destruct s; reflexivity. Qed.
Lemma flagx_tt s : flagx s true true = s. Proof. destruct s; reflexivity. Qed.
Lemma flagf_ff s : flagf s false false = s. Proof. destruct s; reflexivity. Qed.
Lemma flagx_ff s : flagx s false false = s. Proof. destruct s; reflexivity. Qed.
Lemma flagf_true s m1 m2 : flagf s m1 m2 = true -> m1 = m2 /\ (m1 = false -> s = true).
Proof. destruct s, m1, m2; simpl; auto; discriminate. Qed.
Lemma flagx_true s m1 m2 : flagx s m1 m2 = true -> m1 = m2 /\ s = true.
Proof. destruct s, m1, m2; simpl; auto; discriminate. Qed.

Lemma oeq_weaken bf bx bf' bx' x y : (bf' = true -> bf = true) -> (bx' = true -> bx = true) -> oeq bf bx x y -> oeq bf' bx' x y.
Proof.
  intros Hf Hx. dres x; dres y; simpl; auto.
  - destruct bf'; [|auto]. rewrite (Hf eq_refl). auto.
  - intros [E K]. split; [exact E|]. destruct bx'; [|auto]. rewrite (Hx eq_refl) in K. exact K.
Qed.
Lemma sim_weaken bf bx bf' bx' x y : (bf' = true -> bf = true) -> (bx' = true -> bx = true) -> sim bf bx x y -> sim bf' bx' x y.
Proof. intros Hf Hx [H|H]; [left; exact H | right; eapply oeq_weaken; eauto]. Qed.
Lemma sim_ff bf bx x y : sim bf bx x y -> sim false false x y.
Proof. apply sim_weaken; discriminate. Qed.
Lemma sim_tt_any bf bx x y : sim true true x y -> sim bf bx x y.
Proof. apply sim_weaken; auto. Qed.
Lemma sim_oof bf bx y : sim bf bx Oof y. Proof. left; reflexivity. Qed.
Lemma oeq_trans bf bx x y z : oeq bf bx x y -> oeq bf bx y z -> oeq bf bx x z.
Proof.
  dres x; dres y; simpl; try contradiction; dres z; simpl; try contradiction; try congruence.
  - destruct bf; auto. congruence.
  - intros [E1 K1] [E2 K2]. split; [congruence|]. destruct bx; auto. congruence.
Qed.
Lemma oeq_not_oof_r bf bx x y : oeq bf bx x y -> y <> Oof.
Proof. dres x; dres y; simpl; try contradiction; discriminate. Qed.
Lemma oeq_not_oof_l bf bx x y : oeq bf bx x y -> x <> Oof.
Proof. dres x; dres y; simpl; try contradiction; discriminate. Qed.
Lemma sim_trans bf bx x y z : sim bf bx x y -> sim bf bx y z -> sim bf bx x z.
Proof.
  intros [H|H]; [left; exact H|]. intros [K|K].
  - exfalso. exact (oeq_not_oof_r _ _ _ _ H K).
  - right. eapply oeq_trans; eauto.
Qed.
Lemma oeq_sym bf bx x y : oeq bf bx x y -> oeq bf bx y x.
Proof.
  dres x; dres y; simpl; try contradiction; auto.
  - destruct bf; auto.
  - intros [E K]. split; [auto|]. destruct bx; auto.
Qed.
Lemma oeq_refl bf bx x : x <> Oof -> oeq bf bx x x.
Proof. dres x; simpl; auto; try congruence; [destruct bf; auto | intros _; split; auto; destruct bx; auto]. Qed.

Lemma sim_prepend bf bx e1 e2 x y : sim bf bx x y -> sim bf bx (prepend e1 x) (prepend e2 y).
Proof. intros [->|H]; [left; reflexivity|]. right. dres x; dres y; simpl in *; auto. Qed.
Lemma sim_traced bf bx k1 r1 a1 m1 c1 k2 r2 a2 m2 c2 x y :
  sim bf bx x y -> sim bf bx (traced k1 r1 a1 m1 c1 x) (traced k2 r2 a2 m2 c2 y).
Proof. intros [->|H]; [left; reflexivity|]. right. dres x; dres y; simpl in *; auto. Qed.
Lemma sim_st_scope bf bx b1 b2 r1 r2 c1 c2 x y : sim bf bx x y -> sim bf bx (st_scope b1 r1 c1 x) (st_scope b2 r2 c2 y).
Proof. intros [->|H]; [left; reflexivity|]. right. dres x; dres y; simpl in *; auto. Qed.

(* rewind_guard: both required -> both restore; both optional -> the inner cursors are compared *)
Lemma sim_guard s m1 m2 sv x y : Sim s false false x y -> Sim s m1 m2 (guard m1 sv x) (guard m2 sv y).
Proof.
  unfold Sim. rewrite flagf_ff, flagx_ff.
  intros [->|H]; [left; reflexivity|]. right. dres x; dres y; simpl in *; auto.
  - destruct (flagf s m1 m2) eqn:Ef; [|exact I].
    destruct (flagf_true _ _ _ Ef) as [-> Hs]. destruct m2; [reflexivity|]. rewrite (Hs eq_refl) in H. exact H.
  - destruct H as [E H]. split; [exact E|]. destruct (flagx s m1 m2) eqn:Ef; [|exact I].
    destruct (flagx_true _ _ _ Ef) as [-> Hs]. destruct m2; [reflexivity|]. rewrite Hs in H. exact H.
Qed.
Lemma sim_look bf bx inv sv x y : sim bf bx x y -> sim true true (look inv sv x) (look inv sv y).
Proof.
  intros [->|H]; [left; reflexivity|]. right.
  dres x; dres y; simpl in *; try contradiction; auto; try (destruct inv; simpl; auto; fail).
  destruct H as [E _]. split; auto.
Qed.

Lemma bind_sim bf bx x y k1 k2 : sim bf bx x y -> (forall c, sim bf bx (k1 c) (k2 c)) -> sim bf bx (bind x k1) (bind y k2).
Proof.
  intros [->|H] Hk; [left; reflexivity|].
  dres x; dres y; simpl in H; try contradiction; simpl.
  - subst. apply sim_prepend, Hk.
  - right. exact H.
  - right. exact H.
  - right. exact I.
Qed.

Lemma ok_or_err_not_oof o : ok_or_err o <> Oof.
Proof. destruct o; discriminate. Qed.
Lemma ptb_not_oof ch pk t c : peek_test_bump ch pk t c <> Oof.
Proof. unfold peek_test_bump, bump_help. destruct (do_peek pk c) as [|v n|]; try discriminate. destruct (t v); try discriminate. apply ok_or_err_not_oof. Qed.
Lemma eval_atom_not_oof eol h c x : eval_atom eol h c = Some x -> x <> Oof.
Proof.
  destruct h; try (destruct pk); simpl; intros H; try discriminate; injection H as <-; try discriminate;
  try apply ok_or_err_not_oof; try apply ptb_not_oof.
  all: unfold bump_help; repeat (match goal with |- context [match ?t with _ => _ end] => destruct t end); try discriminate; try apply ok_or_err_not_oof.
Qed.

(* the common step: split a related pair of callee results *)
Ltac split_sim K x y :=
  destruct K as [K|K]; [rewrite K; left; reflexivity|]; dres x; dres y; simpl in K; try contradiction.

Section Cong.
Variable C : cfg.
Variables e1 e2 : callee.
Variable R : rid -> rid -> Prop.
Variable s : bool.
Hypothesis HR : forall r1 r2, R r1 r2 -> forall d1 d2 c, Sim s (dM d1) (dM d2) (e1 d1 r1 c) (e2 d2 r2 c).

Lemma HR_req r1 r2 d1 d2 c : R r1 r2 -> sim true s (e1 (req d1) r1 c) (e2 (req d2) r2 c).
Proof. intros H. pose proof (HR _ _ H (req d1) (req d2) c) as K. unfold Sim in K. simpl in K. rewrite flagf_tt, flagx_tt in K. exact K. Qed.
Lemma HR_opt r1 r2 d1 d2 c : R r1 r2 -> sim s s (e1 (opt_ d1) r1 c) (e2 (opt_ d2) r2 c).
Proof. intros H. pose proof (HR _ _ H (opt_ d1) (opt_ d2) c) as K. unfold Sim in K. simpl in K. rewrite flagf_ff, flagx_ff in K. exact K. Qed.

Lemma seq_all_sim d1 d2 rs1 rs2 : Forall2 R rs1 rs2 ->
  forall c, Sim s (dM d1) (dM d2) (seq_all e1 d1 rs1 c) (seq_all e2 d2 rs2 c).
Proof.
  induction 1 as [|r1 r2 rs1 rs2 Hr F IH]; intros c; simpl.
  - right. simpl. reflexivity.
  - apply bind_sim; [apply HR; exact Hr | exact IH].
Qed.
Lemma seq_all_sim_req d1 d2 rs1 rs2 c : Forall2 R rs1 rs2 -> sim true s (seq_all e1 (req d1) rs1 c) (seq_all e2 (req d2) rs2 c).
Proof. intros F. pose proof (seq_all_sim (req d1) (req d2) rs1 rs2 F c) as K. unfold Sim in K. simpl in K. rewrite flagf_tt, flagx_tt in K. exact K. Qed.

Lemma sor_any_sim d1 d2 rs1 rs2 : Forall2 R rs1 rs2 ->
  forall c, Sim s (dM d1) (dM d2) (sor_any e1 d1 rs1 c) (sor_any e2 d2 rs2 c).
Proof.
  induction 1 as [|r1 r2 rs1 rs2 Hr F IH]; intros c.
  - right. simpl. destruct (flagf s (dM d1) (dM d2)); auto.
  - destruct F as [|r1' r2' rs1' rs2' Hr' F'].
    + simpl. apply HR; exact Hr.
    + change (sor_any e1 d1 (r1 :: r1' :: rs1') c) with
        (match e1 (req d1) r1 c with Res Fail c' evs => prepend evs (sor_any e1 d1 (r1' :: rs1') c') | x => x end).
      change (sor_any e2 d2 (r2 :: r2' :: rs2') c) with
        (match e2 (req d2) r2 c with Res Fail c' evs => prepend evs (sor_any e2 d2 (r2' :: rs2') c') | x => x end).
      pose proof (HR_req r1 r2 d1 d2 c Hr) as K. split_sim K (e1 (req d1) r1 c) (e2 (req d2) r2 c).
      * right. simpl. exact K.
      * subst. apply sim_prepend, IH.
      * right. simpl. destruct K as [E K]. split; [exact E|].
        destruct (flagx s (dM d1) (dM d2)) eqn:Ef; [|exact I]. destruct (flagx_true _ _ _ Ef) as [_ Hs]. rewrite Hs in K. exact K.
      * right. exact I.
Qed.

Lemma star_loop_sim d1 d2 rs1 rs2 : Forall2 R rs1 rs2 -> forall n1 n2, n1 <= n2 ->
  forall c, sim true s (star_loop e1 n1 d1 rs1 c) (star_loop e2 n2 d2 rs2 c).
Proof.
  intros F. induction n1 as [|n1 IH]; intros n2 Hn c; [left; reflexivity|].
  destruct n2 as [|n2]; [lia|]. simpl.
  pose proof (seq_all_sim_req d1 d2 rs1 rs2 c F) as K.
  split_sim K (seq_all e1 (req d1) rs1 c) (seq_all e2 (req d2) rs2 c).
  - subst. apply sim_prepend, IH. lia.
  - subst. right. simpl. reflexivity.
  - right. simpl. exact K.
  - right. exact I.
Qed.

Lemma until1_sim d1 d2 cn1 cn2 : R cn1 cn2 -> forall n1 n2, n1 <= n2 ->
  forall c, sim true s (until1_loop C e1 n1 d1 cn1 c) (until1_loop C e2 n2 d2 cn2 c).
Proof.
  intros Hr. induction n1 as [|n1 IH]; intros n2 Hn c; [left; reflexivity|].
  destruct n2 as [|n2]; [lia|]. cbn [until1_loop].
  pose proof (HR_req cn1 cn2 d1 d2 c Hr) as K. split_sim K (e1 (req d1) cn1 c) (e2 (req d2) cn2 c).
  - right. simpl. exact K.
  - subst. destruct (in_empty c1); [right; simpl; reflexivity|].
    destruct (bump_scan _ 1 c1); [|right; exact I].
    apply sim_prepend, IH. lia.
  - right. simpl. exact K.
  - right. exact I.
Qed.

Lemma until2_sim d1 d2 cn1 cn2 r1 r2 : R cn1 cn2 -> R r1 r2 -> forall n1 n2, n1 <= n2 ->
  forall c, sim s s (until2_loop e1 n1 d1 cn1 r1 c) (until2_loop e2 n2 d2 cn2 r2 c).
Proof.
  intros Hc Hr. induction n1 as [|n1 IH]; intros n2 Hn c; [left; reflexivity|].
  destruct n2 as [|n2]; [lia|]. simpl.
  pose proof (HR_req cn1 cn2 d1 d2 c Hc) as K. split_sim K (e1 (req d1) cn1 c) (e2 (req d2) cn2 c).
  - right. simpl. exact K.
  - subst. pose proof (HR_opt r1 r2 d1 d2 c1 Hr) as K2. split_sim K2 (e1 (opt_ d1) r1 c1) (e2 (opt_ d2) r2 c1).
    + subst. apply sim_prepend, IH. lia.
    + right. simpl. exact K2.
    + right. simpl. exact K2.
    + right. exact I.
  - right. simpl. exact K.
  - right. exact I.
Qed.

Lemma rep_loop_sim k d1 d2 r1 r2 : R r1 r2 ->
  forall c, Sim s (dM d1) (dM d2) (rep_loop e1 k d1 r1 c) (rep_loop e2 k d2 r2 c).
Proof.
  intros Hr. induction k as [|k IH]; intros c; simpl; [right; simpl; reflexivity|].
  apply bind_sim; [apply HR; exact Hr | exact IH].
Qed.

Lemma repopt_loop_sim k d1 d2 r1 r2 : R r1 r2 -> forall c,
  fst (repopt_loop e1 k d1 r1 c) = Oof \/
  (oeq true s (fst (repopt_loop e1 k d1 r1 c)) (fst (repopt_loop e2 k d2 r2 c)) /\
   snd (repopt_loop e1 k d1 r1 c) = snd (repopt_loop e2 k d2 r2 c)).
Proof.
  intros Hr. induction k as [|k IH]; intros c; simpl; [right; split; reflexivity|].
  pose proof (HR_req r1 r2 d1 d2 c Hr) as K.
  destruct K as [K|K]; [rewrite K; left; reflexivity|].
  dres (e1 (req d1) r1 c); dres (e2 (req d2) r2 c); simpl in K; try contradiction.
  - subst. specialize (IH c1).
    destruct (repopt_loop e1 k d1 r1 c1) as [x1 b1]. destruct (repopt_loop e2 k d2 r2 c1) as [x2 b2]. simpl in *.
    destruct IH as [->|[H1 H2]]; [left; reflexivity|]. right. split; [|exact H2].
    dres x1; dres x2; simpl in *; auto.
  - subst. right. split; reflexivity.
  - right. split; [exact K | reflexivity].
  - right. split; [exact I | reflexivity].
Qed.

Lemma h_seq_sim d1 d2 rs1 rs2 c : Forall2 R rs1 rs2 ->
  Sim s (dM d1) (dM d2) (h_seq e1 d1 rs1 c) (h_seq e2 d2 rs2 c).
Proof.
  intros F. unfold h_seq. destruct F as [|r1 r2 rs1 rs2 Hr F].
  - right. simpl. reflexivity.
  - destruct F as [|r1' r2' rs1' rs2' Hr' F'].
    + apply HR; exact Hr.
    + apply sim_guard. apply (seq_all_sim (opt_ d1) (opt_ d2)). constructor; [exact Hr|]. constructor; assumption.
Qed.

Lemma h_at_sim inv d1 d2 r1 r2 c : R r1 r2 -> sim true true (h_at e1 inv d1 r1 c) (h_at e2 inv d2 r2 c).
Proof. intros Hr. unfold h_at. eapply sim_look. apply HR; exact Hr. Qed.

Lemma Sim_of_true_s s' m1 m2 x y : sim true s' x y -> Sim s' m1 m2 x y.
Proof. apply sim_weaken; [auto|]. intros H. destruct (flagx_true _ _ _ H) as [_ ->]. reflexivity. Qed.

Lemma h_plus_sim n1 n2 d1 d2 r1 r2 c : n1 <= n2 -> R r1 r2 ->
  Sim s (dM d1) (dM d2) (h_plus e1 n1 d1 r1 c) (h_plus e2 n2 d2 r2 c).
Proof.
  intros Hn Hr. unfold h_plus. apply bind_sim; [apply HR; exact Hr|].
  intros c1. apply Sim_of_true_s. apply star_loop_sim; [constructor; [exact Hr | constructor] | exact Hn].
Qed.

Lemma h_partial_sim d1 d2 rs1 rs2 c : Forall2 R rs1 rs2 -> sim true s (h_partial e1 d1 rs1 c) (h_partial e2 d2 rs2 c).
Proof.
  intros F. unfold h_partial.
  pose proof (seq_all_sim_req d1 d2 rs1 rs2 c F) as K.
  split_sim K (seq_all e1 (req d1) rs1 c) (seq_all e2 (req d2) rs2 c); right; simpl; auto.
Qed.

Lemma h_rep_sim k d1 d2 r1 r2 c : R r1 r2 -> Sim s (dM d1) (dM d2) (h_rep e1 k d1 r1 c) (h_rep e2 k d2 r2 c).
Proof. intros Hr. unfold h_rep. apply sim_guard. apply (rep_loop_sim k (opt_ d1) (opt_ d2)); exact Hr. Qed.

Lemma h_rep_opt_sim k d1 d2 r1 r2 c : R r1 r2 -> sim true s (h_rep_opt e1 k d1 r1 c) (h_rep_opt e2 k d2 r2 c).
Proof.
  intros Hr. unfold h_rep_opt. destruct (repopt_loop_sim k d1 d2 r1 r2 Hr c) as [K|[K _]]; [left; exact K | right; exact K].
Qed.

Lemma h_rep_min_max_sim mn mx d1 d2 r1 r2 c : R r1 r2 ->
  Sim s (dM d1) (dM d2) (h_rep_min_max e1 mn mx d1 r1 c) (h_rep_min_max e2 mn mx d2 r2 c).
Proof.
  intros Hr. unfold h_rep_min_max. apply sim_guard. apply bind_sim.
  - apply (rep_loop_sim mn (opt_ d1) (opt_ d2)); exact Hr.
  - intros c1. unfold Sim. rewrite flagf_ff, flagx_ff.
    destruct (repopt_loop_sim (mx - mn) d1 d2 r1 r2 Hr c1) as [K|[K1 K2]].
    + destruct (repopt_loop e1 (mx - mn) d1 r1 c1) as [x1 b1]. simpl in K. subst x1. destruct b1; left; reflexivity.
    + destruct (repopt_loop e1 (mx - mn) d1 r1 c1) as [x1 b1]. destruct (repopt_loop e2 (mx - mn) d2 r2 c1) as [x2 b2].
      simpl in K1, K2. subst b2.
      dres x1; dres x2; simpl in K1; try contradiction.
      * subst. destruct b1.
        -- apply sim_prepend. apply sim_tt_any. apply (h_at_sim true (opt_ d1) (opt_ d2)); exact Hr.
        -- right. simpl. reflexivity.
      * right. simpl. destruct s; auto.
      * right. simpl. destruct K1 as [E K1]. split; [exact E|]. exact K1.
      * right. exact I.
Qed.

Lemma h_if_then_else_sim d1 d2 cn1 cn2 t1 t2 x1 x2 c : R cn1 cn2 -> R t1 t2 -> R x1 x2 ->
  Sim s (dM d1) (dM d2) (h_if_then_else e1 d1 cn1 t1 x1 c) (h_if_then_else e2 d2 cn2 t2 x2 c).
Proof.
  intros Hc Ht Hx. unfold h_if_then_else. apply sim_guard. unfold Sim. rewrite flagf_ff, flagx_ff.
  pose proof (HR_req cn1 cn2 d1 d2 c Hc) as K. split_sim K (e1 (req d1) cn1 c) (e2 (req d2) cn2 c).
  - subst. apply sim_prepend. apply HR_opt; exact Ht.
  - subst. apply sim_prepend. apply HR_opt; exact Hx.
  - right. simpl. destruct K as [E K]. split; [exact E|]. exact K.
  - right. exact I.
Qed.

(* if_must: the second sub-rule is must< ... >, which never fails locally (nofail on the left callee) *)
Definition nofail (e : callee) (r : rid) : Prop := forall d c c' evs, e d r c <> Res Fail c' evs.

Lemma h_if_must_sim dflt d1 d2 cn1 cn2 rest1 rest2 c : R cn1 cn2 -> Forall2 R rest1 rest2 ->
  (forall m, In m rest1 -> nofail e1 m) ->
  Sim s (dM d1) (dM d2) (h_if_must e1 dflt d1 cn1 rest1 c) (h_if_must e2 dflt d2 cn2 rest2 c).
Proof.
  intros Hc F Hnf. unfold h_if_must.
  assert (K : Sim s (dM d1 || dflt) (dM d2 || dflt)
                  (e1 (if dflt then req d1 else d1) cn1 c) (e2 (if dflt then req d2 else d2) cn2 c)).
  { destruct dflt.
    - rewrite !orb_true_r. apply (HR _ _ Hc (req d1) (req d2)).
    - rewrite !orb_false_r. apply HR; exact Hc. }
  unfold Sim in K.
  split_sim K (e1 (if dflt then req d1 else d1) cn1 c) (e2 (if dflt then req d2 else d2) cn2 c).
  - subst. destruct F as [|m1 m2 rest1 rest2 Hm F]; [right; simpl; reflexivity|].
    pose proof (HR _ _ Hm d1 d2 c1) as K2. unfold Sim in K2.
    pose proof (Hnf m1 (or_introl eq_refl) d1 c1) as Hn.
    split_sim K2 (e1 d1 m1 c1) (e2 d2 m2 c1).
    + right. simpl. exact K2.
    + exfalso. eapply Hn. reflexivity.
    + right. simpl. exact K2.
    + right. exact I.
  - destruct dflt; right; simpl.
    + rewrite !orb_true_r, flagf_tt in K. exact K.
    + rewrite !orb_false_r in K. exact K.
  - right. simpl. destruct K as [E K]. split; [exact E|]. destruct dflt.
    + rewrite !orb_true_r, flagx_tt in K. destruct (flagx s (dM d1) (dM d2)) eqn:Ef; [|exact I].
      destruct (flagx_true _ _ _ Ef) as [_ Hs]. rewrite Hs in K. exact K.
    + rewrite !orb_false_r in K. exact K.
  - right. exact I.
Qed.

(* must: same sub-rule on both sides, related in the SELF sense (same mode -> same failure cursor) *)
Lemma h_must_sim d1 d2 r c :
  (forall d1 d2 c, Sim true (dM d1) (dM d2) (e1 d1 r c) (e2 d2 r c)) ->
  sim true true (h_must e1 d1 r c) (h_must e2 d2 r c).
Proof.
  intros Hs. unfold h_must, raise_at. pose proof (Hs (opt_ d1) (opt_ d2) c) as K. unfold Sim in K. simpl in K.
  split_sim K (e1 (opt_ d1) r c) (e2 (opt_ d2) r c); right; simpl; auto.
  subst. split; reflexivity.
Qed.

Lemma h_strict_sim d1 d2 r1 r2 rs1 rs2 c : R r1 r2 -> Forall2 R rs1 rs2 ->
  Sim s (dM d1) (dM d2) (h_strict e1 d1 r1 rs1 c) (h_strict e2 d2 r2 rs2 c).
Proof.
  intros Hr F. unfold h_strict. apply sim_guard. unfold Sim. rewrite flagf_ff, flagx_ff.
  pose proof (HR_req r1 r2 d1 d2 c Hr) as K. split_sim K (e1 (req d1) r1 c) (e2 (req d2) r2 c).
  - subst. apply sim_prepend. pose proof (h_seq_sim (opt_ d1) (opt_ d2) rs1 rs2 c1 F) as K2.
    unfold Sim in K2. simpl in K2. rewrite flagf_ff, flagx_ff in K2. exact K2.
  - subst. right. simpl. reflexivity.
  - right. simpl. destruct K as [E K]. split; [exact E | exact K].
  - right. exact I.
Qed.

Lemma star_strict_sim d1 d2 r1 r2 rs1 rs2 : R r1 r2 -> Forall2 R rs1 rs2 -> forall n1 n2, n1 <= n2 ->
  forall c, sim s s (star_strict_loop e1 n1 d1 r1 rs1 c) (star_strict_loop e2 n2 d2 r2 rs2 c).
Proof.
  intros Hr F. induction n1 as [|n1 IH]; intros n2 Hn c; [left; reflexivity|].
  destruct n2 as [|n2]; [lia|]. simpl.
  pose proof (HR_req r1 r2 d1 d2 c Hr) as K. split_sim K (e1 (req d1) r1 c) (e2 (req d2) r2 c).
  - subst. pose proof (h_seq_sim (opt_ d1) (opt_ d2) rs1 rs2 c1 F) as K2.
    unfold Sim in K2. simpl in K2. rewrite flagf_ff, flagx_ff in K2.
    split_sim K2 (h_seq e1 (opt_ d1) rs1 c1) (h_seq e2 (opt_ d2) rs2 c1).
    + subst. apply sim_prepend, IH. lia.
    + right. simpl. exact K2.
    + right. simpl. exact K2.
    + right. exact I.
  - subst. right. simpl. reflexivity.
  - right. simpl. destruct K as [E K]. split; [exact E | exact K].
  - right. exact I.
Qed.

Lemma rematch_all_sim d1 d2 rs1 rs2 i2 : Forall2 R rs1 rs2 ->
  sim false false (rematch_all e1 d1 rs1 i2) (rematch_all e2 d2 rs2 i2).
Proof.
  induction 1 as [|r1 r2 rs1 rs2 Hr F IH]; simpl; [right; simpl; reflexivity|].
  pose proof (HR _ _ Hr d1 d2 i2) as K. apply sim_ff in K.
  split_sim K (e1 d1 r1 i2) (e2 d2 r2 i2).
  - apply sim_prepend. exact IH.
  - right. simpl. exact I.
  - right. simpl. exact K.
  - right. exact I.
Qed.

Lemma h_rematch_sim d1 d2 hd1 hd2 rs1 rs2 c : R hd1 hd2 -> Forall2 R rs1 rs2 ->
  Sim s (dM d1) (dM d2) (h_rematch e1 d1 hd1 rs1 c) (h_rematch e2 d2 hd2 rs2 c).
Proof.
  intros Hh F. unfold h_rematch. destruct F as [|r1 r2 rs1 rs2 Hr F]; [apply HR; exact Hh|].
  pose proof (HR _ _ Hh (opt_ d1) (opt_ d2) c) as K. apply sim_ff in K.
  split_sim K (e1 (opt_ d1) hd1 c) (e2 (opt_ d2) hd2 c).
  - subst. destruct (take (length (rest c) - length (rest c1)) (rest c)) as [span|]; [|right; exact I].
    pose proof (rematch_all_sim (opt_ d1) (opt_ d2) (r1 :: rs1) (r2 :: rs2) (mkcur span (cpos c)) (Forall2_cons _ _ Hr F)) as K2.
    split_sim K2 (rematch_all e1 (opt_ d1) (r1 :: rs1) (mkcur span (cpos c))) (rematch_all e2 (opt_ d2) (r2 :: rs2) (mkcur span (cpos c)));
      right; simpl; auto.
    + destruct (flagf s (dM d1) (dM d2)); auto.
    + destruct K2 as [E _]. split; [exact E|]. destruct (flagx s (dM d1) (dM d2)); auto.
  - right. simpl. destruct (flagf s (dM d1) (dM d2)); auto.
  - right. simpl. destruct K as [E _]. split; [exact E|]. destruct (flagx s (dM d1) (dM d2)); auto.
  - right. exact I.
Qed.

Lemma pick_cursor (b : bool) m1 m2 (c c1 c2 : cursor) :
  (b = true -> m1 = m2 /\ (m1 = false -> c1 = c2)) ->
  if b then (if m1 then c else c1) = (if m2 then c else c2) else True.
Proof. destruct b; [|auto]. intros H. destruct (H eq_refl) as [-> K]. destruct m2; [reflexivity | apply K; reflexivity]. Qed.

Lemma h_try_false_sim f d1 d2 r1 r2 c : R r1 r2 ->
  Sim s (dM d1) (dM d2) (h_try_false e1 f d1 r1 c) (h_try_false e2 f d2 r2 c).
Proof.
  intros Hr. unfold h_try_false. pose proof (HR_opt r1 r2 d1 d2 c Hr) as K.
  split_sim K (e1 (opt_ d1) r1 c) (e2 (opt_ d2) r2 c).
  - right. simpl. exact K.
  - right. simpl. apply pick_cursor. intros Ef. destruct (flagf_true _ _ _ Ef) as [E Hs]. split; [exact E|].
    intros Hm. rewrite (Hs Hm) in K. exact K.
  - destruct K as [E K]. subst. right. simpl. destruct (catches f e0); simpl.
    + apply pick_cursor. intros Ef. destruct (flagf_true _ _ _ Ef) as [E Hs]. split; [exact E|].
      intros Hm. rewrite (Hs Hm) in K. exact K.
    + split; [reflexivity|]. apply pick_cursor. intros Ef. destruct (flagx_true _ _ _ Ef) as [E Hs]. split; [exact E|].
      intros _. rewrite Hs in K. exact K.
  - right. exact I.
Qed.

(* raise_nested names the sub-rule: same sub-rule on both sides *)
Lemma h_try_nested_sim f d1 d2 r c :
  (forall d1 d2 c, Sim true (dM d1) (dM d2) (e1 d1 r c) (e2 d2 r c)) ->
  sim true true (h_try_nested e1 f d1 r c) (h_try_nested e2 f d2 r c).
Proof.
  intros Hs. unfold h_try_nested. pose proof (Hs (opt_ d1) (opt_ d2) c) as K. unfold Sim in K. simpl in K.
  split_sim K (e1 (opt_ d1) r c) (e2 (opt_ d2) r c).
  - right. simpl. exact K.
  - right. simpl. reflexivity.
  - destruct K as [E _]. subst. right. destruct (catches f e0); simpl; split; reflexivity.
  - right. exact I.
Qed.

(* ---------- the dispatch ---------- *)
(* heads whose result names a sub-rule (the raising rule): the sub-rule must be the same on both sides *)
Definition names_sub (h : head) : bool :=
  match h with HMust | HRaise | HTryCatchNested _ => true | _ => false end.
(* inline actions (apply<>, apply0<>, if_apply<>) are user code; C09 is stated for grammars without them *)
Definition head_plain (h : head) : Prop :=
  match h with HApply (_ :: _) | HApply0 (_ :: _) | HIfApply (_ :: _) => False | _ => True end.

Lemma eval_head_sim n1 n2 self1 self2 h subs1 subs2 d1 d2 c :
  n1 <= n2 -> head_plain h -> Forall2 R subs1 subs2 ->
  (names_sub h = true -> subs1 = subs2 /\ forall r, In r subs1 -> forall d1 d2 c, Sim true (dM d1) (dM d2) (e1 d1 r c) (e2 d2 r c)) ->
  (forall dflt, h = HIfMust dflt -> forall m, In m (tl subs1) -> nofail e1 m) ->
  Sim s (dM d1) (dM d2) (eval_head C e1 n1 self1 h subs1 d1 c) (eval_head C e2 n2 self2 h subs2 d2 c).
Proof.
  intros Hn Hp F Hnm Hnf. unfold eval_head.
  destruct (eval_atom (ceol C) h c) as [x|] eqn:Ea.
  { right. unfold Sim. apply oeq_refl. eapply eval_atom_not_oof; eauto. }
  assert (Hfail : Sim s (dM d1) (dM d2) (Res Fail c []) (Res Fail c [])).
  { right. simpl. destruct (flagf s (dM d1) (dM d2)); auto. }
  destruct h; try exact Hfail; try (simpl in Ea; discriminate).
  - apply h_seq_sim; exact F.
  - apply sor_any_sim; exact F.
  - apply Sim_of_true_s. apply star_loop_sim; [exact F | exact Hn].
  - destruct F as [|r1 r2 ? ? Hr [|? ? ? ? ? ?]]; try exact Hfail. apply h_plus_sim; [exact Hn | exact Hr].
  - apply Sim_of_true_s. apply h_partial_sim; exact F.
  - destruct F as [|r1 r2 ? ? Hr [|? ? ? ? ? ?]]; try exact Hfail. apply sim_tt_any. apply h_at_sim; exact Hr.
  - destruct F as [|r1 r2 ? ? Hr [|? ? ? ? ? ?]]; try exact Hfail. apply sim_tt_any. apply h_at_sim; exact Hr.
  - destruct F as [|r1 r2 ? ? Hr [|? ? ? ? ? ?]]; try exact Hfail. unfold h_until1. apply sim_guard.
    apply Sim_of_true_s. apply until1_sim; [exact Hr | exact Hn].
  - destruct F as [|cn1 cn2 ? ? Hc [|r1 r2 ? ? Hr [|? ? ? ? ? ?]]]; try exact Hfail. unfold h_until2. apply sim_guard.
    unfold Sim. rewrite flagf_ff, flagx_ff. apply until2_sim; [exact Hc | exact Hr | exact Hn].
  - destruct F as [|r1 r2 ? ? Hr [|? ? ? ? ? ?]]; try exact Hfail. apply h_rep_sim; exact Hr.
  - destruct F as [|r1 r2 ? ? Hr [|? ? ? ? ? ?]]; try exact Hfail. apply h_rep_min_max_sim; exact Hr.
  - destruct F as [|r1 r2 ? ? Hr [|? ? ? ? ? ?]]; try exact Hfail. apply Sim_of_true_s. apply h_rep_opt_sim; exact Hr.
  - destruct F as [|cn1 cn2 ? ? Hc [|t1 t2 ? ? Ht [|x1 x2 ? ? Hx [|? ? ? ? ? ?]]]]; try exact Hfail.
    apply h_if_then_else_sim; assumption.
  - destruct F as [|cn1 cn2 rest1 rest2 Hc F]; try exact Hfail. apply h_if_must_sim; [exact Hc | exact F|].
    intros m Hm. eapply Hnf; [reflexivity | exact Hm].
  - destruct (Hnm eq_refl) as [-> Hs]. destruct subs2 as [|r1 [|? ?]]; try exact Hfail. apply sim_tt_any.
    apply h_must_sim. apply Hs. left; reflexivity.
  - destruct (Hnm eq_refl) as [-> Hs]. destruct subs2 as [|t [|? ?]]; try exact Hfail.
    right. simpl. split; [reflexivity|]. destruct (flagx s (dM d1) (dM d2)); auto.
  - destruct F as [|r1 r2 rs1 rs2 Hr F]; try exact Hfail. apply h_strict_sim; assumption.
  - destruct F as [|r1 r2 rs1 rs2 Hr F]; try exact Hfail. unfold h_star_strict. apply sim_guard.
    unfold Sim. rewrite flagf_ff, flagx_ff. apply star_strict_sim; assumption.
  - destruct F as [|r1 r2 rs1 rs2 Hr F]; try exact Hfail. apply h_rematch_sim; assumption.
  - destruct F as [|r1 r2 ? ? Hr [|? ? ? ? ? ?]]; try exact Hfail. apply h_try_false_sim; exact Hr.
  - destruct (Hnm eq_refl) as [-> Hs]. destruct subs2 as [|r1 [|? ?]]; try exact Hfail.
    apply sim_tt_any. apply h_try_nested_sim. apply Hs. left; reflexivity.
  - destruct F as [|r1 r2 ? ? Hr [|? ? ? ? ? ?]]; try exact Hfail. apply sim_st_scope. apply HR; exact Hr.
  - destruct F as [|r1 r2 ? ? Hr [|? ? ? ? ? ?]]; try exact Hfail. apply (HR _ _ Hr (set_act d1 fam) (set_act d2 fam)).
  - destruct F as [|r1 r2 ? ? Hr [|? ? ? ? ? ?]]; try exact Hfail. apply (HR _ _ Hr (set_ctl d1 ctl) (set_ctl d2 ctl)).
  - destruct F as [|r1 r2 ? ? Hr [|? ? ? ? ? ?]]; try exact Hfail. apply (HR _ _ Hr (set_A d1 true) (set_A d2 true)).
  - destruct F as [|r1 r2 ? ? Hr [|? ? ? ? ? ?]]; try exact Hfail. apply (HR _ _ Hr (set_A d1 false) (set_A d2 false)).
  - destruct acts; [|contradiction]. destruct F; try exact Hfail. unfold h_apply. simpl.
    right. destruct (dA d1), (dA d2); simpl; reflexivity.
  - destruct acts; [|contradiction]. destruct F; try exact Hfail. unfold h_apply0. simpl.
    right. destruct (dA d1), (dA d2); simpl; reflexivity.
  - destruct acts; [|contradiction]. destruct F as [|r1 r2 ? ? Hr [|? ? ? ? ? ?]]; try exact Hfail.
    unfold h_if_apply. simpl. rewrite !andb_false_r. apply HR; exact Hr.
Qed.

End Cong.
