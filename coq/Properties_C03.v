(* Properties_C03.v — C03: no rule reads or consumes outside the bounds of the input.
   In the model every atom and decoder is written against the input API (size / peek_at / take /
   bump functions); an access outside [current, end) yields the result Err (POob inside a decoder).
   The model input has nothing after its last byte (no terminator), and sub-inputs (rematch,
   limit_bytes) are cursors over a shorter list, so the theorems quantify over them as well. *)
From PegtlV Require Import Base Decode Grammar Engine EngineFacts AtomFacts.

Theorem C03_no_oob :
  forall G C f d r c, table_wf G -> eval G C f d r c <> Err.
Proof.
  intros G C f d r c HG H. pose proof (eval_goodT G C f d r c HG) as K. rewrite H in K. exact K.
Qed.
Print Assumptions C03_no_oob.

(* the cursor never passes the end: what remains is always a suffix of what was there *)
Theorem C03_cursor_within :
  forall G C f d r c o c' evs, table_wf G -> eval G C f d r c = Res o c' evs ->
    exists consumed, rest c = consumed ++ rest c'.
Proof.
  intros G C f d r c o c' evs HG H.
  pose proof (eval_goodT G C f d r c HG) as K. rewrite H in K.
  destruct o as [| |e]; simpl in K.
  - destruct K as [pre [K _]]; exists pre; exact K.
  - destruct (dM d); [subst c'; exists []; reflexivity | destruct K as [pre [K _]]; exists pre; exact K].
  - destruct K as [pre [K _]]; exists pre; exact K.
Qed.
Print Assumptions C03_cursor_within.

(* every decoder: never an out-of-bounds read, and a reported unit size is available *)
Theorem C03_decoders_in_bounds :
  forall pk c, peek_wf pk ->
    match do_peek pk c with POob => False | PNone => True | PSome _ n => (1 <= n <= in_size c)%nat end.
Proof. exact do_peek_safe. Qed.
Print Assumptions C03_decoders_in_bounds.

(* non-vacuity: a truncated 3-byte UTF-8 unit at the very end of an exact-size input fails cleanly *)
Example C03_example_truncated_utf8 :
  eval [mknode (HAny PkUtf8) [] true]
       (mkcfg EolLfCrlf (fun _ _ => AKNone) (fun _ _ _ _ => ARet true) (fun _ _ _ => ARet true) (fun _ => true) (fun _ _ => false))
       5 (mkdyn true true 0 0 0) 0%nat (mkcur [226; 130]%N pos0)
  = Res Fail (mkcur [226; 130]%N pos0)
      [EEnter 0 0 true true pos0; EHook HkStart 0 0 pos0; EHook HkFailure 0 0 pos0; EExit 0 0 (Some false) pos0].
Proof. vm_compute. reflexivity. Qed.
Print Assumptions C03_example_truncated_utf8.
