(* ExtractContrib.v — extraction of the contrib models (Contrib.v) for the Contrib correspondence
   (ExtrOcamlBasic only; numbers stay Coq's positive/N/Z/nat inductives). *)
From PegtlV Require Import Base Decode Grammar Engine Contrib.
From Coq Require Import Extraction ExtrOcamlBasic.
Extraction Language OCaml.
Extraction "contrib_model.ml"
  rep_one_min_max predicates chunk_size chunk_data http_chunk_noext
  sz_mem sz_min avail_min in_size pos0 N.add N.mul N.of_nat.
