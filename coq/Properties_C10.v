(* Properties_C10.v — property C10: character-class and encoding rules accept exactly the
   documented sets.  Theorems only; every proof is `exact <lemma of DecodeFacts.v>`.
   Model side : Decode.v (Peek decoders), Engine.v (eval_atom).
   Spec side  : Utf.v (RFC 3629 table + reference encoder, UTF-16/32, positional integers,
                documented class sets, ASCII folding). *)
From Coq Require Import Ascii String.
From PegtlV Require Import Base Decode Grammar Engine Utf DecodeFacts.
Local Close Scope string_scope.
Local Open Scope N_scope.

(* ====================================== UTF-8 ========================================= *)

(* peek_utf8 succeeds with (cp, n) exactly when the first n bytes are the RFC 3629 encoding of cp *)
Theorem utf8_decode_exact : forall bs p, Forall is_byte bs -> forall v n,
  peek_utf8 (mkcur bs p) = PSome v n <-> exists cp, v = Z.of_N cp /\ wf_utf8_prefix bs cp n.
Proof. exact utf8_decode_exact_l. Qed.
Print Assumptions utf8_decode_exact.

(* ... and answers "no match" in every other case (truncations, overlongs, surrogates, > 10FFFF,
   stray continuation bytes, leads F8..FF, empty input) *)
Theorem utf8_decode_none : forall bs p, Forall is_byte bs ->
  (peek_utf8 (mkcur bs p) = PNone <-> ~ exists cp n, wf_utf8_prefix bs cp n).
Proof. exact utf8_decode_none_l. Qed.
Print Assumptions utf8_decode_none.

(* no access outside [current,end), for any cursor *)
Theorem utf8_never_oob : forall c, peek_utf8 c <> POob.
Proof. exact peek_utf8_never_oob. Qed.
Print Assumptions utf8_never_oob.

(* the RFC's table of byte ranges = shortest-form encodings of scalar values by the RFC's encoder *)
Theorem utf8_table_iff_encoder : forall cp u, utf8_enc cp u <-> scalar cp /\ u = encode_utf8 cp.
Proof. exact utf8_enc_iff_encode. Qed.
Print Assumptions utf8_table_iff_encoder.

(* the same exactness statement against the reference encoder *)
Theorem utf8_decode_encode : forall bs p, Forall is_byte bs -> forall v n,
  peek_utf8 (mkcur bs p) = PSome v n <->
  exists cp, scalar cp /\ v = Z.of_N cp /\ n = length (encode_utf8 cp) /\ firstn n bs = encode_utf8 cp.
Proof. exact utf8_decode_encode_l. Qed.
Print Assumptions utf8_decode_encode.

Theorem utf8_roundtrip : forall cp tl p, scalar cp -> Forall is_byte tl ->
  peek_utf8 (mkcur (encode_utf8 cp ++ tl) p) = PSome (Z.of_N cp) (length (encode_utf8 cp))
  /\ length (encode_utf8 cp) = (if cp <? 0x80 then 1%nat else if cp <? 0x800 then 2%nat else if cp <? 0x10000 then 3%nat else 4%nat).
Proof. exact utf8_roundtrip_l. Qed.
Print Assumptions utf8_roundtrip.

(* all truncations of a valid unit *)
Theorem utf8_truncation_none : forall cp u k p, utf8_enc cp u -> (k < length u)%nat ->
  peek_utf8 (mkcur (firstn k u) p) = PNone.
Proof. exact utf8_truncation_none_l. Qed.
Print Assumptions utf8_truncation_none.

(* the classes of ill-formed input named in the property, explicitly *)
Theorem utf8_rejects : forall bs p, Forall is_byte bs ->
  match bs with
  | [] => True
  | c0 :: t =>
      (0x80 <= c0 <= 0xC1 \/ 0xF5 <= c0) \/
      match t with
      | [] => 0xC2 <= c0
      | c1 :: t1 =>
          (0xC2 <= c0 /\ ~ utf8_tail c1) \/
          (c0 = 0xE0 /\ c1 < 0xA0) \/
          (c0 = 0xED /\ 0xA0 <= c1) \/
          (c0 = 0xF0 /\ c1 < 0x90) \/
          (c0 = 0xF4 /\ 0x90 <= c1) \/
          match t1 with
          | [] => 0xE0 <= c0
          | c2 :: t2 =>
              (0xE0 <= c0 /\ ~ utf8_tail c2) \/
              match t2 with
              | [] => 0xF0 <= c0
              | c3 :: _ => 0xF0 <= c0 /\ ~ utf8_tail c3
              end
          end
      end
  end -> peek_utf8 (mkcur bs p) = PNone.
Proof. exact utf8_rejects_l. Qed.
Print Assumptions utf8_rejects.

Example ex_utf8_spec_4byte : wf_utf8_prefix [0xF0; 0x9F; 0x98; 0x80; 0x41] 0x1F600 4.
Proof.
  exists [0xF0; 0x9F; 0x98; 0x80], [0x41]. split; [reflexivity|]. split; [reflexivity|].
  refine (U8_4a 0x9F 0x98 0x80 _ _ _); unfold utf8_tail; split; discriminate.
Qed.
Print Assumptions ex_utf8_spec_4byte.

Example ex_utf8_decode_4byte :
  peek_utf8 (mkcur [0xF0; 0x9F; 0x98; 0x80; 0x41] pos0) = PSome 0x1F600 4
  /\ peek_utf8 (mkcur [0xE2; 0x82; 0xAC] pos0) = PSome 0x20AC 3
  /\ peek_utf8 (mkcur [0xF4; 0x8F; 0xBF; 0xBF] pos0) = PSome 0x10FFFF 4
  /\ peek_utf8 (mkcur [0xF4; 0x90; 0x80; 0x80] pos0) = PNone       (* U+110000 *)
  /\ peek_utf8 (mkcur [0xED; 0xA0; 0x80] pos0) = PNone             (* U+D800 *)
  /\ peek_utf8 (mkcur [0xE0; 0x9F; 0xBF] pos0) = PNone             (* overlong U+07FF *)
  /\ peek_utf8 (mkcur [0xC0; 0x80] pos0) = PNone                   (* overlong NUL *)
  /\ peek_utf8 (mkcur [0xF0; 0x9F; 0x98] pos0) = PNone.            (* truncated *)
Proof. vm_compute. repeat split. Qed.
Print Assumptions ex_utf8_decode_4byte.

(* ====================================== UTF-16 ======================================== *)

(* e = BE and e = LE: both endiannesses are covered by the quantifier *)
Theorem utf16_decode_exact : forall e bs p, Forall is_byte bs -> forall v n,
  peek_utf16 e (mkcur bs p) = PSome v n <-> exists cp, v = Z.of_N cp /\ wf_utf16_prefix (ord e) bs cp n.
Proof. exact utf16_decode_exact_l. Qed.
Print Assumptions utf16_decode_exact.

Theorem utf16_decode_none : forall e bs p, Forall is_byte bs ->
  (peek_utf16 e (mkcur bs p) = PNone <-> ~ exists cp n, wf_utf16_prefix (ord e) bs cp n).
Proof. exact utf16_decode_none_l. Qed.
Print Assumptions utf16_decode_none.

Theorem utf16_never_oob : forall e c, peek_utf16 e c <> POob.
Proof. exact peek_utf16_never_oob. Qed.
Print Assumptions utf16_never_oob.

Theorem utf16_table_iff_encoder : forall cp us, utf16_enc cp us <-> scalar cp /\ us = encode_utf16 cp.
Proof. exact utf16_enc_iff_encode. Qed.
Print Assumptions utf16_table_iff_encoder.

Theorem utf16_rejects : forall e (bs : list N) p, Forall is_byte bs ->
  match bs with
  | [] => True
  | [_] => True
  | b0 :: b1 :: t =>
      let u := ord_value (ord e) [b0; b1] in
      (0xDC00 <= u <= 0xDFFF) \/
      (0xD800 <= u <= 0xDBFF /\
       match t with
       | b2 :: b3 :: _ => let l := ord_value (ord e) [b2; b3] in l < 0xDC00 \/ 0xDFFF < l
       | _ => True
       end)
  end -> peek_utf16 e (mkcur bs p) = PNone.
Proof. exact utf16_rejects_l. Qed.
Print Assumptions utf16_rejects.

Example ex_utf16_pair :
  peek_utf16 BE (mkcur [0xD8; 0x3D; 0xDE; 0x00; 0x00] pos0) = PSome 0x1F600 4
  /\ peek_utf16 LE (mkcur [0x3D; 0xD8; 0x00; 0xDE] pos0) = PSome 0x1F600 4
  /\ peek_utf16 BE (mkcur [0xDB; 0xFF; 0xDF; 0xFF] pos0) = PSome 0x10FFFF 4
  /\ peek_utf16 BE (mkcur [0xFF; 0xFE] pos0) = PSome 0xFFFE 2
  /\ peek_utf16 BE (mkcur [0xD8; 0x3D; 0xDE] pos0) = PNone          (* truncated pair *)
  /\ peek_utf16 BE (mkcur [0xDC; 0x00; 0xD8; 0x00] pos0) = PNone    (* low surrogate first *)
  /\ peek_utf16 LE (mkcur [0x3D; 0xD8; 0x41; 0x00] pos0) = PNone    (* high surrogate + BMP *)
  /\ wf_utf16_prefix BigEndian [0xD8; 0x3D; 0xDE; 0x00; 0x00] 0x1F600 4.
Proof.
  repeat (split; [vm_compute; reflexivity|]).
  exists [0xD83D; 0xDE00], [0x00]. split; [reflexivity|]. split; [reflexivity|].
  refine (U16_pair 0xD83D 0xDE00 _ _); split; discriminate.
Qed.
Print Assumptions ex_utf16_pair.

(* ====================================== UTF-32 ======================================== *)

Theorem utf32_decode_exact : forall e (bs : list N) p, Forall is_byte bs -> forall v n,
  peek_utf32 e (mkcur bs p) = PSome v n <-> exists cp, v = Z.of_N cp /\ wf_utf32_prefix (ord e) bs cp n.
Proof. exact utf32_decode_exact_l. Qed.
Print Assumptions utf32_decode_exact.

Theorem utf32_decode_none : forall e (bs : list N) p, Forall is_byte bs ->
  (peek_utf32 e (mkcur bs p) = PNone <-> ~ exists cp n, wf_utf32_prefix (ord e) bs cp n).
Proof. exact utf32_decode_none_l. Qed.
Print Assumptions utf32_decode_none.

Theorem utf32_never_oob : forall e c, peek_utf32 e c <> POob.
Proof. exact peek_utf32_never_oob. Qed.
Print Assumptions utf32_never_oob.

Theorem utf32_rejects : forall e (bs : list N) p,
  ((length bs < 4)%nat \/
   (exists b0 b1 b2 b3 t, bs = b0 :: b1 :: b2 :: b3 :: t /\
      let u := ord_value (ord e) [b0; b1; b2; b3] in 0xD800 <= u <= 0xDFFF \/ 0x10FFFF < u)) ->
  peek_utf32 e (mkcur bs p) = PNone.
Proof. exact utf32_rejects_l. Qed.
Print Assumptions utf32_rejects.

Example ex_utf32 :
  peek_utf32 BE (mkcur [0x00; 0x01; 0xF6; 0x00; 0x41] pos0) = PSome 0x1F600 4
  /\ peek_utf32 LE (mkcur [0x00; 0xF6; 0x01; 0x00] pos0) = PSome 0x1F600 4
  /\ peek_utf32 BE (mkcur [0x00; 0x10; 0xFF; 0xFF] pos0) = PSome 0x10FFFF 4
  /\ peek_utf32 BE (mkcur [0x00; 0x11; 0x00; 0x00] pos0) = PNone
  /\ peek_utf32 LE (mkcur [0x00; 0xD8; 0x00; 0x00] pos0) = PNone
  /\ peek_utf32 BE (mkcur [0x00; 0x01; 0xF6] pos0) = PNone
  /\ wf_utf32_prefix LittleEndian [0x00; 0xF6; 0x01; 0x00] 0x1F600 4.
Proof.
  repeat (split; [vm_compute; reflexivity|]).
  exists []. split; [reflexivity|]. split; [reflexivity|]. right. split; discriminate.
Qed.
Print Assumptions ex_utf32.

(* ============================ binary rules uint8/16/32/64 ============================= *)

(* any width w (PEGTL instantiates 2, 4, 8), both byte orders, optional mask, ALL values: the
   result is the positional value of the first w bytes, masked, with size w, iff w bytes remain *)
Theorem uint_decode_exact : forall w e m bs p,
  peek_uint w e m (mkcur bs p) =
  if (length bs <? w)%nat then PNone
  else PSome (Z.of_N (mask_opt m (ord_value (ord e) (firstn w bs)))) w.
Proof. exact peek_uint_exact_l. Qed.
Print Assumptions uint_decode_exact.

Theorem uint8_decode_exact : forall m bs p,
  peek_uint8 m (mkcur bs p) = match bs with [] => PNone | b :: _ => PSome (Z.of_N (mask_opt m b)) 1 end.
Proof. exact peek_uint8_exact_l. Qed.
Print Assumptions uint8_decode_exact.

Theorem uint8_is_width1 : forall m e bs p, peek_uint8 m (mkcur bs p) = peek_uint 1 e m (mkcur bs p).
Proof. exact peek_uint8_as_width1. Qed.
Print Assumptions uint8_is_width1.

(* the value read from w bytes fits w*8 bits, so the C++ unsigned type never wraps; masking shrinks *)
Theorem uint_value_bound : forall o l, Forall is_byte l -> ord_value o l < 2 ^ (8 * N.of_nat (length l)).
Proof. exact ord_value_bound. Qed.
Print Assumptions uint_value_bound.

Theorem uint_mask_le : forall m v, mask_opt m v <= v.
Proof. exact mask_opt_le. Qed.
Print Assumptions uint_mask_le.

Theorem uint_le_is_swapped_be : forall l, le_value l = be_value (rev l).
Proof. exact le_value_rev. Qed.
Print Assumptions uint_le_is_swapped_be.

Theorem uint_value_16 : forall o b0 b1,
  ord_value o [b0; b1] = match o with BigEndian => b0 * 256 + b1 | LittleEndian => b0 + 256 * b1 end.
Proof. exact ord_value_2. Qed.
Print Assumptions uint_value_16.

Theorem uint_value_32 : forall o b0 b1 b2 b3,
  ord_value o [b0; b1; b2; b3] =
  match o with
  | BigEndian => b0 * 16777216 + b1 * 65536 + b2 * 256 + b3
  | LittleEndian => b0 + 256 * b1 + 65536 * b2 + 16777216 * b3
  end.
Proof. exact ord_value_4. Qed.
Print Assumptions uint_value_32.

Theorem uint_value_64 : forall o b0 b1 b2 b3 b4 b5 b6 b7,
  ord_value o [b0; b1; b2; b3; b4; b5; b6; b7] =
  match o with
  | BigEndian => b0 * 2 ^ 56 + b1 * 2 ^ 48 + b2 * 2 ^ 40 + b3 * 2 ^ 32 + b4 * 2 ^ 24 + b5 * 2 ^ 16 + b6 * 2 ^ 8 + b7
  | LittleEndian => b0 + b1 * 2 ^ 8 + b2 * 2 ^ 16 + b3 * 2 ^ 24 + b4 * 2 ^ 32 + b5 * 2 ^ 40 + b6 * 2 ^ 48 + b7 * 2 ^ 56
  end.
Proof. exact ord_value_8. Qed.
Print Assumptions uint_value_64.

(* the rule level: uintN::one / range / ranges / any and their mask_ variants *)
Theorem uint_atom_exact : forall eol h w e m test bs p,
  atom_spec h = Some (match m with None => PkUint w e | Some mk => PkMaskUint w e mk end, test) ->
  exists r, eval_atom eol h (mkcur bs p) = Some r /\
    let v := Z.of_N (mask_opt m (ord_value (ord e) (firstn w bs))) in
    if (w <=? length bs)%nat && test v
    then exists c', r = Res Ok c' [] /\ consumed (mkcur bs p) c' w
    else r = Res Fail (mkcur bs p) [].
Proof. exact uint_atom_exact_l. Qed.
Print Assumptions uint_atom_exact.

Example ex_uint64 :
  peek_uint 8 BE None (mkcur [1; 2; 3; 4; 5; 6; 7; 8; 9] pos0) = PSome 0x0102030405060708 8
  /\ peek_uint 8 LE None (mkcur [1; 2; 3; 4; 5; 6; 7; 8] pos0) = PSome 0x0807060504030201 8
  /\ peek_uint 8 BE (Some 0xFF00000000000000) (mkcur [255; 255; 255; 255; 255; 255; 255; 255] pos0) = PSome 0xFF00000000000000 8
  /\ peek_uint 8 LE None (mkcur [1; 2; 3; 4; 5; 6; 7] pos0) = PNone
  /\ peek_uint 2 LE (Some 0x0FF0) (mkcur [0x34; 0x12] pos0) = PSome 0x0230 2
  /\ peek_uint8 (Some 0xF0) (mkcur [0xAB] pos0) = PSome 0xA0 1.
Proof. vm_compute. repeat split. Qed.
Print Assumptions ex_uint64.

(* ================================ one / range / ranges ================================ *)

(* C `char` is signed: the data compared by ascii rules is schar b *)
Theorem schar_is_signed : forall b, b < 256 -> (-128 <= schar b < 128)%Z.
Proof. exact schar_range. Qed.
Print Assumptions schar_is_signed.

Theorem schar_injective : forall a b, a < 256 -> b < 256 -> schar a = schar b -> a = b.
Proof. exact schar_inj. Qed.
Print Assumptions schar_injective.

Theorem one_exact : forall found cs v, test_one_set found cs v = true <-> (In v cs <-> found = true).
Proof. exact test_one_set_spec. Qed.
Print Assumptions one_exact.

Theorem range_exact : forall found lo hi v,
  test_one_range found lo hi v = true <-> ((lo <= v <= hi)%Z <-> found = true).
Proof. exact test_one_range_spec. Qed.
Print Assumptions range_exact.

(* ranges< Cs... >: union of the intervals [cs[2i], cs[2i+1]] plus the trailing single when odd *)
Theorem ranges_exact : forall cs v,
  test_ranges cs v = true <->
  ((exists i, (2 * i + 1 < length cs)%nat /\ (nth (2 * i) cs 0 <= v <= nth (2 * i + 1) cs 0)%Z)
   \/ (Nat.odd (length cs) = true /\ v = last cs 0%Z)).
Proof. exact test_ranges_spec. Qed.
Print Assumptions ranges_exact.

(* ========================= ASCII classes and ABNF core rules ========================== *)

(* finite-domain proof: 29 classes x 256 byte values by vm_compute; the bound b < 256 is in the
   statement.  class_table (DecodeFacts.v) pairs each rule of ascii.hpp / abnf.hpp with the byte
   set documented for it (Utf.v). *)
Theorem class_exact : forall name h doc, In (name, h, doc) class_table ->
  forall b, b < 256 -> (atom_test h (schar b) = true <-> In b doc).
Proof. exact class_exact_l. Qed.
Print Assumptions class_exact.

Theorem class_atom_exact : forall name h doc eol bs p, In (name, h, doc) class_table -> Forall is_byte bs ->
  exists r, eval_atom eol h (mkcur bs p) = Some r /\
    match bs with
    | [] => r = Res Fail (mkcur bs p) []
    | b :: tl => (In b doc /\ exists c', r = Res Ok c' [] /\ rest c' = tl /\ pbyte (cpos c') = pbyte p + 1)
                 \/ (~ In b doc /\ r = Res Fail (mkcur bs p) [])
    end.
Proof. exact class_atom_exact_l. Qed.
Print Assumptions class_atom_exact.

Example ex_class_table :
  length class_table = 29%nat
  /\ In ("xdigit"%string, HRanges PkChar [48; 57; 97; 102; 65; 70]%Z, set_xdigit) class_table
  /\ set_xdigit = [48; 49; 50; 51; 52; 53; 54; 55; 56; 57; 97; 98; 99; 100; 101; 102; 65; 66; 67; 68; 69; 70]
  /\ atom_test (HRanges PkChar [48; 57; 97; 102; 65; 70]%Z) (schar 0x66) = true
  /\ atom_test (HRange true PkChar 0 127) (schar 0x80) = false.     (* seven: 0x80 is char -128 *)
Proof. vm_compute. repeat split. do 14 right. left. reflexivity. Qed.
Print Assumptions ex_class_table.

(* ===================================== istring ======================================== *)

(* ichar_equal< C >( b ) holds iff b = C, or C is an ASCII letter and b is its other-case form *)
Theorem istring_folds_ascii_letters_only : forall c b, c < 256 -> b < 256 ->
  (ichar_equal c b = true <-> fold_eq c b).
Proof. exact ichar_equal_exact_l. Qed.
Print Assumptions istring_folds_ascii_letters_only.

Theorem istring_nonletter_exact : forall c b, ~ is_upper c -> ~ is_lower c -> (fold_eq c b <-> b = c).
Proof. exact fold_eq_nonletter. Qed.
Print Assumptions istring_nonletter_exact.

Theorem istring_equal_exact : forall cs bs, Forall is_byte cs -> Forall is_byte bs ->
  (ieqb_bytes cs bs = true <-> Forall2 fold_eq cs bs).
Proof. exact ieqb_bytes_spec. Qed.
Print Assumptions istring_equal_exact.

Theorem istring_atom_exact : forall eol cs c, Forall is_byte cs -> Forall is_byte (rest c) ->
  exists r, eval_atom eol (HIString cs) c = Some r /\
    (((length cs <= length (rest c))%nat /\ Forall2 fold_eq cs (firstn (length cs) (rest c)) /\
      exists c', r = Res Ok c' [] /\ consumed c c' (length cs))
     \/ (~ ((length cs <= length (rest c))%nat /\ Forall2 fold_eq cs (firstn (length cs) (rest c))) /\
         r = Res Fail c [])).
Proof. exact istring_atom_l. Qed.
Print Assumptions istring_atom_exact.

Theorem string_atom_exact : forall eol cs c,
  exists r, eval_atom eol (HString cs) c = Some r /\
    (((length cs <= length (rest c))%nat /\ firstn (length cs) (rest c) = cs /\
      exists c', r = Res Ok c' [] /\ consumed c c' (length cs))
     \/ (~ ((length cs <= length (rest c))%nat /\ firstn (length cs) (rest c) = cs) /\ r = Res Fail c [])).
Proof. exact string_atom_l. Qed.
Print Assumptions string_atom_exact.

Example ex_istring :
  ieqb_bytes [0x61; 0x5A; 0x39; 0x5F] [0x41; 0x7A; 0x39; 0x5F] = true     (* "aZ9_" ~ "Az9_" *)
  /\ ichar_equal 0x40 0x60 = false                                        (* '@' vs '`' differ by 0x20 but are not letters *)
  /\ ichar_equal 0x5B 0x7B = false                                        (* '[' vs '{' *)
  /\ ichar_equal 0xC9 0xE9 = false                                        (* Latin-1 E-acute: not folded *)
  /\ ichar_equal 0x6B 0x4B = true /\ ichar_equal 0x4B 0x6B = true         (* k/K both directions *)
  /\ fold_eq 0x6B 0x4B.
Proof. repeat (split; [vm_compute; reflexivity|]). right. right. split; [split; discriminate | reflexivity]. Qed.
Print Assumptions ex_istring.

(* ============================ every single-unit rule: N bytes ========================= *)

Theorem do_peek_no_oob : forall pk c, do_peek pk c <> POob.
Proof. exact do_peek_never_oob. Qed.
Print Assumptions do_peek_no_oob.

Theorem do_peek_size_le : forall pk c v n, do_peek pk c = PSome v n -> (n <= length (rest c))%nat.
Proof. exact do_peek_size. Qed.
Print Assumptions do_peek_size_le.

Theorem do_peek_unit_sizes : forall pk c v n, do_peek pk c = PSome v n -> peek_sizes pk n.
Proof. exact do_peek_sizes. Qed.
Print Assumptions do_peek_unit_sizes.

(* one / range / ranges / any over ANY Peek class: success with exactly `size` bytes dropped iff
   the decoder returns (v, size) and the value test holds; local failure with the cursor unchanged
   otherwise; never an out-of-bounds access (atom_outcome, consumed: DecodeFacts.v section 8) *)
Theorem atom_consumes_N : forall eol h pk test c, atom_spec h = Some (pk, test) ->
  exists r, eval_atom eol h c = Some r /\
    match do_peek pk c with
    | PSome v n => if test v then exists c', r = Res Ok c' [] /\ consumed c c' n
                   else r = Res Fail c []
    | PNone => r = Res Fail c []
    | POob => False
    end.
Proof. exact atom_consumes_N_l. Qed.
Print Assumptions atom_consumes_N.

Theorem utf8_atom_exact : forall eol h test bs p, atom_spec h = Some (PkUtf8, test) -> Forall is_byte bs ->
  exists r, eval_atom eol h (mkcur bs p) = Some r /\
    ((exists cp n c', wf_utf8_prefix bs cp n /\ test (Z.of_N cp) = true /\ r = Res Ok c' [] /\ consumed (mkcur bs p) c' n)
     \/ (r = Res Fail (mkcur bs p) [] /\ ~ exists cp n, wf_utf8_prefix bs cp n /\ test (Z.of_N cp) = true)).
Proof. exact utf8_atom_exact_l. Qed.
Print Assumptions utf8_atom_exact.

Theorem utf16_atom_exact : forall eol h e test bs p, atom_spec h = Some (PkUtf16 e, test) -> Forall is_byte bs ->
  exists r, eval_atom eol h (mkcur bs p) = Some r /\
    ((exists cp n c', wf_utf16_prefix (ord e) bs cp n /\ test (Z.of_N cp) = true /\ r = Res Ok c' [] /\ consumed (mkcur bs p) c' n)
     \/ (r = Res Fail (mkcur bs p) [] /\ ~ exists cp n, wf_utf16_prefix (ord e) bs cp n /\ test (Z.of_N cp) = true)).
Proof. exact utf16_atom_exact_l. Qed.
Print Assumptions utf16_atom_exact.

Theorem utf32_atom_exact : forall eol h e test bs p, atom_spec h = Some (PkUtf32 e, test) -> Forall is_byte bs ->
  exists r, eval_atom eol h (mkcur bs p) = Some r /\
    ((exists cp n c', wf_utf32_prefix (ord e) bs cp n /\ test (Z.of_N cp) = true /\ r = Res Ok c' [] /\ consumed (mkcur bs p) c' n)
     \/ (r = Res Fail (mkcur bs p) [] /\ ~ exists cp n, wf_utf32_prefix (ord e) bs cp n /\ test (Z.of_N cp) = true)).
Proof. exact utf32_atom_exact_l. Qed.
Print Assumptions utf32_atom_exact.

Example ex_atom_4byte :
  (* utf8::range< 0x1F600, 0x1F64F > on U+1F600 'A' *)
  eval_atom EolLf (HRange true PkUtf8 0x1F600 0x1F64F) (mkcur [0xF0; 0x9F; 0x98; 0x80; 0x41] pos0)
    = Some (Res Ok (mkcur [0x41] (mkpos 4 1 5)) [])
  (* utf8::not_one< 0x1F600 > fails on it without moving *)
  /\ eval_atom EolLf (HOne false PkUtf8 [0x1F600%Z]) (mkcur [0xF0; 0x9F; 0x98; 0x80; 0x41] pos0)
    = Some (Res Fail (mkcur [0xF0; 0x9F; 0x98; 0x80; 0x41] pos0) [])
  (* utf16_le::one< 0x1F600 > *)
  /\ eval_atom EolLf (HOne true (PkUtf16 LE) [0x1F600%Z]) (mkcur [0x3D; 0xD8; 0x00; 0xDE; 0x41] pos0)
    = Some (Res Ok (mkcur [0x41] (mkpos 4 1 5)) [])
  (* uint32_be::mask_one< 0xFFFF0000, 0x12340000 > *)
  /\ eval_atom EolLf (HOne true (PkMaskUint 4 BE 0xFFFF0000) [0x12340000%Z]) (mkcur [0x12; 0x34; 0x56; 0x78] pos0)
    = Some (Res Ok (mkcur [] (mkpos 4 1 5)) [])
  /\ atom_spec (HRange true PkUtf8 0x1F600 0x1F64F) = Some (PkUtf8, test_one_range true 0x1F600 0x1F64F).
Proof. repeat (split; [vm_compute; reflexivity|]). reflexivity. Qed.
Print Assumptions ex_atom_4byte.
