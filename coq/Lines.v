(* Lines.v — executable model of the error-reporting helpers of memory_input.hpp
   (at, begin_of_line, end_of_line, line_at) and of the two ways a position is obtained
   (eager bumping, lazy re-scan in position(it)), including lazy byte().
   Model file: definitions only (proofs live in LinesFacts.v).

   Pointers are modelled as signed offsets (Z) relative to begin() = start of the data, so that
   pointers before begin() (negative) and past end() (> length) are representable.
   Counters are size_t in the C++; the model does not wrap them (all explored counters and
   lengths are far below 2^64) and relies on column >= 1 (asserted by the inputerator
   constructor, preserved by every bump) for `p.column - 1`. *)
From PegtlV Require Import Base Engine.
Local Open Scope Z_scope.

(* memory_input( begin, end, source, byte, line, column ): the data and the initial inputerator *)
Record minput := mkin { idata : list byte; iinit : pos }.

(* internal::bump( iter, count, Eol::ch ) restricted to the counters: one bump1_pos per byte *)
Definition track (e : eolp) (init : pos) (pre : list byte) : pos :=
  fold_left (bump1_pos (eol_ch e)) pre init.

(* tracking_mode::eager: m_current after the run has consumed k bytes by bump(); position(it)
   copies the counters.  None = bumped past the end. *)
Definition eager_position (e : eolp) (inp : minput) (k : nat) : option pos :=
  option_map cpos (bump_scan (eol_ch e) k (mkcur (idata inp) (iinit inp))).

(* tracking_mode::lazy: position( it ):  inputerator c( m_begin ); bump( c, it - m_begin.data, Eol::ch ) *)
Definition lazy_position (e : eolp) (inp : minput) (k : nat) : pos :=
  track e (iinit inp) (firstn k (idata inp)).

(* byte(): eager returns m_current.byte, lazy returns m_begin.byte + ( current() - m_begin.data )   (after /repo e0cf8e4) *)
Definition eager_byte (e : eolp) (inp : minput) (k : nat) : option N :=
  option_map pbyte (eager_position e inp k).
Definition lazy_byte (inp : minput) (k : nat) : N := (pbyte (iinit inp) + N.of_nat k)%N.

(* at( p ) = begin() + p.byte *)
Definition at_ (p : pos) : Z := Z.of_N (pbyte p).

(* begin_of_line( p ) = at( p ) - ( p.column - 1 ) *)
Definition begin_of_line (p : pos) : Z := at_ p - (Z.of_N (pcol p) - 1).

(* internal::eolf::match on the lazy sub-input whose remaining bytes are l:
   p = Eol::eol_match( in ); return p.data || ( p.size == 0 ).   None = out-of-bounds peek *)
Definition eolf_match (e : eolp) (l : list byte) : option bool :=
  match eol_match e (mkcur l pos0) with
  | None => None
  | Some (d, z, _) => Some (d || z)
  end.

(* until< at< eolf > >::match on the sub-input [at(p), end()):
     while( !at< eolf >( in ) ) { if( in.empty() ) return false; in.bump(); }
   at<> rewinds, so only the bump() of the loop body moves the cursor.  Result: number of bytes
   bumped when the loop is left (the return value of match is discarded by end_of_line). *)
Fixpoint until_at_eolf (e : eolp) (l : list byte) {struct l} : option nat :=
  match eolf_match e l with
  | None => None
  | Some true => Some O
  | Some false =>
      match l with
      | [] => Some O                                   (* in.empty(): return false *)
      | _ :: tl => option_map S (until_at_eolf e tl)
      end
  end.

(* a returned pointer: offset relative to begin(), or the explicit error value for the cases in
   which the C++ has undefined behaviour (sub-input constructed outside [begin(), end()]) *)
Inductive ptr := OutOfData | Off (z : Z).

Definition in_data (inp : minput) (z : Z) : bool :=
  (0 <=? z) && (z <=? Z.of_nat (length (idata inp))).

(* end_of_line( p ): input_t in( at( p ), end(), "" ); until< at< eolf > >; return in.current() *)
Definition end_of_line (e : eolp) (inp : minput) (p : pos) : ptr :=
  let a := at_ p in
  if in_data inp a then
    match until_at_eolf e (skipn (Z.to_nat a) (idata inp)) with
    | None => OutOfData
    | Some n => Off (a + Z.of_nat n)
    end
  else OutOfData.

(* line_at( p ) = { b = begin_of_line( p ), end_of_line( p ) - b } *)
Inductive line := LineOut (b : Z) (e : ptr) | Line (bytes : list byte).

Definition slice (l : list byte) (b e : nat) : list byte := firstn (e - b) (skipn b l).

Definition line_at (e : eolp) (inp : minput) (p : pos) : line :=
  let b := begin_of_line p in
  match end_of_line e inp p with
  | OutOfData => LineOut b OutOfData
  | Off z => if in_data inp b && (b <=? z) then Line (slice (idata inp) (Z.to_nat b) (Z.to_nat z))
             else LineOut b (Off z)
  end.

(* everything the harness prints for one (tracking mode, policy, input, k); None = k > size *)
Definition position_of (eager : bool) (e : eolp) (inp : minput) (k : nat) : option pos :=
  if eager then eager_position e inp k
  else if (k <=? length (idata inp))%nat then Some (lazy_position e inp k) else None.

Definition byte_of (eager : bool) (e : eolp) (inp : minput) (k : nat) : option N :=
  if eager then eager_byte e inp k else Some (lazy_byte inp k).

Record report := mkrep {
  r_pos : pos; r_byte : option N; r_at : Z; r_bol : Z; r_eol : ptr; r_line : line }.

Definition c19_report (eager : bool) (e : eolp) (inp : minput) (k : nat) : option report :=
  match position_of eager e inp k with
  | None => None
  | Some p => Some (mkrep p (byte_of eager e inp k) (at_ p) (begin_of_line p)
                          (end_of_line e inp p) (line_at e inp p))
  end.
