(* Equiv.v — C09: observational equivalence of engine results.
   What is observed of a result: the outcome kind (Ok / Fail / Exc), on Ok the result cursor, on Exc
   the exception identity (raising rule or limit, position, nesting; action exceptions by tag).  The
   event log is ignored: the hooks of an expansion legitimately differ from those of the
   convenience rule.  Two flags say whether the cursor left behind by a local failure (bf) and by an
   exception (bx) is compared as well: in required mode a local failure has restored the cursor on
   both sides; in optional mode, and after an exception, the library makes no promise and the
   documented expansions differ there, so nothing is compared (bf = bx = false) — except when one
   and the same rule is run twice in the same mode (used for must<>, whose error position is the
   cursor its sub-rule leaves behind in optional mode).
   Definitions only. *)
From PegtlV Require Import Base Decode Grammar Engine.

Definition oeq (bf bx : bool) (x y : result) : Prop :=
  match x, y with
  | Res Ok c _, Res Ok c' _ => c = c'
  | Res Fail c _, Res Fail c' _ => if bf then c = c' else True
  | Res (Exc e) c _, Res (Exc e') c' _ => e = e' /\ (if bx then c = c' else True)
  | Err, Err => True
  | _, _ => False
  end.

(* refinement up to fuel: whenever x is a verdict, y is the same verdict *)
Definition sim (bf bx : bool) (x y : result) : Prop := x = Oof \/ oeq bf bx x y.

(* the observation the property C09 speaks about: kind, consumed prefix on success, exception identity *)
Definition obs_eq (x y : result) : Prop := oeq false false x y.
