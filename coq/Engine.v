(* Engine.v — executable model of the PEGTL run time: match.hpp / normal.hpp dispatch, every
   class with a hand-written match() under include/tao/pegtl/internal, the match-level
   actions (change_*, enable/disable_action, limit_depth, limit_bytes, check_bytes).
   Written from the C++ text: the cursor is left where the code leaves it, modes are passed
   as the code passes them, guards sit where the code declares them.
   Events are an OUTPUT (writer style).  Model file: definitions only. *)
From PegtlV Require Import Base Decode Grammar.
Local Open Scope N_scope.

(* ---------- exceptions ---------- *)
Inductive who := WRule (r : rid) | WLimitDepth | WLimitBytes.
Inductive exn :=
| EParse (w : who) (p : pos)                  (* Control<w>::raise( in ) at p *)
| ECheckBytes (p : pos)                       (* check_bytes throws parse_error directly *)
| EAct (tag : N)                              (* thrown by user action code: 0 = std::runtime_error, n>0 = foreign type n *)
| ENested (r : rid) (p : pos) (inner : exn).  (* Control<r>::raise_nested( position, ... ) *)

Definition is_parse_error (e : exn) : bool := match e with EAct _ => false | _ => true end.
Definition is_std (e : exn) : bool := match e with EAct t => t =? 0 | _ => true end.
Definition catches (f : cfilter) (e : exn) : bool :=
  match f with
  | FAny => true
  | FStd => is_std e
  | FParse => is_parse_error e
  | FType t => match e with EAct t' => t' =? t | _ => false end
  end.

(* ---------- configuration: what Action<Rule> / Control<Rule> offer ---------- *)
Inductive ares := ARet (b : bool) | AThrow (tag : N).
Inductive mkind :=
| MChangeAction (fam : nat) | MChangeState | MChangeActionAndState (fam : nat)
| MChangeControl (ctl : nat) | MEnableAction | MDisableAction
| MLimitDepth (n : nat) | MLimitBytes (n : nat) | MCheckBytes (n : nat).
Inductive akind := AKNone | AKApply (isbool : bool) | AKApply0 (isbool : bool) | AKMatch (m : mkind).

Record cfg := mkcfg {
  ceol : eolp;
  acts : nat -> rid -> akind;                 (* action family -> rule -> what Action<Rule> defines *)
  abeh : nat -> rid -> pos -> pos -> ares;    (* deterministic behaviour of Action<Rule>::apply/apply0 on (begin,end) *)
  ibeh : nat -> pos -> pos -> ares;           (* inline actions of apply<>/apply0<>/if_apply<> *)
  has_unwind : nat -> bool;                   (* control family defines unwind()? *)
  raise_on_failure : nat -> rid -> bool       (* must_if-style control: failure() raises for this rule *)
}.

Record dyn := mkdyn { dA : bool (* apply_mode::action *); dM : bool (* rewind_mode::required *);
                      dAct : nat; dCtl : nat; dDepth : nat }.
Definition req (d : dyn) := mkdyn (dA d) true (dAct d) (dCtl d) (dDepth d).
Definition opt_ (d : dyn) := mkdyn (dA d) false (dAct d) (dCtl d) (dDepth d).
Definition set_A (d : dyn) (a : bool) := mkdyn a (dM d) (dAct d) (dCtl d) (dDepth d).
Definition set_act (d : dyn) (f : nat) := mkdyn (dA d) (dM d) f (dCtl d) (dDepth d).
Definition set_ctl (d : dyn) (k : nat) := mkdyn (dA d) (dM d) (dAct d) k (dDepth d).
Definition set_depth (d : dyn) (n : nat) := mkdyn (dA d) (dM d) (dAct d) (dCtl d) n.

(* ---------- events ---------- *)
Inductive hook := HkStart | HkSuccess | HkFailure | HkUnwind.
Inductive event :=
| EHook (h : hook) (ctl : nat) (r : rid) (p : pos)
| ERaise (ctl : nat) (w : who) (p : pos)
| ERaiseNested (ctl : nat) (r : rid) (p : pos)
| EApply (fam : nat) (r : rid) (b e : pos)
| EApply0 (fam : nat) (r : rid) (p : pos)
| EInline (a : nat) (b e : pos)                 (* apply<A...> / if_apply<R,A...> *)
| EInline0 (a : nat)                            (* apply0<A...> *)
| EStNew (r : rid) (p : pos) | EStSuccess (r : rid) (p : pos) | EStDrop (r : rid)
(* ghost trace of every Control< Rule >::match invocation (enabled or not): modes as passed, cursor before/after *)
| EEnter (ctl : nat) (r : rid) (a m : bool) (p : pos)
| EExit (ctl : nat) (r : rid) (o : option bool) (p : pos).      (* Some true/false = returned; None = exception passed through *)

Inductive outcome := Ok | Fail | Exc (e : exn).
Inductive result := Res (o : outcome) (c : cursor) (evs : list event) | Oof | Err.

Definition prepend (evs : list event) (x : result) : result :=
  match x with Res o c e2 => Res o c (evs ++ e2) | y => y end.
Definition append (x : result) (evs : list event) : result :=
  match x with Res o c e1 => Res o c (e1 ++ evs) | y => y end.
Definition bind (x : result) (k : cursor -> result) : result :=
  match x with Res Ok c evs => prepend evs (k c) | y => y end.
Definition okind (o : outcome) : option bool := match o with Ok => Some true | Fail => Some false | Exc _ => None end.
(* Control< Rule >::match< A, M >( in ) seen from outside *)
Definition traced (ctl : nat) (r : rid) (a m : bool) (c : cursor) (x : result) : result :=
  match x with
  | Res o c' evs => Res o c' (EEnter ctl r a m (cpos c) :: evs ++ [EExit ctl r (okind o) (cpos c')])
  | y => y end.
Definition ok_or_err (o : option cursor) : result :=
  match o with Some c => Res Ok c [] | None => Err end.

(* ---------- atoms ---------- *)
Definition bump_help (ch : N) (test_any_ch : bool) (n : nat) (c : cursor) : result :=
  ok_or_err (if test_any_ch then bump_scan ch n c else bump_in_line n c).

Definition peek_test_bump (ch : N) (pk : peek) (test : Z -> bool) (c : cursor) : result :=
  match do_peek pk c with
  | POob => Err
  | PNone => Res Fail c []
  | PSome v n => if test v then bump_help ch (test (ch_as_data pk ch)) n c else Res Fail c []
  end.

Fixpoint eqb_bytes (a b : list byte) : bool :=
  match a, b with
  | [], [] => true
  | x :: a', y :: b' => (x =? y) && eqb_bytes a' b'
  | _, _ => false
  end.
Definition is_alpha (b : byte) : bool := ((97 <=? b) && (b <=? 122)) || ((65 <=? b) && (b <=? 90)).
Definition ichar_equal (c b : byte) : bool :=          (* ichar_equal< C >( b ) *)
  if is_alpha c then N.lor c 32 =? N.lor b 32 else b =? c.
Fixpoint ieqb_bytes (cs bs : list byte) : bool :=
  match cs, bs with
  | [], [] => true
  | c :: cs', b :: bs' => ichar_equal c b && ieqb_bytes cs' bs'
  | _, _ => false
  end.

(* Eol::eol_match: Some (data, size_is_zero, cursor') ; None = out-of-bounds access *)
Definition eol_match (e : eolp) (c : cursor) : option (bool * bool * cursor) :=
  let sz := in_size c in
  let no := Some (false, Nat.eqb sz 0, c) in
  let yes n := option_map (fun c' => (true, false, c')) (bump_next_line n c) in
  if Nat.eqb sz 0 then no else
  match peek_at c 0 with
  | None => None
  | Some a =>
    match e with
    | EolLf => if a =? 10 then yes 1%nat else no
    | EolCr => if a =? 13 then yes 1%nat else no
    | EolLfCrlf =>
        if a =? 10 then yes 1%nat
        else if (a =? 13) && (1 <? sz)%nat then
          match peek_at c 1 with None => None | Some b => if b =? 10 then yes 2%nat else no end
        else no
    | EolCrlf =>
        if (1 <? sz)%nat then
          if a =? 13 then match peek_at c 1 with None => None | Some b => if b =? 10 then yes 2%nat else no end
          else no
        else no
    | EolCrCrlf =>
        if a =? 13 then
          if (1 <? sz)%nat then match peek_at c 1 with None => None | Some b => if b =? 10 then yes 2%nat else yes 1%nat end
          else yes 1%nat
        else no
    end
  end.

Definition eval_atom (eol : eolp) (h : head) (c : cursor) : option result :=
  let ch := eol_ch eol in
  match h with
  | HSuccess => Some (Res Ok c [])
  | HFailure => Some (Res Fail c [])
  | HOpaque => Some (Res Fail c [])
  | HEof => Some (Res (if in_empty c then Ok else Fail) c [])
  | HBof => Some (Res (if pbyte (cpos c) =? 0 then Ok else Fail) c [])
  | HBol => Some (Res (if pcol (cpos c) =? 1 then Ok else Fail) c [])
  | HDiscard => Some (Res Ok c [])
  | HEverything => Some (ok_or_err (bump_scan ch (in_size c) c))
  | HEol => Some (match eol_match eol c with
                  | None => Err
                  | Some (true, _, c') => Res Ok c' []
                  | Some (false, _, _) => Res Fail c [] end)
  | HEolf => Some (match eol_match eol c with
                   | None => Err
                   | Some (true, _, c') => Res Ok c' []
                   | Some (false, z, _) => Res (if z then Ok else Fail) c [] end)
  | HAny PkChar => Some (if in_empty c then Res Fail c [] else ok_or_err (bump_scan ch 1 c))
  | HAny pk => Some (match do_peek pk c with
                     | POob => Err | PNone => Res Fail c []
                     | PSome _ n => ok_or_err (bump_scan ch n c) end)
  | HOne found pk cs => Some (peek_test_bump ch pk (test_one_set found cs) c)
  | HRange found pk lo hi => Some (peek_test_bump ch pk (test_one_range found lo hi) c)
  | HRanges pk cs => Some (peek_test_bump ch pk (test_ranges cs) c)
  | HString cs =>
      let n := length cs in
      Some (if (n <=? in_size c)%nat then
              match take n (rest c) with
              | None => Err
              | Some bs => if eqb_bytes cs bs then bump_help ch (existsb (N.eqb ch) cs) n c else Res Fail c []
              end
            else Res Fail c [])
  | HIString cs =>
      let n := length cs in
      Some (if (n <=? in_size c)%nat then
              match take n (rest c) with
              | None => Err
              | Some bs => if ieqb_bytes cs bs then bump_help ch (existsb (N.eqb ch) cs) n c else Res Fail c []
              end
            else Res Fail c [])
  | HBytes n => Some (if (n <=? in_size c)%nat then ok_or_err (bump_scan ch n c) else Res Fail c [])
  | HRequire n => Some (Res (if (n <=? in_size c)%nat then Ok else Fail) c [])
  | _ => None
  end.

(* ---------- combinators ---------- *)
Section Helpers.
Variable C : cfg.
Variable ev : dyn -> rid -> cursor -> result.

(* rewind_guard< M >: m( result ) / destructor *)
Definition guard (m : bool) (saved : cursor) (x : result) : result :=
  match x with
  | Res Ok c evs => Res Ok c evs
  | Res o c evs => Res o (if m then saved else c) evs
  | y => y
  end.

Fixpoint seq_all (d : dyn) (rs : list rid) (c : cursor) : result :=
  match rs with
  | [] => Res Ok c []
  | r :: rs' => bind (ev d r c) (seq_all d rs')
  end.

Fixpoint sor_any (d : dyn) (rs : list rid) (c : cursor) : result :=
  match rs with
  | [] => Res Fail c []
  | [r] => ev d r c
  | r :: rs' => match ev (req d) r c with
                | Res Fail c' evs => prepend evs (sor_any d rs' c')
                | x => x end
  end.

(* while( ( Control< Rules >::match< A, required >() && ... ) ) {}  return true; *)
Fixpoint star_loop (n : nat) (d : dyn) (rs : list rid) (c : cursor) : result :=
  match n with
  | O => Oof
  | S n' => match seq_all (req d) rs c with
            | Res Ok c' evs => prepend evs (star_loop n' d rs c')
            | Res Fail c' evs => Res Ok c' evs
            | x => x
            end
  end.

Fixpoint until1_loop (n : nat) (d : dyn) (cnd : rid) (c : cursor) : result :=
  match n with
  | O => Oof
  | S n' => match ev (req d) cnd c with
            | Res Ok c' evs => Res Ok c' evs
            | Res Fail c' evs =>
                if in_empty c' then Res Fail c' evs
                else match bump_scan (eol_ch (ceol C)) 1 c' with
                     | None => Err
                     | Some c'' => prepend evs (until1_loop n' d cnd c'') end
            | x => x
            end
  end.

Fixpoint until2_loop (n : nat) (d : dyn) (cnd r : rid) (c : cursor) : result :=
  match n with
  | O => Oof
  | S n' => match ev (req d) cnd c with
            | Res Ok c' evs => Res Ok c' evs
            | Res Fail c' evs =>
                match ev (opt_ d) r c' with
                | Res Ok c'' evs2 => prepend (evs ++ evs2) (until2_loop n' d cnd r c'')
                | x => prepend evs x end
            | x => x
            end
  end.

Fixpoint rep_loop (k : nat) (d : dyn) (r : rid) (c : cursor) : result :=
  match k with
  | O => Res Ok c []
  | S k' => bind (ev d r c) (rep_loop k' d r)
  end.

(* for( i = Min; i != Max; ++i ) if( !match< required > ) return m( true );  — snd = loop ran to completion *)
Fixpoint repopt_loop (k : nat) (d : dyn) (r : rid) (c : cursor) : result * bool :=
  match k with
  | O => (Res Ok c [], true)
  | S k' => match ev (req d) r c with
            | Res Ok c' evs => let '(x, b) := repopt_loop k' d r c' in (prepend evs x, b)
            | Res Fail c' evs => (Res Ok c' evs, false)
            | x => (x, false)
            end
  end.

(* at / not_at: guard< required > never released; callee gets apply_mode::nothing, optional *)
Definition look (inv : bool) (saved : cursor) (x : result) : result :=
  match x with
  | Res Ok _ evs => Res (if inv then Fail else Ok) saved evs
  | Res Fail _ evs => Res (if inv then Ok else Fail) saved evs
  | Res (Exc e) _ evs => Res (Exc e) saved evs
  | y => y
  end.

Definition h_seq (d : dyn) (rs : list rid) (c : cursor) : result :=
  match rs with
  | [r1] => ev d r1 c
  | _ => guard (dM d) c (seq_all (opt_ d) rs c)
  end.
Definition h_plus (n : nat) (d : dyn) (r1 : rid) (c : cursor) : result :=
  bind (ev d r1 c) (star_loop n d [r1]).
Definition h_partial (d : dyn) (rs : list rid) (c : cursor) : result :=
  match seq_all (req d) rs c with Res Fail c' evs => Res Ok c' evs | x => x end.
Definition h_at (inv : bool) (d : dyn) (r1 : rid) (c : cursor) : result :=
  look inv c (ev (set_A (opt_ d) false) r1 c).
Definition h_until1 (n : nat) (d : dyn) (cnd : rid) (c : cursor) := guard (dM d) c (until1_loop n d cnd c).
Definition h_until2 (n : nat) (d : dyn) (cnd r1 : rid) (c : cursor) := guard (dM d) c (until2_loop n d cnd r1 c).
Definition h_rep (k : nat) (d : dyn) (r1 : rid) (c : cursor) := guard (dM d) c (rep_loop k (opt_ d) r1 c).
Definition h_rep_opt (k : nat) (d : dyn) (r1 : rid) (c : cursor) := fst (repopt_loop k d r1 c).
Definition h_rep_min_max (mn mx : nat) (d : dyn) (r1 : rid) (c : cursor) : result :=
  guard (dM d) c
    (bind (rep_loop mn (opt_ d) r1 c) (fun c1 =>
       match repopt_loop (mx - mn) d r1 c1 with
       | (Res Ok c2 evs, true) => prepend evs (h_at true (opt_ d) r1 c2)    (* Control< not_at< Rule > >::match *)
       | (x, _) => x
       end)).
Definition h_if_then_else (d : dyn) (cnd t e : rid) (c : cursor) : result :=
  guard (dM d) c
    (match ev (req d) cnd c with
     | Res Ok c' evs => prepend evs (ev (opt_ d) t c')
     | Res Fail c' evs => prepend evs (ev (opt_ d) e c')
     | x => x end).
(* if_must< Default, Cond, Rules... >: Cond gets ( Default ? required : M ), must< Rules... > gets M *)
Definition h_if_must (dflt : bool) (d : dyn) (cnd : rid) (rest_ : list rid) (c : cursor) : result :=
  match ev (if dflt then req d else d) cnd c with
  | Res Ok c' evs => match rest_ with
                     | [] => Res Ok c' evs
                     | m :: _ => match ev d m c' with
                                 | Res Fail c'' evs2 => Res Ok c'' (evs ++ evs2)
                                 | x => prepend evs x end
                     end
  | Res Fail c' evs => Res (if dflt then Ok else Fail) c' evs
  | x => x end.
Definition raise_at (d : dyn) (w : who) (c : cursor) (evs : list event) : result :=
  Res (Exc (EParse w (cpos c))) c (evs ++ [ERaise (dCtl d) w (cpos c)]).
Definition h_must (d : dyn) (r1 : rid) (c : cursor) : result :=
  match ev (opt_ d) r1 c with
  | Res Fail c' evs => raise_at d (WRule r1) c' evs
  | x => x end.
Definition h_strict (d : dyn) (r1 : rid) (rs : list rid) (c : cursor) : result :=
  guard (dM d) c
    (match ev (req d) r1 c with
     | Res Ok c' evs => prepend evs (h_seq (opt_ d) rs c')
     | Res Fail c' evs => Res Ok c' evs
     | x => x end).
Fixpoint star_strict_loop (n : nat) (d : dyn) (r1 : rid) (rs : list rid) (c : cursor) : result :=
  match n with
  | O => Oof
  | S n' => match ev (req d) r1 c with
            | Res Ok c' evs => match h_seq (opt_ d) rs c' with
                               | Res Ok c'' evs2 => prepend (evs ++ evs2) (star_strict_loop n' d r1 rs c'')
                               | x => prepend evs x end
            | Res Fail c' evs => Res Ok c' evs
            | x => x end
  end.
Definition h_star_strict (n : nat) (d : dyn) (r1 : rid) (rs : list rid) (c : cursor) : result :=
  guard (dM d) c (star_strict_loop n d r1 rs c).

(* rematch: the sub-input i2 spans exactly what Head matched; every Rule starts at its begin *)
Fixpoint rematch_all (d : dyn) (rs : list rid) (i2 : cursor) : result :=
  match rs with
  | [] => Res Ok i2 []
  | r :: rs' => match ev d r i2 with
                | Res Ok _ evs => prepend evs (rematch_all d rs' i2)
                | x => x end
  end.
Definition h_rematch (d : dyn) (hd : rid) (rs : list rid) (c : cursor) : result :=
  match rs with
  | [] => ev d hd c
  | _ =>
    match ev (opt_ d) hd c with
    | Res Ok c1 evs =>
        let n := (length (rest c) - length (rest c1))%nat in
        match take n (rest c) with
        | None => Err
        | Some span =>
            match rematch_all (opt_ d) rs (mkcur span (cpos c)) with
            | Res Ok _ evs2 => Res Ok c1 (evs ++ evs2)
            | Res o _ evs2 => Res o c (evs ++ evs2)
            | y => y end
        end
    | Res o _ evs => Res o c evs
    | y => y end
  end.

Definition h_try_false (f : cfilter) (d : dyn) (r1 : rid) (c : cursor) : result :=
  match ev (opt_ d) r1 c with
  | Res Ok c' evs => Res Ok c' evs
  | Res Fail c' evs => Res Fail (if dM d then c else c') evs
  | Res (Exc e) c' evs => Res (if catches f e then Fail else Exc e) (if dM d then c else c') evs
  | y => y end.
Definition h_try_nested (f : cfilter) (d : dyn) (r1 : rid) (c : cursor) : result :=
  match ev (opt_ d) r1 c with
  | Res Ok c' evs => Res Ok c' evs
  | Res Fail _ evs => Res Fail c evs
  | Res (Exc e) _ evs =>
      if catches f e then Res (Exc (ENested r1 (cpos c) e)) c (evs ++ [ERaiseNested (dCtl d) r1 (cpos c)])
      else Res (Exc e) c evs
  | y => y end.

(* state< NewState, Rule >: NewState s( in, st... ); match( in, s ); s.success( in, st... ) *)
Definition st_scope (succ_enabled : bool) (r : rid) (c : cursor) (x : result) : result :=
  match x with
  | Res Ok c' evs => Res Ok c' (EStNew r (cpos c) :: evs ++ (if succ_enabled then [EStSuccess r (cpos c')] else []) ++ [EStDrop r])
  | Res o c' evs => Res o c' (EStNew r (cpos c) :: evs ++ [EStDrop r])
  | y => y end.

Fixpoint run_inline (acts_ : list nat) (b e : pos) : ares * list event :=
  match acts_ with
  | [] => (ARet true, [])
  | a :: tl => match ibeh C a b e with
               | ARet true => let '(x, evs) := run_inline tl b e in (x, EInline a b e :: evs)
               | x => (x, [EInline a b e]) end
  end.
Fixpoint run_inline0 (acts_ : list nat) (p : pos) : ares * list event :=
  match acts_ with
  | [] => (ARet true, [])
  | a :: tl => match ibeh C a p p with
               | ARet true => let '(x, evs) := run_inline0 tl p in (x, EInline0 a :: evs)
               | x => (x, [EInline0 a]) end
  end.
Definition inline_result (x : ares * list event) (c_ok c_fail : cursor) (pre : list event) : result :=
  match x with
  | (ARet true, evs) => Res Ok c_ok (pre ++ evs)
  | (ARet false, evs) => Res Fail c_fail (pre ++ evs)
  | (AThrow t, evs) => Res (Exc (EAct t)) c_fail (pre ++ evs)
  end.
Definition h_apply (d : dyn) (acts_ : list nat) (c : cursor) : result :=
  if dA d then inline_result (run_inline acts_ (cpos c) (cpos c)) c c [] else Res Ok c [].
Definition h_apply0 (d : dyn) (acts_ : list nat) (c : cursor) : result :=
  if dA d then inline_result (run_inline0 acts_ (cpos c)) c c [] else Res Ok c [].
Definition h_if_apply (d : dyn) (acts_ : list nat) (r1 : rid) (c : cursor) : result :=
  if dA d && negb (match acts_ with [] => true | _ => false end) then
    match ev (set_A (opt_ d) true) r1 c with
    | Res Ok c' evs => inline_result (run_inline acts_ (cpos c) (cpos c')) c' c evs
    | Res o _ evs => Res o c evs
    | y => y end
  else ev d r1 c.

Definition eval_head (n : nat) (self : rid) (h : head) (subs : list rid) (d : dyn) (c : cursor) : result :=
  match eval_atom (ceol C) h c with
  | Some x => x
  | None =>
    match h, subs with
    | HSeq, rs => h_seq d rs c
    | HSor, rs => sor_any d rs c
    | HStarPartial, rs => star_loop n d rs c
    | HPlus, [r1] => h_plus n d r1 c
    | HPartial, rs => h_partial d rs c
    | HAt, [r1] => h_at false d r1 c
    | HNotAt, [r1] => h_at true d r1 c
    | HUntil1, [cnd] => h_until1 n d cnd c
    | HUntil2, [cnd; r1] => h_until2 n d cnd r1 c
    | HRep k, [r1] => h_rep k d r1 c
    | HRepOpt k, [r1] => h_rep_opt k d r1 c
    | HRepMinMax mn mx, [r1] => h_rep_min_max mn mx d r1 c
    | HIfThenElse, [cnd; t; e] => h_if_then_else d cnd t e c
    | HIfMust dflt, cnd :: rest_ => h_if_must dflt d cnd rest_ c
    | HMust, [r1] => h_must d r1 c
    | HRaise, [t] => raise_at d (WRule t) c []
    | HStrict, r1 :: rs => h_strict d r1 rs c
    | HStarStrict, r1 :: rs => h_star_strict n d r1 rs c
    | HRematch, hd :: rs => h_rematch d hd rs c
    | HTryCatchFalse f, [r1] => h_try_false f d r1 c
    | HTryCatchNested f, [r1] => h_try_nested f d r1 c
    | HState, [r1] => st_scope true self c (ev d r1 c)
    | HAction fam, [r1] => ev (set_act d fam) r1 c
    | HControl ctl, [r1] => ev (set_ctl d ctl) r1 c
    | HEnable, [r1] => ev (set_A d true) r1 c
    | HDisable, [r1] => ev (set_A d false) r1 c
    | HApply as_, [] => h_apply d as_ c
    | HApply0 as_, [] => h_apply0 d as_ c
    | HIfApply as_, [r1] => h_if_apply d as_ r1 c
    | _, _ => Res Fail c []
    end
  end.

(* ---------- match.hpp for a control-enabled rule ---------- *)
Definition use_guard (d : dyn) (ak : akind) : bool :=
  dA d && match ak with AKApply _ => true | AKApply0 true => true | _ => false end.
Definition run_action (d : dyn) (ak : akind) (r : rid) (b e : pos) : ares * list event :=
  if dA d then
    match ak with
    | AKApply isb => (match abeh C (dAct d) r b e with ARet x => ARet (x || negb isb) | t => t end, [EApply (dAct d) r b e])
    | AKApply0 isb => (match abeh C (dAct d) r b e with ARet x => ARet (x || negb isb) | t => t end, [EApply0 (dAct d) r e])
    | _ => (ARet true, [])
    end
  else (ARet true, []).
Definition fail_hook (d : dyn) (r : rid) (c_back c1 : cursor) (evs : list event) : result :=
  if raise_on_failure C (dCtl d) r
  then Res (Exc (EParse (WRule r) (cpos c1))) c_back (evs ++ [EHook HkFailure (dCtl d) r (cpos c1)])
  else Res Fail c_back (evs ++ [EHook HkFailure (dCtl d) r (cpos c1)]).
Definition match_hpp (ak : akind) (body : dyn -> cursor -> result) (d : dyn) (r : rid) (c : cursor) : result :=
  let g := use_guard d ak in
  let start := EHook HkStart (dCtl d) r (cpos c) in
  let back (c1 : cursor) := if g then c else c1 in
  match body (if g then opt_ d else d) c with
  | Res (Exc e) c1 evs =>
      Res (Exc e) (back c1) (start :: evs ++ (if has_unwind C (dCtl d) then [EHook HkUnwind (dCtl d) r (cpos c1)] else []))
  | Res Fail c1 evs => fail_hook d r (back c1) c1 (start :: evs)
  | Res Ok c1 evs =>
      match run_action d ak r (cpos c) (cpos c1) with
      | (ARet true, ea) => Res Ok c1 (start :: evs ++ ea ++ [EHook HkSuccess (dCtl d) r (cpos c1)])
      | (ARet false, ea) => fail_hook d r (back c1) c1 (start :: evs ++ ea)
      | (AThrow t, ea) => Res (Exc (EAct t)) (back c1) (start :: evs ++ ea)     (* no unwind: the guard only spans Rule::match *)
      end
  | y => y
  end.

(* Action< Rule >::match — the match-level actions *)
Definition is_nil {A} (l : list A) : bool := match l with [] => true | _ => false end.
Definition action_match (plain : dyn -> cursor -> result) (enabled : bool) (m : mkind) (d : dyn) (r : rid) (c : cursor) : result :=
  match m with
  | MChangeAction fam => ev (set_act d fam) r c
  | MChangeState => st_scope (dA d) r c (plain d c)
  | MChangeActionAndState fam => st_scope (dA d) r c (ev (set_act d fam) r c)
  | MChangeControl ctl => plain (set_ctl d ctl) c
  | MEnableAction => plain (set_A d true) c
  | MDisableAction => plain (set_A d false) c
  | MLimitDepth n =>
      if enabled then
        if (n <? S (dDepth d))%nat then raise_at d WLimitDepth c []
        else plain (set_depth d (S (dDepth d))) c
      else plain d c
  | MLimitBytes n =>
      let win := firstn n (rest c) in
      let tail := skipn n (rest c) in
      match plain d (mkcur win (cpos c)) with
      | Res Ok c1 evs =>
          let c1' := mkcur (rest c1 ++ tail) (cpos c1) in
          if in_empty c1 && negb (is_nil tail) then raise_at d WLimitBytes c1' evs else Res Ok c1' evs
      | Res o c1 evs => Res o (mkcur (rest c1 ++ tail) (cpos c1)) evs
      | y => y end
  | MCheckBytes n =>
      match plain d c with
      | Res Ok c1 evs => if (n <? length (rest c) - length (rest c1))%nat then Res (Exc (ECheckBytes (cpos c1))) c1 evs else Res Ok c1 evs
      | x => x end
  end.

End Helpers.

Section Eval.
Variable G : grammar.
Variable C : cfg.

Fixpoint eval (f : nat) (d : dyn) (r : rid) (c : cursor) {struct f} : result :=
  match f with
  | O => Oof
  | S f' =>
    match nth_error G r with
    | None => Res Fail c []
    | Some nd =>
      let body := eval_head C (eval f') f' r (nhead nd) (nsubs nd) in
      let plain (ak : akind) (d' : dyn) (c' : cursor) :=
        if nenabled nd then match_hpp C ak body d' r c' else body d' c' in
      traced (dCtl d) r (dA d) (dM d) c
        match acts C (dAct d) r with
        | AKMatch m => action_match (eval f') (plain AKNone) (nenabled nd) m d r c
        | ak => plain ak d c
        end
    end
  end.

End Eval.

Definition run (G : grammar) (C : cfg) (f : nat) (d : dyn) (r : rid) (input : list byte) (p0 : pos) : result :=
  eval G C f d r (mkcur input p0).
