(* ParseTreeSpec.v — the specification side of C12, independent of the node-stack machine:
   the CALL TREE of a run (Dyck parse of the hook log: start .. success | failure | unwind),
   the DERIVATION TREE (successful attempts all of whose ancestors succeeded, contracted to the
   selected rules in order, documented transformers applied bottom-up), and the executable
   log parser used by the oracle on the implementation's own hook log.  Definitions only. *)
From PegtlV Require Import Base Decode Grammar Engine ParseTree.
Local Open Scope N_scope.

(* one attempt of a control-enabled rule: rule, position at start, closing hook, position at the
   closing hook, the attempts made inside it in order *)
Inductive ctree := CT (r : rid) (b : pos) (h : hook) (e : pos) (kids : list ctree).
Definition c_rule (t : ctree) := match t with CT r _ _ _ _ => r end.
Definition c_kids (t : ctree) := match t with CT _ _ _ _ k => k end.

(* the log a call tree stands for *)
Fixpoint flatten (t : ctree) : list hev :=
  match t with CT r b h e kids => (HkStart, r, b) :: flat_map flatten kids ++ [(h, r, e)] end.
Definition flatten_forest (ts : list ctree) : list hev := flat_map flatten ts.

Definition closing (h : hook) : bool := match h with HkStart => false | _ => true end.
Fixpoint wf_ct (t : ctree) : bool :=
  match t with CT _ _ h _ kids => closing h && forallb wf_ct kids end.

(* executable inverse of flatten_forest: stk = open attempts (rule, start position, finished elder
   siblings in reverse), acc = finished attempts of the current level in reverse *)
Fixpoint cparse (evs : list hev) (stk : list (rid * pos * list ctree)) (acc : list ctree) : option (list ctree) :=
  match evs with
  | [] => match stk with [] => Some (rev acc) | _ => None end
  | (HkStart, r, p) :: tl => cparse tl ((r, p, acc) :: stk) []
  | (h, r, p) :: tl =>
      match stk with
      | (r', b, pacc) :: stk' => if Nat.eqb r r' then cparse tl stk' (CT r b h p (rev acc) :: pacc) else None
      | [] => None
      end
  end.
Definition call_forest (evs : list hev) : option (list ctree) := cparse evs [] [].

(* the transformers as documented (doc/Parse-Tree.md, "Transforming Nodes"):
   store_content keeps the node with its content; remove_content keeps the node, drops the content;
   fold_one: exactly one child -> the node is replaced by that child, otherwise as remove_content;
   discard_empty: no children -> the node is dropped, otherwise as remove_content *)
Definition doc_transform (t : transform) (r : rid) (b e : pos) (kids : list tree) : list tree :=
  match t with
  | TStore => [Node (Some r) b (Some e) kids]
  | TRemove => [Node (Some r) b None kids]
  | TFoldOne => if Nat.eqb (length kids) 1 then kids else [Node (Some r) b None kids]
  | TDiscardEmpty => if Nat.eqb (length kids) 0 then [] else [Node (Some r) b None kids]
  end.

Section Deriv.
Variable selp : rid -> option transform.      (* selected rules and their transformer *)

(* only successful attempts survive, and only below successful attempts; unselected rules are
   contracted (their surviving descendants move up, order preserved) *)
Fixpoint deriv (t : ctree) : list tree :=
  match t with
  | CT r b h e kids =>
      match h with
      | HkSuccess =>
          let ks := flat_map deriv kids in
          match selp r with Some tr => doc_transform tr r b e ks | None => ks end
      | _ => []
      end
  end.
Definition deriv_forest (ts : list ctree) : list tree := flat_map deriv ts.
Definition derivation_tree (ts : list ctree) : tree := Node None null_pos None (deriv_forest ts).

(* the successful attempts all of whose ancestors succeeded, in start order *)
Fixpoint live_calls (t : ctree) : list (rid * pos * pos) :=
  match t with
  | CT r b h e kids => match h with HkSuccess => (r, b, e) :: flat_map live_calls kids | _ => [] end
  end.
Definition live_forest (ts : list ctree) := flat_map live_calls ts.
End Deriv.

(* all nodes of a result tree in pre-order *)
Fixpoint tree_nodes (t : tree) : list (option rid * pos * option pos) :=
  match t with Node r b e ch => (r, b, e) :: flat_map tree_nodes ch end.

(* the oracle applied to a hook log: Some tree = what parse_tree::parse must return on success *)
Definition spec_tree (selp : rid -> option transform) (evs : list hev) : option tree :=
  match call_forest evs with Some ts => Some (derivation_tree selp ts) | None => None end.

(* ---------- observable position discipline of a result tree ---------- *)
(* every position visible in the tree lies in [lo, hi]; a node's children lie inside the node and
   each sibling starts at or after the last position known of its elder sibling (its end, or its
   begin when the content was removed) *)
Definition known_end (t : tree) : N := match t_end t with Some e => pbyte e | None => pbyte (t_begin t) end.
Definition chain (P : N -> tree -> Prop) : N -> list tree -> Prop :=
  fix go (lo : N) (l : list tree) : Prop :=
    match l with [] => True | c :: tl => P lo c /\ go (known_end c) tl end.
Fixpoint tree_ok (lo hi : N) (t : tree) {struct t} : Prop :=
  match t with
  | Node _ b e ch =>
      let up := match e with Some e' => pbyte e' | None => hi end in
      lo <= pbyte b /\ pbyte b <= up /\ up <= hi /\ chain (fun lo' c => tree_ok lo' up c) (pbyte b) ch
  end.
Definition forest_ok (lo hi : N) (l : list tree) : Prop := chain (fun lo' c => tree_ok lo' hi c) lo l.

(* the matching discipline of a call forest, as far as the selected rules can see it: an attempt that
   contributes nodes lies in [lo, hi], the contributing attempts inside it lie inside it, and each
   starts at or after the end of the previous contributing one.  Holds for runs without look-ahead
   (at / not_at / rematch re-read input); it is what "children contained in and ordered within their
   parent" needs and exactly what C12_spans_refuted_lookahead violates. *)
Definition c_end (t : ctree) : pos := match t with CT _ _ _ e _ => e end.
Definition cchain (contrib : ctree -> bool) (P : N -> ctree -> Prop) : N -> list ctree -> Prop :=
  fix go (lo : N) (l : list ctree) : Prop :=
    match l with
    | [] => True
    | k :: tl => (contrib k = true -> P lo k) /\ go (if contrib k then pbyte (c_end k) else lo) tl
    end.
Section Mono.
Variable selp : rid -> option transform.
Definition contributes (t : ctree) : bool := match deriv selp t with [] => false | _ => true end.
Fixpoint cmono (lo hi : N) (t : ctree) {struct t} : Prop :=
  match t with
  | CT r b h e kids =>
      lo <= pbyte b /\ pbyte b <= pbyte e /\ pbyte e <= hi /\
      cchain contributes (fun lo' k => cmono lo' (pbyte e) k) (pbyte b) kids
  end.
Definition cmono_forest (lo hi : N) (ts : list ctree) : Prop := cchain contributes (fun lo' k => cmono lo' hi k) lo ts.
End Mono.
