(* ParseTreeSpans.v — C12_spans, containment part: if the call forest of a run is position-monotone as
   far as the contributing attempts are concerned (ParseTreeSpec.cmono: true of runs without
   look-ahead), every position visible in the derivation tree is nested and ordered
   (ParseTreeSpec.tree_ok): children inside their parent, siblings in input order — for every
   selection and every transformer assignment. *)
From Coq Require Import Lia.
From PegtlV Require Import Base Decode Grammar Engine ParseTree ParseTreeSpec ParseTreeFacts.
Local Open Scope N_scope.

(* induction over result trees *)
Section TreeInd.
Variable P : tree -> Prop.
Hypothesis H : forall r b e ch, Forall P ch -> P (Node r b e ch).
Fixpoint tree_ind' (t : tree) : P t :=
  match t with
  | Node r b e ch =>
      H r b e ch ((fix go (l : list tree) : Forall P l :=
                     match l with [] => Forall_nil P | c :: tl => Forall_cons c (tree_ind' c) (go tl) end) ch)
  end.
End TreeInd.

(* the last position known after a list of siblings *)
Fixpoint last_end (lo : N) (l : list tree) : N := match l with [] => lo | c :: tl => last_end (known_end c) tl end.

Lemma last_end_nonempty lo lo' l : l <> [] -> last_end lo l = last_end lo' l.
Proof. destruct l; [contradiction | reflexivity]. Qed.

Lemma chain_app P a : forall lo b, chain P lo (a ++ b) <-> chain P lo a /\ chain P (last_end lo a) b.
Proof.
  induction a as [|c a IH]; intros lo b; simpl; [tauto|]. rewrite IH. tauto.
Qed.

Lemma chain_impl (P P' : N -> tree -> Prop) l : Forall (fun c => forall lo, P lo c -> P' lo c) l -> forall lo, chain P lo l -> chain P' lo l.
Proof. induction 1 as [|c l Hc _ IH]; intros lo; simpl; [auto|]. intros [H1 H2]. split; [apply Hc; exact H1 | apply IH; exact H2]. Qed.

Lemma chain_lower (P : N -> tree -> Prop) l lo lo' :
  (forall c a a', P a c -> a' <= a -> P a' c) -> lo' <= lo -> chain P lo l -> chain P lo' l.
Proof. intros HP Hl. destruct l as [|c l]; simpl; [auto|]. intros [H1 H2]. split; [eapply HP; eauto | exact H2]. Qed.

Lemma tree_ok_weaken t : forall lo hi lo' hi', tree_ok lo hi t -> lo' <= lo -> hi <= hi' -> tree_ok lo' hi' t.
Proof.
  induction t as [r b e ch IH] using tree_ind'. intros lo hi lo' hi' H Hl Hh. cbn [tree_ok] in H |- *.
  destruct e as [e'|].
  - destruct H as [H1 [H2 [H3 H4]]]. repeat split; try lia. exact H4.
  - destruct H as [H1 [H2 [H3 H4]]]. repeat split; try lia.
    eapply chain_impl; [|exact H4]. eapply Forall_impl; [|exact IH]. intros c Hc a Ha. eapply Hc; [exact Ha | lia | exact Hh].
Qed.

Lemma tree_ok_bounds lo hi t : tree_ok lo hi t -> lo <= pbyte (t_begin t) /\ pbyte (t_begin t) <= known_end t /\ known_end t <= hi.
Proof.
  destruct t as [r b e ch]. cbn [tree_ok]. unfold known_end. cbn [t_begin t_end]. intros [H1 [H2 [H3 _]]]. destruct e; lia.
Qed.

Lemma forest_ok_weaken l lo hi lo' hi' : forest_ok lo hi l -> lo' <= lo -> hi <= hi' -> forest_ok lo' hi' l.
Proof.
  intros H Hl Hh. unfold forest_ok in *.
  apply (chain_lower _ l lo lo'); [intros c a a' Ha Hle; eapply tree_ok_weaken; [exact Ha | exact Hle | lia] | exact Hl|].
  eapply chain_impl; [|exact H]. apply Forall_forall. intros c _ a Ha. eapply tree_ok_weaken; [exact Ha | lia | exact Hh].
Qed.

Lemma forest_ok_last l : forall lo hi, lo <= hi -> forest_ok lo hi l -> lo <= last_end lo l /\ last_end lo l <= hi.
Proof.
  induction l as [|c l IH]; intros lo hi Hle H; simpl; [lia|]. destruct H as [H1 H2].
  destruct (tree_ok_bounds _ _ _ H1) as [B1 [B2 B3]]. destruct (IH (known_end c) hi B3 H2) as [K1 K2]. lia.
Qed.

Section S.
Variable selp : rid -> option transform.
Notation deriv := (deriv selp).
Notation contributes := (contributes selp).

Definition tree_goal (t : ctree) : Prop := forall lo hi, cmono selp lo hi t -> forest_ok lo (pbyte (c_end t)) (deriv t).

(* running bounds of the two chains: tree side lo_t (last known end) never exceeds call side lo_c *)
Lemma forest_from ts : Forall tree_goal ts ->
  forall lo_t lo_c hi, lo_t <= lo_c -> lo_c <= hi -> cchain contributes (fun lo' k => cmono selp lo' hi k) lo_c ts ->
  forest_ok lo_t hi (flat_map deriv ts).
Proof.
  induction 1 as [|k ts Hk _ IH]; intros lo_t lo_c hi Hle Hhi Hc; simpl; [exact I|].
  destruct Hc as [Hc1 Hc2]. unfold contributes in Hc1, Hc2 |- *. unfold ParseTreeSpec.contributes in Hc1, Hc2.
  destruct (deriv k) as [|n ns] eqn:Ed.
  - simpl in Hc2 |- *. exact (IH lo_t lo_c hi Hle Hhi Hc2).
  - simpl in Hc2. specialize (Hc1 eq_refl). pose proof (Hk lo_c hi Hc1) as Hf. rewrite Ed in Hf.
    assert (Hb : lo_c <= pbyte (c_end k) /\ pbyte (c_end k) <= hi).
    { destruct k as [r b h e kids]. cbn [cmono] in Hc1. cbn [c_end]. destruct Hc1 as [A1 [A2 [A3 _]]]. lia. }
    destruct Hb as [Hb1 Hb2].
    unfold forest_ok. apply chain_app. split.
    + apply (forest_ok_weaken _ lo_c (pbyte (c_end k))); [exact Hf | exact Hle | exact Hb2].
    + destruct (forest_ok_last _ lo_c (pbyte (c_end k)) Hb1 Hf) as [L1 L2].
      rewrite (last_end_nonempty lo_t lo_c (n :: ns)) by discriminate.
      apply (IH (last_end lo_c (n :: ns)) (pbyte (c_end k)) hi L2 Hb2 Hc2).
Qed.

Lemma deriv_ok t : tree_goal t.
Proof.
  induction t as [r b h e kids IH] using ctree_ind'. intros lo hi Hm. cbn [c_end]. cbn [cmono] in Hm.
  destruct Hm as [M1 [M2 [M3 M4]]].
  destruct h; cbn [ParseTreeSpec.deriv]; try exact I.
  pose proof (forest_from kids IH (pbyte b) (pbyte b) (pbyte e) (N.le_refl _) M2 M4) as Hks.
  set (ks := flat_map deriv kids) in *.
  assert (Hnode : forall e', (e' = Some e \/ e' = None) -> forest_ok lo (pbyte e) [Node (Some r) b e' ks]).
  { intros e' He'. split; [|exact I]. cbn [tree_ok]. destruct He'; subst e'; repeat split; try lia; exact Hks. }
  assert (Hup : forest_ok lo (pbyte e) ks) by (apply (forest_ok_weaken _ (pbyte b) (pbyte e)); [exact Hks | exact M1 | lia]).
  destruct (selp r) as [tr|]; [|exact Hup].
  destruct tr; cbn [doc_transform].
  - apply Hnode; auto.
  - apply Hnode; auto.
  - destruct (Nat.eqb (length ks) 1); [exact Hup | apply Hnode; auto].
  - destruct (Nat.eqb (length ks) 0); [exact I | apply Hnode; auto].
Qed.

(* C12_spans, containment: positions nested and ordered in the whole tree *)
Theorem derivation_tree_ok ts n : cmono_forest selp 0 n ts -> tree_ok 0 n (derivation_tree selp ts).
Proof.
  intros H. unfold derivation_tree. cbn [tree_ok null_pos pbyte]. repeat split; try lia.
  assert (Hall : Forall tree_goal ts) by (clear; induction ts; constructor; [apply deriv_ok | assumption]).
  apply (forest_from ts Hall 0 0 n); [lia | lia | exact H].
Qed.
End S.
