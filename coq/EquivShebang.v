(* EquivShebang.v — C09: shebang (rule_t seq< string< '#', '!' >, until< eolf > >) == if_must< string< '#', '!' >, until< eolf > >.
   The two differ only when until< eolf > fails locally after "#!" matched (the expansion would raise); it cannot:
   eolf matches at the end of the input at the latest.  Stated for any first rule. *)
From Coq Require Import Lia Bool.
From PegtlV Require Import Base Decode Grammar Engine EngineFacts AtomFacts Mono Equiv EquivFacts EquivEval EquivHeads EquivTable EquivHeads2 EquivTable2 EquivTableU EquivCong EquivAtoms.

Section Shebang.
Variable G : grammar.
Variable C : cfg.
Hypothesis HC : noact_cfg C.
Hypothesis HG : plain_table G.
Hypothesis HW : table_wf G.

Notation ecl := (ecl G C).
Notation node := (node G).
Notation uequiv := (uequiv G C).

(* eolf fails only on a non-empty input, leaving the cursor *)
Lemma c_eolf_fail d c c' evs : c_eolf C d c = Res Fail c' evs -> c' = c /\ in_empty c = false.
Proof.
  unfold c_eolf, c_node, eval_head. cbn [eval_atom].
  destruct (eol_match (ceol C) c) as [[[b z] c0]|] eqn:Em; [|discriminate].
  destruct b; [discriminate|]. destruct (eol_match_no _ _ _ _ Em) as [-> _].
  destruct (in_empty c); [discriminate|]. intros H. inversion H. split; reflexivity.
Qed.

Lemma until1_eolf_nofail (f : closure) d : cS f (c_eolf C) -> (forall d c c' evs, f d c = Res Fail c' evs -> dM d = true -> c' = c) ->
  forall n c c' evs, until1_loop C (lcl [f]) n d 0 c <> Res Fail c' evs.
Proof.
  intros Hf Hr. induction n as [|n IH]; intros c c' evs; [discriminate|].
  cbn [until1_loop lcl nth_error].
  destruct (f (req d) c) as [[| |x] c1 e1| |] eqn:Ef; try discriminate.
  pose proof (Hr _ _ _ _ Ef eq_refl) as ->.
  destruct (cS_fail _ _ _ (req d) _ _ _ Hf Ef) as [cc [ev K]]. destruct (c_eolf_fail _ _ _ _ K) as [_ Ee]. rewrite Ee.
  destruct (bump_scan (eol_ch (ceol C)) 1 c) as [c2|]; [|discriminate].
  specialize (IH c2). destruct (until1_loop C (lcl [f]) n d 0 c2) as [[| |x] c3 e3| |]; simpl; try discriminate.
  intros H. eapply IH. reflexivity.
Qed.

Lemma until_eolf_nofail u el : node u HUntil1 [el] -> node el HEolf [] -> forall k, cnofail (ecl k u).
Proof.
  intros Nu Nel k d c c' evs H. destruct k as [|k]; [discriminate|].
  assert (Hel : cS (ecl k el) (c_eolf C)).
  { destruct k as [|k0]; [intros ? ? ?; left; reflexivity|].
    apply (node_l G C HC HG k0 0 el HEolf [] []); [exact Nel | reflexivity | constructor | left; reflexivity]. }
  assert (K : cS (ecl (S k) u) (c_until1 C k (ecl k el))).
  { apply (node_l G C HC HG k k u HUntil1 [el]); [exact Nu | reflexivity | | right; lia].
    constructor; [apply (ecl_cS G C HC HG); lia | constructor]. }
  destruct (cS_fail _ _ d d c c' evs K H) as [c2 [e2 K2]].
  unfold c_until1, c_node, eval_head in K2. cbn [eval_atom length seq] in K2. unfold h_until1 in K2.
  pose proof (until1_eolf_nofail (ecl k el) d Hel (fun d0 c0 c1 ev0 Hf Hm => ecl_crest G C HW k el d0 c0 c1 ev0 Hm Hf) k c) as NF.
  destruct (until1_loop C (lcl [ecl k el]) k d 0 c) as [[| |x] c3 e3| |]; simpl in K2; try discriminate.
  eapply NF. reflexivity.
Qed.

Theorem shebang_utable r1 r2 a u el a2 m u2 el2 h :
  node r1 HSeq [a; u] -> node u HUntil1 [el] -> node el HEolf [] ->
  node r2 (HIfMust false) [a2; m] -> node m HMust [u2] -> node u2 HUntil1 [el2] -> node el2 HEolf [] ->
  node a h [] -> node a2 h [] -> names_sub h = false ->
  uequiv r1 r2.
Proof.
  intros N1 Nu Nel N2 Nm Nu2 Nel2 Na Na2 Hh.
  apply (if_must_nofail_utable G C HC HG HW r1 r2 a u a2 m u2 N1 N2 Nm).
  - apply (uequiv_cong G C HC HG a a2 h [] [] Na Na2 Hh). constructor.
  - apply (uequiv_cong G C HC HG u u2 HUntil1 [el] [el2] Nu Nu2 eq_refl). constructor; [|constructor].
    apply (uequiv_cong G C HC HG el el2 HEolf [] [] Nel Nel2 eq_refl). constructor.
  - apply (until_eolf_nofail u2 el2 Nu2 Nel2).
Qed.
Theorem shebang_table r1 r2 a u el a2 m u2 el2 h :
  node r1 HSeq [a; u] -> node u HUntil1 [el] -> node el HEolf [] ->
  node r2 (HIfMust false) [a2; m] -> node m HMust [u2] -> node u2 HUntil1 [el2] -> node el2 HEolf [] ->
  node a h [] -> node a2 h [] -> names_sub h = false ->
  obs_equiv G C r1 r2.
Proof. intros. apply uequiv_obs_equiv. eapply shebang_utable; eassumption. Qed.
End Shebang.
