(* JsonProof.v — property C14, the proofs about the GENERATED table gen/Json_gen.json_table
   (root seq< json::text, eof >), regenerated from /repo/include/tao/pegtl/contrib/json.hpp on
   every run.  Every node is characterised through a lookup `nth_error json_table k = Some ...`
   closed by computation, so an edit of json.hpp that changes the table breaks these proofs.

   Route:  engine model  ==(JsonLockstep.lockstep, generic)==  plain PEG reading Sem of the table
           Sem json_table rule s (scanner_rule s)       for every rule, TOTAL: every input gets a
                                                        verdict, and it is the verdict of the
                                                        deterministic scanner of Rfc8259.v
           scanner = RFC 8259 grammar                   Rfc8259Facts.rfc8259_b_correct          *)
From Coq Require Import Lia.
From PegtlV Require Import Base Decode Grammar Engine Spec ExactSound ExactTop Utf DecodeFacts JsonSem JsonLockstep Rfc8259 Rfc8259Facts JsonModel.
From PegtlV.gen Require Import Json_gen.
Local Open Scope N_scope.

Notation T := json_table.
Notation J := (Sem json_table).

(* ---------- the table consists of covered nodes: by computation on the generated table ---------- *)
Lemma json_supported : supported json_table = true.
Proof. vm_compute. reflexivity. Qed.

(* ---------- atoms ---------- *)
Definition one_of (cs : list N) (s : list N) : option (list N) := atom1 (fun b => mem b cs) s.

Lemma S_one r zs en s : nth_error T r = Some (mknode (HOne true PkChar zs) [] en) -> J r s (one_of (map Z.to_N zs) s).
Proof. intros H. eapply Sem_atom; [exact H | intros; reflexivity]. Qed.
Lemma S_range r lo hi en s : nth_error T r = Some (mknode (HRange true PkChar lo hi) [] en) ->
  J r s (atom1 (fun b => (Z.to_N lo <=? b) && (b <=? Z.to_N hi)) s).
Proof. intros H. eapply Sem_atom; [exact H | intros; reflexivity]. Qed.
Lemma S_ranges r zs en s : nth_error T r = Some (mknode (HRanges PkChar zs) [] en) ->
  J r s (atom1 (nranges (map Z.to_N zs)) s).
Proof. intros H. eapply Sem_atom; [exact H | intros; reflexivity]. Qed.
Lemma S_string r cs en s : nth_error T r = Some (mknode (HString cs) [] en) -> J r s (strip cs s).
Proof. intros H. eapply Sem_atom; [exact H | intros; reflexivity]. Qed.
Lemma S_any r en s : nth_error T r = Some (mknode (HAny PkChar) [] en) -> J r s (atom1 (fun _ => true) s).
Proof. intros H. eapply Sem_atom; [exact H | intros; reflexivity]. Qed.
Lemma S_eof r en s : nth_error T r = Some (mknode HEof [] en) -> J r s (match s with [] => Some [] | _ => None end).
Proof. intros H. eapply Sem_atom; [exact H | intros; reflexivity]. Qed.
Lemma S_utf8 r lo hi en s : nth_error T r = Some (mknode (HRange true PkUtf8 lo hi) [] en) ->
  J r s (match utf8_arith s with
         | PSome v n => if (lo <=? v)%Z && (v <=? hi)%Z then Some (skipn n s) else None
         | _ => None end).
Proof. intros H. eapply Sem_atom; [exact H | intros; reflexivity]. Qed.

Lemma one_of_cons cs b t : one_of cs (b :: t) = if mem b cs then Some t else None.
Proof. reflexivity. Qed.
Lemma one_of_nil cs : one_of cs [] = None.
Proof. reflexivity. Qed.
Lemma mem1 b k : mem b [k] = (b =? k).
Proof. unfold mem. simpl. apply orb_false_r. Qed.

(* the single-character nodes *)
Definition one1 (k : N) (s : list N) : option (list N) :=
  match s with b :: t => if b =? k then Some t else None | [] => None end.
Lemma S_one1 r k en s : nth_error T r = Some (mknode (HOne true PkChar [Z.of_N k]) [] en) -> J r s (one1 k s).
Proof.
  intros H. pose proof (S_one r _ en s H) as K. cbn [map] in K. rewrite N2Z.id in K.
  destruct s as [|b t]; [exact K|]. rewrite one_of_cons, mem1 in K. exact K.
Qed.

(* ---------- ws ---------- *)
Lemma mem_ws b : mem b [32; 9; 10; 13] = is_wsb b.
Proof. unfold mem, is_wsb. simpl. rewrite orb_false_r, !orb_assoc. reflexivity. Qed.

Lemma S_ws s : J 3%nat s (match s with b :: t => if is_wsb b then Some t else None | [] => None end).
Proof.
  pose proof (S_one 3%nat _ _ s eq_refl) as K. cbn [map Z.to_N] in K.
  destruct s as [|b t]; [exact K|]. rewrite one_of_cons, mem_ws in K. exact K.
Qed.
Lemma star_ws s : SemStar T 3%nat s (skip_ws s).
Proof.
  induction s as [|b t IH]; simpl.
  - apply ST_end. apply (S_ws []).
  - pose proof (S_ws (b :: t) : J 3%nat (b :: t) (if is_wsb b then Some t else None)) as K. destruct (is_wsb b).
    + eapply ST_step; [exact K | exact IH].
    + apply ST_end. exact K.
Qed.
(* internal::star< ws > (inside pad) and star< ws > (inside padr) *)
Lemma S_ws2 s : J 2%nat s (Some (skip_ws s)).
Proof. eapply Sem_star; [reflexivity | apply star_ws]. Qed.
Lemma S_ws41 s : J 41%nat s (Some (skip_ws s)).
Proof. eapply Sem_star; [reflexivity | apply star_ws]. Qed.

(* ---------- digits, numbers ---------- *)
Lemma S_digit s : J 28%nat s (match s with b :: t => if is_digitb b then Some t else None | [] => None end).
Proof. pose proof (S_range 28%nat _ _ _ s eq_refl) as K. exact K. Qed.
Lemma star_digit s : SemStar T 28%nat s (skip_digits s).
Proof.
  induction s as [|b t IH]; simpl.
  - apply ST_end. apply (S_digit []).
  - pose proof (S_digit (b :: t) : J 28%nat (b :: t) (if is_digitb b then Some t else None)) as K. destruct (is_digitb b).
    + eapply ST_step; [exact K | exact IH].
    + apply ST_end. exact K.
Qed.
Lemma plus_digit r en s : nth_error T r = Some (mknode HPlus [28%nat] en) -> J r s (scan_digits1 s).
Proof.
  intros H. pose proof (S_digit s) as K. destruct s as [|b t]; simpl.
  - eapply Sem_plus_fail; [exact H | exact K].
  - destruct (is_digitb b).
    + eapply Sem_plus; [exact H | exact K | apply star_digit].
    + eapply Sem_plus_fail; [exact H | exact K].
Qed.
Lemma S_digits32 s : J 32%nat s (scan_digits1 s). Proof. apply (plus_digit 32%nat true). reflexivity. Qed.
Lemma S_digits27 s : J 27%nat s (scan_digits1 s). Proof. apply (plus_digit 27%nat true). reflexivity. Qed.

(* opt< one< '-' > > *)
Lemma S_optminus s : J 23%nat s (Some (skip_minus s)).
Proof.
  pose proof (S_one1 24%nat 45 _ s eq_refl) as K. destruct s as [|b t]; simpl in *.
  - eapply Sem_opt_none; [reflexivity | exact K].
  - destruct (b =? 45).
    + eapply Sem_opt_some; [reflexivity | exact K].
    + eapply Sem_opt_none; [reflexivity | exact K].
Qed.
(* int_ : sor< one< '0' >, plus< digit > > *)
Lemma S_int s : J 25%nat s (scan_int s).
Proof.
  eapply Sem_sor; [reflexivity|].
  pose proof (S_one1 26%nat 48 _ s eq_refl) as K. pose proof (S_digits27 s) as K2.
  destruct s as [|b t]; simpl in *.
  - apply SO_next; [exact K|]. apply SO_next; [exact K2 | apply SO_nil].
  - destruct (b =? 48).
    + apply SO_ok. exact K.
    + apply SO_next; [exact K|]. destruct (is_digitb b).
      * apply SO_ok. exact K2.
      * apply SO_next; [exact K2 | apply SO_nil].
Qed.
(* opt< frac >, frac : seq< one< '.' >, digits > *)
Lemma S_optfrac s : J 29%nat s (Some (scan_frac s)).
Proof.
  pose proof (S_one1 31%nat 46 _ s eq_refl) as K.
  destruct s as [|b t]; simpl in *.
  - eapply Sem_opt_none; [reflexivity|]. eapply Sem_seq; [reflexivity|]. apply SS_fail. exact K.
  - destruct (b =? 46).
    + pose proof (S_digits32 t) as K2. destruct (scan_digits1 t) as [r|].
      * eapply Sem_opt_some; [reflexivity|]. eapply Sem_seq; [reflexivity|].
        eapply SS_cons; [exact K|]. eapply SS_cons; [exact K2 | apply SS_nil].
      * eapply Sem_opt_none; [reflexivity|]. eapply Sem_seq; [reflexivity|].
        eapply SS_cons; [exact K|]. apply SS_fail. exact K2.
    + eapply Sem_opt_none; [reflexivity|]. eapply Sem_seq; [reflexivity|]. apply SS_fail. exact K.
Qed.
(* opt< one< '-', '+' > > *)
Lemma mem_sign b : mem b [45; 43] = is_signb b.
Proof. unfold mem, is_signb. simpl. rewrite orb_false_r. reflexivity. Qed.
Lemma S_optsign s : J 36%nat s (Some (skip_sign s)).
Proof.
  pose proof (S_one 37%nat _ _ s eq_refl) as K. cbn [map Z.to_N] in K.
  destruct s as [|b t]; simpl.
  - eapply Sem_opt_none; [reflexivity | exact K].
  - rewrite one_of_cons, mem_sign in K. destruct (is_signb b).
    + eapply Sem_opt_some; [reflexivity | exact K].
    + eapply Sem_opt_none; [reflexivity | exact K].
Qed.
(* opt< exp >, exp : seq< one< 'e', 'E' >, opt< one< '-', '+' > >, digits > *)
Lemma mem_e b : mem b [101; 69] = is_eb b.
Proof. unfold mem, is_eb. simpl. rewrite orb_false_r. reflexivity. Qed.
Lemma S_optexp s : J 33%nat s (Some (scan_exp s)).
Proof.
  pose proof (S_one 35%nat _ _ s eq_refl) as K. cbn [map Z.to_N] in K.
  destruct s as [|b t]; simpl.
  - eapply Sem_opt_none; [reflexivity|]. eapply Sem_seq; [reflexivity|]. apply SS_fail. exact K.
  - rewrite one_of_cons, mem_e in K. destruct (is_eb b).
    + pose proof (S_optsign t) as K1. pose proof (S_digits32 (skip_sign t)) as K2.
      destruct (scan_digits1 (skip_sign t)) as [r|].
      * eapply Sem_opt_some; [reflexivity|]. eapply Sem_seq; [reflexivity|].
        eapply SS_cons; [exact K|]. eapply SS_cons; [exact K1|]. eapply SS_cons; [exact K2 | apply SS_nil].
      * eapply Sem_opt_none; [reflexivity|]. eapply Sem_seq; [reflexivity|].
        eapply SS_cons; [exact K|]. eapply SS_cons; [exact K1|]. apply SS_fail. exact K2.
    + eapply Sem_opt_none; [reflexivity|]. eapply Sem_seq; [reflexivity|]. apply SS_fail. exact K.
Qed.
(* number : seq< opt< one< '-' > >, int_, opt< frac >, opt< exp > > *)
Lemma S_number s : J 22%nat s (scan_number s).
Proof.
  eapply Sem_seq; [reflexivity|]. unfold scan_number.
  eapply SS_cons; [apply S_optminus|].
  pose proof (S_int (skip_minus s)) as K. destruct (scan_int (skip_minus s)) as [r|].
  - eapply SS_cons; [exact K|]. eapply SS_cons; [apply S_optfrac|]. eapply SS_cons; [apply S_optexp | apply SS_nil].
  - apply SS_fail. exact K.
Qed.

(* ====================================================================================== *)
(* strings                                                                                 *)
(* ====================================================================================== *)
(* the scanner for *char quotation-mark at its canonical fuel, and its unfolding equations *)
Definition schars (s : list N) : option (list N) := scan_chars (Datatypes.S (length s)) s.

Definition hex4_rest (t : list N) : option (list N) :=
  match t with
  | h1 :: h2 :: h3 :: h4 :: t' => if is_hexb h1 && is_hexb h2 && is_hexb h3 && is_hexb h4 then Some t' else None
  | _ => None
  end.
Lemma hex4_rest_len t t' : hex4_rest t = Some t' -> (length t' < length t)%nat.
Proof.
  destruct t as [|h1 [|h2 [|h3 [|h4 t2]]]]; simpl; try discriminate.
  destruct (is_hexb h1 && is_hexb h2 && is_hexb h3 && is_hexb h4); [|discriminate]. intros H; inversion H; subst. simpl. (unfold byte in *; lia).
Qed.

Lemma scan_chars_bs f e t : scan_chars (Datatypes.S f) (92 :: e :: t) =
  if is_escb e then scan_chars f t
  else if e =? 117 then match hex4_rest t with Some t' => scan_chars f t' | None => None end else None.
Proof.
  cbn [scan_chars]. change (92 =? 34) with false. change (92 =? 92) with true. cbv iota.
  destruct (is_escb e); [reflexivity|]. destruct (e =? 117); [|reflexivity].
  destruct t as [|h1 [|h2 [|h3 [|h4 t2]]]]; try reflexivity. simpl.
  destruct (is_hexb h1 && is_hexb h2 && is_hexb h3 && is_hexb h4); reflexivity.
Qed.
Lemma scan_chars_other f b t : (b =? 34) = false -> (b =? 92) = false ->
  scan_chars (Datatypes.S f) (b :: t) =
  match scan_utf8 (b :: t) with
  | Some (cp, r) => if unescaped_cpb cp then scan_chars f r else None
  | None => None end.
Proof. intros H1 H2. cbn [scan_chars]. rewrite H1, H2. reflexivity. Qed.

Lemma schars_nil : schars [] = None.
Proof. reflexivity. Qed.
Lemma schars_quote t : schars (34 :: t) = Some t.
Proof. reflexivity. Qed.
Lemma schars_bs1 : schars [92] = None.
Proof. reflexivity. Qed.
Lemma schars_bs e t : schars (92 :: e :: t) =
  if is_escb e then schars t
  else if e =? 117 then match hex4_rest t with Some t' => schars t' | None => None end else None.
Proof.
  unfold schars at 1. cbn [length]. rewrite scan_chars_bs.
  destruct (is_escb e); [apply scan_chars_fuel; simpl; (unfold byte in *; lia)|].
  destruct (e =? 117); [|reflexivity].
  destruct (hex4_rest t) as [t'|] eqn:E; [|reflexivity].
  apply hex4_rest_len in E. apply scan_chars_fuel. simpl; (unfold byte in *; lia).
Qed.
Lemma schars_other b t : (b =? 34) = false -> (b =? 92) = false ->
  schars (b :: t) =
  match scan_utf8 (b :: t) with
  | Some (cp, r) => if unescaped_cpb cp then schars r else None
  | None => None end.
Proof.
  intros H1 H2. unfold schars at 1. cbn [length]. rewrite (scan_chars_other _ b t H1 H2).
  destruct (scan_utf8 (b :: t)) as [[cp r]|] eqn:E; [|reflexivity].
  destruct (unescaped_cpb cp); [|reflexivity].
  apply scan_utf8_len in E. simpl in E. apply scan_chars_fuel. (unfold byte in *; lia).
Qed.

(* ---------- xdigit, rep< 4, xdigit >, the \uXXXX units ---------- *)
Lemma nranges_hex b : nranges [48; 57; 97; 102; 65; 70] b = is_hexb b.
Proof.
  cbn [nranges]. unfold is_hexb, is_digitb, in_rng.
  destruct ((48 <=? b) && (b <=? 57)), ((97 <=? b) && (b <=? 102)), ((65 <=? b) && (b <=? 70)); reflexivity.
Qed.
Lemma S_xdigit s : J 17%nat s (match s with h :: t => if is_hexb h then Some t else None | [] => None end).
Proof.
  pose proof (S_ranges 17%nat _ _ s eq_refl) as K. cbn [map Z.to_N] in K.
  destruct s as [|h t]; [exact K|]. cbn [atom1] in K. rewrite nranges_hex in K. exact K.
Qed.
Fixpoint rep_hex (k : nat) (t : list N) : option (list N) :=
  match k with
  | O => Some t
  | Datatypes.S k' => match t with h :: t' => if is_hexb h then rep_hex k' t' else None | [] => None end
  end.
Lemma rep_xdigit k : forall t, SemRep T 17%nat k t (rep_hex k t).
Proof.
  induction k as [|k IH]; intros t; simpl; [apply SR_nil|].
  pose proof (S_xdigit t) as K. destruct t as [|h t']; [apply SR_fail; exact K|].
  destruct (is_hexb h); [eapply SR_cons; [exact K | apply IH] | apply SR_fail; exact K].
Qed.
Lemma rep_hex4 t : rep_hex 4 t = hex4_rest t.
Proof.
  destruct t as [|h1 [|h2 [|h3 [|h4 t']]]]; simpl; try reflexivity;
  repeat match goal with |- context [is_hexb ?h] => destruct (is_hexb h) end; reflexivity.
Qed.
Definition uni_unit (t : list N) : option (list N) :=
  match t with u :: t1 => if u =? 117 then hex4_rest t1 else None | [] => None end.
Lemma S_uunit (t : list N) : J 14%nat t (uni_unit t).
Proof.
  eapply Sem_seq; [reflexivity|].
  pose proof (S_one1 15%nat 117 _ t eq_refl) as K. destruct t as [|u t1]; simpl in *; [apply SS_fail; exact K|].
  destruct (u =? 117); [|apply SS_fail; exact K].
  eapply SS_cons; [exact K|].
  assert (K2 : J 16%nat t1 (hex4_rest t1)).
  { rewrite <- rep_hex4. eapply Sem_rep; [reflexivity | apply rep_xdigit]. }
  destruct (hex4_rest t1) as [t2|]; [eapply SS_cons; [exact K2 | apply SS_nil] | apply SS_fail; exact K2].
Qed.
Definition esc_uni (t : list N) : option (list N) :=
  match t with b :: t1 => if b =? 92 then uni_unit t1 else None | [] => None end.
Lemma S_uniseq (t : list N) : J 19%nat t (esc_uni t).
Proof.
  eapply Sem_seq; [reflexivity|].
  pose proof (S_one1 10%nat 92 _ t eq_refl) as K. destruct t as [|b t1]; simpl in *; [apply SS_fail; exact K|].
  destruct (b =? 92); [|apply SS_fail; exact K].
  eapply SS_cons; [exact K|]. pose proof (S_uunit t1) as K2.
  destruct (uni_unit t1) as [t2|]; [eapply SS_cons; [exact K2 | apply SS_nil] | apply SS_fail; exact K2].
Qed.
Lemma esc_uni_schars t t1 : esc_uni t = Some t1 -> schars t = schars t1 /\ (length t1 < length t)%nat.
Proof.
  unfold esc_uni, uni_unit. destruct t as [|b [|u t2]]; try discriminate.
  - destruct (b =? 92); discriminate.
  - destruct (b =? 92) eqn:Eb; [|discriminate]. destruct (u =? 117) eqn:Eu; [|discriminate].
    apply N.eqb_eq in Eb. apply N.eqb_eq in Eu. subst b u. intros H.
    rewrite schars_bs. change (is_escb 117) with false. change (117 =? 117) with true. cbv iota. rewrite H.
    split; [reflexivity|]. apply hex4_rest_len in H. simpl. (unfold byte in *; lia).
Qed.
(* star< seq< one< '\\' >, seq< one< 'u' >, rep< 4, xdigit > > > > : consumes every further unit *)
Lemma star_uni n : forall t : list N, (length t <= n)%nat ->
  exists t2, SemStar T 19%nat t t2 /\ schars t = schars t2 /\ (length t2 <= length t)%nat.
Proof.
  induction n as [|n IH]; intros t L.
  - destruct t; [|simpl in L; (unfold byte in *; lia)]. exists []. split; [apply ST_end; apply (S_uniseq [])|]. split; [reflexivity | (unfold byte in *; lia)].
  - pose proof (S_uniseq t) as K. destruct (esc_uni t) as [t1|] eqn:E.
    + destruct (esc_uni_schars t t1 E) as [E1 L1]. destruct (IH t1) as [t2 [H1 [H2 H3]]]; [(unfold byte in *; lia)|].
      exists t2. split; [eapply ST_step; [exact K | exact H1]|]. split; [congruence | (unfold byte in *; lia)].
    + exists t. split; [apply ST_end; exact K|]. split; [reflexivity | (unfold byte in *; lia)].
Qed.

(* ---------- unescaped : utf8::range< 0x20, 0x10FFFF > against the RFC 3629 table ---------- *)
Lemma utf8_arith_scan s :
  match scan_utf8 s with
  | Some (cp, r) => exists u, s = u ++ r /\ utf8_arith s = PSome (Z.of_N cp) (length u) /\ utf8_enc cp u
  | None => forall v n, utf8_arith s <> PSome v n
  end.
Proof.
  destruct (scan_utf8 s) as [[cp r]|] eqn:E.
  - apply scan_utf8_spec in E. destruct E as [u [Es Hu]]. exists u. split; [exact Es|]. split; [|exact Hu].
    subst s. apply utf8_arith_complete. exact Hu.
  - intros v n H. apply utf8_arith_sound in H. destruct H as [cp [_ [u [tl [Es [_ Hu]]]]]].
    assert (K : scan_utf8 s = Some (cp, tl)) by (apply scan_utf8_spec; exists u; auto). congruence.
Qed.
Lemma skipn_length_app (A : Type) (u r : list A) : skipn (length u) (u ++ r) = r.
Proof. induction u as [|x u IH]; simpl; [reflexivity | exact IH]. Qed.

Lemma S_unescaped (s : list N) : J 20%nat s (match scan_utf8 s with Some (cp, r) => if 32 <=? cp then Some r else None | None => None end).
Proof.
  pose proof (S_utf8 20%nat _ _ _ s eq_refl) as K. pose proof (utf8_arith_scan s) as U.
  destruct (scan_utf8 s) as [[cp r]|].
  - destruct U as [u [Es [Ea Hu]]]. rewrite Ea in K.
    assert (Hc : cp <= 1114111).
    { apply utf8_enc_iff_encode in Hu. destruct Hu as [[H|[_ H]] _]; (unfold byte in *; lia). }
    replace ((32 <=? Z.of_N cp)%Z && (Z.of_N cp <=? 1114111)%Z) with (32 <=? cp) in K.
    + rewrite Es in K at 2. rewrite skipn_length_app in K. exact K.
    + destruct (N.leb_spec 32 cp), (Z.leb_spec 32 (Z.of_N cp)), (Z.leb_spec (Z.of_N cp) 1114111); simpl; try reflexivity; (unfold byte in *; lia).
  - destruct (utf8_arith s) as [|v n|] eqn:E; try exact K. exfalso. exact (U v n eq_refl).
Qed.

Lemma unescaped_first b t cp r : (b =? 34) = false -> (b =? 92) = false -> scan_utf8 (b :: t) = Some (cp, r) ->
  (32 <=? cp) = unescaped_cpb cp.
Proof.
  intros H1 H2 E. apply N.eqb_neq in H1. apply N.eqb_neq in H2.
  assert (Hc : cp <= 1114111).
  { apply scan_utf8_spec in E. destruct E as [u [_ Hu]]. apply utf8_enc_iff_encode in Hu. destruct Hu as [[H|[_ H]] _]; (unfold byte in *; lia). }
  assert (Hn : cp <> 34 /\ cp <> 92).
  { destruct (N.le_gt_cases b 127) as [L|L].
    - rewrite (scan_utf8_ascii b t L) in E. inversion E; subst. auto.
    - pose proof (scan_utf8_multibyte b t cp r L E). (unfold byte in *; lia). }
  unfold unescaped_cpb, in_rng.
  destruct (N.leb_spec 32 cp), (N.leb_spec cp 33), (N.leb_spec 35 cp), (N.leb_spec cp 91), (N.leb_spec 93 cp), (N.leb_spec cp 1114111);
    simpl; try reflexivity; (unfold byte in *; lia).
Qed.

(* ---------- char_ : if_then_else< one< '\\' >, escaped, unescaped > ---------- *)
Lemma mem_esc e : mem e [34; 92; 47; 98; 102; 110; 114; 116] = is_escb e.
Proof. unfold mem, is_escb. simpl. rewrite orb_false_r, !orb_assoc. reflexivity. Qed.

Lemma S_char (s : list N) : exists v, J 9%nat s v /\
  match v with
  | None => forall b t, s = b :: t -> (b =? 34) = false -> schars s = None
  | Some s2 => (length s2 < length s)%nat /\ (forall b t, s = b :: t -> (b =? 34) = false -> schars s = schars s2)
  end.
Proof.
  pose proof (S_one1 10%nat 92 _ s eq_refl) as K10.
  destruct s as [|b t].
  - exists None. split; [|intros b t H; discriminate].
    eapply Sem_ite_else; [reflexivity | exact K10 | apply (S_unescaped [])].
  - simpl in K10. destruct (b =? 92) eqn:E92.
    + (* escaped *) apply N.eqb_eq in E92. subst b.
      assert (Hthen : forall v, J 11%nat t v -> J 9%nat (92 :: t) v).
      { intros v Hv. eapply Sem_ite_then; [reflexivity | exact K10 | exact Hv]. }
      destruct t as [|e t'].
      * exists None. split; [|intros; apply schars_bs1].
        apply Hthen. eapply Sem_sor; [reflexivity|].
        apply SO_next; [apply (S_one 12%nat _ _ [] eq_refl)|].
        apply SO_next; [|apply SO_nil]. eapply Sem_seq; [reflexivity|]. apply SS_fail. apply (S_uunit []).
      * pose proof (S_one 12%nat _ _ (e :: t') eq_refl) as K12. cbn [map Z.to_N] in K12. rewrite one_of_cons, mem_esc in K12.
        destruct (is_escb e) eqn:Ee.
        { exists (Some t'). split.
          - apply Hthen. eapply Sem_sor; [reflexivity|]. apply SO_ok. exact K12.
          - split; [simpl; (unfold byte in *; lia)|]. intros b0 t0 _ _. rewrite schars_bs, Ee. reflexivity. }
        pose proof (S_uunit (e :: t')) as K14.
        destruct (uni_unit (e :: t')) as [t1|] eqn:Eu.
        { destruct (star_uni (length t1) t1 (le_n _)) as [t2 [H1 [H2 H3]]].
          exists (Some t2). split.
          - apply Hthen. eapply Sem_sor; [reflexivity|]. apply SO_next; [exact K12|]. apply SO_ok.
            eapply Sem_seq; [reflexivity|]. eapply SS_cons; [exact K14|]. eapply SS_cons; [|apply SS_nil].
            eapply Sem_star; [reflexivity | exact H1].
          - unfold uni_unit in Eu. destruct (e =? 117) eqn:E117; [|discriminate].
            pose proof (hex4_rest_len _ _ Eu) as L1.
            split; [simpl; (unfold byte in *; lia)|]. intros b0 t0 _ _. rewrite schars_bs, Ee, E117, Eu. exact H2. }
        { exists None. split.
          - apply Hthen. eapply Sem_sor; [reflexivity|]. apply SO_next; [exact K12|]. apply SO_next; [|apply SO_nil].
            eapply Sem_seq; [reflexivity|]. apply SS_fail. exact K14.
          - intros b0 t0 _ _. rewrite schars_bs, Ee. unfold uni_unit in Eu. destruct (e =? 117); [rewrite Eu|]; reflexivity. }
    + (* unescaped *)
      pose proof (S_unescaped (b :: t)) as K20.
      assert (Helse : forall v, J 20%nat (b :: t) v -> J 9%nat (b :: t) v).
      { intros v Hv. eapply Sem_ite_else; [reflexivity | exact K10 | exact Hv]. }
      destruct (scan_utf8 (b :: t)) as [[cp r]|] eqn:Eu.
      * destruct (32 <=? cp) eqn:E32.
        { exists (Some r). split; [apply Helse; exact K20|].
          split; [apply (scan_utf8_len _ _ _ Eu)|]. intros b0 t0 Es E34. inversion Es; subst b0 t0.
          rewrite (schars_other b t E34 E92), Eu. rewrite <- (unescaped_first b t cp r E34 E92 Eu), E32. reflexivity. }
        { exists None. split; [apply Helse; exact K20|].
          intros b0 t0 Es E34. inversion Es; subst b0 t0.
          rewrite (schars_other b t E34 E92), Eu. rewrite <- (unescaped_first b t cp r E34 E92 Eu), E32. reflexivity. }
      * exists None. split; [apply Helse; exact K20|].
        intros b0 t0 Es E34. inversion Es; subst b0 t0. rewrite (schars_other b t E34 E92), Eu. reflexivity.
Qed.

(* ---------- until< at< one< QUOTE > >, char_ > : stops in front of the closing quotation mark ---------- *)
Lemma until_chars n : forall s : list N, (length s <= n)%nat -> SemUntil T 8%nat 9%nat s (option_map (cons 34) (schars s)).
Proof.
  induction n as [|n IH]; intros s L.
  - destruct s; [|simpl in L; (unfold byte in *; lia)]. destruct (S_char []) as [v [Hv Pv]].
    destruct v as [s2|]; [simpl in Pv; (unfold byte in *; lia)|].
    apply SU_fail; [|exact Hv]. eapply Sem_at_fail; [reflexivity | apply (S_one1 6%nat 34 _ [] eq_refl)].
  - destruct s as [|b t]; [apply IH; simpl; (unfold byte in *; lia)|].
    pose proof (S_one1 6%nat 34 _ (b :: t) eq_refl) as K6. simpl in K6.
    destruct (b =? 34) eqn:E34.
    + apply N.eqb_eq in E34. subst b. rewrite schars_quote. simpl. apply SU_end. eapply Sem_at_ok; [reflexivity | exact K6].
    + assert (K8 : J 8%nat (b :: t) None) by (eapply Sem_at_fail; [reflexivity | exact K6]).
      destruct (S_char (b :: t)) as [v [Hv Pv]]. destruct v as [s2|].
      * destruct Pv as [L2 E2]. rewrite (E2 b t eq_refl E34).
        eapply SU_step; [exact K8 | exact Hv|]. apply IH. simpl in L, L2. (unfold byte in *; lia).
      * rewrite (Pv b t eq_refl E34). simpl. apply SU_fail; [exact K8 | exact Hv].
Qed.

(* string : seq< one< QUOTE >, string_content, any >  and  key : seq< one< QUOTE >, key_content, any > *)
Lemma string_like r rc en en2 (s : list N) :
  nth_error T r = Some (mknode HSeq [6%nat; rc; 21%nat] en) ->
  nth_error T rc = Some (mknode HUntil2 [8%nat; 9%nat] en2) -> J r s (scan_string s).
Proof.
  intros Hr Hc. eapply Sem_seq; [exact Hr|].
  pose proof (S_one1 6%nat 34 _ s eq_refl) as K6.
  destruct s as [|b t]; [apply SS_fail; exact K6|].
  cbn [one1] in K6. unfold scan_string. change (scan_chars (Datatypes.S (length t)) t) with (schars t).
  destruct (b =? 34) eqn:E34; [|apply SS_fail; exact K6].
  eapply SS_cons; [exact K6|].
  assert (Kc : J rc t (option_map (cons 34) (schars t))).
  { eapply Sem_until; [exact Hc | apply (until_chars (length t)); apply le_n]. }
  destruct (schars t) as [r'|]; simpl in Kc.
  - eapply SS_cons; [exact Kc|]. eapply SS_cons; [|apply SS_nil]. apply (S_any 21%nat _ (34 :: r') eq_refl).
  - apply SS_fail. exact Kc.
Qed.
Lemma S_string5 s : J 5%nat s (scan_string s).
Proof. eapply string_like; reflexivity. Qed.
Lemma S_key s : J 45%nat s (scan_string s).
Proof. eapply string_like; reflexivity. Qed.

(* ====================================================================================== *)
(* objects and arrays                                                                      *)
(* ====================================================================================== *)
(* value_separator : padr< one< ',' > > *)
Lemma S_valsep (s : list N) : J 52%nat s (match s with c :: t => if c =? 44 then Some (skip_ws t) else None | [] => None end).
Proof.
  eapply Sem_seq; [reflexivity|]. pose proof (S_one1 53%nat 44 _ s eq_refl) as K.
  destruct s as [|c t]; [apply SS_fail; exact K|]. cbn [one1] in K.
  destruct (c =? 44); [|apply SS_fail; exact K].
  eapply SS_cons; [exact K|]. eapply SS_cons; [apply S_ws41 | apply SS_nil].
Qed.
(* name_separator : pad< one< ':' >, ws > *)
Lemma S_namesep (s : list N) : J 47%nat s (match skip_ws s with c :: t => if c =? 58 then Some (skip_ws t) else None | [] => None end).
Proof.
  eapply Sem_seq; [reflexivity|]. eapply SS_cons; [apply S_ws2|].
  pose proof (S_one1 48%nat 58 _ (skip_ws s) eq_refl) as K.
  destruct (skip_ws s) as [|c t]; [apply SS_fail; exact K|]. cbn [one1] in K.
  destruct (c =? 58); [|apply SS_fail; exact K].
  eapply SS_cons; [exact K|]. eapply SS_cons; [apply S_ws2 | apply SS_nil].
Qed.

Lemma scan_tail_S item close n c (t : list N) :
  scan_tail item close (Datatypes.S n) (c :: t) =
  if c =? close then Some t
  else if c =? 44 then match item (skip_ws t) with Some s' => scan_tail item close n s' | None => None end
  else None.
Proof. reflexivity. Qed.

Section Container.
Variables rc rbeg ropen rcont rseq ritem rstar rstarseq rnext rclose : nat.
Variables e1 e2 e3 e4 e5 e6 e7 e8 e9 : bool.
Variables open close : N.
Variable item : list N -> option (list N).
Hypothesis Hc : nth_error T rc = Some (mknode HSeq [rbeg; rcont; rclose] e1).
Hypothesis Hbeg : nth_error T rbeg = Some (mknode HSeq [ropen; 41%nat] e2).
Hypothesis Hopen : nth_error T ropen = Some (mknode (HOne true PkChar [Z.of_N open]) [] e3).
Hypothesis Hcont : nth_error T rcont = Some (mknode HPartial [rseq] e4).
Hypothesis Hseq : nth_error T rseq = Some (mknode HSeq [ritem; rstar] e5).
Hypothesis Hstar : nth_error T rstar = Some (mknode HStarPartial [rstarseq] e6).
Hypothesis Hstarseq : nth_error T rstarseq = Some (mknode HSeq [52%nat; rnext] e7).
Hypothesis Hnext : nth_error T rnext = Some (mknode HSeq [ritem] e8).
Hypothesis Hclose : nth_error T rclose = Some (mknode (HOne true PkChar [Z.of_N close]) [] e9).
Hypothesis Hclose44 : (44 =? close) = false.
Variable m : nat.
Hypothesis Hitem : forall x : list N, (length x <= m)%nat -> J ritem x (item x).
Hypothesis Hnl : nonlen item.
Hypothesis Hitem_nil : item [] = None.
Hypothesis Hitem_close : forall t, item (close :: t) = None.

Lemma tail_loop n : forall s : list N, (length s <= n)%nat -> (length s <= m)%nat ->
  exists s2, SemStar T rstarseq s s2 /\ scan_tail item close (Datatypes.S (length s)) s = one1 close s2.
Proof.
  induction n as [|n IH]; intros s Ln Lm.
  - destruct s; [|simpl in Ln; lia]. exists []. split; [|reflexivity].
    apply ST_end. eapply Sem_seq; [exact Hstarseq|]. apply SS_fail. apply (S_valsep []).
  - destruct s as [|c t]; [apply IH; simpl; lia|].
    pose proof (S_valsep (c :: t)) as K52. cbn iota in K52.
    cbn [length]. rewrite scan_tail_S.
    destruct (c =? 44) eqn:E44.
    + apply N.eqb_eq in E44. subst c. rewrite Hclose44.
      pose proof (skip_ws_len t) as Lw. simpl in Ln, Lm.
      assert (Kn : J rnext (skip_ws t) (item (skip_ws t))).
      { pose proof (Hitem (skip_ws t)) as Ki. eapply Sem_seq; [exact Hnext|].
        destruct (item (skip_ws t)) as [s'|]; [eapply SS_cons; [apply Ki; lia | apply SS_nil] | apply SS_fail; apply Ki; lia]. }
      destruct (item (skip_ws t)) as [s'|] eqn:Ei.
      * pose proof (Hnl _ _ Ei) as Ls. destruct (IH s') as [s2 [H1 H2]]; [lia | lia |].
        exists s2. split.
        { eapply ST_step; [|exact H1]. eapply Sem_seq; [exact Hstarseq|].
          eapply SS_cons; [exact K52|]. eapply SS_cons; [exact Kn | apply SS_nil]. }
        { rewrite <- H2. apply scan_tail_fuel; [exact Hnl | lia]. }
      * exists (44 :: t). split.
        { apply ST_end. eapply Sem_seq; [exact Hstarseq|]. eapply SS_cons; [exact K52|]. apply SS_fail. exact Kn. }
        { cbn [one1]. rewrite Hclose44. reflexivity. }
    + exists (c :: t). split.
      * apply ST_end. eapply Sem_seq; [exact Hstarseq|]. apply SS_fail. exact K52.
      * cbn [one1]. destruct (c =? close); reflexivity.
Qed.

Lemma container (s : list N) : (length s <= Datatypes.S m)%nat ->
  J rc s (match s with b :: t => if b =? open then scan_container item close t else None | [] => None end).
Proof.
  intros L. eapply Sem_seq; [exact Hc|].
  assert (Kb : J rbeg s (match s with b :: t => if b =? open then Some (skip_ws t) else None | [] => None end)).
  { eapply Sem_seq; [exact Hbeg|]. pose proof (S_one1 ropen open _ s Hopen) as K.
    destruct s as [|b t]; [apply SS_fail; exact K|]. cbn [one1] in K.
    destruct (b =? open); [|apply SS_fail; exact K].
    eapply SS_cons; [exact K|]. eapply SS_cons; [apply S_ws41 | apply SS_nil]. }
  destruct s as [|b t]; [apply SS_fail; exact Kb|].
  destruct (b =? open); [|apply SS_fail; exact Kb].
  eapply SS_cons; [exact Kb|]. unfold scan_container.
  pose proof (skip_ws_len t) as Lw. simpl in L.
  set (t1 := skip_ws t) in *.
  assert (L1 : (length t1 <= m)%nat) by lia.
  pose proof (Hitem t1 L1) as Ki.
  assert (Knone : item t1 = None -> SemSeq T [rcont; rclose] t1 (one1 close t1)).
  { intros Ei. rewrite Ei in Ki. eapply SS_cons.
    - eapply Sem_opt_none; [exact Hcont|]. eapply Sem_seq; [exact Hseq|]. apply SS_fail. exact Ki.
    - pose proof (S_one1 rclose close _ t1 Hclose) as Kc.
      destruct (one1 close t1) as [x|]; [eapply SS_cons; [exact Kc | apply SS_nil] | apply SS_fail; exact Kc]. }
  destruct t1 as [|c t'] eqn:Et1.
  - apply (Knone Hitem_nil).
  - destruct (c =? close) eqn:Ecl.
    + apply N.eqb_eq in Ecl. subst c. pose proof (Knone (Hitem_close t')) as K. cbn [one1] in K. rewrite N.eqb_refl in K. exact K.
    + destruct (item (c :: t')) as [s'|] eqn:Ei.
      * pose proof (Hnl _ _ Ei) as Ls. destruct (tail_loop (length s') s' (le_n _)) as [s2 [H1 H2]]; [lia|].
        rewrite H2. eapply SS_cons.
        { eapply Sem_opt_some; [exact Hcont|]. eapply Sem_seq; [exact Hseq|].
          eapply SS_cons; [exact Ki|]. eapply SS_cons; [|apply SS_nil]. eapply Sem_star; [exact Hstar | exact H1]. }
        { pose proof (S_one1 rclose close _ s2 Hclose) as Kc.
          destruct (one1 close s2) as [x|]; [eapply SS_cons; [exact Kc | apply SS_nil] | apply SS_fail; exact Kc]. }
      * pose proof (Knone eq_refl) as K. cbn [one1] in K. rewrite Ecl in K. exact K.
Qed.
End Container.

(* ====================================================================================== *)
(* value                                                                                   *)
(* ====================================================================================== *)
Lemma strip_is_strip_prefix p : forall s, strip p s = strip_prefix p s.
Proof. induction p as [|x p IH]; intros s; simpl; [reflexivity|]. destruct s as [|y s]; [reflexivity|]. rewrite IH. reflexivity. Qed.

Section ValueStep.
Variable f : nat.
Hypothesis IHv : forall y : list N, (length y < f)%nat -> J 4%nat y (scan_value f y).

(* array_element / member_value : padr< value > *)
Lemma S_element r en (x : list N) : nth_error T r = Some (mknode HSeq [4%nat; 41%nat] en) ->
  (length x < f)%nat -> J r x (scan_element (scan_value f) x).
Proof.
  intros Hr L. eapply Sem_seq; [exact Hr|]. unfold scan_element. pose proof (IHv x L) as K.
  destruct (scan_value f x) as [y|]; simpl.
  - eapply SS_cons; [exact K|]. eapply SS_cons; [apply S_ws41 | apply SS_nil].
  - apply SS_fail. exact K.
Qed.
(* member : seq< key, name_separator, member_value > *)
Lemma S_member (x : list N) : (length x < f)%nat -> J 44%nat x (scan_member (scan_value f) x).
Proof.
  intros L. eapply Sem_seq; [reflexivity|]. unfold scan_member.
  pose proof (S_key x) as K1. destruct (scan_string x) as [s1|] eqn:E1; [|apply SS_fail; exact K1].
  eapply SS_cons; [exact K1|]. apply scan_string_len in E1.
  pose proof (S_namesep s1) as K2. pose proof (skip_ws_len s1) as L1.
  destruct (skip_ws s1) as [|c s2]; [apply SS_fail; exact K2|].
  destruct (c =? 58); [|apply SS_fail; exact K2].
  eapply SS_cons; [exact K2|]. pose proof (skip_ws_len s2) as L2. simpl in L1.
  assert (K3 : J 49%nat (skip_ws s2) (scan_element (scan_value f) (skip_ws s2))) by (eapply S_element; [reflexivity | lia]).
  unfold scan_element in K3.
  destruct (option_map skip_ws (scan_value f (skip_ws s2))) as [y|]; [eapply SS_cons; [exact K3 | apply SS_nil] | apply SS_fail; exact K3].
Qed.

Lemma S_object (s : list N) : (length s <= f)%nat ->
  J 38%nat s (match s with b :: t => if b =? 123 then scan_container (scan_member (scan_value f)) 125 t else None | [] => None end).
Proof.
  intros L. destruct f as [|m] eqn:Ef.
  - destruct s; [|simpl in L; lia]. eapply Sem_seq; [reflexivity|]. apply SS_fail.
    eapply Sem_seq; [reflexivity|]. apply SS_fail. apply (S_one1 40%nat 123 _ [] eq_refl).
  - rewrite <- Ef in *.
    apply (container 38%nat 39%nat 40%nat 42%nat 43%nat 44%nat 50%nat 51%nat 54%nat 55%nat _ _ _ _ _ _ _ _ _ 123 125
             (scan_member (scan_value f)) eq_refl eq_refl eq_refl eq_refl eq_refl eq_refl eq_refl eq_refl eq_refl eq_refl m).
    + intros x Lx. apply S_member. lia.
    + apply scan_member_nonlen.
    + reflexivity.
    + intros t. reflexivity.
    + lia.
Qed.
Lemma scan_element_close t : scan_element (scan_value f) (93 :: t) = None.
Proof. unfold scan_element. destruct f as [|m]; reflexivity. Qed.
Lemma scan_element_nil : scan_element (scan_value f) [] = None.
Proof. unfold scan_element. destruct f as [|m]; reflexivity. Qed.
Lemma S_array (s : list N) : (length s <= f)%nat ->
  J 56%nat s (match s with b :: t => if b =? 91 then scan_container (scan_element (scan_value f)) 93 t else None | [] => None end).
Proof.
  intros L. destruct f as [|m] eqn:Ef.
  - destruct s; [|simpl in L; lia]. eapply Sem_seq; [reflexivity|]. apply SS_fail.
    eapply Sem_seq; [reflexivity|]. apply SS_fail. apply (S_one1 58%nat 91 _ [] eq_refl).
  - rewrite <- Ef in *.
    apply (container 56%nat 57%nat 58%nat 59%nat 60%nat 61%nat 62%nat 63%nat 64%nat 65%nat _ _ _ _ _ _ _ _ _ 91 93
             (scan_element (scan_value f)) eq_refl eq_refl eq_refl eq_refl eq_refl eq_refl eq_refl eq_refl eq_refl eq_refl m).
    + intros x Lx. eapply S_element; [reflexivity | lia].
    + apply scan_element_nonlen.
    + apply scan_element_nil.
    + apply scan_element_close.
    + lia.
Qed.

(* value : sor< string, number, object, array, false_, true_, null > *)
Definition first_some (l : list (option (list N))) : option (list N) :=
  fold_right (fun x acc => match x with Some _ => x | None => acc end) None l.
Lemma sor_cons r rs v vs (s : list N) : J r s v -> SemSor T rs s (first_some vs) -> SemSor T (r :: rs) s (first_some (v :: vs)).
Proof. intros H1 H2. cbn [first_some fold_right]. destruct v as [x|]; [apply SO_ok; exact H1 | apply SO_next; [exact H1 | exact H2]]. Qed.

Lemma S_value_step (s : list N) : (length s <= f)%nat -> J 4%nat s (scan_value (Datatypes.S f) s).
Proof.
  intros L. eapply Sem_sor; [reflexivity|].
  pose proof (S_string5 s) as K1. pose proof (S_number s) as K2. pose proof (S_object s L) as K3. pose proof (S_array s L) as K4.
  pose proof (S_string 66%nat _ _ s eq_refl) as K5. pose proof (S_string 67%nat _ _ s eq_refl) as K6. pose proof (S_string 68%nat _ _ s eq_refl) as K7.
  rewrite strip_is_strip_prefix in K5, K6, K7.
  set (obj := match s with b :: t => if b =? 123 then scan_container (scan_member (scan_value f)) 125 t else None | [] => None end) in *.
  set (arr := match s with b :: t => if b =? 91 then scan_container (scan_element (scan_value f)) 93 t else None | [] => None end) in *.
  assert (K : SemSor T [5; 22; 38; 56; 66; 67; 68]%nat s
                (first_some [scan_string s; scan_number s; obj; arr; strip_prefix lit_false s; strip_prefix lit_true s; strip_prefix lit_null s])).
  { apply sor_cons; [exact K1|]. apply sor_cons; [exact K2|]. apply sor_cons; [exact K3|]. apply sor_cons; [exact K4|].
    apply sor_cons; [exact K5|]. apply sor_cons; [exact K6|]. apply sor_cons; [exact K7|]. apply SO_nil. }
  match type of K with SemSor _ _ _ ?v => replace (scan_value (Datatypes.S f) s) with v; [exact K|] end.
  subst obj arr.
  clear. destruct s as [|b t]; [reflexivity|].
  cbn [scan_value first_some fold_right].
  destruct (b =? 34) eqn:E34.
  { apply N.eqb_eq in E34. subst b. destruct (scan_string (34 :: t)); reflexivity. }
  destruct (b =? 123) eqn:E123.
  { apply N.eqb_eq in E123. subst b. destruct (scan_container (scan_member (scan_value f)) 125 t); reflexivity. }
  destruct (b =? 91) eqn:E91.
  { apply N.eqb_eq in E91. subst b. destruct (scan_container (scan_element (scan_value f)) 93 t); reflexivity. }
  destruct (b =? 102) eqn:E102.
  { apply N.eqb_eq in E102. subst b. destruct (strip_prefix lit_false (102 :: t)); reflexivity. }
  destruct (b =? 116) eqn:E116.
  { apply N.eqb_eq in E116. subst b. destruct (strip_prefix lit_true (116 :: t)); reflexivity. }
  destruct (b =? 110) eqn:E110.
  { apply N.eqb_eq in E110. subst b. destruct (strip_prefix lit_null (110 :: t)); reflexivity. }
  unfold scan_string. rewrite E34.
  cbn [strip_prefix lit_false lit_true lit_null].
  rewrite (N.eqb_sym 102 b), (N.eqb_sym 116 b), (N.eqb_sym 110 b), E102, E116, E110.
  destruct (scan_number (b :: t)); reflexivity.
Qed.
End ValueStep.

Theorem value_fuel f : forall s : list N, (length s < f)%nat -> J 4%nat s (scan_value f s).
Proof.
  induction f as [|f IH]; intros s L; [lia|]. apply S_value_step; [exact IH | lia].
Qed.
(* json::value: TOTAL (every input gets a verdict) and equal to the scanner *)
Theorem value_total (s : list N) : J json_value s (scan_val s).
Proof. apply value_fuel. (unfold byte in *; lia). Qed.

(* text : pad< value, ws > ;  root : seq< text, eof > *)
Definition scan_text (s : list N) : option (list N) := option_map skip_ws (scan_val (skip_ws s)).
Theorem text_total (s : list N) : J json_text s (scan_text s).
Proof.
  eapply Sem_seq; [reflexivity|]. unfold scan_text.
  eapply SS_cons; [apply S_ws2|]. pose proof (value_total (skip_ws s)) as K.
  destruct (scan_val (skip_ws s)) as [r|]; simpl.
  - eapply SS_cons; [exact K|]. eapply SS_cons; [apply S_ws2 | apply SS_nil].
  - apply SS_fail. exact K.
Qed.
Theorem root_total (s : list N) : J json_root s (if rfc8259_b s then Some [] else None).
Proof.
  eapply Sem_seq; [reflexivity|]. unfold rfc8259_b.
  pose proof (text_total s) as K. unfold scan_text in K.
  destruct (scan_val (skip_ws s)) as [r|]; simpl in K.
  - eapply SS_cons; [exact K|]. pose proof (S_eof 69%nat _ (skip_ws r) eq_refl) as Ke.
    destruct (skip_ws r) as [|c t]; [eapply SS_cons; [exact Ke | apply SS_nil] | apply SS_fail; exact Ke].
  - apply SS_fail. exact K.
Qed.

(* ====================================================================================== *)
(* the engine model on the generated table                                                 *)
(* ====================================================================================== *)
(* every configuration without veto/throwing actions and without raise-on-failure controls
   (ExactTop.void_cfg: Action = nothing or void apply/apply0 only, Control = normal), every
   apply mode / rewind mode / action family / control family d, every start position p *)
Section Engine.
Variable C : cfg.
Hypothesis HC : void_cfg C.
Variable d : dyn.
Variable p : pos.

Let Hacts := proj1 HC.
Let Habeh := proj1 (proj2 HC).
Let Hrof := proj2 (proj2 HC).

Notation run_json f s := (eval json_table C f d json_root (mkcur s p)).

Lemma json_sound (s : list N) f c' evs : bytes_ok s -> run_json f s = Res Ok c' evs -> JSON_text s.
Proof.
  intros Hb H.
  pose proof (engine_Sem json_table C json_supported Hacts Habeh Hrof f d json_root (mkcur s p) Ok c' evs Hb H) as K.
  cbn [rest] in K. pose proof (Sem_functional _ _ _ _ _ K (root_total s)) as E.
  apply rfc8259_b_correct. destruct (rfc8259_b s); [reflexivity | discriminate].
Qed.

Lemma json_exact (s : list N) : bytes_ok s ->
  exists f c' evs, run_json f s = Res (if rfc8259_b s then Ok else Fail) c' evs /\ (rfc8259_b s = true -> rest c' = []).
Proof.
  intros Hb.
  destruct (Sem_engine json_table C json_supported Hacts Habeh Hrof json_root s _ d (mkcur s p) Hb eq_refl (root_total s))
    as [f [c' [evs [H1 H2]]]].
  exists f, c', evs. destruct (rfc8259_b s); split; try exact H1.
  - intros _. apply H2. reflexivity.
  - discriminate.
Qed.

Lemma json_complete (s : list N) : bytes_ok s -> JSON_text s ->
  exists f c' evs, run_json f s = Res Ok c' evs /\ rest c' = [].
Proof.
  intros Hb Ht. apply rfc8259_b_correct in Ht. destruct (json_exact s Hb) as [f [c' [evs [H1 H2]]]].
  rewrite Ht in H1. exists f, c', evs. split; [exact H1 | apply H2; exact Ht].
Qed.

Lemma json_rejects (s : list N) : bytes_ok s -> ~ JSON_text s -> exists f c' evs, run_json f s = Res Fail c' evs.
Proof.
  intros Hb Hn. destruct (json_exact s Hb) as [f [c' [evs [H1 _]]]].
  destruct (rfc8259_b s) eqn:E; [exfalso; apply Hn; apply rfc8259_b_correct; exact E|].
  exists f, c', evs. exact H1.
Qed.

Lemma json_no_raise (s : list N) f : bytes_ok s ->
  match run_json f s with Res (Exc _) _ _ => False | Err => False | _ => True end.
Proof. intros Hb. apply (engine_never_raises_or_errs json_table C json_supported Hacts Habeh Hrof f d json_root (mkcur s p) Hb). Qed.

(* a verdict is reached with finite fuel, and more fuel never changes it *)
Lemma json_terminates (s : list N) : bytes_ok s ->
  exists f o c' evs, (o = Ok \/ o = Fail) /\ forall f', (f <= f')%nat -> run_json f' s = Res o c' evs.
Proof.
  intros Hb. destruct (json_exact s Hb) as [f [c' [evs [H1 _]]]].
  exists f, (if rfc8259_b s then Ok else Fail), c', evs. split; [destruct (rfc8259_b s); auto|].
  intros f' L. eapply Mono.eval_mono_res; eauto.
Qed.
End Engine.

(* the configuration of a plain parse< seq< json::text, eof > >( memory_input<> ) call *)
Lemma no_actions_void e : void_cfg (no_actions e).
Proof.
  split; [intros fam r; exact I|]. split; [intros fam r b e0; exists true; reflexivity | intros k r; reflexivity].
Qed.

Lemma json_model_exact (s : list N) : bytes_ok s ->
  (exists f, forall f', (f <= f')%nat -> json_verdict f' s = if rfc8259_b s then VTrue else VFalse) /\
  (forall f, json_verdict f s = VOutOfFuel \/ json_verdict f s = if rfc8259_b s then VTrue else VFalse).
Proof.
  intros Hb. destruct (json_exact json_cfg (no_actions_void _) json_dyn pos0 s Hb) as [f [c' [evs [H1 _]]]].
  assert (Hf : forall f', (f <= f')%nat -> json_verdict f' s = if rfc8259_b s then VTrue else VFalse).
  { intros f' L. unfold json_verdict, json_eval, run. rewrite (Mono.eval_mono_res _ _ _ _ _ _ _ _ _ _ H1 L).
    destruct (rfc8259_b s); reflexivity. }
  split; [exists f; exact Hf|].
  intros f0. destruct (Nat.le_ge_cases f f0) as [L|L]; [right; apply Hf; exact L|].
  unfold json_verdict, json_eval, run.
  destruct (Mono.eval_mono json_table json_cfg f0 f L json_dyn json_root (mkcur s pos0)) as [E|E].
  - left. rewrite E. reflexivity.
  - right. rewrite E, H1. destruct (rfc8259_b s); reflexivity.
Qed.

(* the generated table contains no must / raise / if_must / try_catch / action-changing head at all *)
Definition raising_head (h : head) : bool :=
  match h with
  | HMust | HRaise | HIfMust _ | HTryCatchFalse _ | HTryCatchNested _ | HAction _ | HControl _ | HState
  | HApply _ | HApply0 _ | HIfApply _ | HEnable | HDisable => true
  | _ => false
  end.
Lemma json_no_raising_head : existsb (fun nd => raising_head (nhead nd)) json_table = false.
Proof. vm_compute. reflexivity. Qed.
