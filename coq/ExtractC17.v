(* ExtractC17.v — extraction of the C17 model (Unescape.v) and of the executable part of its
   specification (UnescapeSpec.v) for the correspondence driver.  ExtrOcamlBasic only: numbers
   stay Coq's positive/N/nat inductives. *)
From PegtlV Require Import Base Unescape UnescapeSpec.
From Coq Require Import Extraction ExtrOcamlBasic.
Extraction Language OCaml.
Extraction "c17_model.ml"
  utf8_append_utf32 unhex_char unhex_string append_all unescape_c unescape_u unescape_x unescape_j
  json_qs json_rs cex_qs cex_rs
  is_scalar encode encode_all hexval is_xdigit pair_units pair_prefix assoc json_escapes c_escapes.
