(* StateScopeFacts.v — the scope checker of StateScope.v accepts every log the engine can produce (C13):
   for every table, configuration, initial modes, input and fuel, and for every outcome (success,
   local failure, exception at any depth). *)
From Coq Require Import Lia Bool.
From PegtlV Require Import Base Decode Grammar Engine StateScope.

Section SF.
Variable G : grammar.
Variable C : cfg.
Notation runm := (run G C).
Notation stepm := (step G C).

Fixpoint lastev (pv : option event) (a : list event) : option event :=
  match a with [] => pv | e :: tl => lastev (Some e) tl end.

Lemma run_app a : forall pv st b,
  runm pv st (a ++ b) = match runm pv st a with Some st1 => runm (lastev pv a) st1 b | None => None end.
Proof. induction a as [|e a IH]; intros pv st b; simpl; [reflexivity|]. destruct (stepm pv st e); [apply IH | reflexivity]. Qed.
Lemma lastev_app a : forall pv b, lastev pv (a ++ b) = lastev (lastev pv a) b.
Proof. induction a as [|e a IH]; intros pv b; simpl; [reflexivity | apply IH]. Qed.
Lemma lastev_snoc a e pv : lastev pv (a ++ [e]) = Some e.
Proof. rewrite lastev_app. reflexivity. Qed.

Lemma pos_eqb_refl p : pos_eqb p p = true.
Proof. unfold pos_eqb. rewrite !N.eqb_refl. reflexivity. Qed.

(* ---------- neutrality under a stack predicate ---------- *)
Definition Neu (P : list frame -> Prop) (evs : list event) : Prop := forall pv st, P st -> runm pv st evs = Some st.
Lemma Neu_nil P : Neu P []. Proof. intros pv st _. reflexivity. Qed.
Lemma Neu_app P a b : Neu P a -> Neu P b -> Neu P (a ++ b).
Proof. intros Ha Hb pv st Hp. rewrite run_app, (Ha pv st Hp). apply Hb, Hp. Qed.
Lemma Neu_cons P e b : Neu P [e] -> Neu P b -> Neu P (e :: b).
Proof. intros H1 H2. change (e :: b) with ([e] ++ b). apply Neu_app; assumption. Qed.
Lemma Neu_weaken (P Q : list frame -> Prop) evs : (forall st, Q st -> P st) -> Neu P evs -> Neu Q evs.
Proof. intros HQP H pv st Hq. apply H, HQP, Hq. Qed.

(* PC v: a sub-invocation carrying v may be entered here; PO r v: rule r's own events (hooks, actions, raises, state<> blocks) may occur here with values v *)
Definition PC (v : dv) (st : list frame) : Prop := child_dv G C st (vA v) (vCtl v) = Some v.
Definition PO (r : rid) (v : dv) (bp : pos) (st : list frame) : Prop := own C st = Some (r, v) /\ pre_a C st = false /\ frame_pos st = Some bp.

Definition GoodS (v : dv) (x : result) : Prop := match x with Res _ _ evs => Neu (PC v) evs | _ => True end.
Definition Ends (x : result) : Prop :=
  match x with
  | Res o c' evs => (evs = [] /\ o = Fail) \/ exists evs0 k r, evs = evs0 ++ [EExit k r (okind o) (cpos c')]
  | _ => True end.
Definition GoodP (r : rid) (v : dv) (bp : pos) (x : result) : Prop := match x with Res _ _ evs => Neu (PO r v bp) evs | _ => True end.

Lemma GoodS_prepend v evs x : Neu (PC v) evs -> GoodS v x -> GoodS v (prepend evs x).
Proof. destruct x; simpl; auto. intros; apply Neu_app; assumption. Qed.
Lemma GoodP_prepend r v bp evs x : Neu (PO r v bp) evs -> GoodP r v bp x -> GoodP r v bp (prepend evs x).
Proof. destruct x; simpl; auto. intros; apply Neu_app; assumption. Qed.

Lemma guard_P r v bp m s x : GoodP r v bp x -> GoodP r v bp (guard m s x).
Proof. destruct x as [[| |e] c evs| |]; simpl; auto. Qed.
Lemma bind_P r v bp x k : GoodP r v bp x -> (forall c, GoodP r v bp (k c)) -> GoodP r v bp (bind x k).
Proof. intros Hx Hk. destruct x as [[| |e] c evs| |]; simpl in *; auto. apply GoodP_prepend; auto. Qed.

Lemma own_unsealed st x : own C st = Some x -> sealed st = false.
Proof. unfold own. destruct (sealed st); simpl; [discriminate | reflexivity]. Qed.
Lemma own_child st r v a ctl : own C st = Some (r, v) -> child_dv G C st a ctl = child_of_head (head_of G r) v a ctl.
Proof.
  unfold own, child_dv. destruct (sealed st); simpl; [discriminate|]. destruct (ks_top st); [discriminate|].
  destruct (ctx st) as [[v0|r0 v0 [pd|] bp0|r0 k0 s0]|]; try discriminate.
  destruct (redispatch (acts C (vAct v0) r0)) eqn:Er; [discriminate|]. intros H. inversion H; subst. reflexivity.
Qed.
Lemma child_dv_push st r k a ctl : sealed st = false -> child_dv G C (FB r k None :: st) a ctl = child_dv G C st a ctl.
Proof. intros Hs. unfold child_dv. rewrite Hs. reflexivity. Qed.

Definition Plain (h : head) : Prop := forall v, child_of_head h v (vA v) (vCtl v) = Some v.
Lemma lift_head self v bp v' x : child_of_head (head_of G self) v (vA v') (vCtl v') = Some v' -> GoodS v' x -> GoodP self v bp x.
Proof.
  intros Hc. destruct x; simpl; auto. apply Neu_weaken. intros st [Ho _]. unfold PC. rewrite (own_child _ _ _ _ _ Ho). exact Hc.
Qed.
Lemma lift_plain self v bp x : Plain (head_of G self) -> GoodS v x -> GoodP self v bp x.
Proof. intros Hp. apply lift_head, Hp. Qed.

(* own-level events *)
Lemma own_hook h k r p v bp : vCtl v = k -> Neu (PO r v bp) [EHook h k r p].
Proof. intros <- pv st [Ho _]. simpl. unfold own_check. rewrite Ho, !Nat.eqb_refl. reflexivity. Qed.
Lemma own_apply f r b e v bp : vAct v = f -> vA v = true -> Neu (PO r v bp) [EApply f r b e].
Proof. intros <- Ha pv st [Ho _]. simpl. unfold own_check. rewrite Ho, !Nat.eqb_refl, Ha. reflexivity. Qed.
Lemma own_apply0 f r p v bp : vAct v = f -> vA v = true -> Neu (PO r v bp) [EApply0 f r p].
Proof. intros <- Ha pv st [Ho _]. simpl. unfold own_check. rewrite Ho, !Nat.eqb_refl, Ha. reflexivity. Qed.
Lemma own_raise k w p r v bp : vCtl v = k -> Neu (PO r v bp) [ERaise k w p].
Proof. intros <- pv st [Ho _]. simpl. unfold own_check. rewrite Ho, !Nat.eqb_refl. reflexivity. Qed.
Lemma own_nested k r1 p r v bp : vCtl v = k -> Neu (PO r v bp) [ERaiseNested k r1 p].
Proof. intros <- pv st [Ho _]. simpl. unfold own_check. rewrite Ho, !Nat.eqb_refl. reflexivity. Qed.
Lemma own_inline a b e r v bp : vA v = true -> Neu (PO r v bp) [EInline a b e].
Proof. intros Ha pv st [Ho _]. simpl. unfold own_check. rewrite Ho, Ha. reflexivity. Qed.
Lemma own_inline0 a r v bp : vA v = true -> Neu (PO r v bp) [EInline0 a].
Proof. intros Ha pv st [Ho _]. simpl. unfold own_check. rewrite Ho, Ha. reflexivity. Qed.

Ltac dres x := destruct x as [[| |?e] ?c ?evs| |].

Section HelperFacts.
Variable ev : dyn -> rid -> cursor -> result.
Hypothesis Hev : forall d r c, GoodS (dv_of d) (ev d r c).
Hypothesis HevE : forall d r c, Ends (ev d r c).

Lemma guard_S v m s x : GoodS v x -> GoodS v (guard m s x).
Proof. dres x; simpl; auto. Qed.
Lemma look_S v i s x : GoodS v x -> GoodS v (look i s x).
Proof. dres x; simpl; auto. Qed.
Lemma bind_S v x k : GoodS v x -> (forall c, GoodS v (k c)) -> GoodS v (bind x k).
Proof. intros Hx Hk. dres x; simpl in *; auto. apply GoodS_prepend; auto. Qed.

Lemma seq_all_S d rs : forall c, GoodS (dv_of d) (seq_all ev d rs c).
Proof. induction rs as [|r rs IH]; intros c; simpl; [apply Neu_nil|]. apply bind_S; [apply Hev | exact IH]. Qed.
Lemma sor_any_S d rs : forall c, GoodS (dv_of d) (sor_any ev d rs c).
Proof.
  induction rs as [|r rs IH]; intros c; [apply Neu_nil|]. destruct rs as [|r2 rs']; [apply Hev|].
  change (sor_any ev d (r :: r2 :: rs') c) with (match ev (req d) r c with Res Fail c' evs => prepend evs (sor_any ev d (r2 :: rs') c') | x => x end).
  pose proof (Hev (req d) r c : GoodS (dv_of d) _) as H. dres (ev (req d) r c); simpl in *; auto. apply GoodS_prepend; [exact H | apply IH].
Qed.
Lemma star_loop_S n d rs : forall c, GoodS (dv_of d) (star_loop ev n d rs c).
Proof.
  induction n as [|n IH]; intros c; simpl; [exact I|].
  pose proof (seq_all_S (req d) rs c : GoodS (dv_of d) _) as H. dres (seq_all ev (req d) rs c); simpl in *; auto. apply GoodS_prepend; [exact H | apply IH].
Qed.
Lemma until1_S n d cn : forall c, GoodS (dv_of d) (until1_loop C ev n d cn c).
Proof.
  induction n as [|n IH]; intros c; cbn [until1_loop]; [exact I|].
  pose proof (Hev (req d) cn c : GoodS (dv_of d) _) as H. dres (ev (req d) cn c); cbn [GoodS] in H |- *; auto.
  destruct (in_empty c0); [exact H|]. destruct (bump_scan (eol_ch (ceol C)) 1 c0) as [c2|]; [|exact I]. apply GoodS_prepend; [exact H | apply IH].
Qed.
Lemma until2_S n d cn r : forall c, GoodS (dv_of d) (until2_loop ev n d cn r c).
Proof.
  induction n as [|n IH]; intros c; simpl; [exact I|].
  pose proof (Hev (req d) cn c : GoodS (dv_of d) _) as H. dres (ev (req d) cn c); simpl in *; auto.
  pose proof (Hev (opt_ d) r c0 : GoodS (dv_of d) _) as H2. dres (ev (opt_ d) r c0); simpl in *; auto; try (apply Neu_app; assumption).
  apply GoodS_prepend; [apply Neu_app; assumption | apply IH].
Qed.
Lemma rep_loop_S k d r : forall c, GoodS (dv_of d) (rep_loop ev k d r c).
Proof. induction k as [|k IH]; intros c; simpl; [apply Neu_nil|]. apply bind_S; [apply Hev | exact IH]. Qed.
Lemma repopt_loop_S k d r : forall c, GoodS (dv_of d) (fst (repopt_loop ev k d r c)).
Proof.
  induction k as [|k IH]; intros c; simpl; [apply Neu_nil|].
  pose proof (Hev (req d) r c : GoodS (dv_of d) _) as H. dres (ev (req d) r c); simpl in *; auto.
  specialize (IH c0). destruct (repopt_loop ev k d r c0) as [x b]. simpl in *. apply GoodS_prepend; assumption.
Qed.
Lemma h_seq_S d rs c : GoodS (dv_of d) (h_seq ev d rs c).
Proof. unfold h_seq. destruct rs as [|r1 [|r2 rs]]; [apply Neu_nil | apply Hev | apply guard_S, (seq_all_S (opt_ d))]. Qed.
Lemma h_at_S i d r1 c : GoodS (mkdv false (dAct d) (dCtl d)) (h_at ev i d r1 c).
Proof. apply look_S. apply (Hev (set_A (opt_ d) false)). Qed.
Lemma star_strict_S n d r1 rs : forall c, GoodS (dv_of d) (star_strict_loop ev n d r1 rs c).
Proof.
  induction n as [|n IH]; intros c; simpl; [exact I|].
  pose proof (Hev (req d) r1 c : GoodS (dv_of d) _) as H. dres (ev (req d) r1 c); simpl in *; auto.
  pose proof (h_seq_S (opt_ d) rs c0 : GoodS (dv_of d) _) as H2. dres (h_seq ev (opt_ d) rs c0); simpl in *; auto; try (apply Neu_app; assumption).
  apply GoodS_prepend; [apply Neu_app; assumption | apply IH].
Qed.
Lemma rematch_all_S d rs i2 : GoodS (dv_of d) (rematch_all ev d rs i2).
Proof.
  induction rs as [|r rs IH]; simpl; [apply Neu_nil|].
  pose proof (Hev d r i2) as H. dres (ev d r i2); simpl in *; auto. apply GoodS_prepend; assumption.
Qed.

Lemma run_inline_P r v bp acts_ b e : vA v = true -> Neu (PO r v bp) (snd (run_inline C acts_ b e)).
Proof.
  intros Ha. induction acts_ as [|a tl IH]; simpl; [apply Neu_nil|].
  destruct (ibeh C a b e) as [[|]|t]; simpl; try (apply own_inline; exact Ha).
  destruct (run_inline C tl b e) as [x evs]. simpl in *. apply Neu_cons; [apply own_inline; exact Ha | exact IH].
Qed.
Lemma run_inline0_P r v bp acts_ p : vA v = true -> Neu (PO r v bp) (snd (run_inline0 C acts_ p)).
Proof.
  intros Ha. induction acts_ as [|a tl IH]; simpl; [apply Neu_nil|].
  destruct (ibeh C a p p) as [[|]|t]; simpl; try (apply own_inline0; exact Ha).
  destruct (run_inline0 C tl p) as [x evs]. simpl in *. apply Neu_cons; [apply own_inline0; exact Ha | exact IH].
Qed.
Lemma inline_result_P r v bp x c1 c2 pre : Neu (PO r v bp) pre -> Neu (PO r v bp) (snd x) -> GoodP r v bp (inline_result x c1 c2 pre).
Proof. intros Hp Hn. destruct x as [[[|]|t] evs]; simpl in *; apply Neu_app; assumption. Qed.

(* the state< S, R > rule: the block holds the sub-rule's invocation; success iff it returned true, at its exit position *)
Lemma st_scope_KS self v c0 x : head_of G self = HState -> GoodS v x -> Ends x -> GoodP self v (cpos c0) (st_scope true self c0 x).
Proof.
  intros Hh Hx He.
  assert (Hpush : forall st, PO self v (cpos c0) st -> PC v (FB self KS None :: st)).
  { intros st [Ho _]. unfold PC. rewrite child_dv_push by (eapply own_unsealed; exact Ho). rewrite (own_child _ _ _ _ _ Ho), Hh.
    destruct v as [a f k]. unfold child_of_head. simpl. rewrite eqb_reflx, Nat.eqb_refl. reflexivity. }
  assert (Hnew : forall pv st, PO self v (cpos c0) st -> stepm pv st (EStNew self (cpos c0)) = Some (FB self KS None :: st)).
  { intros pv st [Ho [Hp Hf]]. simpl. rewrite Hp, Ho, Nat.eqb_refl, Hh. unfold at_frame_pos. rewrite Hf, pos_eqb_refl. reflexivity. }
  dres x; cbn [st_scope GoodP GoodS Ends] in *; auto.
  - (* matched *)
    intros pv st Hpo. cbn [run]. rewrite (Hnew pv st Hpo). rewrite run_app, (Hx _ _ (Hpush st Hpo)).
    destruct He as [[_ Hf]|(evs0 & k & r & Hevs)]; [discriminate Hf|]. subst evs. rewrite lastev_snoc.
    cbn [app run step okind is_exit_true_at]. rewrite Nat.eqb_refl, pos_eqb_refl. cbn. rewrite Nat.eqb_refl. reflexivity.
  - (* failed *)
    intros pv st Hpo. cbn [run]. rewrite (Hnew pv st Hpo). rewrite run_app, (Hx _ _ (Hpush st Hpo)).
    destruct He as [[Hn _]|(evs0 & k & r & Hevs)]; subst evs.
    + cbn. rewrite Nat.eqb_refl. reflexivity.
    + rewrite lastev_snoc. cbn. rewrite Nat.eqb_refl. reflexivity.
  - (* exception *)
    intros pv st Hpo. cbn [run]. rewrite (Hnew pv st Hpo). rewrite run_app, (Hx _ _ (Hpush st Hpo)).
    destruct He as [[_ Hf]|(evs0 & k & r & Hevs)]; [discriminate Hf|]. subst evs.
    rewrite lastev_snoc. cbn. rewrite Nat.eqb_refl. reflexivity.
Qed.

Lemma plain_default v a f k : v = mkdv a f k -> Bool.eqb a a && Nat.eqb k k = true.
Proof. intros _. rewrite eqb_reflx, Nat.eqb_refl. reflexivity. Qed.

Ltac plain_tac := let v := fresh "v" in intros v; destruct v as [?a ?f ?k]; unfold child_of_head; cbn [a_ok child_ctl child_fam vA vAct vCtl];
                  rewrite ?eqb_reflx, ?Nat.eqb_refl, ?implb_same; reflexivity.

Lemma eval_head_P n self h subs d c : head_of G self = h -> GoodP self (dv_of d) (cpos c) (eval_head C ev n self h subs d c).
Proof.
  intros Hself. unfold eval_head.
  destruct (eval_atom (ceol C) h c) as [x|] eqn:Ea.
  { (* atoms emit no events *)
    assert (A : forall c' o, GoodP self (dv_of d) (cpos c) (Res o c' [])) by (intros; apply Neu_nil).
    assert (O : forall o, GoodP self (dv_of d) (cpos c) (ok_or_err o)) by (intros [?|]; simpl; [apply Neu_nil | exact I]).
    assert (BH : forall ch b k, GoodP self (dv_of d) (cpos c) (bump_help ch b k c)) by (intros; unfold bump_help; apply O).
    assert (PT : forall ch pk t, GoodP self (dv_of d) (cpos c) (peek_test_bump ch pk t c)).
    { intros. unfold peek_test_bump. destruct (do_peek pk c); try exact I; [apply A|]. destruct (t data); [apply BH | apply A]. }
    destruct h; simpl in Ea; try discriminate Ea; try (injection Ea as <-); try apply A; try apply O; try apply PT.
    - destruct (eol_match (ceol C) c) as [[[[|] z] c']|]; try apply A; exact I.
    - destruct (eol_match (ceol C) c) as [[[[|] z] c']|]; try apply A; exact I.
    - destruct pk; injection Ea as <-;
      try (match goal with |- GoodP _ _ _ (match ?x with PNone => _ | PSome _ _ => _ | POob => _ end) => destruct x; [apply A | apply O | exact I] end).
      destruct (in_empty c); [apply A | apply O].
    - destruct (_ <=? _)%nat; [|apply A]. destruct (take _ _); [|exact I]. destruct (eqb_bytes _ _); [apply BH | apply A].
    - destruct (_ <=? _)%nat; [|apply A]. destruct (take _ _); [|exact I]. destruct (ieqb_bytes _ _); [apply BH | apply A].
    - destruct (_ <=? _)%nat; [apply O | apply A]. }
  assert (F : GoodP self (dv_of d) (cpos c) (Res Fail c [])) by (apply Neu_nil).
  assert (LP : forall x, Plain h -> GoodS (dv_of d) x -> GoodP self (dv_of d) (cpos c) x).
  { intros x Hp. apply lift_plain. rewrite Hself. exact Hp. }
  destruct h; try exact F; try (simpl in Ea; discriminate Ea).
  - apply LP; [plain_tac | apply h_seq_S].
  - apply LP; [plain_tac | apply sor_any_S].
  - apply LP; [plain_tac | apply star_loop_S].
  - destruct subs as [|r1 [|? ?]]; try exact F. apply LP; [plain_tac|]. unfold h_plus. apply bind_S; [apply Hev | intros; apply star_loop_S].
  - apply LP; [plain_tac|]. unfold h_partial. pose proof (seq_all_S (req d) subs c : GoodS (dv_of d) _) as H. dres (seq_all ev (req d) subs c); simpl in *; auto.
  - (* at *) destruct subs as [|r1 [|? ?]]; try exact F. apply (lift_head self (dv_of d) (cpos c) (mkdv false (dAct d) (dCtl d))); [|apply h_at_S].
    rewrite Hself. unfold child_of_head. cbn. rewrite Nat.eqb_refl. reflexivity.
  - (* not_at *) destruct subs as [|r1 [|? ?]]; try exact F. apply (lift_head self (dv_of d) (cpos c) (mkdv false (dAct d) (dCtl d))); [|apply h_at_S].
    rewrite Hself. unfold child_of_head. cbn. rewrite Nat.eqb_refl. reflexivity.
  - destruct subs as [|r1 [|? ?]]; try exact F. apply LP; [plain_tac|]. apply guard_S, until1_S.
  - destruct subs as [|cn [|r1 [|? ?]]]; try exact F. apply LP; [plain_tac|]. apply guard_S, until2_S.
  - destruct subs as [|r1 [|? ?]]; try exact F. apply LP; [plain_tac|]. apply guard_S, (rep_loop_S n0 (opt_ d)).
  - (* rep_min_max: the trailing not_at runs with apply_mode::nothing *)
    destruct subs as [|r1 [|? ?]]; try exact F. unfold h_rep_min_max.
    assert (HL : forall x, GoodS (dv_of d) x -> GoodP self (dv_of d) (cpos c) x) by (intros x; apply LP; plain_tac).
    assert (HA : forall c2, GoodP self (dv_of d) (cpos c) (h_at ev true (opt_ d) r1 c2)).
    { intros c2. apply (lift_head self (dv_of d) (cpos c) (mkdv false (dAct d) (dCtl d))); [|apply (h_at_S true (opt_ d))].
      rewrite Hself. unfold child_of_head. cbn. rewrite Nat.eqb_refl. reflexivity. }
    apply guard_P. apply bind_P; [apply HL, (rep_loop_S mn (opt_ d))|]. intros c1.
    pose proof (HL _ (repopt_loop_S (mx - mn) d r1 c1)) as H2. destruct (repopt_loop ev (mx - mn) d r1 c1) as [x b]. cbn [fst] in H2.
    dres x; try exact H2; try exact I. destruct b; [|exact H2]. apply GoodP_prepend; [exact H2 | apply HA].
  - destruct subs as [|r1 [|? ?]]; try exact F. apply LP; [plain_tac|]. apply repopt_loop_S.
  - destruct subs as [|cn [|t [|e [|? ?]]]]; try exact F. apply LP; [plain_tac|]. unfold h_if_then_else. apply guard_S.
    pose proof (Hev (req d) cn c : GoodS (dv_of d) _) as H. dres (ev (req d) cn c); simpl in *; auto; apply GoodS_prepend; auto; apply (Hev (opt_ d)).
  - destruct subs as [|cn rest_]; try exact F. apply LP; [plain_tac|]. unfold h_if_must.
    assert (H : GoodS (dv_of d) (ev (if dflt then req d else d) cn c)) by (destruct dflt; [apply (Hev (req d)) | apply Hev]).
    dres (ev (if dflt then req d else d) cn c); simpl in *; auto.
    destruct rest_ as [|m ?]; [exact H|]. pose proof (Hev d m c0) as H2. dres (ev d m c0); simpl in *; auto; apply Neu_app; assumption.
  - (* must *)
    destruct subs as [|r1 [|? ?]]; try exact F. unfold h_must, raise_at.
    assert (H : GoodP self (dv_of d) (cpos c) (ev (opt_ d) r1 c)) by (apply LP; [plain_tac | apply (Hev (opt_ d))]).
    dres (ev (opt_ d) r1 c); cbn [GoodP] in *; auto. apply Neu_app; [exact H | apply own_raise; reflexivity].
  - (* raise *)
    destruct subs as [|t [|? ?]]; try exact F. unfold raise_at. cbn [GoodP app]. apply own_raise; reflexivity.
  - destruct subs as [|r1 rs]; try exact F. apply LP; [plain_tac|]. unfold h_strict. apply guard_S.
    pose proof (Hev (req d) r1 c : GoodS (dv_of d) _) as H. dres (ev (req d) r1 c); simpl in *; auto. apply GoodS_prepend; [exact H | apply (h_seq_S (opt_ d))].
  - destruct subs as [|r1 rs]; try exact F. apply LP; [plain_tac|]. apply guard_S, star_strict_S.
  - destruct subs as [|hd rs]; try exact F. apply LP; [plain_tac|]. unfold h_rematch. destruct rs as [|r rs']; [apply Hev|].
    pose proof (Hev (opt_ d) hd c : GoodS (dv_of d) _) as H. dres (ev (opt_ d) hd c); cbn [GoodS] in H |- *; auto.
    destruct (take _ (rest c)) as [span|]; [|exact I].
    pose proof (rematch_all_S (opt_ d) (r :: rs') (mkcur span (cpos c)) : GoodS (dv_of d) _) as H2.
    dres (rematch_all ev (opt_ d) (r :: rs') (mkcur span (cpos c))); cbn [GoodS] in H2 |- *; auto; apply Neu_app; assumption.
  - destruct subs as [|r1 [|? ?]]; try exact F. apply LP; [plain_tac|]. unfold h_try_false.
    pose proof (Hev (opt_ d) r1 c : GoodS (dv_of d) _) as H. dres (ev (opt_ d) r1 c); simpl in *; auto.
  - destruct subs as [|r1 [|? ?]]; try exact F. unfold h_try_nested.
    assert (H : GoodP self (dv_of d) (cpos c) (ev (opt_ d) r1 c)) by (apply LP; [plain_tac | apply (Hev (opt_ d))]).
    dres (ev (opt_ d) r1 c); cbn [GoodP] in *; auto.
    destruct (catches f e); cbn [GoodP]; [|exact H]. apply Neu_app; [exact H | apply own_nested; reflexivity].
  - (* state *)
    destruct subs as [|r1 [|? ?]]; try exact F. apply st_scope_KS; [exact Hself | apply Hev | apply HevE].
  - (* action< A, R > *)
    destruct subs as [|r1 [|? ?]]; try exact F. apply (lift_head self (dv_of d) (cpos c) (dv_of (set_act d fam))); [|apply Hev].
    rewrite Hself. unfold child_of_head. cbn. rewrite eqb_reflx, Nat.eqb_refl. reflexivity.
  - (* control< C, R > *)
    destruct subs as [|r1 [|? ?]]; try exact F. apply (lift_head self (dv_of d) (cpos c) (dv_of (set_ctl d ctl))); [|apply Hev].
    rewrite Hself. unfold child_of_head. cbn. rewrite eqb_reflx, Nat.eqb_refl. reflexivity.
  - (* enable *)
    destruct subs as [|r1 [|? ?]]; try exact F. apply (lift_head self (dv_of d) (cpos c) (dv_of (set_A d true))); [|apply Hev].
    rewrite Hself. unfold child_of_head. cbn. rewrite Nat.eqb_refl. reflexivity.
  - (* disable *)
    destruct subs as [|r1 [|? ?]]; try exact F. apply (lift_head self (dv_of d) (cpos c) (dv_of (set_A d false))); [|apply Hev].
    rewrite Hself. unfold child_of_head. cbn. rewrite Nat.eqb_refl. reflexivity.
  - destruct subs; try exact F. unfold h_apply. destruct (dA d) eqn:EA; [|apply Neu_nil].
    apply inline_result_P; [apply Neu_nil | apply run_inline_P; exact EA].
  - destruct subs; try exact F. unfold h_apply0. destruct (dA d) eqn:EA; [|apply Neu_nil].
    apply inline_result_P; [apply Neu_nil | apply run_inline0_P; exact EA].
  - destruct subs as [|r1 [|? ?]]; try exact F. unfold h_if_apply.
    destruct (dA d) eqn:EA; cbn [andb]; [|apply LP; [plain_tac | apply Hev]].
    destruct (negb _); [|apply LP; [plain_tac | apply Hev]].
    assert (H : GoodP self (dv_of d) (cpos c) (ev (set_A (opt_ d) true) r1 c)).
    { apply (lift_head self (dv_of d) (cpos c) (dv_of (set_A (opt_ d) true))); [|apply Hev].
      rewrite Hself. unfold child_of_head. cbn. rewrite EA, Nat.eqb_refl. reflexivity. }
    dres (ev (set_A (opt_ d) true) r1 c); cbn [GoodP] in *; auto.
    apply inline_result_P; [exact H | apply run_inline_P; exact EA].
Qed.

End HelperFacts.

(* ---------- match.hpp ---------- *)
Lemma run_action_P d ak r bp b e : Neu (PO r (dv_of d) bp) (snd (run_action C d ak r b e)).
Proof.
  unfold run_action. destruct (dA d) eqn:EA; [|apply Neu_nil].
  destruct ak as [|isb|isb|mk]; cbn [snd]; try apply Neu_nil; [apply own_apply | apply own_apply0]; auto.
Qed.

Lemma match_hpp_P ak body d r c :
  (forall d', dv_of d' = dv_of d -> GoodP r (dv_of d) (cpos c) (body d' c)) -> GoodP r (dv_of d) (cpos c) (match_hpp C ak body d r c).
Proof.
  intros Hb. unfold match_hpp. set (g := use_guard d ak).
  assert (Hd : dv_of (if g then opt_ d else d) = dv_of d) by (destruct g; reflexivity).
  pose proof (Hb (if g then opt_ d else d) Hd) as H.
  assert (HS : Neu (PO r (dv_of d) (cpos c)) [EHook HkStart (dCtl d) r (cpos c)]) by (apply own_hook; reflexivity).
  destruct (body (if g then opt_ d else d) c) as [[| |e] c1 evs| |]; cbn [GoodP] in H; try exact I.
  - pose proof (run_action_P d ak r (cpos c) (cpos c) (cpos c1)) as Ha.
    destruct (run_action C d ak r (cpos c) (cpos c1)) as [[[|]|t] ea]; cbn [snd] in Ha.
    + cbn [GoodP]. apply Neu_cons; [exact HS|]. apply Neu_app; [exact H|]. apply Neu_app; [exact Ha | apply own_hook; reflexivity].
    + unfold fail_hook. destruct (raise_on_failure C (dCtl d) r); cbn [GoodP];
      (apply Neu_app; [apply Neu_cons; [exact HS | apply Neu_app; [exact H | exact Ha]] | apply own_hook; reflexivity]).
    + cbn [GoodP]. apply Neu_cons; [exact HS|]. apply Neu_app; [exact H | exact Ha].
  - unfold fail_hook. destruct (raise_on_failure C (dCtl d) r); cbn [GoodP];
    (apply Neu_app; [apply Neu_cons; [exact HS | exact H] | apply own_hook; reflexivity]).
  - cbn [GoodP]. apply Neu_cons; [exact HS|]. apply Neu_app; [exact H|].
    destruct (has_unwind C (dCtl d)); [apply own_hook; reflexivity | apply Neu_nil].
Qed.

(* ---------- one invocation ---------- *)
Definition Lvl (d : dyn) (r : rid) (bp : pos) (x : result) : Prop :=
  match x with
  | Res o c' evs => forall pv tl, runm pv (FI r (dv_of d) None bp :: tl) (evs ++ [EExit (dCtl d) r (okind o) (cpos c')]) = Some tl
  | _ => True end.

Lemma exit_plain pv r v bp tl o p : stepm pv (FI r v None bp :: tl) (EExit (vCtl v) r o p) = Some tl.
Proof. simpl. rewrite !Nat.eqb_refl. reflexivity. Qed.

Lemma Lvl_of_P d r bp x :
  redispatch (acts C (dAct d) r) = None -> state_action (acts C (dAct d) r) = false ->
  GoodP r (eff (acts C (dAct d) r) (dv_of d)) bp x -> Lvl d r bp x.
Proof.
  intros Hr Hs. destruct x as [o c' evs| |]; simpl; auto. intros H pv tl. rewrite run_app.
  rewrite H.
  - cbn [run]. rewrite (exit_plain _ r (dv_of d)). reflexivity.
  - split; [|split].
    + unfold own. cbn [sealed ks_top orb ctx vAct dv_of]. rewrite Hr. reflexivity.
    + cbn [pre_a vAct dv_of]. exact Hs.
    + reflexivity.
Qed.

Lemma Lvl_of_child d r bp f x :
  redispatch (acts C (dAct d) r) = Some f -> GoodS (mkdv (dA d) f (dCtl d)) x -> Lvl d r bp x.
Proof.
  intros Hr. destruct x as [o c' evs| |]; simpl; auto. intros H pv tl. rewrite run_app. rewrite H.
  - cbn [run]. rewrite (exit_plain _ r (dv_of d)). reflexivity.
  - unfold PC, child_dv. cbn [sealed ctx vAct vA vCtl dv_of]. rewrite Hr. rewrite eqb_reflx, Nat.eqb_refl. reflexivity.
Qed.

(* change_state / change_action_and_state: block closed right before the exit; success iff matched and apply_mode::action *)
Lemma Lvl_KA d r c0 x (Q : list frame -> Prop) :
  state_action (acts C (dAct d) r) = true ->
  (forall tl, Q (FB r KA None :: FI r (dv_of d) None (cpos c0) :: tl)) ->
  match x with Res _ _ evs => Neu Q evs | _ => True end ->
  Lvl d r (cpos c0) (st_scope (dA d) r c0 x).
Proof.
  intros Hs HQ Hx.
  assert (Hnew : forall pv tl, stepm pv (FI r (dv_of d) None (cpos c0) :: tl) (EStNew r (cpos c0)) = Some (FB r KA None :: FI r (dv_of d) None (cpos c0) :: tl)).
  { intros. cbn [step pre_a vAct dv_of]. rewrite Hs, Nat.eqb_refl, pos_eqb_refl. reflexivity. }
  destruct x as [[| |e] c' evs| |]; cbn [st_scope Lvl]; auto; intros pv tl; cbn [app run]; rewrite Hnew;
    rewrite <- !app_assoc, run_app, (Hx _ _ (HQ tl)).
  - destruct (dA d) eqn:EA; cbn; rewrite ?Nat.eqb_refl, ?EA; cbn; rewrite ?Nat.eqb_refl, ?EA; cbn; rewrite ?EA; cbn; rewrite ?pos_eqb_refl; reflexivity.
  - do 3 (cbn; rewrite ?Nat.eqb_refl, ?andb_false_r). reflexivity.
  - do 3 (cbn; rewrite ?Nat.eqb_refl, ?andb_false_r). reflexivity.
Qed.

Lemma action_match_Lvl ev plain enabled m d r c : acts C (dAct d) r = AKMatch m ->
  (forall d c, GoodS (dv_of d) (ev d r c)) -> (forall d c', cpos c' = cpos c -> GoodP r (dv_of d) (cpos c) (plain d c')) -> Lvl d r (cpos c) (action_match ev plain enabled m d r c).
Proof.
  intros Hact He Hp.
  assert (LP : forall x, redispatch (AKMatch m) = None -> state_action (AKMatch m) = false -> GoodP r (eff (AKMatch m) (dv_of d)) (cpos c) x -> Lvl d r (cpos c) x).
  { intros x H1 H2 H3. apply Lvl_of_P; rewrite Hact; assumption. }
  destruct m; cbn [action_match].
  - apply (Lvl_of_child d r (cpos c) fam); [rewrite Hact; reflexivity | apply (He (set_act d fam))].
  - apply (Lvl_KA d r c (plain d c) (PO r (dv_of d) (cpos c))); [rewrite Hact; reflexivity | | apply Hp; reflexivity].
    intros tl. split; [|split; reflexivity]. unfold own. cbn [sealed ks_top orb ctx vAct dv_of]. rewrite Hact. reflexivity.
  - apply (Lvl_KA d r c (ev (set_act d fam) r c) (PC (dv_of (set_act d fam)))); [rewrite Hact; reflexivity | | apply He].
    intros tl. unfold PC, child_dv. cbn [sealed ctx vAct vA vCtl dv_of set_act dA dCtl dAct]. rewrite Hact. cbn [redispatch].
    rewrite eqb_reflx, Nat.eqb_refl. reflexivity.
  - apply LP; try reflexivity. apply (Hp (set_ctl d ctl)); reflexivity.
  - apply LP; try reflexivity. apply (Hp (set_A d true)); reflexivity.
  - apply LP; try reflexivity. apply (Hp (set_A d false)); reflexivity.
  - apply LP; try reflexivity. cbn [eff]. destruct enabled; [|apply Hp; reflexivity]. destruct (n <? S (dDepth d))%nat; [|apply (Hp (set_depth d (S (dDepth d)))); reflexivity].
    unfold raise_at. cbn [GoodP app]. apply own_raise; reflexivity.
  - apply LP; try reflexivity. cbn [eff]. pose proof (Hp d (mkcur (firstn n (rest c)) (cpos c)) eq_refl) as H.
    destruct (plain d (mkcur (firstn n (rest c)) (cpos c))) as [[| |e] c1 evs| |]; try exact I; try exact H.
    destruct (in_empty c1 && negb (is_nil (skipn n (rest c)))); [|exact H].
    unfold raise_at. cbn [GoodP] in *. apply Neu_app; [exact H | apply own_raise; reflexivity].
  - apply LP; try reflexivity. cbn [eff]. pose proof (Hp d c eq_refl) as H. destruct (plain d c) as [[| |e] c1 evs| |]; try exact I; try exact H.
    destruct (n <? length (rest c) - length (rest c1))%nat; exact H.
Qed.

Lemma traced_C d r c x : Lvl d r (cpos c) x -> GoodS (dv_of d) (traced (dCtl d) r (dA d) (dM d) c x) /\ Ends (traced (dCtl d) r (dA d) (dM d) c x).
Proof.
  destruct x as [o c' evs| |]; simpl; auto. intros H. split.
  - intros pv st Hpc. cbn [run step]. unfold PC in Hpc. cbn [vA vCtl dv_of] in Hpc. rewrite Hpc. apply H.
  - right. exists (EEnter (dCtl d) r (dA d) (dM d) (cpos c) :: evs), (dCtl d), r. reflexivity.
Qed.

Theorem eval_C f : forall d r c, GoodS (dv_of d) (eval G C f d r c) /\ Ends (eval G C f d r c).
Proof.
  induction f as [|f IH]; intros d r c; simpl; [split; exact I|].
  destruct (nth_error G r) as [nd|] eqn:En; [|split; [apply Neu_nil | left; split; reflexivity]].
  apply traced_C.
  assert (Hh : head_of G r = nhead nd) by (unfold head_of; rewrite En; reflexivity).
  assert (Hbody : forall d' c', GoodP r (dv_of d') (cpos c') (eval_head C (eval G C f) f r (nhead nd) (nsubs nd) d' c')).
  { intros d' c'. apply eval_head_P; [intros; apply IH | intros; apply IH | exact Hh]. }
  assert (Hplain : forall ak d' c', GoodP r (dv_of d') (cpos c')
            (if nenabled nd then match_hpp C ak (eval_head C (eval G C f) f r (nhead nd) (nsubs nd)) d' r c'
             else eval_head C (eval G C f) f r (nhead nd) (nsubs nd) d' c')).
  { intros ak d' c'. destruct (nenabled nd); [|apply Hbody]. apply match_hpp_P. intros d2 Hd2. rewrite <- Hd2. apply Hbody. }
  destruct (acts C (dAct d) r) as [| | |mk] eqn:Ea.
  - apply Lvl_of_P; rewrite Ea; try reflexivity. apply Hplain.
  - apply Lvl_of_P; rewrite Ea; try reflexivity. apply Hplain.
  - apply Lvl_of_P; rewrite Ea; try reflexivity. apply Hplain.
  - apply action_match_Lvl; [exact Ea | intros; apply IH | intros d2 c2 Hc2; rewrite <- Hc2; apply Hplain].
Qed.

Theorem eval_accepts f d r c o c' evs : eval G C f d r c = Res o c' evs -> accepts G C (dv_of d) evs = true.
Proof.
  intros He. pose proof (eval_C f d r c) as [H _]. rewrite He in H. cbn [GoodS] in H.
  unfold accepts. rewrite (H None [FRoot (dv_of d)]); [reflexivity|].
  unfold PC, child_dv. cbn [sealed ctx]. rewrite eqb_reflx, Nat.eqb_refl. reflexivity.
Qed.

(* ---------- the state events alone form a Dyck word; blocks never overlap partially ---------- *)
Lemma own_check_same st f st' : own_check C st f = Some st' -> st' = st.
Proof. unfold own_check. destruct (own C st) as [[r v]|]; [|discriminate]. destruct (f r v); [|discriminate]. intros H; inversion H; reflexivity. Qed.

Lemma step_bstep pv st e st' : stepm pv st e = Some st' -> bstep (fbs st) e = Some (fbs st').
Proof.
  destruct e as [h k r p|k w p|k r p|f r b e'|f r p|a b e'|a|r p|r p|r|ctl r a m p|ctl r o p]; cbn [step bstep]; intros H; try (apply own_check_same in H; subst; reflexivity).
  - destruct (pre_a C st).
    + destruct st as [|[v|r' v [pd|] bp|r' k s] tl]; try discriminate. destruct (_ && _); [|discriminate]. inversion H; reflexivity.
    + destruct (own C st) as [[r' v]|]; [|discriminate]. destruct (_ && _); [|discriminate]. inversion H; reflexivity.
  - destruct st as [|[v|r' v pend bp|r' k [s|]] tl]; try discriminate. destruct (Nat.eqb r r') eqn:Er; [|discriminate].
    cbn [andb] in H. destruct (match k with KS => _ | KA => _ end); [|discriminate]. inversion H. cbn [fbs]. rewrite Er. reflexivity.
  - destruct st as [|[v|r' v pend bp|r' [|] s] tl]; try discriminate.
    + destruct (Nat.eqb r r') eqn:Er; [|discriminate]. cbn [andb] in H. destruct (match s with Some _ => _ | None => _ end); [|discriminate].
      inversion H. cbn [fbs]. rewrite Er. reflexivity.
    + destruct tl as [|[v|r'' v [pd|] bp|r'' k s'] tl]; try discriminate. destruct (Nat.eqb r r') eqn:Er; [|discriminate].
      inversion H. cbn [fbs]. rewrite Er. reflexivity.
  - destruct (child_dv G C st a ctl); [|discriminate]. inversion H; reflexivity.
  - destruct st as [|[v|r' v pend bp|r' k s] tl]; try discriminate. destruct (_ && _); [|discriminate]. inversion H; reflexivity.
Qed.

Lemma run_blocks evs : forall pv st st', runm pv st evs = Some st' -> blocks (fbs st) evs = Some (fbs st').
Proof.
  induction evs as [|e evs IH]; intros pv st st' H; cbn [run blocks] in *; [inversion H; reflexivity|].
  destruct (stepm pv st e) as [st1|] eqn:Es; [|discriminate]. rewrite (step_bstep _ _ _ _ Es). eapply IH; exact H.
Qed.

Lemma blocks_app a : forall bs b, blocks bs (a ++ b) = match blocks bs a with Some bs1 => blocks bs1 b | None => None end.
Proof. induction a as [|e a IH]; intros bs b; simpl; [reflexivity|]. destruct (bstep bs e); [apply IH | reflexivity]. Qed.

Theorem eval_blocks f d r c o c' pre post : eval G C f d r c = Res o c' (pre ++ post) ->
  exists bs, blocks [] pre = Some bs /\ blocks bs post = Some [].
Proof.
  intros He. pose proof (eval_C f d r c) as [H _]. rewrite He in H. cbn [GoodS] in H.
  assert (Hr : runm None [FRoot (dv_of d)] (pre ++ post) = Some [FRoot (dv_of d)]).
  { apply H. unfold PC, child_dv. cbn [sealed ctx]. rewrite eqb_reflx, Nat.eqb_refl. reflexivity. }
  apply run_blocks in Hr. cbn [fbs] in Hr. rewrite blocks_app in Hr.
  destruct (blocks [] pre) as [bs|]; [|discriminate]. exists bs. split; [reflexivity | exact Hr].
Qed.


(* pointwise readings of acceptance: at every invocation entry / action call in an engine log, the values are the
   ones the lexical-scope functions compute from the frames open at that point *)
Lemma root_PC v : PC v [FRoot v].
Proof. unfold PC, child_dv. cbn [sealed ctx]. rewrite eqb_reflx, Nat.eqb_refl. reflexivity. Qed.

Theorem eval_enter_scoped f d r c o c' pre ctl r' a m p post :
  eval G C f d r c = Res o c' (pre ++ EEnter ctl r' a m p :: post) ->
  exists st v, runm None [FRoot (dv_of d)] pre = Some st /\ child_dv G C st a ctl = Some v.
Proof.
  intros He. pose proof (eval_C f d r c) as [H _]. rewrite He in H. cbn [GoodS] in H.
  specialize (H None _ (root_PC (dv_of d))). rewrite run_app in H.
  destruct (runm None [FRoot (dv_of d)] pre) as [st|]; [|discriminate]. cbn [run step] in H.
  destruct (child_dv G C st a ctl) as [v|] eqn:Ec; [|discriminate]. exists st, v. split; [reflexivity | exact Ec].
Qed.

Theorem eval_apply_scoped f d r c o c' pre fam r' b e post :
  eval G C f d r c = Res o c' (pre ++ EApply fam r' b e :: post) ->
  exists st v, runm None [FRoot (dv_of d)] pre = Some st /\ own C st = Some (r', v) /\ vAct v = fam /\ vA v = true.
Proof.
  intros He. pose proof (eval_C f d r c) as [H _]. rewrite He in H. cbn [GoodS] in H.
  specialize (H None _ (root_PC (dv_of d))). rewrite run_app in H.
  destruct (runm None [FRoot (dv_of d)] pre) as [st|]; [|discriminate]. cbn [run step] in H. unfold own_check in H.
  destruct (own C st) as [[r2 v]|] eqn:Eo; [|discriminate].
  destruct (Nat.eqb r' r2) eqn:Er; [|discriminate]. destruct (Nat.eqb fam (vAct v)) eqn:Ef; [|discriminate]. destruct (vA v) eqn:Ea; [|discriminate].
  apply Nat.eqb_eq in Er. apply Nat.eqb_eq in Ef. subst. exists st, v. repeat split; auto.
Qed.

Theorem eval_apply0_scoped f d r c o c' pre fam r' p post :
  eval G C f d r c = Res o c' (pre ++ EApply0 fam r' p :: post) ->
  exists st v, runm None [FRoot (dv_of d)] pre = Some st /\ own C st = Some (r', v) /\ vAct v = fam /\ vA v = true.
Proof.
  intros He. pose proof (eval_C f d r c) as [H _]. rewrite He in H. cbn [GoodS] in H.
  specialize (H None _ (root_PC (dv_of d))). rewrite run_app in H.
  destruct (runm None [FRoot (dv_of d)] pre) as [st|]; [|discriminate]. cbn [run step] in H. unfold own_check in H.
  destruct (own C st) as [[r2 v]|] eqn:Eo; [|discriminate].
  destruct (Nat.eqb r' r2) eqn:Er; [|discriminate]. destruct (Nat.eqb fam (vAct v)) eqn:Ef; [|discriminate]. destruct (vA v) eqn:Ea; [|discriminate].
  apply Nat.eqb_eq in Er. apply Nat.eqb_eq in Ef. subst. exists st, v. repeat split; auto.
Qed.

(* at an action call: the blocks the plain N/D scan sees open are exactly the state-block frames of the checker's stack
   (so the innermost one was opened in the frame of the acting rule or of an enclosing rule), and the rest of the log closes them *)
Theorem eval_apply_blocks f d r c o c' pre fam r' b e post :
  eval G C f d r c = Res o c' (pre ++ EApply fam r' b e :: post) ->
  exists st v, runm None [FRoot (dv_of d)] pre = Some st /\ own C st = Some (r', v) /\
               blocks [] pre = Some (fbs st) /\ blocks (fbs st) post = Some [].
Proof.
  intros He. destruct (eval_apply_scoped _ _ _ _ _ _ _ _ _ _ _ _ He) as (st & v & Hr & Ho & _ & _).
  destruct (eval_blocks _ _ _ _ _ _ _ _ He) as (bs & Hb1 & Hb2).
  pose proof (run_blocks _ _ _ _ Hr) as Hb. cbn [fbs] in Hb. rewrite Hb in Hb1. inversion Hb1; subst bs.
  cbn [blocks bstep] in Hb2. exists st, v. auto.
Qed.

End SF.

(* ---------- the switches are parameters of the callee only (definitional frame lemmas) ---------- *)
Lemma switch_heads_def C ev n self d c r1 :
  (forall fam, eval_head C ev n self (HAction fam) [r1] d c = ev (set_act d fam) r1 c) /\
  (forall ctl, eval_head C ev n self (HControl ctl) [r1] d c = ev (set_ctl d ctl) r1 c) /\
  eval_head C ev n self HEnable [r1] d c = ev (set_A d true) r1 c /\
  eval_head C ev n self HDisable [r1] d c = ev (set_A d false) r1 c.
Proof. repeat split; reflexivity. Qed.

Lemma switch_actions_def ev plain enabled d r c :
  (forall fam, action_match ev plain enabled (MChangeAction fam) d r c = ev (set_act d fam) r c) /\
  (forall ctl, action_match ev plain enabled (MChangeControl ctl) d r c = plain (set_ctl d ctl) c) /\
  action_match ev plain enabled MEnableAction d r c = plain (set_A d true) c /\
  action_match ev plain enabled MDisableAction d r c = plain (set_A d false) c /\
  action_match ev plain enabled MChangeState d r c = st_scope (dA d) r c (plain d c) /\
  (forall fam, action_match ev plain enabled (MChangeActionAndState fam) d r c = st_scope (dA d) r c (ev (set_act d fam) r c)).
Proof. repeat split; reflexivity. Qed.

(* whatever the first element of a sequence / alternative / loop body did with its own parameters, the next sibling is
   evaluated with the caller's *)
Lemma sibling_frame ev d r1 rs c :
  seq_all ev d (r1 :: rs) c = bind (ev d r1 c) (seq_all ev d rs) /\
  (forall r2 rs', sor_any ev d (r1 :: r2 :: rs') c = match ev (req d) r1 c with Res Fail c' evs => prepend evs (sor_any ev d (r2 :: rs') c') | x => x end) /\
  (forall n, star_loop ev (S n) d (r1 :: rs) c =
             match seq_all ev (req d) (r1 :: rs) c with
             | Res Ok c' evs => prepend evs (star_loop ev n d (r1 :: rs) c')
             | Res Fail c' evs => Res Ok c' evs
             | x => x end).
Proof. repeat split; reflexivity. Qed.

(* ---------- what acceptance means: inversion of the checker's steps ---------- *)
Lemma pos_eqb_eq p q : pos_eqb p q = true -> p = q.
Proof.
  destruct p as [a b c], q as [a' b' c']. unfold pos_eqb. cbn [pbyte pline pcol]. intros H.
  apply andb_true_iff in H. destruct H as [H H3]. apply andb_true_iff in H. destruct H as [H1 H2].
  apply N.eqb_eq in H1. apply N.eqb_eq in H2. apply N.eqb_eq in H3. subst. reflexivity.
Qed.
Lemma opos_eqb_eq a b : opos_eqb a b = true -> a = b.
Proof. destruct a as [p|], b as [q|]; simpl; try discriminate; auto. intros H. apply pos_eqb_eq in H. subst. reflexivity. Qed.

Section Meaning.
Variable G : grammar.
Variable C : cfg.

(* state< S, R >: success only directly after the sub-rule's invocation returned true, at its exit position *)
Lemma success_KS_inv pv r tl p st' : step G C pv (FB r KS None :: tl) (EStSuccess r p) = Some st' ->
  exists k r1, pv = Some (EExit k r1 (Some true) p).
Proof.
  cbn [step]. rewrite Nat.eqb_refl. cbn [andb]. destruct pv as [[| | | | | | | | | | |k r1 [[|]|] q]|]; cbn [is_exit_true_at]; try discriminate.
  destruct (pos_eqb q p) eqn:E; [|discriminate]. apply pos_eqb_eq in E. subst. intros _. exists k, r1. reflexivity.
Qed.
(* state< S, R >: destroyed without success only if the sub-rule's invocation did not just return true *)
Lemma drop_KS_inv pv r tl st' : step G C pv (FB r KS None :: tl) (EStDrop r) = Some st' -> is_exit_true pv = false.
Proof. cbn [step]. rewrite Nat.eqb_refl. cbn [andb]. destruct (is_exit_true pv); [discriminate | reflexivity]. Qed.
(* change_state / change_action_and_state: after the block is closed the frame's exit decides: success was delivered iff
   the rule returned true and the frame was entered with apply_mode::action, and then at the exit position *)
Lemma exit_KA_inv pv r v succ bp tl k o p st' : step G C pv (FI r v (Some succ) bp :: tl) (EExit k r o p) = Some st' ->
  succ = (if vA v && is_true o then Some p else None).
Proof.
  cbn [step]. rewrite Nat.eqb_refl. cbn [andb]. destruct (Nat.eqb k (vCtl v)); cbn [andb]; [|discriminate].
  destruct (opos_eqb succ (if vA v && is_true o then Some p else None)) eqn:E; [|discriminate]. intros _. apply opos_eqb_eq. exact E.
Qed.
(* after success only the destruction may follow; after the block of a change_state action only the frame's exit *)
Lemma sealed_inv pv st e st' : sealed st = true -> step G C pv st e = Some st' ->
  (exists r, e = EStDrop r) \/ (exists k r o p, e = EExit k r o p).
Proof.
  intros Hs. assert (Ho : own C st = None) by (unfold own; rewrite Hs; reflexivity).
  assert (Hc : forall a k, child_dv G C st a k = None) by (intros; unfold child_dv; rewrite Hs; reflexivity).
  assert (Hp : pre_a C st = false) by (destruct st as [|[v|r v [pd|] bp|r k [s|]] tl]; try discriminate Hs; reflexivity).
  destruct e as [h k r p|k w p|k r p|f r b e'|f r p|a b e'|a|r p|r p|r|ctl r a m p|ctl r o p]; cbn [step]; unfold own_check; rewrite ?Ho, ?Hc, ?Hp; try discriminate.
  - destruct st as [|[v|r' v [pd|] bp|r' k [s|]] tl]; try discriminate Hs; discriminate.
  - intros _. left. exists r. reflexivity.
  - intros _. right. exists ctl, r, o, p. reflexivity.
Qed.
(* a state is constructed only at the position its rule's frame was entered at *)
Lemma new_inv pv st r p st' : step G C pv st (EStNew r p) = Some st' -> frame_pos st = Some p /\ st' = FB r (if pre_a C st then KA else KS) None :: st.
Proof.
  cbn [step]. destruct (pre_a C st) eqn:Hp.
  - destruct st as [|[v|r' v [pd|] bp|r' k s] tl]; try discriminate. destruct (Nat.eqb r r'); [|discriminate]. cbn [andb].
    destruct (pos_eqb bp p) eqn:E; [|discriminate]. apply pos_eqb_eq in E. subst. intros H. inversion H. split; reflexivity.
  - destruct (own C st) as [[r' v]|]; [|discriminate]. destruct (Nat.eqb r r' && is_state (head_of G r)); [|discriminate]. cbn [andb].
    unfold at_frame_pos. destruct (frame_pos st) as [bp|]; [|discriminate]. destruct (pos_eqb bp p) eqn:E; [|discriminate].
    apply pos_eqb_eq in E. subst. intros H. inversion H. split; reflexivity.
Qed.
End Meaning.

Lemma checker_meaning :
  forall G C,
  (* state< S, R >: success only directly after the sub-rule's invocation returned true, with its exit position *)
  (forall pv r tl p st', step G C pv (FB r KS None :: tl) (EStSuccess r p) = Some st' -> exists k r1, pv = Some (EExit k r1 (Some true) p)) /\
  (* state< S, R >: destruction without success only if the sub-rule's invocation did not just return true *)
  (forall pv r tl st', step G C pv (FB r KS None :: tl) (EStDrop r) = Some st' -> is_exit_true pv = false) /\
  (* change_state / change_action_and_state: success iff the rule's frame returns true and was entered with apply_mode::action, at the exit position *)
  (forall pv r v succ bp tl k o p st', step G C pv (FI r v (Some succ) bp :: tl) (EExit k r o p) = Some st' -> succ = (if vA v && is_true o then Some p else None)) /\
  (* after success only the destruction follows; after the block of a change_state action only the frame's exit *)
  (forall pv st e st', sealed st = true -> step G C pv st e = Some st' -> (exists r, e = EStDrop r) \/ (exists k r o p, e = EExit k r o p)) /\
  (* a state is constructed only at the position its rule's frame was entered at, as a new innermost block *)
  (forall pv st r p st', step G C pv st (EStNew r p) = Some st' -> frame_pos st = Some p /\ st' = FB r (if pre_a C st then KA else KS) None :: st).
Proof.
  intros G C. repeat split.
  - apply success_KS_inv.
  - apply drop_KS_inv.
  - apply exit_KA_inv.
  - apply sealed_inv.
  - eapply new_inv; eassumption.
  - eapply new_inv; eassumption.
Qed.
