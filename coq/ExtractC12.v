(* ExtractC12.v — extraction for the C12 check: the engine (eval), the parse_tree model (pt_parse and
   its parts) and the SPECIFICATION functions applied by the oracle to the implementation's own hook
   log (call_forest, derivation_tree, spec_tree).  ExtrOcamlBasic only; numbers stay
   positive/N/Z/nat inductives. *)
From PegtlV Require Import Base Decode Grammar Engine ParseTree ParseTreeSpec.
From Coq Require Import Extraction ExtrOcamlBasic.
Extraction Language OCaml.
Extraction "c12_model.ml" eval pt_parse pt_finish pt_table pt_cfg kind hooks_of build
  call_forest derivation_tree spec_tree flatten_forest N.add N.mul.
