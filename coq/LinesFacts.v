(* LinesFacts.v — proofs about the model Lines.v against the specification LinesSpec.v (C19). *)
From PegtlV Require Import Base Engine Lines LinesSpec.
From Coq Require Import Lia ZifyBool.

(* ------------------------------------------------------------------ lists *)

Lemma nth_error_skipn' : forall (A : Type) (k i : nat) (s : list A),
  nth_error (skipn k s) i = nth_error s (k + i).
Proof.
  intros A k. induction k as [|k IH]; intros i s.
  - reflexivity.
  - destruct s as [|a s].
    + cbn. destruct i; reflexivity.
    + cbn. apply IH.
Qed.

Lemma firstn_S_snoc : forall (A : Type) (k : nat) (s : list A) (b : A),
  nth_error s k = Some b -> firstn (S k) s = firstn k s ++ [b].
Proof.
  intros A k. induction k as [|k IH]; intros s b H.
  - destruct s as [|a s]; cbn in H; [discriminate|]. inversion H; subst. reflexivity.
  - destruct s as [|a s]; cbn in H; [discriminate|].
    change (firstn (S (S k)) (a :: s)) with (a :: firstn (S k) s).
    rewrite (IH s b H). reflexivity.
Qed.

Lemma nth_error_lt_some : forall (A : Type) (s : list A) (k : nat),
  (k < length s)%nat -> exists b, nth_error s k = Some b.
Proof.
  intros A s k H. destruct (nth_error s k) eqn:E.
  - eexists; reflexivity.
  - apply nth_error_None in E. lia.
Qed.

(* ------------------------------------------------------------------ track *)

Lemma track_S : forall e init s k b,
  nth_error s k = Some b ->
  track e init (firstn (S k) s) = bump1_pos (eol_ch e) (track e init (firstn k s)) b.
Proof.
  intros e init s k b H. unfold track. rewrite (firstn_S_snoc _ k s b H).
  rewrite fold_left_app. reflexivity.
Qed.

Lemma track_byte_len : forall e pre init,
  pbyte (track e init pre) = (pbyte init + N.of_nat (length pre))%N.
Proof.
  intros e pre. induction pre as [|b pre IH]; intros init.
  - cbn. lia.
  - change (track e init (b :: pre)) with (track e (bump1_pos (eol_ch e) init b) pre).
    rewrite IH. unfold bump1_pos. destruct (b =? eol_ch e)%N; cbn [pbyte length]; lia.
Qed.

Lemma track_byte : forall e init s k, (k <= length s)%nat ->
  pbyte (track e init (firstn k s)) = (pbyte init + N.of_nat k)%N.
Proof.
  intros e init s k H. rewrite track_byte_len. rewrite firstn_length_le by exact H. reflexivity.
Qed.

Lemma track_line : forall e pre init,
  pline (track e init pre) = (pline init + N.of_nat (count_ch e pre))%N.
Proof.
  intros e pre. induction pre as [|b pre IH]; intros init.
  - cbn. lia.
  - change (track e init (b :: pre)) with (track e (bump1_pos (eol_ch e) init b) pre).
    rewrite IH. unfold bump1_pos, count_ch. cbn [filter].
    destruct (b =? eol_ch e)%N; cbn [pline length]; lia.
Qed.

(* ------------------------------------------------------------------ line_begin *)

Lemma line_begin_le : forall e s k, (line_begin e s k <= k)%nat.
Proof.
  intros e s k. induction k as [|k IH]; cbn [line_begin].
  - destruct (starts_line e s 0); lia.
  - destruct (starts_line e s (S k)); lia.
Qed.

Lemma line_begin_is : forall e s k, is_line_begin e s k (line_begin e s k).
Proof.
  intros e s k. induction k as [|k IH].
  - cbn. split; [lia|]. split; [reflexivity|]. intros j Hj; lia.
  - cbn [line_begin]. destruct (starts_line e s (S k)) eqn:E.
    + split; [lia|]. split; [exact E|]. intros j Hj; lia.
    + destruct IH as (H1 & H2 & H3). split; [lia|]. split; [exact H2|].
      intros j Hj. destruct (Nat.eq_dec j (S k)) as [->|Hne]; [exact E|]. apply H3. lia.
Qed.

Lemma is_line_begin_unique : forall e s k b b',
  is_line_begin e s k b -> is_line_begin e s k b' -> b = b'.
Proof.
  intros e s k b b' (H1 & H2 & H3) (H1' & H2' & H3').
  destruct (Nat.lt_trichotomy b b') as [L|[L|L]]; [|exact L|].
  - rewrite (H3 b') in H2' by lia. discriminate.
  - rewrite (H3' b) in H2 by lia. discriminate.
Qed.

Lemma line_begin_S : forall e s k b, nth_error s k = Some b ->
  line_begin e s (S k) = if (b =? eol_ch e)%N then S k else line_begin e s k.
Proof.
  intros e s k b H. cbn [line_begin starts_line]. unfold byte_is. rewrite H. reflexivity.
Qed.

(* column of the tracked position, for ANY initial counters *)
Lemma track_col : forall e init s k, (k <= length s)%nat ->
  pcol (track e init (firstn k s)) =
    if (line_begin e s k =? 0)%nat then (pcol init + N.of_nat k)%N
    else (N.of_nat (k - line_begin e s k) + 1)%N.
Proof.
  intros e init s k. induction k as [|k IH]; intros Hk.
  - cbn. lia.
  - destruct (nth_error_lt_some _ s k ltac:(lia)) as [b Hb].
    rewrite (track_S e init s k b Hb), (line_begin_S e s k b Hb).
    specialize (IH ltac:(lia)). pose proof (line_begin_le e s k) as Hle.
    unfold bump1_pos. destruct (b =? eol_ch e)%N eqn:Eb; cbn [pcol].
    + replace (S k =? 0)%nat with false by (symmetry; apply Nat.eqb_neq; lia).
      replace (S k - S k)%nat with 0%nat by lia. reflexivity.
    + rewrite IH. destruct (line_begin e s k =? 0)%nat eqn:E0; lia.
Qed.

(* ------------------------------------------------------------------ line_end *)

Lemma eolf_at_end : forall e s j, (length s <= j)%nat -> eolf_at e s j = true.
Proof.
  intros e s j H. unfold eolf_at. apply orb_true_iff. left. apply Nat.leb_le. exact H.
Qed.

Lemma line_end_from_is : forall e s fuel j, (j + fuel = length s)%nat ->
  is_line_end e s j (line_end_from e s j fuel).
Proof.
  intros e s fuel. induction fuel as [|f IH]; intros j Hj; cbn [line_end_from].
  - rewrite (eolf_at_end e s j) by lia. split; [lia|]. split.
    + apply eolf_at_end. lia.
    + intros i Hi; lia.
  - destruct (eolf_at e s j) eqn:E.
    + split; [lia|]. split; [exact E|]. intros i Hi; lia.
    + destruct (IH (S j) ltac:(lia)) as ((H1 & H1') & H2 & H3).
      split; [lia|]. split; [exact H2|].
      intros i Hi. destruct (Nat.eq_dec i j) as [->|Hne]; [exact E|]. apply H3. lia.
Qed.

Lemma line_end_is : forall e s k, (k <= length s)%nat -> is_line_end e s k (line_end e s k).
Proof. intros e s k H. unfold line_end. apply line_end_from_is. lia. Qed.

Lemma is_line_end_unique : forall e s k j j',
  is_line_end e s k j -> is_line_end e s k j' -> j = j'.
Proof.
  intros e s k j j' (H1 & H2 & H3) (H1' & H2' & H3').
  destruct (Nat.lt_trichotomy j j') as [L|[L|L]]; [|exact L|].
  - rewrite (H3' j) in H2 by lia. discriminate.
  - rewrite (H3 j') in H2' by lia. discriminate.
Qed.

Lemma byte_is_cons : forall a s i c, byte_is (a :: s) (S i) c = byte_is s i c.
Proof. reflexivity. Qed.

Lemma eolf_at_cons : forall e a s i, eolf_at e (a :: s) (S i) = eolf_at e s i.
Proof.
  intros e a s i. unfold eolf_at, eol_at. cbn [length]. rewrite !byte_is_cons.
  replace (S (length s) <=? S i)%nat with (length s <=? i)%nat by reflexivity. reflexivity.
Qed.

Lemma byte_is_skipn : forall s k i c, byte_is (skipn k s) i c = byte_is s (k + i) c.
Proof. intros s k i c. unfold byte_is. rewrite nth_error_skipn'. reflexivity. Qed.

Lemma eolf_at_skipn : forall e s k i, (k <= length s)%nat ->
  eolf_at e (skipn k s) i = eolf_at e s (k + i).
Proof.
  intros e s k i H. unfold eolf_at, eol_at. rewrite skipn_length, !byte_is_skipn.
  replace (k + S i)%nat with (S (k + i)) by lia.
  replace (length s - k <=? i)%nat with (length s <=? k + i)%nat; [reflexivity|].
  destruct (length s <=? k + i)%nat eqn:E1; destruct (length s - k <=? i)%nat eqn:E2; lia.
Qed.

(* the modelled eolf (five Eol::eol_match bodies run on a cursor) is the spec's eolf_at *)
Lemma eolf_match_spec : forall e l, eolf_match e l = Some (eolf_at e l 0).
Proof.
  intros e l. unfold eolf_match, eol_match, eolf_at, eol_at, byte_is, in_size, peek_at.
  destruct l as [|a [|b tl]].
  - destruct e; reflexivity.
  - cbn [rest length nth_error Nat.eqb Nat.leb Nat.ltb].
    destruct e; cbn [eol_ch]; destruct (a =? 10)%N eqn:E10; destruct (a =? 13)%N eqn:E13;
      try reflexivity; exfalso; lia.
  - cbn [rest length nth_error Nat.eqb Nat.leb Nat.ltb].
    destruct e; cbn [eol_ch]; destruct (a =? 10)%N eqn:E10; destruct (a =? 13)%N eqn:E13;
      destruct (b =? 10)%N eqn:F10; try reflexivity; exfalso; lia.
Qed.

Lemma until_at_eolf_is : forall e l,
  exists n, until_at_eolf e l = Some n /\ is_line_end e l 0 n.
Proof.
  intros e l. induction l as [|a tl IH].
  - exists 0%nat. cbn [until_at_eolf]. rewrite eolf_match_spec.
    rewrite (eolf_at_end e [] 0) by (cbn; lia). split; [reflexivity|].
    split; [cbn; lia|]. split.
    + apply eolf_at_end. cbn; lia.
    + intros i Hi; lia.
  - cbn [until_at_eolf]. rewrite eolf_match_spec. destruct (eolf_at e (a :: tl) 0) eqn:E.
    + exists 0%nat. split; [reflexivity|]. split; [cbn; lia|]. split; [exact E|].
      intros i Hi; lia.
    + destruct IH as (n & Hn & (H1 & H1') & H2 & H3). exists (S n). rewrite Hn. split; [reflexivity|].
      split; [cbn [length]; lia|]. split.
      * rewrite eolf_at_cons. exact H2.
      * intros i Hi. destruct i as [|i]; [exact E|]. rewrite eolf_at_cons. apply H3. lia.
Qed.

Lemma until_at_eolf_skipn : forall e s k, (k <= length s)%nat ->
  until_at_eolf e (skipn k s) = Some (line_end e s k - k)%nat /\ (k <= line_end e s k <= length s)%nat.
Proof.
  intros e s k Hk. destruct (until_at_eolf_is e (skipn k s)) as (n & Hn & (H1 & H1') & H2 & H3).
  rewrite skipn_length in H1'.
  assert (L : is_line_end e s k (k + n)).
  { split; [lia|]. split.
    - rewrite <- eolf_at_skipn by exact Hk. exact H2.
    - intros i Hi. replace i with (k + (i - k))%nat by lia. rewrite <- eolf_at_skipn by exact Hk.
      apply H3. lia. }
  pose proof (is_line_end_unique e s k _ _ L (line_end_is e s k Hk)) as U.
  rewrite <- U. split; [|lia]. rewrite Hn. f_equal. lia.
Qed.

Lemma bounds_default : forall e s k, (k <= length s)%nat ->
  (line_begin e s k <= k <= line_end e s k)%nat /\ (line_end e s k <= length s)%nat.
Proof.
  intros e s k Hk.
  pose proof (line_begin_le e s k). destruct (until_at_eolf_skipn e s k Hk) as (_ & Hr). lia.
Qed.

(* ------------------------------------------------------------------ helpers, general form *)

Section General.
Variables (e : eolp) (s : list byte) (init : pos) (k : nat).
Hypothesis Hk : (k <= length s)%nat.
Let p := track e init (firstn k s).

(* at() is off by exactly the initial byte counter *)
Lemma at_general : at_ p = (Z.of_N (pbyte init) + Z.of_nat k)%Z.
Proof. unfold at_, p. rewrite track_byte by exact Hk. lia. Qed.

(* begin_of_line() is additionally off by (initial column - 1) on the first line *)
Lemma bol_general :
  begin_of_line p =
    (Z.of_N (pbyte init) + Z.of_nat (line_begin e s k)
     - (if (line_begin e s k =? 0)%nat then Z.of_N (pcol init) - 1 else 0))%Z.
Proof.
  unfold begin_of_line. rewrite at_general. unfold p. rewrite track_col by exact Hk.
  pose proof (line_begin_le e s k) as Hle.
  destruct (line_begin e s k =? 0)%nat eqn:E0; lia.
Qed.
End General.

(* ------------------------------------------------------------------ default byte counter *)

Section DefaultByte.
Variables (e : eolp) (s : list byte) (init : pos) (k : nat).
Hypothesis Hk : (k <= length s)%nat.
Hypothesis Hb : pbyte init = 0%N.
Let p := track e init (firstn k s).

Lemma at_default : at_ p = Z.of_nat k.
Proof. unfold p. rewrite at_general by exact Hk. rewrite Hb. lia. Qed.

Lemma eol_default : end_of_line e (mkin s init) p = Off (Z.of_nat (line_end e s k)).
Proof.
  unfold end_of_line, in_data. cbn [idata]. rewrite at_default.
  replace ((0 <=? Z.of_nat k)%Z && (Z.of_nat k <=? Z.of_nat (length s))%Z) with true
    by (symmetry; apply andb_true_iff; split; lia).
  rewrite Nat2Z.id. destruct (until_at_eolf_skipn e s k Hk) as (Hu & Hr). rewrite Hu.
  f_equal. lia.
Qed.

(* begin_of_line with default byte but arbitrary column: right on every line but the first *)
Lemma bol_not_first_line : line_begin e s k <> 0%nat ->
  begin_of_line p = Z.of_nat (line_begin e s k).
Proof.
  intros H. unfold p. rewrite bol_general by exact Hk. rewrite Hb.
  destruct (line_begin e s k =? 0)%nat eqn:E0; lia.
Qed.

Lemma bol_first_line : line_begin e s k = 0%nat ->
  begin_of_line p = (1 - Z.of_N (pcol init))%Z.
Proof.
  intros H. unfold p. rewrite bol_general by exact Hk. rewrite Hb, H. change (0 =? 0)%nat with true. lia.
Qed.

Hypothesis Hc : pcol init = 1%N.

Lemma bol_default : begin_of_line p = Z.of_nat (line_begin e s k).
Proof.
  unfold p. rewrite bol_general by exact Hk. rewrite Hb, Hc.
  destruct (line_begin e s k =? 0)%nat; lia.
Qed.

Lemma line_at_default : line_at e (mkin s init) p = Line (line_bytes e s k).
Proof.
  unfold line_at. rewrite eol_default, bol_default. unfold in_data. cbn [idata].
  pose proof (bounds_default e s k Hk) as (B1 & B2).
  replace ((0 <=? Z.of_nat (line_begin e s k))%Z &&
           (Z.of_nat (line_begin e s k) <=? Z.of_nat (length s))%Z &&
           (Z.of_nat (line_begin e s k) <=? Z.of_nat (line_end e s k))%Z) with true
    by (symmetry; rewrite !andb_true_iff; repeat split; lia).
  rewrite !Nat2Z.id. reflexivity.
Qed.

Lemma in_bounds_default :
  (0 <= at_ p <= Z.of_nat (length s))%Z /\
  (0 <= begin_of_line p <= at_ p)%Z /\
  exists z, end_of_line e (mkin s init) p = Off z /\ (at_ p <= z <= Z.of_nat (length s))%Z.
Proof.
  pose proof (bounds_default e s k Hk) as (B1 & B2).
  rewrite at_default, bol_default, eol_default. repeat split; try lia.
  exists (Z.of_nat (line_end e s k)). split; [reflexivity|lia].
Qed.
End DefaultByte.

(* the spec functions meet the relational spec, so the theorems can also be read relationally *)
Lemma default_relational : forall e s init k, (k <= length s)%nat ->
  pbyte init = 0%N -> pcol init = 1%N ->
  let p := track e init (firstn k s) in
  exists b j, begin_of_line p = Z.of_nat b /\ is_line_begin e s k b /\
              end_of_line e (mkin s init) p = Off (Z.of_nat j) /\ is_line_end e s k j /\
              line_at e (mkin s init) p = Line (firstn (j - b) (skipn b s)).
Proof.
  intros e s init k Hk Hb Hc p. exists (line_begin e s k), (line_end e s k).
  split; [apply bol_default; assumption|]. split; [apply line_begin_is|].
  split; [apply eol_default; assumption|]. split; [apply line_end_is; exact Hk|].
  apply line_at_default; assumption.
Qed.

(* ------------------------------------------------------------------ the line counter is irrelevant *)

Lemma track_line_irrelevant : forall e pre b l l' c,
  pbyte (track e (mkpos b l c) pre) = pbyte (track e (mkpos b l' c) pre) /\
  pcol (track e (mkpos b l c) pre) = pcol (track e (mkpos b l' c) pre).
Proof.
  intros e pre. induction pre as [|a pre IH]; intros b l l' c.
  - split; reflexivity.
  - change (track e (mkpos b l c) (a :: pre)) with (track e (bump1_pos (eol_ch e) (mkpos b l c) a) pre).
    change (track e (mkpos b l' c) (a :: pre)) with (track e (bump1_pos (eol_ch e) (mkpos b l' c) a) pre).
    unfold bump1_pos. cbn [pbyte pline pcol]. destruct (a =? eol_ch e)%N; apply IH.
Qed.

Lemma helpers_ignore_line : forall e s b l l' c pre,
  let p := track e (mkpos b l c) pre in let p' := track e (mkpos b l' c) pre in
  at_ p = at_ p' /\ begin_of_line p = begin_of_line p' /\
  end_of_line e (mkin s (mkpos b l c)) p = end_of_line e (mkin s (mkpos b l' c)) p' /\
  line_at e (mkin s (mkpos b l c)) p = line_at e (mkin s (mkpos b l' c)) p'.
Proof.
  intros e s b l l' c pre p p'. destruct (track_line_irrelevant e pre b l l' c) as (Hb & Hc).
  assert (A : at_ p = at_ p') by (unfold at_, p, p'; rewrite Hb; reflexivity).
  assert (B : begin_of_line p = begin_of_line p') by (unfold begin_of_line; rewrite A; unfold p, p'; rewrite Hc; reflexivity).
  assert (C : end_of_line e (mkin s (mkpos b l c)) p = end_of_line e (mkin s (mkpos b l' c)) p')
    by (unfold end_of_line, in_data; cbn [idata]; rewrite A; reflexivity).
  repeat split; try assumption.
  unfold line_at, in_data. cbn [idata]. rewrite B, C. reflexivity.
Qed.

(* ------------------------------------------------------------------ lazy = eager *)

Lemma bump_scan_track : forall ch k l p, (k <= length l)%nat ->
  bump_scan ch k (mkcur l p) = Some (mkcur (skipn k l) (fold_left (bump1_pos ch) (firstn k l) p)).
Proof.
  intros ch k. induction k as [|k IH]; intros l p Hk.
  - reflexivity.
  - destruct l as [|b tl]; [cbn in Hk; lia|]. cbn [bump_scan rest cpos]. rewrite IH by (cbn in Hk; lia).
    reflexivity.
Qed.

Lemma bump_scan_none : forall ch k l p, (length l < k)%nat -> bump_scan ch k (mkcur l p) = None.
Proof.
  intros ch k. induction k as [|k IH]; intros l p Hk.
  - lia.
  - destruct l as [|b tl]; [reflexivity|]. cbn [bump_scan rest cpos]. apply IH. cbn in Hk; lia.
Qed.

Lemma eager_is_lazy : forall e inp k, (k <= length (idata inp))%nat ->
  eager_position e inp k = Some (lazy_position e inp k).
Proof.
  intros e inp k Hk. unfold eager_position, lazy_position, track.
  rewrite bump_scan_track by exact Hk. reflexivity.
Qed.

Lemma position_of_modes : forall e inp k,
  position_of true e inp k = position_of false e inp k.
Proof.
  intros e inp k. unfold position_of. destruct (k <=? length (idata inp))%nat eqn:E.
  - apply eager_is_lazy. apply Nat.leb_le. exact E.
  - unfold eager_position. destruct inp as [l p]. cbn [idata iinit].
    rewrite bump_scan_none; [reflexivity|]. cbn [idata] in E. apply Nat.leb_gt in E. exact E.
Qed.

Lemma report_modes : forall e inp k (r r' : report),
  c19_report true e inp k = Some r -> c19_report false e inp k = Some r' ->
  r_pos r = r_pos r' /\ r_at r = r_at r' /\ r_bol r = r_bol r' /\ r_eol r = r_eol r' /\ r_line r = r_line r'.
Proof.
  intros e inp k r r' H H'. unfold c19_report in H, H'. rewrite position_of_modes in H.
  destruct (position_of false e inp k) as [p|]; [|discriminate].
  inversion H; inversion H'; subst. cbn. repeat split; reflexivity.
Qed.

(* byte(): eager and lazy both agree with position().byte (lazy: after the repair /repo e0cf8e4) *)
Lemma eager_byte_is_position_byte : forall e inp k, (k <= length (idata inp))%nat ->
  eager_byte e inp k = Some (pbyte (lazy_position e inp k)).
Proof. intros e inp k Hk. unfold eager_byte. rewrite eager_is_lazy by exact Hk. reflexivity. Qed.

Lemma lazy_byte_is_position_byte : forall e inp k, (k <= length (idata inp))%nat ->
  pbyte (lazy_position e inp k) = lazy_byte inp k.
Proof. intros e inp k Hk. unfold lazy_position, lazy_byte. apply track_byte. exact Hk. Qed.

(* ------------------------------------------------------------------ assembled statements *)

(* what C19 demands of the helpers for one initial-counter triple *)
Definition c19_holds_for (init : pos) : Prop :=
  forall e s k, (k <= length s)%nat ->
  let p := track e init (firstn k s) in
  at_ p = Z.of_nat k /\
  begin_of_line p = Z.of_nat (line_begin e s k) /\
  end_of_line e (mkin s init) p = Off (Z.of_nat (line_end e s k)) /\
  line_at e (mkin s init) p = Line (line_bytes e s k) /\
  (0 <= Z.of_nat (line_begin e s k) <= Z.of_nat k)%Z /\
  (Z.of_nat k <= Z.of_nat (line_end e s k) <= Z.of_nat (length s))%Z.

Lemma default_counters_partial : forall init,
  pbyte init = 0%N -> pcol init = 1%N -> c19_holds_for init.
Proof.
  intros init Hb Hc e s k Hk p.
  pose proof (bounds_default e s k Hk) as (B1 & B2).
  split; [apply at_default; assumption|].
  split; [apply bol_default; assumption|].
  split; [apply eol_default; assumption|].
  split; [apply line_at_default; assumption|]. lia.
Qed.

Lemma any_initial_line : forall l, c19_holds_for (mkpos 0 l 1).
Proof. intros l. apply default_counters_partial; reflexivity. Qed.

(* default byte, arbitrary column: only begin_of_line on the first line is affected *)
Lemma initial_column_partial : forall e s init k, (k <= length s)%nat -> pbyte init = 0%N ->
  let p := track e init (firstn k s) in
  at_ p = Z.of_nat k /\
  end_of_line e (mkin s init) p = Off (Z.of_nat (line_end e s k)) /\
  (line_begin e s k <> 0%nat -> begin_of_line p = Z.of_nat (line_begin e s k)) /\
  (line_begin e s k = 0%nat -> begin_of_line p = (1 - Z.of_N (pcol init))%Z).
Proof.
  intros e s init k Hk Hb p.
  split; [apply at_default; assumption|].
  split; [apply eol_default; assumption|].
  split; [apply bol_not_first_line; assumption|apply bol_first_line; assumption].
Qed.

(* ---- refutations (the recorded finding) ---- *)

(* initial byte 100, 8 bytes "xxxxxxxx", k = 4: at(p) = begin()+104; and the smallest case:
   empty data, initial byte 1, k = 0: at(p) = begin()+1 = end()+1 *)
Lemma refuted_initial_byte :
  (exists e s init k, (k <= length s)%nat /\ pline init = 1%N /\ pcol init = 1%N /\
     let p := track e init (firstn k s) in
     s = [120;120;120;120;120;120;120;120]%N /\ init = mkpos 100 1 1 /\ k = 4%nat /\
     at_ p = 104%Z /\ (at_ p > Z.of_nat (length s))%Z /\ begin_of_line p = 100%Z /\
     end_of_line e (mkin s init) p = OutOfData /\
     line_at e (mkin s init) p = LineOut 100 OutOfData) /\
  (exists e s init k, (k <= length s)%nat /\ pline init = 1%N /\ pcol init = 1%N /\
     let p := track e init (firstn k s) in
     s = [] /\ init = mkpos 1 1 1 /\ k = 0%nat /\
     (at_ p > Z.of_nat (length s))%Z /\ end_of_line e (mkin s init) p = OutOfData).
Proof.
  split.
  - exists EolLf, [120;120;120;120;120;120;120;120]%N, (mkpos 100 1 1), 4%nat.
    cbv zeta; repeat match goal with |- _ /\ _ => split end; try (vm_compute; reflexivity); try (cbn; lia).
  - exists EolLf, [], (mkpos 1 1 1), 0%nat.
    cbv zeta; repeat match goal with |- _ /\ _ => split end; try (vm_compute; reflexivity); try (cbn; lia).
Qed.

(* in bounds but wrong: "ab\ncd", initial byte 1, k = 0: the line of offset 0 is "ab", the
   helpers answer at = 1 and line_at = "b" *)
Lemma refuted_initial_byte_wrong_line :
  exists e s init k, (k <= length s)%nat /\ pcol init = 1%N /\
     let p := track e init (firstn k s) in
     line_bytes e s k = [97;98]%N /\ at_ p = 1%Z /\ line_at e (mkin s init) p = Line [98]%N.
Proof.
  exists EolLf, [97;98;10;99;100]%N, (mkpos 1 1 1), 0%nat.
  cbv zeta; repeat match goal with |- _ /\ _ => split end; try (vm_compute; reflexivity); try (cbn; lia).
Qed.

(* initial column 4, "ab", k = 1: begin_of_line(p) = begin()-3; smallest: empty data, column 2 *)
Lemma refuted_initial_column :
  (exists e s init k, (k <= length s)%nat /\ pbyte init = 0%N /\ pline init = 1%N /\
     let p := track e init (firstn k s) in
     s = [97;98]%N /\ init = mkpos 0 1 4 /\ k = 1%nat /\
     at_ p = 1%Z /\ begin_of_line p = (-3)%Z /\ (begin_of_line p < 0)%Z /\
     end_of_line e (mkin s init) p = Off 2 /\
     line_at e (mkin s init) p = LineOut (-3) (Off 2)) /\
  (exists e s init k, (k <= length s)%nat /\ pbyte init = 0%N /\ pline init = 1%N /\
     let p := track e init (firstn k s) in
     s = [] /\ init = mkpos 0 1 2 /\ k = 0%nat /\ (begin_of_line p < 0)%Z).
Proof.
  split.
  - exists EolLf, [97;98]%N, (mkpos 0 1 4), 1%nat.
    cbv zeta; repeat match goal with |- _ /\ _ => split end; try (vm_compute; reflexivity); try (cbn; lia).
  - exists EolLf, [], (mkpos 0 1 2), 0%nat.
    cbv zeta; repeat match goal with |- _ /\ _ => split end; try (vm_compute; reflexivity); try (cbn; lia).
Qed.

Lemma not_c19_initial_byte : ~ c19_holds_for (mkpos 100 1 1).
Proof.
  intros H. specialize (H EolLf [] 0%nat ltac:(cbn; lia)). destruct H as (H & _).
  vm_compute in H. discriminate H.
Qed.

Lemma not_c19_initial_column : ~ c19_holds_for (mkpos 0 1 4).
Proof.
  intros H. specialize (H EolLf [] 0%nat ltac:(cbn; lia)). destruct H as (_ & H & _).
  vm_compute in H. discriminate H.
Qed.

(* exactly which initial counters satisfy C19 *)
Lemma c19_holds_iff : forall init, c19_holds_for init <-> (pbyte init = 0%N /\ pcol init = 1%N).
Proof.
  intros init. split.
  - intros H. specialize (H EolLf [] 0%nat ltac:(cbn; lia)). destruct H as (Ha & Hb & _).
    unfold begin_of_line in Hb. rewrite Ha in Hb. unfold at_ in Ha. cbn in Ha, Hb. lia.
  - intros (Hb & Hc). apply default_counters_partial; assumption.
Qed.

(* ---- satisfiable, non-trivial instances ---- *)

(* "ab\r\ncd\nef", lf_crlf, initial line 3, k = 5 (the 'd'): line [4,6) = "cd" *)
Lemma example_lf_crlf :
  let s := [97;98;13;10;99;100;10;101;102]%N in let init := mkpos 0 3 1 in
  let p := track EolLfCrlf init (firstn 5 s) in
  p = mkpos 5 4 2 /\ at_ p = 5%Z /\ begin_of_line p = 4%Z /\
  end_of_line EolLfCrlf (mkin s init) p = Off 6 /\
  line_at EolLfCrlf (mkin s init) p = Line [99;100]%N /\
  line_begin EolLfCrlf s 5 = 4%nat /\ line_end EolLfCrlf s 5 = 6%nat.
Proof. cbv zeta; repeat match goal with |- _ /\ _ => split end; try (vm_compute; reflexivity); try (cbn; lia). Qed.

(* position at the very end of "ab\n" (k = 3): the empty last line [3,3) *)
Lemma example_at_end :
  let s := [97;98;10]%N in let p := track EolLf pos0 (firstn 3 s) in
  p = mkpos 3 2 1 /\ begin_of_line p = 3%Z /\ end_of_line EolLf (mkin s pos0) p = Off 3 /\
  line_at EolLf (mkin s pos0) p = Line [].
Proof. cbv zeta; repeat match goal with |- _ /\ _ => split end; try (vm_compute; reflexivity); try (cbn; lia). Qed.

(* subtlety 1 of LinesSpec.v: eol::crlf counts by '\n' but ends lines only at "\r\n":
   "x\ny": the line of k = 0 is "x\ny", the line of k = 2 is "y" *)
Lemma example_crlf_lone_lf :
  let s := [120;10;121]%N in
  line_at EolCrlf (mkin s pos0) (track EolCrlf pos0 (firstn 0 s)) = Line [120;10;121]%N /\
  line_at EolCrlf (mkin s pos0) (track EolCrlf pos0 (firstn 2 s)) = Line [121]%N.
Proof. vm_compute. split; reflexivity. Qed.

(* subtlety 2: eol::cr_crlf counts by '\r': after "a\r\n" the line of 'b' (k = 3) starts at the '\n' *)
Lemma example_cr_crlf_pair :
  let s := [97;13;10;98]%N in
  line_at EolCrCrlf (mkin s pos0) (track EolCrCrlf pos0 (firstn 3 s)) = Line [10;98]%N.
Proof. vm_compute. reflexivity. Qed.
