(* ParseTreeFacts.v — proofs for C12: the node-stack machine of parse_tree.hpp computes exactly the
   derivation tree of the call tree of the run, for every call tree (= every balanced hook log),
   every classification consistent with the selection, every transformer assignment. *)
From Coq Require Import Lia.
From PegtlV Require Import Base Decode Grammar Engine Hooks HookFacts ParseTree ParseTreeSpec.

(* ---------- induction over call trees ---------- *)
Section CtreeInd.
Variable P : ctree -> Prop.
Hypothesis H : forall r b h e kids, Forall P kids -> P (CT r b h e kids).
Fixpoint ctree_ind' (t : ctree) : P t :=
  match t with
  | CT r b h e kids =>
      H r b h e kids ((fix go (l : list ctree) : Forall P l :=
                         match l with [] => Forall_nil P | k :: tl => Forall_cons k (ctree_ind' k) (go tl) end) kids)
  end.
End CtreeInd.

Lemma flat_map_nil {A B} (f : A -> list B) l : Forall (fun x => f x = []) l -> flat_map f l = [].
Proof. induction 1 as [|x l Hx _ IH]; simpl; [reflexivity|]. rewrite Hx, IH. reflexivity. Qed.

(* ---------- tree helpers ---------- *)
Lemma add_children_nil t : add_children t [] = t.
Proof. destruct t; simpl. rewrite app_nil_r. reflexivity. Qed.
Lemma add_children_app t a b : add_children (add_children t a) b = add_children t (a ++ b).
Proof. destruct t; simpl. rewrite app_assoc. reflexivity. Qed.

(* the code of the four transformers does what the documentation says *)
Lemma xform_doc t r b e ks : xform t (set_end (Node (Some r) b None ks) e) = doc_transform t r b e ks.
Proof.
  destruct t; simpl; try reflexivity.
  - destruct ks as [|k1 [|k2 ks']]; reflexivity.
  - destruct ks as [|k1 ks']; reflexivity.
Qed.

(* ---------- the builder ---------- *)
Section B.
Variable kind_ : rid -> hkind.
Notation build := (build kind_).
Notation bstep := (bstep kind_).

Lemma build_app a : forall st b, build st (a ++ b) = match build st a with Some st1 => build st1 b | None => None end.
Proof. induction a as [|e a IH]; intros st b; simpl; [reflexivity|]. destruct (bstep st e); [apply IH | reflexivity]. Qed.

Variable selp : rid -> option transform.
(* the handler classification agrees with the selection *)
Hypothesis Hsel : forall r, match kind_ r with KSel t => selp r = Some t | _ => selp r = None end.

Fixpoint call_rules (t : ctree) : list rid := match t with CT r _ _ _ kids => r :: flat_map call_rules kids end.
Definition unsel (r : rid) : Prop := selp r = None.

(* what the leaf optimisation relies on: below an attempt of a leaf-classified rule no selected rule is attempted *)
Fixpoint leaf_clean (t : ctree) : Prop :=
  match t with
  | CT r _ _ _ kids =>
      (kind_ r = KLeaf -> Forall unsel (flat_map call_rules kids)) /\
      (fix go (l : list ctree) : Prop := match l with [] => True | k :: tl => leaf_clean k /\ go tl end) kids
  end.
Definition leaf_clean_forest (ts : list ctree) : Prop := Forall leaf_clean ts.

Lemma leaf_clean_kids r b h e kids : leaf_clean (CT r b h e kids) -> Forall leaf_clean kids.
Proof.
  simpl. intros [_ Hk]. induction kids as [|k tl IH]; [constructor|]. destruct Hk as [H1 H2]. constructor; [exact H1 | apply IH; exact H2].
Qed.

Lemma Forall_flat_map {A B} (P : B -> Prop) (f : A -> list B) l : Forall P (flat_map f l) <-> Forall (fun x => Forall P (f x)) l.
Proof.
  induction l as [|x l IH]; simpl; [split; constructor|]. rewrite Forall_app, IH. split.
  - intros [H1 H2]. constructor; assumption.
  - intros H. inversion H; subst. split; assumption.
Qed.

Lemma unsel_deriv t : Forall unsel (call_rules t) -> deriv selp t = [].
Proof.
  induction t as [r b h e kids IH] using ctree_ind'. simpl. intros Hu. inversion Hu as [|x l Hr Hk]; subst.
  destruct h; try reflexivity. unfold unsel in Hr. rewrite Hr.
  apply flat_map_nil. rewrite Forall_flat_map in Hk. clear Hu Hr.
  induction kids as [|k tl IHk]; [constructor|]. inversion IH; subst. inversion Hk; subst. constructor; [auto | apply IHk; assumption].
Qed.

Lemma unsel_deriv_forest ts : Forall unsel (flat_map call_rules ts) -> flat_map (deriv selp) ts = [].
Proof.
  intros H. apply flat_map_nil. rewrite Forall_flat_map in H. induction H as [|t l Ht _ IH]; constructor; [apply unsel_deriv; exact Ht | exact IH].
Qed.

Definition tree_goal (t : ctree) : Prop :=
  leaf_clean t -> wf_ct t = true ->
  forall top tl, build (top :: tl) (flatten t) = Some (add_children top (deriv selp t) :: tl).

Lemma forest_from_trees ts : Forall tree_goal ts -> Forall leaf_clean ts -> forallb wf_ct ts = true ->
  forall top tl, build (top :: tl) (flat_map flatten ts) = Some (add_children top (flat_map (deriv selp) ts) :: tl).
Proof.
  induction 1 as [|t ts Ht _ IH]; intros Hl Hw top tl; simpl.
  - rewrite add_children_nil. reflexivity.
  - inversion Hl; subst. simpl in Hw. apply andb_true_iff in Hw. destruct Hw as [Hw1 Hw2].
    rewrite build_app, (Ht H1 Hw1 top tl), (IH H2 Hw2), add_children_app. reflexivity.
Qed.

(* C12_exact, one attempt: whatever the stack, running the events of one attempt (closed by success,
   failure or unwind) appends exactly the derivation of that attempt to the node on top and leaves
   everything else untouched *)
Lemma build_tree t : tree_goal t.
Proof.
  induction t as [r b h e kids IH] using ctree_ind'. intros Hl Hw top tl.
  pose proof (leaf_clean_kids _ _ _ _ _ Hl) as Hlk.
  simpl in Hw. apply andb_true_iff in Hw. destruct Hw as [Hc Hwk].
  pose proof (forest_from_trees kids IH Hlk Hwk) as HF.
  pose proof (Hsel r) as Hs.
  cbn [flatten]. cbn [ParseTree.build ParseTree.bstep].
  destruct (kind_ r) as [tr| |] eqn:K.
  - (* selected *)
    rewrite build_app, HF. cbn [ParseTree.build ParseTree.bstep add_children app]. rewrite K.
    destruct h; try discriminate Hc; cbn [deriv]; rewrite ?Hs.
    + rewrite xform_doc. reflexivity.
    + rewrite add_children_nil. reflexivity.
    + rewrite add_children_nil. reflexivity.
  - (* leaf-classified: no bookkeeping *)
    rewrite build_app, HF. cbn [ParseTree.build ParseTree.bstep]. rewrite K.
    destruct h; try discriminate Hc; cbn [deriv]; rewrite ?Hs; try reflexivity.
    + destruct Hl as [Hl _]. rewrite (unsel_deriv_forest kids (Hl K)). reflexivity.
    + destruct Hl as [Hl _]. rewrite (unsel_deriv_forest kids (Hl K)). reflexivity.
  - (* unselected, not a leaf: scratch node *)
    rewrite build_app, HF. cbn [ParseTree.build ParseTree.bstep add_children app blank t_children]. rewrite K.
    destruct h; try discriminate Hc; cbn [deriv]; rewrite ?Hs.
    + reflexivity.
    + rewrite add_children_nil. reflexivity.
    + rewrite add_children_nil. reflexivity.
Qed.

Lemma build_forest ts : leaf_clean_forest ts -> forallb wf_ct ts = true ->
  forall top tl, build (top :: tl) (flatten_forest ts) = Some (add_children top (deriv_forest selp ts) :: tl).
Proof.
  intros Hl Hw. apply forest_from_trees; [|exact Hl | exact Hw].
  clear Hl Hw. induction ts; constructor; [apply build_tree | assumption].
Qed.

(* builder on a complete balanced log = derivation tree of its call tree *)
Lemma build_exact ts : leaf_clean_forest ts -> forallb wf_ct ts = true ->
  build [blank] (flatten_forest ts) = Some [derivation_tree selp ts].
Proof. intros Hl Hw. rewrite (build_forest ts Hl Hw blank []). reflexivity. Qed.

(* nothing is left over from an attempt that failed or was unwound: the stack is exactly as before *)
Lemma build_aborted r b h e kids st : leaf_clean (CT r b h e kids) -> wf_ct (CT r b h e kids) = true -> h <> HkSuccess ->
  st <> [] -> build st (flatten (CT r b h e kids)) = Some st.
Proof.
  intros Hl Hw Hh Hst. destruct st as [|top tl]; [contradiction|].
  rewrite (build_tree _ Hl Hw top tl). destruct h; try contradiction; simpl; rewrite add_children_nil; reflexivity.
Qed.
End B.

(* ---------- the log parser is the inverse of flatten ---------- *)
Lemma forallb_rev {A} (f : A -> bool) l : forallb f (rev l) = forallb f l.
Proof. induction l as [|x l IH]; simpl; [reflexivity|]. rewrite forallb_app, IH. simpl. rewrite andb_true_r. apply andb_comm. Qed.

Definition cparse_goal (t : ctree) : Prop :=
  wf_ct t = true -> forall rest stk acc, cparse (flatten t ++ rest) stk acc = cparse rest stk (t :: acc).

Lemma cparse_forest_from ts : Forall cparse_goal ts -> forallb wf_ct ts = true ->
  forall rest stk acc, cparse (flat_map flatten ts ++ rest) stk acc = cparse rest stk (rev ts ++ acc).
Proof.
  induction 1 as [|t ts Ht _ IH]; intros Hw rest stk acc; simpl; [reflexivity|].
  simpl in Hw. apply andb_true_iff in Hw. destruct Hw as [Hw1 Hw2].
  rewrite <- app_assoc, (Ht Hw1), (IH Hw2), <- app_assoc. reflexivity.
Qed.

Lemma cparse_tree t : cparse_goal t.
Proof.
  induction t as [r b h e kids IH] using ctree_ind'. intros Hw rest stk acc.
  simpl in Hw. apply andb_true_iff in Hw. destruct Hw as [Hc Hwk].
  cbn [flatten]. rewrite <- app_comm_cons. cbn [cparse]. rewrite <- app_assoc.
  rewrite (cparse_forest_from kids IH Hwk). rewrite app_nil_r. simpl app.
  destruct h; try discriminate Hc; cbn [cparse]; rewrite Nat.eqb_refl, rev_involutive; reflexivity.
Qed.

Lemma call_forest_flatten ts : forallb wf_ct ts = true -> call_forest (flatten_forest ts) = Some ts.
Proof.
  intros Hw. unfold call_forest, flatten_forest.
  rewrite <- (app_nil_r (flat_map flatten ts)).
  rewrite (cparse_forest_from ts); [| clear Hw; induction ts; constructor; [apply cparse_tree | assumption] | exact Hw].
  simpl. rewrite app_nil_r, rev_involutive. reflexivity.
Qed.

Fixpoint consumed_stk (stk : list (rid * pos * list ctree)) : list hev :=
  match stk with
  | [] => []
  | (r, b, pacc) :: tl => consumed_stk tl ++ flatten_forest (rev pacc) ++ [(HkStart, r, b)]
  end.
Definition stk_wf (stk : list (rid * pos * list ctree)) : bool := forallb (fun x => forallb wf_ct (snd x)) stk.

Lemma flatten_forest_app a b : flatten_forest (a ++ b) = flatten_forest a ++ flatten_forest b.
Proof. apply flat_map_app. Qed.

Lemma consumed_close r b h p acc pacc stk' evs :
  consumed_stk stk' ++ flatten_forest (rev (CT r b h p (rev acc) :: pacc)) ++ evs =
  consumed_stk ((r, b, pacc) :: stk') ++ flatten_forest (rev acc) ++ (h, r, p) :: evs.
Proof.
  cbn [consumed_stk rev]. rewrite flatten_forest_app. unfold flatten_forest. cbn [flat_map flatten].
  rewrite app_nil_r. rewrite <- !app_assoc. cbn [app]. rewrite <- !app_assoc. reflexivity.
Qed.

Lemma cparse_sound evs : forall stk acc ts, stk_wf stk = true -> forallb wf_ct acc = true ->
  cparse evs stk acc = Some ts ->
  forallb wf_ct ts = true /\ consumed_stk stk ++ flatten_forest (rev acc) ++ evs = flatten_forest ts.
Proof.
  induction evs as [|[[h r] p] evs IH]; intros stk acc ts Hs Ha Hc.
  - simpl in Hc. destruct stk; [|discriminate]. inversion Hc; subst. simpl. rewrite forallb_rev, app_nil_r. auto.
  - assert (Hclose : closing h = true -> forallb wf_ct ts = true /\ consumed_stk stk ++ flatten_forest (rev acc) ++ (h, r, p) :: evs = flatten_forest ts).
    { intros Hcl.
      assert (Hc' : match stk with
                    | (r', b, pacc) :: stk' => if Nat.eqb r r' then cparse evs stk' (CT r b h p (rev acc) :: pacc) else None
                    | [] => None end = Some ts) by (destruct h; try discriminate Hcl; exact Hc).
      clear Hc. destruct stk as [|[[r' b] pacc] stk']; [discriminate|].
      destruct (Nat.eqb r r') eqn:E; [|discriminate]. apply Nat.eqb_eq in E. subst r'.
      simpl in Hs. apply andb_true_iff in Hs. destruct Hs as [Hp Hs].
      apply IH in Hc'; [| exact Hs | simpl; rewrite forallb_rev, Ha, Hp, Hcl; reflexivity].
      destruct Hc' as [Hw Hc']. split; [exact Hw|]. rewrite <- Hc'. symmetry. apply consumed_close. }
    destruct h; try (apply Hclose; reflexivity).
    cbn [cparse] in Hc. apply IH in Hc; [| simpl; rewrite Ha, Hs; reflexivity | reflexivity].
    destruct Hc as [Hw Hc]. split; [exact Hw|]. rewrite <- Hc. simpl. rewrite <- !app_assoc. reflexivity.
Qed.

(* a log has a call tree iff it is the flattening of a well-formed forest; the forest is unique *)
Lemma call_forest_sound evs ts : call_forest evs = Some ts -> forallb wf_ct ts = true /\ evs = flatten_forest ts.
Proof. intros H. apply cparse_sound in H; [| reflexivity | reflexivity]. simpl in H. exact H. Qed.

(* ---------- every log the C08 protocol accepts (strict mode) has a call tree ---------- *)
Fixpoint opens (st : list frame) : list rid :=
  match st with [] => [] | FHook _ r :: tl => r :: opens tl | FInv _ _ _ :: tl => opens tl end.
Definition srules (stk : list (rid * pos * list ctree)) : list rid := map (fun x => fst (fst x)) stk.

Lemma hooks_of_cons e evs : hooks_of (e :: evs) = hooks_of [e] ++ hooks_of evs.
Proof. destruct e; reflexivity. Qed.
Lemma hooks_of_app a b : hooks_of (a ++ b) = hooks_of a ++ hooks_of b.
Proof. induction a as [|e a IH]; [reflexivity|]. rewrite <- app_comm_cons, hooks_of_cons, (hooks_of_cons e a), IH, app_assoc. reflexivity. Qed.

Section Sim.
Variable ro : rid -> who -> bool.
Variable po : rid -> bool.

Lemma sim_step st e st' : Hooks.step true ro po st e = Some st' ->
  forall stk acc k, srules stk = opens st ->
  exists stk' acc', srules stk' = opens st' /\ cparse (hooks_of [e] ++ k) stk acc = cparse k stk' acc'.
Proof.
  intros Hst stk acc k Hr.
  destruct e as [h kc r p | | | | | | | | | | | ]; cbn [hooks_of app]; simpl in Hst.
  - destruct h.
    + destruct st as [|[r' [|] [cl|]|] tl]; try discriminate Hst.
      destruct (Nat.eqb r r') eqn:E; [|discriminate]. inversion Hst; subst st'.
      exists ((r, p, acc) :: stk), []. split; [simpl; rewrite Hr; reflexivity | reflexivity].
    + destruct st as [|[|k' r'] tl]; try discriminate Hst. destruct tl as [|[r'' [|] [cl|]|] tl]; try discriminate Hst.
      destruct (Nat.eqb kc k' && Nat.eqb r r' && Nat.eqb r r'') eqn:E; [|discriminate]. inversion Hst; subst st'.
      apply andb_true_iff in E. destruct E as [E _]. apply andb_true_iff in E. destruct E as [_ E]. apply Nat.eqb_eq in E. subst r'.
      destruct stk as [|[[r0 b] pacc] stk0]; [discriminate Hr|]. simpl in Hr. inversion Hr; subst r0.
      exists stk0, (CT r b HkSuccess p (rev acc) :: pacc). split; [assumption|]. cbn [cparse]. rewrite Nat.eqb_refl. reflexivity.
    + destruct st as [|[|k' r'] tl]; try discriminate Hst. destruct tl as [|[r'' [|] [cl|]|] tl]; try discriminate Hst.
      destruct (Nat.eqb kc k' && Nat.eqb r r' && Nat.eqb r r'') eqn:E; [|discriminate]. inversion Hst; subst st'.
      apply andb_true_iff in E. destruct E as [E _]. apply andb_true_iff in E. destruct E as [_ E]. apply Nat.eqb_eq in E. subst r'.
      destruct stk as [|[[r0 b] pacc] stk0]; [discriminate Hr|]. simpl in Hr. inversion Hr; subst r0.
      exists stk0, (CT r b HkFailure p (rev acc) :: pacc). split; [assumption|]. cbn [cparse]. rewrite Nat.eqb_refl. reflexivity.
    + destruct st as [|[|k' r'] tl]; try discriminate Hst. destruct tl as [|[r'' [|] [cl|]|] tl]; try discriminate Hst.
      destruct (Nat.eqb kc k' && Nat.eqb r r' && Nat.eqb r r'') eqn:E; [|discriminate]. inversion Hst; subst st'.
      apply andb_true_iff in E. destruct E as [E _]. apply andb_true_iff in E. destruct E as [_ E]. apply Nat.eqb_eq in E. subst r'.
      destruct stk as [|[[r0 b] pacc] stk0]; [discriminate Hr|]. simpl in Hr. inversion Hr; subst r0.
      exists stk0, (CT r b HkUnwind p (rev acc) :: pacc). split; [assumption|]. cbn [cparse]. rewrite Nat.eqb_refl. reflexivity.
  - (* ERaise *) destruct (top_rule st) as [r0|]; [|discriminate]. destruct (ro r0 w); [|discriminate]. inversion Hst; subst. exists stk, acc. auto.
  - inversion Hst; subst. exists stk, acc. auto.
  - (* EApply *) destruct st as [|[|k' r'] tl]; try discriminate Hst. destruct (Nat.eqb r r'); [|discriminate]. inversion Hst; subst. exists stk, acc. auto.
  - (* EApply0 *) destruct st as [|[|k' r'] tl]; try discriminate Hst. destruct (Nat.eqb r r'); [|discriminate]. inversion Hst; subst. exists stk, acc. auto.
  - inversion Hst; subst. exists stk, acc. auto.
  - inversion Hst; subst. exists stk, acc. auto.
  - inversion Hst; subst. exists stk, acc. auto.
  - inversion Hst; subst. exists stk, acc. auto.
  - inversion Hst; subst. exists stk, acc. auto.
  - (* EEnter *) inversion Hst; subst. exists stk, acc. auto.
  - (* EExit: in strict mode an attempt is never left without its closing hook *)
    destruct st as [|[r' started closed|k' r'] tl]; try discriminate Hst.
    + destruct (Nat.eqb r r' && consistent true (po r) started closed o); [|discriminate]. inversion Hst; subst. exists stk, acc. auto.
    + destruct tl as [|[r'' [|] [cl|]|] tl]; try discriminate Hst.
      exfalso. revert Hst. destruct o as [[|]|]; simpl; rewrite andb_false_r; discriminate.
Qed.

Lemma sim_run evs : forall st st', Hooks.run true ro po st evs = Some st' ->
  forall stk acc k, srules stk = opens st ->
  exists stk' acc', srules stk' = opens st' /\ cparse (hooks_of evs ++ k) stk acc = cparse k stk' acc'.
Proof.
  induction evs as [|e evs IH]; intros st st' Hrun stk acc k Hr.
  - simpl in Hrun. inversion Hrun; subst. exists stk, acc. auto.
  - simpl in Hrun. destruct (Hooks.step true ro po st e) as [st1|] eqn:Es; [|discriminate].
    destruct (sim_step _ _ _ Es stk acc (hooks_of evs ++ k) Hr) as [stk1 [acc1 [Hr1 Hc1]]].
    destruct (IH _ _ Hrun stk1 acc1 k Hr1) as [stk2 [acc2 [Hr2 Hc2]]].
    exists stk2, acc2. split; [exact Hr2|]. rewrite hooks_of_cons, <- app_assoc, Hc1. exact Hc2.
Qed.

Lemma accepted_has_call_forest evs : Hooks.run true ro po [] evs = Some [] -> exists ts, call_forest (hooks_of evs) = Some ts.
Proof.
  intros H. destruct (sim_run evs [] [] H [] [] [] eq_refl) as [stk [acc [Hr Hc]]].
  destruct stk; [|discriminate Hr]. rewrite app_nil_r in Hc. exists (rev acc). exact Hc.
Qed.
End Sim.

(* ---------- the leaf classification computed from the table is closed under subs_t ---------- *)
Section Table.
Variable G : grammar.
Variable sel : selector.
Notation subs_of := (subs_of G).
Notation is_selected := (is_selected G sel).
Notation selected := (selected G sel).

(* r' is named by r's subs_t, transitively *)
Inductive reach : rid -> rid -> Prop :=
| reach_one r r' : In r' (subs_of r) -> reach r r'
| reach_step r m r' : In m (subs_of r) -> reach m r' -> reach r r'.

Lemma reach_trans a b c : reach a b -> reach b c -> reach a c.
Proof. induction 1 as [a b H|a m b H _ IH]; intros Hbc; [eapply reach_step; eauto | eapply reach_step; [exact H | apply IH; exact Hbc]]. Qed.

Lemma is_leaf_closed n : forall l, is_leaf G sel n l = true ->
  forall r, In r l -> is_selected r = false /\ forall r', reach r r' -> is_selected r' = false.
Proof.
  induction n as [|n IH]; intros l Hl r Hin.
  - destruct l; [contradiction | discriminate Hl].
  - simpl in Hl. rewrite forallb_forall in Hl. specialize (Hl r Hin). apply andb_true_iff in Hl. destruct Hl as [Hs Hsub].
    split; [destruct (is_selected r); [discriminate Hs | reflexivity]|].
    intros r' Hr. inversion Hr as [a b Hi|a m b Hi Hm]; subst.
    + exact (proj1 (IH _ Hsub r' Hi)).
    + exact (proj2 (IH _ Hsub m Hi) r' Hm).
Qed.

Lemma is_leaf_mono n : forall l, is_leaf G sel n l = true -> is_leaf G sel (S n) l = true.
Proof.
  induction n as [|n IH]; intros l Hl.
  - destruct l; [reflexivity | discriminate Hl].
  - change (forallb (fun r => negb (is_selected r) && is_leaf G sel (S n) (subs_of r)) l = true).
    simpl in Hl. rewrite forallb_forall in Hl |- *. intros r Hin. specialize (Hl r Hin).
    apply andb_true_iff in Hl. destruct Hl as [H1 H2]. rewrite H1, (IH _ H2). reflexivity.
Qed.

(* a call tree conforms to the table: every attempt made inside an attempt of r is of a rule that
   r's subs_t names (transitively: rules that are not control-enabled leave no events) *)
Fixpoint conf (t : ctree) : Prop :=
  match t with
  | CT r _ _ _ kids =>
      (fix go (l : list ctree) : Prop := match l with [] => True | k :: tl => reach r (c_rule k) /\ conf k /\ go tl end) kids
  end.

Lemma conf_kids r b h e kids : conf (CT r b h e kids) -> Forall (fun k => reach r (c_rule k) /\ conf k) kids.
Proof. simpl. induction kids as [|k tl IH]; intros H; [constructor|]. destruct H as [H1 [H2 H3]]. constructor; [split; assumption | apply IH; exact H3]. Qed.

Lemma conf_rules t : conf t -> Forall (reach (c_rule t)) (flat_map call_rules (c_kids t)).
Proof.
  induction t as [r b h e kids IH] using ctree_ind'. intros Hc. apply conf_kids in Hc. cbn [c_rule c_kids].
  apply Forall_flat_map. induction kids as [|k tl IHk]; [constructor|].
  inversion IH as [|? ? IHk1 IHk2]; subst. inversion Hc as [|? ? [Hr Hck] Hc2]; subst. constructor; [|apply IHk; assumption].
  destruct k as [rk bk hk ek kk]. cbn [call_rules]. constructor; [exact Hr|].
  specialize (IHk1 Hck). cbn [c_rule c_kids] in IHk1, Hr. eapply Forall_impl; [|exact IHk1]. intros x Hx. eapply reach_trans; eassumption.
Qed.

(* C12_leaf_opt_sound, table side: for every level (the code uses 8), below an attempt of a rule that
   is_leaf< level > classifies as a leaf, no selected rule is ever attempted *)
Lemma conf_leaf_clean lvl t : conf t -> leaf_clean (kind_at G sel lvl) selected t.
Proof.
  induction t as [r b h e kids IH] using ctree_ind'. intros Hc. split.
  - intros K. unfold kind_at in K. destruct (selected r) eqn:Es; [discriminate K|].
    destruct (is_leaf G sel lvl (subs_of r)) eqn:El; [|discriminate K].
    pose proof (conf_rules _ Hc) as Hr. cbn [c_rule c_kids] in Hr. eapply Forall_impl; [|exact Hr].
    intros x Hx. unfold unsel. assert (Hx' : is_selected x = false).
    { inversion Hx as [a b0 Hi|a m b0 Hi Hm]; subst; [exact (proj1 (is_leaf_closed _ _ El x Hi)) | exact (proj2 (is_leaf_closed _ _ El m Hi) x Hm)]. }
    unfold ParseTree.is_selected in Hx'. destruct (selected x); [discriminate Hx' | reflexivity].
  - apply conf_kids in Hc. induction kids as [|k tl IHk]; [exact I|].
    inversion IH; subst. inversion Hc as [|? ? [_ Hck] Hc2]; subst. split; [auto | apply IHk; assumption].
Qed.

Lemma kind_at_sel lvl r : match kind_at G sel lvl r with KSel t => selected r = Some t | _ => selected r = None end.
Proof. unfold kind_at. destruct (selected r); [reflexivity|]. destruct (is_leaf G sel lvl (subs_of r)); reflexivity. Qed.

(* the builder never looks at the events of leaf-classified rules: dropping them (= those rules not
   being control-enabled) changes nothing *)
Definition not_leaf_ev (k : rid -> hkind) (e : hev) : bool := match k (snd (fst e)) with KLeaf => false | _ => true end.
Lemma build_filter_leaf k evs : forall st, build k st (filter (not_leaf_ev k) evs) = build k st evs.
Proof.
  induction evs as [|[[h r] p] evs IH]; intros st; [reflexivity|].
  cbn [filter]. unfold not_leaf_ev at 1. cbn [fst snd]. destruct (k r) eqn:K; cbn [build bstep]; rewrite K; try apply IH.
  - destruct h; try apply IH; destruct st as [|n [|par tl]]; try reflexivity; apply IH.
  - destruct h; try apply IH; destruct st as [|n [|par tl]]; try reflexivity; apply IH.
Qed.
End Table.

(* ---------- spans: every node of the result is a surviving successful match of a selected rule ---------- *)
Section Spans.
Variable selp : rid -> option transform.

Definition node_of_call (x : option rid * pos * option pos) (c : rid * pos * pos) : Prop :=
  let '(r, b, e) := c in selp r <> None /\ (x = (Some r, b, Some e) \/ x = (Some r, b, None)).

Lemma in_nodes_forest x ts : In x (flat_map tree_nodes (flat_map (deriv selp) ts)) ->
  exists t, In t ts /\ In x (flat_map tree_nodes (deriv selp t)).
Proof.
  intros H. apply in_flat_map in H. destruct H as [n [Hn Hx]]. apply in_flat_map in Hn. destruct Hn as [t [Ht Hn]].
  exists t. split; [exact Ht|]. apply in_flat_map. exists n. auto.
Qed.

Lemma deriv_nodes t : forall x, In x (flat_map tree_nodes (deriv selp t)) -> exists c, In c (live_calls t) /\ node_of_call x c.
Proof.
  induction t as [r b h e kids IH] using ctree_ind'. intros x Hx.
  assert (Hkids : forall y, In y (flat_map tree_nodes (flat_map (deriv selp) kids)) -> exists c, In c (live_calls (CT r b HkSuccess e kids)) /\ node_of_call y c).
  { intros y Hy. apply in_nodes_forest in Hy. destruct Hy as [k [Hk Hy]]. rewrite Forall_forall in IH.
    destruct (IH k Hk y Hy) as [c [Hc Hn]]. exists c. split; [|exact Hn]. cbn [live_calls]. right. apply in_flat_map. exists k. auto. }
  destruct h; cbn [deriv] in Hx; try contradiction.
  destruct (selp r) as [tr|] eqn:Es; [|apply Hkids; exact Hx].
  assert (Hself : forall e', (e' = Some e \/ e' = None) -> In x (tree_nodes (Node (Some r) b e' (flat_map (deriv selp) kids))) ->
                  exists c, In c (live_calls (CT r b HkSuccess e kids)) /\ node_of_call x c).
  { intros e' He' Hin. cbn [tree_nodes] in Hin. destruct Hin as [Hin|Hin]; [|apply Hkids; exact Hin].
    exists (r, b, e). split; [left; reflexivity|]. unfold node_of_call. split; [rewrite Es; discriminate|].
    destruct He'; subst; auto. }
  destruct tr; cbn [doc_transform] in Hx.
  - simpl in Hx. rewrite app_nil_r in Hx. apply (Hself (Some e)); [auto | exact Hx].
  - simpl in Hx. rewrite app_nil_r in Hx. apply (Hself None); [auto | exact Hx].
  - destruct (Nat.eqb (length (flat_map (deriv selp) kids)) 1); [apply Hkids; exact Hx|].
    simpl in Hx. rewrite app_nil_r in Hx. apply (Hself None); [auto | exact Hx].
  - destruct (Nat.eqb (length (flat_map (deriv selp) kids)) 0); [contradiction|].
    simpl in Hx. rewrite app_nil_r in Hx. apply (Hself None); [auto | exact Hx].
Qed.

Lemma derivation_nodes ts x : In x (flat_map tree_nodes (deriv_forest selp ts)) -> exists c, In c (live_forest ts) /\ node_of_call x c.
Proof.
  intros H. apply in_nodes_forest in H. destruct H as [t [Ht Hx]]. destruct (deriv_nodes t x Hx) as [c [Hc Hn]].
  exists c. split; [|exact Hn]. apply in_flat_map. exists t. auto.
Qed.

(* with store_content / remove_content only (nothing folded or discarded), the nodes of the tree
   are, in pre-order, EXACTLY the surviving matches of the selected rules *)
Definition plain_sel : Prop := forall r, selp r = None \/ selp r = Some TStore \/ selp r = Some TRemove.
Definition is_sel (c : rid * pos * pos) : bool := match selp (fst (fst c)) with Some _ => true | None => false end.
Definition strip (x : option rid * pos * option pos) : option rid * pos := fst x.
Definition strip_call (c : rid * pos * pos) : option rid * pos := (Some (fst (fst c)), snd (fst c)).

Lemma deriv_nodes_exact t : plain_sel ->
  map strip (flat_map tree_nodes (deriv selp t)) = map strip_call (filter is_sel (live_calls t)).
Proof.
  intros Hp. induction t as [r b h e kids IH] using ctree_ind'.
  assert (Hk : map strip (flat_map tree_nodes (flat_map (deriv selp) kids)) = map strip_call (filter is_sel (flat_map live_calls kids))).
  { clear -IH. induction kids as [|k tl IHk]; [reflexivity|]. inversion IH; subst. simpl.
    rewrite flat_map_app, map_app, filter_app, map_app, H1, (IHk H2). reflexivity. }
  destruct h; cbn [deriv live_calls]; try reflexivity.
  cbn [filter]. unfold is_sel at 1. cbn [fst].
  destruct (Hp r) as [Hn|[Hs|Hs]]; rewrite Hs || rewrite Hn; cbn [doc_transform]; [exact Hk | |];
  simpl; rewrite app_nil_r; unfold strip at 1, strip_call at 1; cbn [fst snd]; f_equal; exact Hk.
Qed.
End Spans.

(* ---------- parse_tree::parse on top of the engine ---------- *)
Section EngineLevel.
Variable G : grammar.
Variable sel : selector.
Variable C : cfg.
Variable post : rid -> bool.
Hypothesis Hpost : forall fam r n, acts C fam r = AKMatch (MLimitBytes n) \/ acts C fam r = AKMatch (MCheckBytes n) -> post r = true.
(* no Action< Rule >::apply/apply0 throws (known finding: such a rule gets no unwind), no raising failure hook *)
Hypothesis Hnothrow : forall fam r b e t, abeh C fam r b e <> AThrow t.
Hypothesis Hrof : forall k r, raise_on_failure C k r = false.

Lemma engine_log_has_call_forest G' f d r c o c' evs :
  eval G' (pt_cfg C) f d r c = Res o c' evs -> exists ts, call_forest (hooks_of evs) = Some ts.
Proof.
  intros H.
  pose proof (eval_B true G' (pt_cfg C) post Hpost (fun _ _ => eq_refl) (fun _ => Hnothrow) (fun _ => Hrof) f d r c) as K.
  rewrite H in K. simpl in K. eapply accepted_has_call_forest. apply (K []).
Qed.

Theorem engine_exact f d r c o c' evs :
  eval (pt_table G sel) (pt_cfg C) f d r c = Res o c' evs ->
  exists ts, call_forest (hooks_of evs) = Some ts /\
    (Forall (conf G) ts ->
     build (kind G sel) [blank] (hooks_of evs) = Some [derivation_tree (selected G sel) ts]).
Proof.
  intros H. destruct (engine_log_has_call_forest _ _ _ _ _ _ _ _ H) as [ts Hts]. exists ts. split; [exact Hts|].
  intros Hc. destruct (call_forest_sound _ _ Hts) as [Hw He]. rewrite He.
  apply build_exact; [apply kind_at_sel | | exact Hw].
  unfold leaf_clean_forest. eapply Forall_impl; [|exact Hc]. intros t Ht. apply conf_leaf_clean. exact Ht.
Qed.

Theorem engine_parse f d r c o c' evs :
  eval (pt_table G sel) (pt_cfg C) f d r c = Res o c' evs ->
  exists ts, call_forest (hooks_of evs) = Some ts /\
    (Forall (conf G) ts ->
     pt_parse G sel C f d r c = match o with
                                | Ok => PtTree (derivation_tree (selected G sel) ts)
                                | Fail => PtNull
                                | Exc e => PtExc e
                                end).
Proof.
  intros H. destruct (engine_exact _ _ _ _ _ _ _ H) as [ts [Hts Hb]]. exists ts. split; [exact Hts|].
  intros Hc. unfold pt_parse. rewrite H. destruct o; simpl; try reflexivity. rewrite (Hb Hc). reflexivity.
Qed.
End EngineLevel.

(* ---------- corollaries in the form used by Properties_C12 ---------- *)
Lemma derivation_nodes_exact selp ts : plain_sel selp ->
  map strip (flat_map tree_nodes (deriv_forest selp ts)) = map (strip_call) (filter (is_sel selp) (live_forest ts)).
Proof.
  intros Hp. induction ts as [|t ts IH]; [reflexivity|]. unfold deriv_forest, live_forest in *. simpl.
  rewrite flat_map_app, map_app, filter_app, map_app, (deriv_nodes_exact selp t Hp), IH. reflexivity.
Qed.

(* builder = derivation tree of the call tree of the log, for every log that has one *)
Lemma build_exact_log kind_ selp evs ts :
  (forall r, match kind_ r with KSel t => selp r = Some t | _ => selp r = None end) ->
  call_forest evs = Some ts -> leaf_clean_forest kind_ selp ts ->
  build kind_ [blank] evs = Some [derivation_tree selp ts].
Proof.
  intros Hs Hc Hl. destruct (call_forest_sound _ _ Hc) as [Hw He]. subst evs. apply build_exact; assumption.
Qed.

(* the same control without the leaf optimisation: every unselected rule keeps a scratch node *)
Definition kind_noleaf (G : grammar) (sel : selector) (r : rid) : hkind :=
  match selected G sel r with Some t => KSel t | None => KPass end.

Lemma noleaf_clean G sel t : leaf_clean (kind_noleaf G sel) (selected G sel) t.
Proof.
  induction t as [r b h e kids IH] using ctree_ind'. split.
  - unfold kind_noleaf. destruct (selected G sel r); discriminate.
  - induction kids as [|k tl IHk]; [exact I|]. inversion IH; subst. split; [assumption | apply IHk; assumption].
Qed.

Lemma leaf_opt_sound G sel lvl ts : Forall (conf G) ts -> forallb wf_ct ts = true ->
  build (kind_at G sel lvl) [blank] (flatten_forest ts) = build (kind_noleaf G sel) [blank] (flatten_forest ts).
Proof.
  intros Hc Hw.
  rewrite (build_exact (kind_at G sel lvl) (selected G sel) (kind_at_sel G sel lvl) ts); [| | exact Hw].
  - symmetry. apply build_exact; [| | exact Hw].
    + intros r. unfold kind_noleaf. destruct (selected G sel r); reflexivity.
    + unfold leaf_clean_forest. clear. induction ts; constructor; [apply noleaf_clean | assumption].
  - unfold leaf_clean_forest. eapply Forall_impl; [|exact Hc]. intros t Ht. apply conf_leaf_clean. exact Ht.
Qed.
