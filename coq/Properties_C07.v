(* Properties_C07.v — C07: parse results do not depend on the input class, buffering or
   chunking.  Theorems only; proofs in BufferFacts.v, model in BufferInput.v.

   Reading guide.  `brun_ops c ops (binit c stream schedule garbage)` runs an arbitrary client
   (sequence of input-API operations: size/end/require/empty/peek/bump*/discard/
   rewind_save/rewind_restore) on the model of buffer_input with maximum `maxi c`, chunk size
   `chunk c`, an arbitrary uninitialised allocation `garbage` and a reader that delivers
   `stream` in pieces whose sizes follow the arbitrary `schedule` (1..request bytes per call,
   zero only at the end).  `mrun_ops` runs the same client on the memory input over the same
   bytes.  `bobs`/`mobs` are the answers (size and end clamped at the requested amount) with
   the byte/line/column counters after every operation. *)
From PegtlV Require Import Base BufferInput BufferFacts.
From Coq Require Import List Arith NArith Lia.
Import ListNotations.

(* For every client, schedule, maximum, chunk size, stream and initial buffer contents: the
   buffer run answers every operation it gets to exactly like the memory input (answers and
   positions), the memory input never stops earlier, and the buffer run can stop early only
   by std::overflow_error (and then the bytes since the start exceed the capacity and the
   bytes since the last discard exceed the maximum), or by undefined client behaviour made
   explicit: peek/bump outside the window, restore of an inputerator from before a moving
   discard (or of a slot that does not exist - then the memory run stops the same way). *)
Theorem C07_refines :
  forall (c : bcfg) (stream : list byte) (schedule : list nat) (garbage : list byte) (ops : list op)
         lb fb rbf lm fm rmf,
  length garbage = cap c ->
  brun_ops c ops (binit c stream schedule garbage) = (lb, fb, rbf) ->
  mrun_ops (eolc c) ops (minit stream) = (lm, fm, rmf) ->
  bobs ops lb = firstn (length lb) (mobs ops lm) /\
  length lb <= length lm /\
  stop_explained c ops lb fb rbf lm fm /\
  (fb = SDone -> bobs ops lb = mobs ops lm /\ fm = SDone).
Proof. exact refines. Qed.
Print Assumptions C07_refines.

(* A client that peeks and bumps only below what size()/empty() answered (clamped at the
   amount it asked for - the discipline every PEGTL rule follows) never leaves the window. *)
Theorem C07_disciplined_in_window :
  forall (c : bcfg) (stream : list byte) (schedule : list nat) (garbage : list byte) (ops : list op),
  length garbage = cap c -> disciplined c 0 ops (binit c stream schedule garbage) = true ->
  snd (fst (brun_ops c ops (binit c stream schedule garbage))) <> SErr EPeekWindow /\
  snd (fst (brun_ops c ops (binit c stream schedule garbage))) <> SErr EBumpWindow.
Proof. exact disciplined_in_window. Qed.
Print Assumptions C07_disciplined_in_window.

(* require( n ) without overflow buffers at least min( n, all that is left of the stream )
   bytes, for every legal reader schedule including one-byte short reads. *)
Theorem C07_require_contract :
  forall (c : bcfg) (n : nat) (s s' : bstate) (calls : list rcall),
  Inv c s -> require c n s = RqOk s' calls ->
  Nat.min n (length (remaining_from s (cur s))) <= occupied s' /\
  occupied s' <= length (remaining_from s (cur s)).
Proof. exact require_contract. Qed.
Print Assumptions C07_require_contract.

(* ... which the single-read require() of before fix c67e147 violates. *)
Theorem C07_require_once_refuted :
  exists (c : bcfg) (n : nat) (s s' : bstate) (calls : list rcall),
    Inv c s /\ require_once c n s = RqOk s' calls /\
    occupied s' < Nat.min n (length (remaining_from s (cur s))).
Proof. exact require_once_refuted. Qed.
Print Assumptions C07_require_once_refuted.

(* After any run: offsets ordered and inside the allocation, the allocation keeps its size,
   consumed ++ window ++ unread = stream with |consumed| = byte counter, every region handed
   to the reader is non-empty and inside [0, maximum + Chunk) and the reader's answer fits
   it; the read loop always terminates. *)
Theorem C07_no_corruption :
  forall (c : bcfg) (stream : list byte) (schedule : list nat) (garbage : list byte) (ops : list op)
         lb fb rbf,
  length garbage = cap c ->
  brun_ops c ops (binit c stream schedule garbage) = (lb, fb, rbf) ->
  Inv c (fst rbf) /\ abstracts stream (fst rbf) /\
  Forall (fun e => Forall (call_ok c) (be_calls e)) lb /\
  fb <> SErr EFuel.
Proof. exact no_corruption. Qed.
Print Assumptions C07_no_corruption.

Theorem C07_discard_preserves_window :
  forall (c : bcfg) (s : bstate),
  Inv c s -> window (fst (discard c s)) = window s /\ Inv c (fst (discard c s)) /\
             bpos (fst (discard c s)) = bpos s /\ rdr (fst (discard c s)) = rdr s.
Proof. exact discard_window. Qed.
Print Assumptions C07_discard_preserves_window.

(* doc/Inputs-and-Parsing.md "Buffer Details": after discard() at least `maximum` bytes can
   be required without overflow_error *)
Theorem C07_discard_then_fits :
  forall (c : bcfg) (s : bstate) (n : nat),
  Inv c s -> n <= maxi c -> require c n (fst (discard c s)) <> RqOverflow.
Proof. exact discard_then_fits. Qed.
Print Assumptions C07_discard_then_fits.

(* Two clients that differ only in where they call discard(), run with any two maximum /
   chunk / schedule / initial-garbage choices: all their answers are prefixes of one list. *)
Theorem C07_discard_safe :
  forall (c c' : bcfg) (stream : list byte) (sch sch' : list nat) (g g' : list byte) (ops ops' : list op),
  eolc c = eolc c' -> length g = cap c -> length g' = cap c' -> strip ops = strip ops' ->
  exists L,
    prefix (strip_obs (bobs ops (fst (fst (brun_ops c ops (binit c stream sch g)))))) L /\
    prefix (strip_obs (bobs ops' (fst (fst (brun_ops c' ops' (binit c' stream sch' g')))))) L.
Proof. exact discard_independent. Qed.
Print Assumptions C07_discard_safe.

(* ... and a run can end in a stale rewind only if the client restores an inputerator saved
   before the most recent discard. *)
Theorem C07_discard_safe_points :
  forall (c : bcfg) (stream : list byte) (schedule : list nat) (g : list byte) (ops : list op),
  length g = cap c -> restores_fresh 0 0 ops = true ->
  snd (fst (brun_ops c ops (binit c stream schedule g))) <> SErr EStaleRewind.
Proof. exact discard_safe_points. Qed.
Print Assumptions C07_discard_safe_points.

(* Adaptive clients: a client that chooses each next operation from the answers so far
   (clamped, with positions) - as every rule does - gets the same history from the buffer
   input as from the memory input, as far as the buffer run gets; a finished buffer run is a
   finished memory run with the identical history. *)
Theorem C07_adaptive_clients :
  forall (fuel : nat) (c : bcfg) (stream : list byte) (schedule : list nat) (garbage : list byte) (st : strategy),
  length garbage = cap c ->
  prefix (fst (bplay fuel c st [] (binit c stream schedule garbage))) (fst (mplay fuel (eolc c) st [] (minit stream))) /\
  (snd (bplay fuel c st [] (binit c stream schedule garbage)) = SDone ->
   mplay fuel (eolc c) st [] (minit stream) = bplay fuel c st [] (binit c stream schedule garbage)) /\
  snd (bplay fuel c st [] (binit c stream schedule garbage)) <> SErr EFuel.
Proof. exact adaptive_init. Qed.
Print Assumptions C07_adaptive_clients.

(* Known finding (open): require( size_t( -1 ) ) - only internal::everything asks for it.  The
   pointer sum m_current.data + amount wraps modulo 2^64, the first test of require() succeeds
   with nothing buffered and `everything` consumes only what is already in the buffer, whereas
   memory_input consumes the whole input.  The executable model has amounts in nat and is
   exact whenever the sum does not wrap (C07_everything_wrap_partial). *)
Theorem C07_everything_wrap_refuted :
  exists base cur e amount : N,
    (base + e < 2 ^ 64)%N /\ (amount < 2 ^ 64)%N /\ (cur <= e)%N /\
    early_return_wrapped base cur e amount = true /\ ~ (cur + amount <= e)%N.
Proof. exact everything_wrap_refuted. Qed.
Print Assumptions C07_everything_wrap_refuted.

Theorem C07_everything_wrap_partial :
  forall base cur e amount : N,
  (base + cur + amount < 2 ^ 64)%N ->
  early_return_wrapped base cur e amount = (cur + amount <=? e)%N.
Proof. exact everything_wrap_partial. Qed.
Print Assumptions C07_everything_wrap_partial.

(* ------------------------------------------------------------------ concrete machines *)

(* string<'a','b','c'>, discard, string<'a','b','c'>, eof on "abcabc", maximum 3, chunk 2,
   reader delivering one byte per call *)
Definition ops_abc : list op :=
  [OSize 3; OPeek 0; OPeek 1; OPeek 2; OBump BkLine 3; ODiscard;
   OSize 3; OPeek 0; OPeek 1; OPeek 2; OBump BkLine 3; OEmpty].
Definition cfg32 : bcfg := mkcfg 3 2 10%N.

Example C07_example_short_reads :
  let rb := brun_ops cfg32 ops_abc (binit0 cfg32 abc2 [1; 1; 1; 1; 1; 1]) in
  let rm := mrun_ops 10%N ops_abc (minit abc2) in
  snd (fst rb) = SDone /\ bobs ops_abc (fst (fst rb)) = mobs ops_abc (fst (fst rm)) /\
  length (fst (fst rb)) = 12 /\
  disciplined cfg32 0 ops_abc (binit0 cfg32 abc2 [1; 1; 1; 1; 1; 1]) = true /\
  restores_fresh 0 0 ops_abc = true.
Proof. vm_compute. repeat split; reflexivity. Qed.
Print Assumptions C07_example_short_reads.

(* the hypotheses of the theorems are satisfiable: binit0 is a well-formed initial state *)
Example C07_example_init : length (repeat 0%N (cap cfg32)) = cap cfg32 /\ Inv cfg32 (fst (binit0 cfg32 abc2 [1; 2])).
Proof. vm_compute. repeat split; lia. Qed.
Print Assumptions C07_example_init.

(* the repaired require() on the witness of C07_require_once_refuted: 3 bytes after 3 calls *)
Example C07_example_require_loop :
  match require cfg82 3 (fst (binit0 cfg82 abc2 [1; 1; 1; 1; 1; 1])) with
  | RqOk s' calls => occupied s' = 3 /\ calls = [(0, 3, 1); (1, 2, 1); (2, 2, 1)]
  | _ => False
  end.
Proof. vm_compute. split; reflexivity. Qed.
Print Assumptions C07_example_require_loop.

(* maximum 1, chunk 1: a 3-byte look-ahead cannot be buffered - overflow_error, nothing else *)
Example C07_example_overflow :
  snd (fst (brun_ops (mkcfg 1 1 10%N) [OSize 3] (binit0 (mkcfg 1 1 10%N) abc2 []))) = SOverflow.
Proof. vm_compute. reflexivity. Qed.
Print Assumptions C07_example_overflow.

(* save; consume 3 > chunk; discard moves the data; restore: the saved pointer is stale *)
Example C07_example_stale_rewind :
  snd (fst (brun_ops cfg32 [OSave; OSize 3; OBump BkScan 3; ODiscard; ORestore 0]
                     (binit0 cfg32 abc2 []))) = SErr EStaleRewind /\
  restores_fresh 0 0 [OSave; OSize 3; OBump BkScan 3; ODiscard; ORestore 0] = false.
Proof. vm_compute. split; reflexivity. Qed.
Print Assumptions C07_example_stale_rewind.

(* star< string<'a','b','c'>, discard > as an adaptive client: continue while size( 3 ) answers 3 *)
Definition st_abc : strategy := fun h =>
  match rev h with
  | [] => Some (OSize 3)
  | (OSize _, ASize 3, _) :: _ => Some (OBump BkLine 3)
  | (OSize _, _, _) :: _ => None
  | (OBump _ _, _, _) :: _ => Some ODiscard
  | (ODiscard, _, _) :: _ => Some (OSize 3)
  | _ => None
  end.

Example C07_example_adaptive :
  bplay 20 cfg32 st_abc [] (binit0 cfg32 abc2 [1; 1; 1; 1; 1; 1]) = mplay 20 10%N st_abc [] (minit abc2) /\
  snd (bplay 20 cfg32 st_abc [] (binit0 cfg32 abc2 [1; 1; 1; 1; 1; 1])) = SDone /\
  length (fst (bplay 20 cfg32 st_abc [] (binit0 cfg32 abc2 [1; 1; 1; 1; 1; 1]))) = 7.
Proof. vm_compute. repeat split; reflexivity. Qed.
Print Assumptions C07_example_adaptive.
