(* Regex.v — regular expressions over byte classes, their denotation, and a Brzozowski-derivative
   matcher proved correct:  re_match r s = true <-> matches r s.
   The matcher is the independent, language-exact recogniser used as the oracle of C20 (extracted)
   and for `_refuted` witnesses.  Byte classes are finite unions of inclusive ranges, so regular
   expressions have decidable equality (needed by the inclusion checker of RegexIncl.v).
   Independent of the engine model: imports nothing from the development. *)
From Coq Require Import List NArith Bool Lia.
Import ListNotations.
Local Open Scope N_scope.

(* ---------- byte classes ---------- *)
Definition cset := list (N * N).                      (* union of inclusive ranges lo..hi *)
Definition in_range (b : N) (p : N * N) : bool := (fst p <=? b) && (b <=? snd p).
Definition cs_mem (b : N) (cs : cset) : bool := existsb (in_range b) cs.

(* ---------- syntax and denotation ---------- *)
Inductive re :=
| Empty                      (* no string *)
| Eps                        (* the empty string *)
| Chr (cs : cset)            (* one byte of the class *)
| Cat (a b : re)
| Alt (a b : re)
| Star (a : re).

Inductive matches : re -> list N -> Prop :=
| MEps : matches Eps []
| MChr : forall cs b, cs_mem b cs = true -> matches (Chr cs) [b]
| MCat : forall a b s1 s2, matches a s1 -> matches b s2 -> matches (Cat a b) (s1 ++ s2)
| MAltL : forall a b s, matches a s -> matches (Alt a b) s
| MAltR : forall a b s, matches b s -> matches (Alt a b) s
| MStar0 : forall a, matches (Star a) []
| MStarS : forall a s1 s2, matches a s1 -> matches (Star a) s2 -> matches (Star a) (s1 ++ s2).

(* ---------- a total order on expressions (used only to normalise; no property of it is needed
   for correctness except that Eq implies equality) ---------- *)
Fixpoint cmp_cset (a b : cset) : comparison :=
  match a, b with
  | [], [] => Eq
  | [], _ :: _ => Lt
  | _ :: _, [] => Gt
  | p :: a', q :: b' =>
      match fst p ?= fst q with
      | Eq => match snd p ?= snd q with Eq => cmp_cset a' b' | x => x end
      | x => x
      end
  end.

Definition tag (r : re) : N :=
  match r with Empty => 0 | Eps => 1 | Chr _ => 2 | Cat _ _ => 3 | Alt _ _ => 4 | Star _ => 5 end.

Fixpoint re_cmp (a b : re) : comparison :=
  match a, b with
  | Chr x, Chr y => cmp_cset x y
  | Cat a1 a2, Cat b1 b2 => match re_cmp a1 b1 with Eq => re_cmp a2 b2 | x => x end
  | Alt a1 a2, Alt b1 b2 => match re_cmp a1 b1 with Eq => re_cmp a2 b2 | x => x end
  | Star a1, Star b1 => re_cmp a1 b1
  | _, _ => tag a ?= tag b
  end.

Definition re_eqb (a b : re) : bool := match re_cmp a b with Eq => true | _ => false end.

(* ---------- smart constructors (similarity: unit/zero laws, Alt as a sorted duplicate-free
   right-nested list) ---------- *)
(* unit / zero laws only: concatenations are NOT re-associated, so the derivative of a small left
   factor stays small and the continuation is shared, not copied into every alternative *)
Definition mkcat (a b : re) : re :=
  match a, b with
  | Empty, _ => Empty
  | _, Empty => Empty
  | Eps, _ => b
  | _, Eps => a
  | _, _ => Cat a b
  end.

Fixpoint alt_ins (x r : re) : re :=          (* insert the non-Alt x into the sorted list r *)
  match r with
  | Alt y r' => match re_cmp x y with
                | Eq => r
                | Lt => Alt x r
                | Gt => Alt y (alt_ins x r')
                end
  | y => match re_cmp x y with
         | Eq => y
         | Lt => Alt x y
         | Gt => Alt y x
         end
  end.
Fixpoint mkalt (a b : re) : re :=
  match a with
  | Empty => b
  | Alt x a' => match x with Empty => mkalt a' b | _ => alt_ins x (mkalt a' b) end
  | x => match b with Empty => x | _ => alt_ins x b end
  end.

(* ---------- derivatives ---------- *)
Fixpoint nullable (r : re) : bool :=
  match r with
  | Empty => false
  | Eps => true
  | Chr _ => false
  | Cat a b => nullable a && nullable b
  | Alt a b => nullable a || nullable b
  | Star _ => true
  end.

Fixpoint deriv (c : N) (r : re) : re :=
  match r with
  | Empty => Empty
  | Eps => Empty
  | Chr cs => if cs_mem c cs then Eps else Empty
  | Cat a b => mkalt (mkcat (deriv c a) b) (if nullable a then deriv c b else Empty)
  | Alt a b => mkalt (deriv c a) (deriv c b)
  | Star a => mkcat (deriv c a) (Star a)
  end.

Fixpoint derivs (r : re) (s : list N) : re :=
  match s with
  | [] => r
  | c :: s' => derivs (deriv c r) s'
  end.

Definition re_match (r : re) (s : list N) : bool := nullable (derivs r s).

(* rebuild an expression with the smart constructors *)
Fixpoint norm (r : re) : re :=
  match r with
  | Cat a b => mkcat (norm a) (norm b)
  | Alt a b => mkalt (norm a) (norm b)
  | Star a => Star (norm a)
  | x => x
  end.

(* ---------- inversion lemmas ---------- *)
Lemma empty_inv s : ~ matches Empty s.
Proof. intros H. inversion H. Qed.
Lemma eps_inv s : matches Eps s <-> s = [].
Proof. split; [intros H; inversion H; reflexivity | intros ->; constructor]. Qed.
Lemma chr_inv cs s : matches (Chr cs) s <-> exists b, s = [b] /\ cs_mem b cs = true.
Proof.
  split.
  - intros H. inversion H; subst. eexists; split; [reflexivity | assumption].
  - intros [b [-> H]]. constructor; assumption.
Qed.
Lemma cat_inv a b s : matches (Cat a b) s <-> exists s1 s2, s = s1 ++ s2 /\ matches a s1 /\ matches b s2.
Proof.
  split.
  - intros H. inversion H; subst. eauto.
  - intros [s1 [s2 [-> [H1 H2]]]]. constructor; assumption.
Qed.
Lemma alt_inv a b s : matches (Alt a b) s <-> matches a s \/ matches b s.
Proof.
  split.
  - intros H. inversion H; subst; auto.
  - intros [H|H]; [apply MAltL | apply MAltR]; assumption.
Qed.

Lemma star_cons_inv a c s : matches (Star a) (c :: s) ->
  exists s1 s2, s = s1 ++ s2 /\ matches a (c :: s1) /\ matches (Star a) s2.
Proof.
  intros H. remember (Star a) as r eqn:Er. remember (c :: s) as w eqn:Ew.
  revert c s Ew. induction H as [| | | | | |a0 s1 s2 H1 _ H2 IH2]; intros c0 t0 Ew; try discriminate.
  injection Er as ->.
  destruct s1 as [|x s1'].
  - simpl in Ew. apply (IH2 eq_refl c0 t0 Ew).
  - simpl in Ew. injection Ew as E1 E2. subst x t0. exists s1', s2. auto.
Qed.

Lemma star_one a s : matches a s -> matches (Star a) s.
Proof. intros H. rewrite <- (app_nil_r s). apply MStarS; [exact H | apply MStar0]. Qed.
Lemma star_app a s1 s2 : matches (Star a) s1 -> matches (Star a) s2 -> matches (Star a) (s1 ++ s2).
Proof.
  intros H. remember (Star a) as r eqn:Er. revert s2.
  induction H as [| | | | | |a0 t1 t2 H1 _ H2 IH2]; intros u2 K; try discriminate.
  - exact K.
  - injection Er as ->. rewrite <- app_assoc. apply MStarS; [exact H1 | apply IH2; [reflexivity | exact K]].
Qed.

(* ---------- the order decides equality ---------- *)
Lemma cmp_cset_eq a : forall b, cmp_cset a b = Eq -> a = b.
Proof.
  induction a as [|[l1 h1] a IH]; intros [|[l2 h2] b] H; simpl in H; try discriminate; [reflexivity|].
  destruct (l1 ?= l2) eqn:E1; try discriminate. destruct (h1 ?= h2) eqn:E2; try discriminate.
  apply N.compare_eq in E1. apply N.compare_eq in E2. subst. f_equal. apply IH. exact H.
Qed.
Lemma re_cmp_eq a : forall b, re_cmp a b = Eq -> a = b.
Proof.
  induction a as [| |x|a1 IH1 a2 IH2|a1 IH1 a2 IH2|a1 IH1]; intros b H; destruct b; simpl in H; try discriminate; try reflexivity.
  - f_equal. apply cmp_cset_eq. exact H.
  - destruct (re_cmp a1 b1) eqn:E; try discriminate. f_equal; [apply IH1; exact E | apply IH2; exact H].
  - destruct (re_cmp a1 b1) eqn:E; try discriminate. f_equal; [apply IH1; exact E | apply IH2; exact H].
  - f_equal. apply IH1. exact H.
Qed.
Lemma re_eqb_eq a b : re_eqb a b = true -> a = b.
Proof. unfold re_eqb. destruct (re_cmp a b) eqn:E; try discriminate. intros _. apply re_cmp_eq. exact E. Qed.

(* ---------- smart constructors preserve the language ---------- *)
Lemma mkcat_iff a b s : matches (mkcat a b) s <-> matches (Cat a b) s.
Proof.
  assert (E1 : forall x, matches (Cat Empty x) s <-> matches Empty s).
  { intros x. rewrite cat_inv. split; [intros [s1 [s2 [_ [H _]]]] | intros H]; exfalso; eapply empty_inv; eauto. }
  assert (E2 : forall x, matches (Cat x Empty) s <-> matches Empty s).
  { intros x. rewrite cat_inv. split; [intros [s1 [s2 [_ [_ H]]]] | intros H]; exfalso; eapply empty_inv; eauto. }
  assert (U1 : forall x, matches (Cat Eps x) s <-> matches x s).
  { intros x. rewrite cat_inv. split.
    - intros [s1 [s2 [-> [H1 H2]]]]. apply eps_inv in H1. subst. exact H2.
    - intros H. exists [], s. split; [reflexivity | split; [constructor | exact H]]. }
  assert (U2 : forall x, matches (Cat x Eps) s <-> matches x s).
  { intros x. rewrite cat_inv. split.
    - intros [s1 [s2 [-> [H1 H2]]]]. apply eps_inv in H2. subst. rewrite app_nil_r. exact H1.
    - intros H. exists s, []. split; [rewrite app_nil_r; reflexivity | split; [exact H | constructor]]. }
  destruct a; destruct b; cbn [mkcat];
    rewrite ?E1, ?E2, ?U1, ?U2; try tauto; try (symmetry; first [apply E1 | apply E2 | apply U1 | apply U2]).
Qed.

Lemma alt_ins_iff x r : forall s, matches (alt_ins x r) s <-> matches x s \/ matches r s.
Proof.
  assert (Base : forall y s, matches (match re_cmp x y with Eq => y | Lt => Alt x y | Gt => Alt y x end) s <-> matches x s \/ matches y s).
  { intros y s. destruct (re_cmp x y) eqn:E.
    - apply re_cmp_eq in E. subst. tauto.
    - apply alt_inv.
    - rewrite alt_inv. tauto. }
  induction r as [| |cs|a1 IH1 a2 IH2|a1 IH1 a2 IH2|a1 IH1]; intros s; try apply Base.
  simpl. destruct (re_cmp x a1) eqn:E.
  - apply re_cmp_eq in E. subst. rewrite alt_inv. tauto.
  - rewrite alt_inv. tauto.
  - rewrite alt_inv, IH2, alt_inv. tauto.
Qed.

Lemma mkalt_iff a : forall b s, matches (mkalt a b) s <-> matches (Alt a b) s.
Proof.
  assert (Base : forall x b s, matches (match b with Empty => x | _ => alt_ins x b end) s <-> matches (Alt x b) s).
  { intros x b s. rewrite alt_inv. destruct b; try apply alt_ins_iff.
    split; [auto | intros [H|H]; [exact H | exfalso; eapply empty_inv; eauto]]. }
  induction a as [| |cs|a1 IH1 a2 IH2|a1 IH1 a2 IH2|a1 IH1]; intros b s; try apply Base.
  - simpl. rewrite alt_inv. split; [auto | intros [H|H]; [exfalso; eapply empty_inv; eauto | exact H]].
  - cbn [mkalt].
    assert (K : matches (alt_ins a1 (mkalt a2 b)) s <-> matches (Alt (Alt a1 a2) b) s).
    { rewrite alt_ins_iff, IH2, !alt_inv. tauto. }
    destruct a1; try exact K.
    rewrite IH2, !alt_inv. split; [tauto | intros [[H|H]|H]; auto; exfalso; eapply empty_inv; eauto].
Qed.

(* ---------- correctness of nullable and deriv ---------- *)
Lemma nullable_iff r : nullable r = true <-> matches r [].
Proof.
  induction r as [| |cs|a IHa b IHb|a IHa b IHb|a IHa]; simpl.
  - split; [discriminate | intros H; exfalso; eapply empty_inv; eauto].
  - split; [constructor | reflexivity].
  - split; [discriminate | intros H; apply chr_inv in H; destruct H as [b [E _]]; discriminate].
  - rewrite andb_true_iff, IHa, IHb, cat_inv. split.
    + intros [H1 H2]. exists [], []. auto.
    + intros [s1 [s2 [E [H1 H2]]]]. symmetry in E. apply app_eq_nil in E. destruct E; subst. auto.
  - rewrite orb_true_iff, IHa, IHb, alt_inv. tauto.
  - split; [constructor | reflexivity].
Qed.

Lemma deriv_iff c r : forall s, matches (deriv c r) s <-> matches r (c :: s).
Proof.
  induction r as [| |cs|a IHa b IHb|a IHa b IHb|a IHa]; intros s; cbn [deriv].
  - split; intros H; exfalso; eapply empty_inv; eauto.
  - split; intros H; [exfalso; eapply empty_inv; eauto | apply eps_inv in H; discriminate].
  - rewrite chr_inv. destruct (cs_mem c cs) eqn:E.
    + rewrite eps_inv. split.
      * intros ->. exists c. auto.
      * intros [b [K _]]. injection K as _ ->. reflexivity.
    + split; [intros H; exfalso; eapply empty_inv; eauto|].
      intros [b [K M]]. injection K as -> _. congruence.
  - rewrite mkalt_iff, alt_inv, mkcat_iff, !cat_inv. split.
    + intros [[s1 [s2 [-> [H1 H2]]]]|H].
      * apply IHa in H1. exists (c :: s1), s2. auto.
      * destruct (nullable a) eqn:En; [|exfalso; eapply empty_inv; eauto].
        apply nullable_iff in En. apply IHb in H. exists [], (c :: s). auto.
    + intros [s1 [s2 [E [H1 H2]]]]. destruct s1 as [|x s1].
      * simpl in E. subst s2. right. apply nullable_iff in H1. rewrite H1. apply IHb. exact H2.
      * simpl in E. injection E as <- ->. left. exists s1, s2. split; [reflexivity | split; [apply IHa; exact H1 | exact H2]].
  - rewrite mkalt_iff, !alt_inv, IHa, IHb. tauto.
  - rewrite mkcat_iff, cat_inv. split.
    + intros [s1 [s2 [-> [H1 H2]]]]. apply IHa in H1.
      change (c :: s1 ++ s2) with ((c :: s1) ++ s2). apply MStarS; assumption.
    + intros H. apply star_cons_inv in H. destruct H as [s1 [s2 [-> [H1 H2]]]].
      exists s1, s2. split; [reflexivity | split; [apply IHa; exact H1 | exact H2]].
Qed.

Lemma derivs_iff s : forall r t, matches (derivs r s) t <-> matches r (s ++ t).
Proof.
  induction s as [|c s IH]; intros r t; simpl; [tauto|].
  rewrite IH. apply deriv_iff.
Qed.

Theorem re_match_correct r s : re_match r s = true <-> matches r s.
Proof.
  unfold re_match. rewrite nullable_iff, derivs_iff, app_nil_r. tauto.
Qed.

Lemma norm_iff r : forall s, matches (norm r) s <-> matches r s.
Proof.
  induction r as [| |cs|a IHa b IHb|a IHa b IHb|a IHa]; intros s; simpl; try tauto.
  - rewrite mkcat_iff, !cat_inv. split; intros [s1 [s2 [E [H1 H2]]]]; exists s1, s2; (split; [exact E|]); split;
      first [apply IHa | apply IHb]; assumption.
  - rewrite mkalt_iff, !alt_inv, IHa, IHb. tauto.
  - split; intros H.
    + remember (Star (norm a)) as r eqn:Er. induction H as [| | | | | |a0 s1 s2 H1 _ H2 IH2]; try discriminate.
      * constructor.
      * injection Er as ->. apply MStarS; [apply IHa; exact H1 | apply IH2; reflexivity].
    + remember (Star a) as r eqn:Er. induction H as [| | | | | |a0 s1 s2 H1 _ H2 IH2]; try discriminate.
      * constructor.
      * injection Er as ->. apply MStarS; [apply IHa; exact H1 | apply IH2; reflexivity].
Qed.

(* ---------- monotonicity (used to compose inclusions) ---------- *)
Definition incl_re (a b : re) : Prop := forall s, matches a s -> matches b s.
Lemma star_mono a b : incl_re a b -> incl_re (Star a) (Star b).
Proof.
  intros Hab s H. remember (Star a) as r eqn:Er. induction H as [| | | | | |a0 s1 s2 H1 _ H2 IH2]; try discriminate.
  - constructor.
  - injection Er as ->. apply MStarS; [apply Hab; exact H1 | apply IH2; reflexivity].
Qed.
