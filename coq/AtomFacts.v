(* AtomFacts.v — facts about the Peek decoders and the atoms that the cursor invariant needs:
   a decoder never reads outside [current, end) (no POob) and reports a size that is available;
   every atom is "good" for the trivial position relation (C02/C03 instance). *)
From Coq Require Import Lia.
From PegtlV Require Import Base Decode Grammar Engine EngineFacts.
Local Open Scope N_scope.

Lemma peek_at_some c i : (i < in_size c)%nat -> exists b, peek_at c i = Some b.
Proof.
  unfold peek_at, in_size. intros H. destruct (nth_error (rest c) i) eqn:E; [eexists; reflexivity|].
  apply nth_error_None in E. lia.
Qed.

(* "safe" decoder answers: never out of bounds, and a reported size is available *)
Definition psafe (c : cursor) (x : peekres) : Prop :=
  match x with POob => False | PNone => True | PSome _ n => (1 <= n <= in_size c)%nat end.

Lemma rd_safe c i k : (i < in_size c)%nat -> (forall b, psafe c (k b)) -> psafe c (rd c i k).
Proof. intros H Hk. unfold rd. destruct (peek_at_some c i H) as [b ->]. apply Hk. Qed.

Lemma read_be_safe c w : forall off acc k, (off + w <= in_size c)%nat -> (forall v, psafe c (k v)) -> psafe c (read_be c off w acc k).
Proof.
  induction w as [|w IH]; intros off acc k H Hk; simpl; [apply Hk|].
  apply rd_safe; [lia|]. intros b. apply IH; [lia | exact Hk].
Qed.
Lemma read_le_safe c w : forall off sh acc k, (off + w <= in_size c)%nat -> (forall v, psafe c (k v)) -> psafe c (read_le c off w sh acc k).
Proof.
  induction w as [|w IH]; intros off sh acc k H Hk; simpl; [apply Hk|].
  apply rd_safe; [lia|]. intros b. apply IH; [lia | exact Hk].
Qed.
Lemma read_uint_safe e c off w k : (off + w <= in_size c)%nat -> (forall v, psafe c (k v)) -> psafe c (read_uint e c off w k).
Proof. destruct e; simpl; [apply read_be_safe | apply read_le_safe]. Qed.

Lemma in_empty_size c : in_empty c = false -> (1 <= in_size c)%nat.
Proof. unfold in_empty, in_size. destruct (rest c); [discriminate | simpl; lia]. Qed.

Ltac ifs := repeat match goal with
  | |- psafe _ (if ?b then _ else _) => destruct b eqn:?
  | |- psafe _ PNone => exact I
  end.

Lemma peek_char_safe c : psafe c (peek_char c).
Proof.
  unfold peek_char. destruct (in_empty c) eqn:E; [exact I|]. apply in_empty_size in E.
  apply rd_safe; [lia|]. intros b. simpl. lia.
Qed.
Lemma peek_uint8_safe m c : psafe c (peek_uint8 m c).
Proof.
  unfold peek_uint8. destruct (in_empty c) eqn:E; [exact I|]. apply in_empty_size in E.
  apply rd_safe; [lia|]. intros b. simpl. lia.
Qed.
Lemma peek_utf8_safe c : psafe c (peek_utf8 c).
Proof.
  unfold peek_utf8. destruct (in_empty c) eqn:E; [exact I|]. apply in_empty_size in E.
  apply rd_safe; [lia|]. intros c0. ifs; try (simpl; lia).
  - apply Nat.leb_le in Heqb1. apply rd_safe; [lia|]. intros c1. ifs. simpl. lia.
  - apply Nat.leb_le in Heqb2. apply rd_safe; [lia|]. intros c1. apply rd_safe; [lia|]. intros c2. ifs. simpl. lia.
  - apply Nat.leb_le in Heqb3. apply rd_safe; [lia|]. intros c1. apply rd_safe; [lia|]. intros c2. apply rd_safe; [lia|]. intros c3.
    ifs. simpl. lia.
Qed.
Lemma peek_uint_safe w e m c : (1 <= w)%nat -> psafe c (peek_uint w e m c).
Proof.
  intros Hw. unfold peek_uint. destruct (in_size c <? w)%nat eqn:E; [exact I|]. apply Nat.ltb_ge in E.
  apply read_uint_safe; [lia|]. intros v. simpl. lia.
Qed.
Lemma peek_utf16_safe e c : psafe c (peek_utf16 e c).
Proof.
  unfold peek_utf16. destruct (in_size c <? 2)%nat eqn:E; [exact I|]. apply Nat.ltb_ge in E.
  apply read_uint_safe; [lia|]. intros t. ifs; try (simpl; lia).
  apply orb_false_iff in Heqb0. destruct Heqb0 as [_ H4]. apply Nat.ltb_ge in H4.
  apply read_uint_safe; [lia|]. intros u. ifs. simpl. lia.
Qed.
Lemma peek_utf32_safe e c : psafe c (peek_utf32 e c).
Proof.
  unfold peek_utf32. destruct (in_size c <? 4)%nat eqn:E; [exact I|]. apply Nat.ltb_ge in E.
  apply read_uint_safe; [lia|]. intros t. ifs. simpl. lia.
Qed.

(* well-formed peek kinds: widths as the library instantiates them *)
Definition peek_wf (pk : peek) : Prop :=
  match pk with PkUint w _ | PkMaskUint w _ _ => (1 <= w)%nat | _ => True end.
Lemma do_peek_safe pk c : peek_wf pk -> psafe c (do_peek pk c).
Proof.
  destruct pk; simpl; intros H.
  - apply peek_char_safe. - apply peek_utf8_safe. - apply peek_uint8_safe. - apply peek_uint8_safe.
  - apply peek_uint_safe; exact H. - apply peek_uint_safe; exact H.
  - apply peek_utf16_safe. - apply peek_utf32_safe.
Qed.

(* ---------- the trivial position relation: C02 / C03 instance ---------- *)
Definition PT : pos -> list byte -> pos -> Prop := fun _ _ _ => True.
Lemma PT_refl p : PT p [] p. Proof. exact I. Qed.
Lemma PT_trans p a q b r : PT p a q -> PT q b r -> PT p (a ++ b) r. Proof. intros; exact I. Qed.

Lemma bump_scan_adv ch n : forall c c', bump_scan ch n c = Some c' -> adv PT c c'.
Proof.
  induction n as [|n IH]; intros c c' H; simpl in H.
  - inversion H; subst. apply adv_refl. exact PT_refl.
  - destruct (rest c) as [|b tl] eqn:E; [discriminate|]. apply IH in H. destruct H as [pre [H1 _]].
    exists (b :: pre). simpl in *. rewrite E, H1. split; [reflexivity | exact I].
Qed.
Lemma bump_in_line_adv n c c' : bump_in_line n c = Some c' -> adv PT c c'.
Proof.
  unfold bump_in_line. destruct (drop n (rest c)) as [tl|] eqn:E; [|discriminate]. intros H; inversion H; subst.
  apply drop_app in E. destruct E as [pre [E _]]. exists pre. simpl. split; [exact E | exact I].
Qed.
Lemma bump_next_line_adv n c c' : bump_next_line n c = Some c' -> adv PT c c'.
Proof.
  unfold bump_next_line. destruct (drop n (rest c)) as [tl|] eqn:E; [|discriminate]. intros H; inversion H; subst.
  apply drop_app in E. destruct E as [pre [E _]]. exists pre. simpl. split; [exact E | exact I].
Qed.
Lemma bump_in_line_some n c : (n <= in_size c)%nat -> exists c', bump_in_line n c = Some c'.
Proof. intros H. unfold bump_in_line. destruct (drop_some n (rest c) H) as [tl ->]. eexists; reflexivity. Qed.
Lemma bump_next_line_some n c : (n <= in_size c)%nat -> exists c', bump_next_line n c = Some c'.
Proof. intros H. unfold bump_next_line. destruct (drop_some n (rest c) H) as [tl ->]. eexists; reflexivity. Qed.

Definition goodT := good PT.

Lemma ok_or_err_good m c o : (exists c', o = Some c' /\ adv PT c c') -> goodT m c (ok_or_err o).
Proof. intros [c' [-> A]]. simpl. exact A. Qed.

Lemma bump_help_good ch b n c m : (n <= in_size c)%nat -> goodT m c (bump_help ch b n c).
Proof.
  intros H. unfold bump_help. apply ok_or_err_good. destruct b.
  - destruct (bump_scan_some ch n c H) as [c' Hc]. exists c'. split; [exact Hc | eapply bump_scan_adv; eauto].
  - destruct (bump_in_line_some n c H) as [c' Hc]. exists c'. split; [exact Hc | eapply bump_in_line_adv; eauto].
Qed.

Lemma peek_test_bump_good ch pk test c m : peek_wf pk -> goodT m c (peek_test_bump ch pk test c).
Proof.
  intros Hw. unfold peek_test_bump. pose proof (do_peek_safe pk c Hw) as H.
  destruct (do_peek pk c) as [|v n|]; simpl in H; [apply good_fail_same; exact PT_refl| |contradiction].
  destruct (test v); [apply bump_help_good; lia | apply good_fail_same; exact PT_refl].
Qed.

Lemma eol_match_good e c : match eol_match e c with
                           | None => False
                           | Some (true, _, c') => adv PT c c'
                           | Some (false, _, c') => c' = c end.
Proof.
  unfold eol_match. destruct (Nat.eqb (in_size c) 0) eqn:E0; [reflexivity|].
  apply Nat.eqb_neq in E0.
  destruct (peek_at_some c 0) as [a Ha]; [lia|]. rewrite Ha.
  assert (Y : forall n, (n <= in_size c)%nat -> match option_map (fun c' : cursor => (true, false, c')) (bump_next_line n c) with
                    | None => False | Some (true, _, c') => adv PT c c' | Some (false, _, c') => c' = c end).
  { intros n Hn. destruct (bump_next_line_some n c Hn) as [c' Hc]. rewrite Hc. simpl. eapply bump_next_line_adv; eauto. }
  destruct e.
  - destruct (a =? 10); [apply Y; lia | reflexivity].
  - destruct (a =? 13); [apply Y; lia | reflexivity].
  - destruct (1 <? in_size c)%nat eqn:E1; [|reflexivity]. apply Nat.ltb_lt in E1.
    destruct (a =? 13); [|reflexivity]. destruct (peek_at_some c 1) as [b Hb]; [lia|]. rewrite Hb.
    destruct (b =? 10); [apply Y; lia | reflexivity].
  - destruct (a =? 10); [apply Y; lia|].
    destruct ((a =? 13) && (1 <? in_size c)%nat) eqn:E1; [|reflexivity].
    apply andb_true_iff in E1. destruct E1 as [_ E1]. apply Nat.ltb_lt in E1.
    destruct (peek_at_some c 1) as [b Hb]; [lia|]. rewrite Hb. destruct (b =? 10); [apply Y; lia | reflexivity].
  - destruct (a =? 13); [|reflexivity].
    destruct (1 <? in_size c)%nat eqn:E1; [|apply Y; lia]. apply Nat.ltb_lt in E1.
    destruct (peek_at_some c 1) as [b Hb]; [lia|]. rewrite Hb. destruct (b =? 10); apply Y; lia.
Qed.

(* well-formed heads: decoder widths as instantiated by the library *)
Definition head_wf (h : head) : Prop :=
  match h with
  | HAny pk | HOne _ pk _ | HRange _ pk _ _ | HRanges pk _ => peek_wf pk
  | _ => True
  end.

Lemma eval_atom_good eol h c x m : head_wf h -> eval_atom eol h c = Some x -> goodT m c x.
Proof.
  intros Hw. pose proof PT_refl as R.
  destruct h; simpl; intros H; try discriminate H; try (injection H as <-);
  try (apply good_fail_same; exact R); try (apply good_ok_same; exact R).
  - destruct (in_empty c); [apply good_ok_same | apply good_fail_same]; exact R.
  - pose proof (eol_match_good eol c) as K. destruct (eol_match eol c) as [[[[|] z] c']|]; [exact K | apply good_fail_same; exact R | contradiction].
  - pose proof (eol_match_good eol c) as K. destruct (eol_match eol c) as [[[[|] z] c']|]; [exact K | | contradiction].
    destruct z; [apply good_ok_same | apply good_fail_same]; exact R.
  - destruct (pbyte (cpos c) =? 0); [apply good_ok_same | apply good_fail_same]; exact R.
  - destruct (pcol (cpos c) =? 1); [apply good_ok_same | apply good_fail_same]; exact R.
  - apply ok_or_err_good. destruct (bump_scan_some (eol_ch eol) (in_size c) c (le_n _)) as [c' Hc]. exists c'. split; [exact Hc | eapply bump_scan_adv; eauto].
  - (* any *)
    assert (A : goodT m c (match do_peek pk c with POob => Err | PNone => Res Fail c [] | PSome _ n => ok_or_err (bump_scan (eol_ch eol) n c) end)).
    { pose proof (do_peek_safe pk c Hw) as K. destruct (do_peek pk c) as [|v n|]; simpl in K; [apply good_fail_same; exact R | | contradiction].
      apply ok_or_err_good. destruct (bump_scan_some (eol_ch eol) n c) as [c' Hc]; [lia|]. exists c'. split; [exact Hc | eapply bump_scan_adv; eauto]. }
    destruct pk; injection H as <-; try exact A.
    destruct (in_empty c) eqn:E; [apply good_fail_same; exact R|]. apply in_empty_size in E.
    apply ok_or_err_good. destruct (bump_scan_some (eol_ch eol) 1 c E) as [c' Hc]. exists c'. split; [exact Hc | eapply bump_scan_adv; eauto].
  - apply peek_test_bump_good; exact Hw.
  - apply peek_test_bump_good; exact Hw.
  - apply peek_test_bump_good; exact Hw.
  - destruct (length cs <=? in_size c)%nat eqn:E; [|apply good_fail_same; exact R]. apply Nat.leb_le in E.
    destruct (take_some (length cs) (rest c) E) as [bs ->].
    destruct (eqb_bytes cs bs); [apply bump_help_good; exact E | apply good_fail_same; exact R].
  - destruct (length cs <=? in_size c)%nat eqn:E; [|apply good_fail_same; exact R]. apply Nat.leb_le in E.
    destruct (take_some (length cs) (rest c) E) as [bs ->].
    destruct (ieqb_bytes cs bs); [apply bump_help_good; exact E | apply good_fail_same; exact R].
  - destruct (n <=? in_size c)%nat eqn:E; [|apply good_fail_same; exact R]. apply Nat.leb_le in E.
    apply ok_or_err_good. destruct (bump_scan_some (eol_ch eol) n c E) as [c' Hc]. exists c'. split; [exact Hc | eapply bump_scan_adv; eauto].
  - destruct (n <=? in_size c)%nat; [apply good_ok_same | apply good_fail_same]; exact R.
Qed.

(* ---------- the engine invariant for the trivial position relation ---------- *)
Definition table_wf (G : grammar) : Prop := forall r nd, nth_error G r = Some nd -> head_wf (nhead nd).

Theorem eval_goodT G C f d r c : table_wf G -> goodT (dM d) c (eval G C f d r c).
Proof.
  intros HG. unfold goodT.
  apply (eval_good PT PT_refl PT_trans C head_wf).
  - intros n c0 c' H. eapply bump_scan_adv; eauto.
  - intros h c0 x m Hw H. eapply eval_atom_good; eauto.
  - exact HG.
Qed.
