(* EquivTable.v — C09: from the behaviour-level lemmas of EquivHeads.v to grammar TABLES.
   For every table G that contains the nodes of a convenience rule and the nodes of its
   documented expansion over the same sub-rules (arbitrary rule ids of G: "all extensions of the
   schema"), the two roots are observationally equivalent under the engine: same verdict, same
   consumed prefix, same exception, whatever the modes and whatever the rest of the table. *)
From Coq Require Import Lia Bool.
From PegtlV Require Import Base Decode Grammar Engine EngineFacts AtomFacts Mono Equiv EquivFacts EquivEval EquivHeads.

Section Table.
Variable G : grammar.
Variable C : cfg.
Hypothesis HC : noact_cfg C.
Hypothesis HG : plain_table G.
Hypothesis HW : table_wf G.

Definition ecl (k : nat) (r : rid) : closure := fun d c => eval G C k d r c.

Lemma ecl_cS k1 k2 r : k1 <= k2 -> cS (ecl k1 r) (ecl k2 r).
Proof. intros Hk d1 d2 c. unfold ecl, Sim. simpl. apply eval_obs; assumption. Qed.
Lemma ecl_crest k r : crest (ecl k r).
Proof.
  intros d c c' evs Hm H. unfold ecl in H. pose proof (eval_goodT G C k d r c HW) as K.
  rewrite H, Hm in K. exact K.
Qed.

Definition node (r : rid) (h : head) (subs : list rid) : Prop :=
  exists nd, nth_error G r = Some nd /\ nhead nd = h /\ nsubs nd = subs.

Lemma Forall2_impl {A B} (P Q : A -> B -> Prop) l1 l2 : (forall a b, P a b -> Q a b) -> Forall2 P l1 l2 -> Forall2 Q l1 l2.
Proof. intros H. induction 1; constructor; auto. Qed.
Lemma Forall2_idx {A} (P : rid -> A -> Prop) (qs : list rid) (fs : list A) : Forall2 P qs fs ->
  forall a, Forall2 (fun q i => exists f, nth_error fs (i - a) = Some f /\ a <= i /\ P q f) qs (seq a (length fs)).
Proof.
  induction 1 as [|q f qs fs Hq F IH]; intros a; simpl; constructor.
  - exists f. replace (a - a) with 0 by lia. simpl. auto.
  - specialize (IH (S a)). eapply Forall2_impl; [|exact IH]. intros q' i [f' [Hn [Hl Hp]]].
    exists f'. split; [|split; [lia | exact Hp]]. replace (i - a) with (S (i - S a)) by lia. exact Hn.
Qed.
Lemma Forall2_flip {A B} (P : A -> B -> Prop) l1 l2 : Forall2 P l1 l2 -> Forall2 (fun b a => P a b) l2 l1.
Proof. induction 1; constructor; auto. Qed.

(* the loop fuel only matters for the heads that loop *)
Definition loop_head (h : head) : bool :=
  match h with HStarPartial | HPlus | HUntil1 | HUntil2 | HStarStrict => true | _ => false end.
Lemma eval_head_fuel e n n' self h subs d c : loop_head h = false ->
  eval_head C e n self h subs d c = eval_head C e n' self h subs d c.
Proof. intros H. destruct h; try discriminate; reflexivity. Qed.

(* table node  ⊑  the same head over related behaviours *)
Lemma node_l k n r h subs fs : node r h subs -> names_sub h = false ->
  Forall2 (fun q f => cS (ecl k q) f) subs fs -> loop_head h = false \/ k <= n ->
  cS (ecl (S k) r) (c_node C n h fs).
Proof.
  intros [nd [Hn [Hh Hs]]] Hnm F Hk0 d1 d2 c. subst h subs.
  eapply sim_trans; [apply (eval_node_l G C HC _ _ k d1 r c nd Hn)|].
  unfold c_node.
  assert (Hk : exists n', k <= n' /\ eval_head C (lcl fs) n 0 (nhead nd) (seq 0 (length fs)) d2 c = eval_head C (lcl fs) n' 0 (nhead nd) (seq 0 (length fs)) d2 c).
  { destruct Hk0 as [Hl|Hl]; [exists k; split; [lia | apply eval_head_fuel; exact Hl] | exists n; split; [exact Hl | reflexivity]]. }
  destruct Hk as [n' [Hk ->]]. clear Hk0.
  apply (eval_head_sim C (eval G C k) (lcl fs) (fun q i => exists f, nth_error fs i = Some f /\ cS (ecl k q) f) false).
  - intros q i [f [Hi Hf]] e1 e2 c0. unfold lcl. rewrite Hi. apply Hf.
  - exact Hk.
  - destruct (HG r nd Hn) as [Hp _]. exact Hp.
  - pose proof (Forall2_idx _ _ _ F 0) as K. eapply Forall2_impl; [|exact K].
    intros q i [f [Hi [_ Hf]]]. exists f. rewrite Nat.sub_0_r in Hi. auto.
  - rewrite Hnm. discriminate.
  - intros dflt Hh m Hin. apply (mustlike_nofail G C HC). destruct (HG r nd Hn) as [_ Hm]. eapply Hm; eauto.
Qed.

(* the same head over related behaviours  ⊑  table node *)
Lemma node_r k n r h subs fs : node r h subs -> names_sub h = false ->
  Forall2 (fun f q => cS f (ecl k q)) fs subs -> loop_head h = false \/ n <= k ->
  (forall dflt, h = HIfMust dflt -> forall i, In i (tl (seq 0 (length fs))) -> nofail (lcl fs) i) ->
  cS (c_node C n h fs) (ecl (S k) r).
Proof.
  intros [nd [Hn [Hh Hs]]] Hnm F Hk0 Hnf d1 d2 c. subst h subs.
  eapply sim_trans; [|apply (eval_node_r G C HC _ _ k d2 r c nd Hn)].
  unfold c_node.
  assert (Hk : exists n', n' <= k /\ eval_head C (lcl fs) n 0 (nhead nd) (seq 0 (length fs)) d1 c = eval_head C (lcl fs) n' 0 (nhead nd) (seq 0 (length fs)) d1 c).
  { destruct Hk0 as [Hl|Hl]; [exists k; split; [lia | apply eval_head_fuel; exact Hl] | exists n; split; [exact Hl | reflexivity]]. }
  destruct Hk as [n' [Hk ->]]. clear Hk0.
  apply (eval_head_sim C (lcl fs) (eval G C k) (fun i q => exists f, nth_error fs i = Some f /\ cS f (ecl k q)) false).
  - intros i q [f [Hi Hf]] e1 e2 c0. unfold lcl. rewrite Hi. apply Hf.
  - exact Hk.
  - destruct (HG r nd Hn) as [Hp _]. exact Hp.
  - apply Forall2_flip in F. pose proof (Forall2_idx _ _ _ F 0) as K. apply Forall2_flip.
    eapply Forall2_impl; [|exact K]. intros q i [f [Hi [_ Hf]]]. exists f. rewrite Nat.sub_0_r in Hi. auto.
  - rewrite Hnm. discriminate.
  - exact Hnf.
Qed.

Lemma cS_trans f g h : cS f g -> cS g h -> cS f h.
Proof.
  intros H1 H2 d1 d2 c. unfold Sim.
  (* go through g in required mode: both comparisons keep the failure cursors whenever d1, d2 are required *)
  pose proof (H1 d1 (req d2) c) as K1. pose proof (H2 (req d2) d2 c) as K2. unfold Sim in K1, K2. simpl in K1, K2.
  eapply sim_trans; (eapply sim_weaken; [| |eassumption]); try discriminate.
  - unfold flagf. destruct (dM d1), (dM d2); simpl; auto.
  - unfold flagf. destruct (dM d1), (dM d2); simpl; auto.
Qed.

(* observational equivalence of two rules of the table (fuel-free):
   whenever one side reaches a verdict, so does the other, and it is the same *)
Definition refines (r1 r2 : rid) : Prop :=
  forall f d1 d2 c, exists f', Sim false (dM d1) (dM d2) (eval G C f d1 r1 c) (eval G C f' d2 r2 c).
Definition obs_equiv (r1 r2 : rid) : Prop := refines r1 r2 /\ refines r2 r1.

Lemma refines_of_cS (k0 k' : nat) r1 r2 : (forall k, cS (ecl k r1) (ecl (k + k') r2)) -> refines r1 r2.
Proof. intros H f d1 d2 c. exists (f + k'). apply H. Qed.

(* ---------- until< R, S > ---------- *)
Theorem until2_table r1 r2 cnd s st sq na :
  node r1 HUntil2 [cnd; s] ->
  node r2 HSeq [st; cnd] -> node st HStarPartial [sq] -> node sq HSeq [na; s] -> node na HNotAt [cnd] ->
  obs_equiv r1 r2.
Proof.
  intros N1 N2 Nst Nsq Nna. split.
  - apply (refines_of_cS 0 4). intros [|k]; [intros d1 d2 c; left; reflexivity|].
    apply cS_trans with (g := u2_impl C k (ecl k cnd) (ecl k s)).
    { apply (node_l k k r1 HUntil2 [cnd; s] [ecl k cnd; ecl k s] N1 eq_refl); [|right; lia].
      constructor; [apply ecl_cS; lia|]. constructor; [apply ecl_cS; lia | constructor]. }
    apply cS_trans with (g := u2_doc C k (ecl k cnd) (ecl k s)).
    { intros d1 d2 c. apply (until2_A C (ecl k cnd) (ecl k s) (ecl k cnd) (ecl k s)); try (apply ecl_cS; lia); [apply ecl_crest | apply le_n]. }
    replace (S k + 4) with (S (k + 4)) by lia. unfold u2_doc.
    apply (node_r (k + 4) 0 r2 HSeq [st; cnd]); [exact N2 | reflexivity | | left; reflexivity | discriminate].
    constructor; [|constructor; [apply ecl_cS; lia | constructor]].
    replace (k + 4) with (S (k + 3)) by lia. unfold u2_st.
    apply (node_r (k + 3) k st HStarPartial [sq]); [exact Nst | reflexivity | | right; lia | discriminate].
    constructor; [|constructor].
    replace (k + 3) with (S (k + 2)) by lia. unfold u2_sq.
    apply (node_r (k + 2) 0 sq HSeq [na; s]); [exact Nsq | reflexivity | | left; reflexivity | discriminate].
    constructor; [|constructor; [apply ecl_cS; lia | constructor]].
    replace (k + 2) with (S (k + 1)) by lia. unfold u2_na.
    apply (node_r (k + 1) 0 na HNotAt [cnd]); [exact Nna | reflexivity | | left; reflexivity | discriminate].
    constructor; [apply ecl_cS; lia | constructor].
  - apply (refines_of_cS 0 1). intros K.
    assert (L : forall j q, j <= K -> cS (ecl j q) (ecl K q)) by (intros; apply ecl_cS; assumption).
    apply cS_trans with (g := u2_doc C K (ecl K cnd) (ecl K s)).
    + destruct K as [|k1]; [intros d1 d2 c; left; reflexivity|]. unfold u2_doc.
      apply (node_l k1 0 r2 HSeq [st; cnd]); [exact N2 | reflexivity | | left; reflexivity].
      constructor; [|constructor; [apply L; lia | constructor]].
      destruct k1 as [|k2]; [intros d1 d2 c; left; reflexivity|]. unfold u2_st.
      apply (node_l k2 (S (S k2)) st HStarPartial [sq]); [exact Nst | reflexivity | | right; lia].
      constructor; [|constructor].
      destruct k2 as [|k3]; [intros d1 d2 c; left; reflexivity|]. unfold u2_sq.
      apply (node_l k3 0 sq HSeq [na; s]); [exact Nsq | reflexivity | | left; reflexivity].
      constructor; [|constructor; [apply L; lia | constructor]].
      destruct k3 as [|k4]; [intros d1 d2 c; left; reflexivity|]. unfold u2_na.
      apply (node_l k4 0 na HNotAt [cnd]); [exact Nna | reflexivity | | left; reflexivity].
      constructor; [apply L; lia | constructor].
    + apply cS_trans with (g := u2_impl C K (ecl K cnd) (ecl K s)).
      { intros d1 d2 c. apply (until2_B C (ecl K cnd) (ecl K s) (ecl K cnd) (ecl K s)); try (apply ecl_cS; lia); [apply ecl_crest | apply le_n]. }
      replace (K + 1) with (S K) by lia. unfold u2_impl.
      apply (node_r K K r1 HUntil2 [cnd; s]); [exact N1 | reflexivity | | right; lia | discriminate].
      constructor; [apply ecl_cS; lia|]. constructor; [apply ecl_cS; lia | constructor].
Qed.

Ltac leafs := repeat (first [ apply Forall2_nil | apply Forall2_cons; [apply ecl_cS; lia|] ]).
Ltac oof_case := intros ? ? ?; left; reflexivity.

(* ---------- if_then_else< R, S, T > ---------- *)
Theorem if_then_else_table r1 r2 cnd t e s1 s2 na :
  node r1 HIfThenElse [cnd; t; e] ->
  node r2 HSor [s1; s2] -> node s1 HSeq [cnd; t] -> node s2 HSeq [na; e] -> node na HNotAt [cnd] ->
  obs_equiv r1 r2.
Proof.
  intros N1 N2 Ns1 Ns2 Nna. split.
  - apply (refines_of_cS 0 2). intros [|k]; [oof_case|].
    apply cS_trans with (g := c_ite C (ecl k cnd) (ecl k t) (ecl k e)).
    { apply (node_l k 0 r1 HIfThenElse [cnd; t; e]); [exact N1 | reflexivity | leafs | left; reflexivity]. }
    apply cS_trans with (g := c_sor C [c_seq C [ecl k cnd; ecl k t]; c_seq C [c_not C (ecl k cnd); ecl k e]]).
    { intros d1 d2 c. apply if_then_else_A; try (apply ecl_cS; lia). apply ecl_crest. }
    replace (S k + 2) with (S (k + 2)) by lia.
    apply (node_r (k + 2) 0 r2 HSor [s1; s2]); [exact N2 | reflexivity | | left; reflexivity | discriminate].
    replace (k + 2) with (S (k + 1)) by lia.
    constructor; [|constructor; [|constructor]].
    + apply (node_r (k + 1) 0 s1 HSeq [cnd; t]); [exact Ns1 | reflexivity | leafs | left; reflexivity | discriminate].
    + apply (node_r (k + 1) 0 s2 HSeq [na; e]); [exact Ns2 | reflexivity | | left; reflexivity | discriminate].
      constructor; [|leafs]. replace (k + 1) with (S k) by lia.
      apply (node_r k 0 na HNotAt [cnd]); [exact Nna | reflexivity | leafs | left; reflexivity | discriminate].
  - apply (refines_of_cS 0 1). intros K.
    assert (L : forall j q, j <= K -> cS (ecl j q) (ecl K q)) by (intros; apply ecl_cS; assumption).
    apply cS_trans with (g := c_sor C [c_seq C [ecl K cnd; ecl K t]; c_seq C [c_not C (ecl K cnd); ecl K e]]).
    + destruct K as [|k1]; [oof_case|].
      apply (node_l k1 0 r2 HSor [s1; s2]); [exact N2 | reflexivity | | left; reflexivity].
      destruct k1 as [|k2]; [repeat (constructor; [oof_case|]); constructor|].
      constructor; [|constructor; [|constructor]].
      * apply (node_l k2 0 s1 HSeq [cnd; t]); [exact Ns1 | reflexivity | | left; reflexivity].
        repeat (constructor; [apply L; lia|]). constructor.
      * apply (node_l k2 0 s2 HSeq [na; e]); [exact Ns2 | reflexivity | | left; reflexivity].
        constructor; [|constructor; [apply L; lia | constructor]].
        destruct k2 as [|k3]; [oof_case|].
        apply (node_l k3 0 na HNotAt [cnd]); [exact Nna | reflexivity | | left; reflexivity].
        constructor; [apply L; lia | constructor].
    + apply cS_trans with (g := c_ite C (ecl K cnd) (ecl K t) (ecl K e)).
      { intros d1 d2 c. apply if_then_else_B; try (apply ecl_cS; lia). apply ecl_crest. }
      replace (K + 1) with (S K) by lia.
      apply (node_r K 0 r1 HIfThenElse [cnd; t; e]); [exact N1 | reflexivity | leafs | left; reflexivity | discriminate].
Qed.

Lemma must_sub_nofail r dflt cnd m k : node r (HIfMust dflt) [cnd; m] -> cnofail (ecl k m).
Proof.
  intros [nd [Hn [Hh Hs]]]. destruct (HG r nd Hn) as [_ Hm].
  pose proof (mustlike_nofail G C HC k m (Hm dflt Hh m ltac:(rewrite Hs; left; reflexivity))) as K.
  intros d c c' evs. apply K.
Qed.
Lemma lcl2_nofail (f g : closure) : cnofail g -> forall i, In i (tl (seq 0 (length [f; g]))) -> nofail (lcl [f; g]) i.
Proof. intros Hg i [<-|[]] d c c' evs. unfold lcl. simpl. apply Hg. Qed.

(* the node must< S... > of the expansion is the PUBLIC must<> (control enabled), that of the convenience rule the
   internal one: two table entries m, m' that are related (leq; decided structurally by EquivBisim.teq) *)
Definition leq (q q' : rid) : Prop :=
  (forall f1 f2, f1 <= f2 -> cS (ecl f1 q) (ecl f2 q')) /\ (forall f1 f2, f1 <= f2 -> cS (ecl f1 q') (ecl f2 q)).
Lemma leq_refl q : leq q q.
Proof. split; intros; apply ecl_cS; assumption. Qed.
Lemma cnofail_cS f g : cS f g -> cnofail g -> cnofail f.
Proof.
  intros H Hg d c c' evs E. destruct (cS_fail _ _ d d c c' evs H E) as [c2 [e2 K]]. exact (Hg d c c2 e2 K).
Qed.

(* ---------- if_must< R, S... >  ==  seq< R, must< S... > > ---------- *)
Theorem if_must_seq_table r1 r2 cnd m m' :
  node r1 (HIfMust false) [cnd; m] -> node r2 HSeq [cnd; m'] -> leq m m' -> obs_equiv r1 r2.
Proof.
  intros N1 N2 [Lm Lm'].
  assert (NF : forall k, cnofail (ecl k m)) by (intros k; eapply must_sub_nofail; eauto).
  assert (NF' : forall k, cnofail (ecl k m')) by (intros k; eapply cnofail_cS; [apply (Lm' k k); lia | apply NF]).
  split.
  - apply (refines_of_cS 0 0). intros [|k]; [oof_case|]. rewrite Nat.add_0_r.
    apply cS_trans with (g := c_if_must C false (ecl k cnd) (ecl k m)).
    { apply (node_l k 0 r1 (HIfMust false) [cnd; m]); [exact N1 | reflexivity | leafs | left; reflexivity]. }
    apply cS_trans with (g := c_seq C [ecl k cnd; ecl k m']).
    { intros d1 d2 c. apply if_must_seq_A; [apply ecl_cS; lia | apply Lm; lia | apply NF | apply ecl_crest]. }
    apply (node_r k 0 r2 HSeq [cnd; m']); [exact N2 | reflexivity | leafs | left; reflexivity | discriminate].
  - apply (refines_of_cS 0 0). intros [|k]; [oof_case|]. rewrite Nat.add_0_r.
    apply cS_trans with (g := c_seq C [ecl k cnd; ecl k m']).
    { apply (node_l k 0 r2 HSeq [cnd; m']); [exact N2 | reflexivity | leafs | left; reflexivity]. }
    apply cS_trans with (g := c_if_must C false (ecl k cnd) (ecl k m)).
    { intros d1 d2 c. apply if_must_seq_B; [apply ecl_cS; lia | apply Lm'; lia | apply NF' | apply ecl_crest]. }
    apply (node_r k 0 r1 (HIfMust false) [cnd; m]); [exact N1 | reflexivity | leafs | left; reflexivity |].
    intros dflt _. apply lcl2_nofail. apply NF.
Qed.

(* ---------- if_must< R, S... >  ==  if_then_else< R, must< S... >, failure >
              opt_must< R, S... > ==  if_then_else< R, must< S... >, success > ---------- *)
Theorem if_must_ite_table dflt r1 r2 cnd m m' x :
  node r1 (HIfMust dflt) [cnd; m] -> node r2 HIfThenElse [cnd; m'; x] -> node x (if dflt then HSuccess else HFailure) [] ->
  leq m m' -> obs_equiv r1 r2.
Proof.
  intros N1 N2 Nf [Lm Lm'].
  assert (NF : forall k, cnofail (ecl k m)) by (intros k; eapply must_sub_nofail; eauto).
  assert (NF' : forall k, cnofail (ecl k m')) by (intros k; eapply cnofail_cS; [apply (Lm' k k); lia | apply NF]).
  set (hx := if dflt then HSuccess else HFailure) in *.
  assert (Hlx : loop_head hx = false) by (unfold hx; destruct dflt; reflexivity).
  assert (Hnx : names_sub hx = false) by (unfold hx; destruct dflt; reflexivity).
  assert (Hix : forall d0, hx = HIfMust d0 -> False) by (unfold hx; destruct dflt; discriminate).
  assert (F : forall k, cS (c_node C 0 hx []) (ecl (S k) x)).
  { intros k. apply (node_r k 0 x hx [] []); [exact Nf | exact Hnx | constructor | left; exact Hlx |]. intros d0 Hd. destruct (Hix d0 Hd). }
  assert (F' : forall k, cS (ecl (S k) x) (c_node C 0 hx [])).
  { intros k. apply (node_l k 0 x hx [] []); [exact Nf | exact Hnx | constructor | left; exact Hlx]. }
  split.
  - apply (refines_of_cS 0 1). intros [|k]; [oof_case|].
    apply cS_trans with (g := c_if_must C dflt (ecl k cnd) (ecl k m)).
    { apply (node_l k 0 r1 (HIfMust dflt) [cnd; m]); [exact N1 | reflexivity | leafs | left; reflexivity]. }
    apply cS_trans with (g := c_ite C (ecl k cnd) (ecl k m') (c_node C 0 hx [])).
    { intros d1 d2 c. unfold hx. destruct dflt.
      - apply opt_must_ite_A; [apply ecl_cS; lia | apply Lm; lia | apply NF | apply ecl_crest | apply ecl_crest].
      - apply if_must_ite_A; [apply ecl_cS; lia | apply Lm; lia | apply NF | apply ecl_crest]. }
    replace (S k + 1) with (S (S k)) by lia.
    apply (node_r (S k) 0 r2 HIfThenElse [cnd; m'; x]); [exact N2 | reflexivity | | left; reflexivity | discriminate].
    constructor; [apply ecl_cS; lia|]. constructor; [apply ecl_cS; lia|]. constructor; [apply F | constructor].
  - apply (refines_of_cS 0 0). intros [|[|k]]; [oof_case| |]; rewrite Nat.add_0_r.
    { apply cS_trans with (g := c_ite C (ecl 0 cnd) (ecl 0 m') (ecl 0 x)).
      { apply (node_l 0 0 r2 HIfThenElse [cnd; m'; x]); [exact N2 | reflexivity | leafs | left; reflexivity]. }
      intros d1 d2 c. left. reflexivity. }
    apply cS_trans with (g := c_ite C (ecl (S k) cnd) (ecl (S k) m') (c_node C 0 hx [])).
    { apply (node_l (S k) 0 r2 HIfThenElse [cnd; m'; x]); [exact N2 | reflexivity | | left; reflexivity].
      constructor; [apply ecl_cS; lia|]. constructor; [apply ecl_cS; lia|]. constructor; [apply F' | constructor]. }
    apply cS_trans with (g := c_if_must C dflt (ecl (S k) cnd) (ecl (S k) m)).
    { intros d1 d2 c. unfold hx. destruct dflt.
      - apply opt_must_ite_B; [apply ecl_cS; lia | apply Lm'; lia | apply NF' | apply ecl_crest | apply ecl_crest].
      - apply if_must_ite_B; [apply ecl_cS; lia | apply Lm'; lia | apply NF' | apply ecl_crest]. }
    apply (node_r (S k) 0 r1 (HIfMust dflt) [cnd; m]); [exact N1 | reflexivity | leafs | left; reflexivity |].
    intros d0 _. apply lcl2_nofail. apply NF.
Qed.

(* ---------- opt_must< R, S... >  ==  opt< if_must< R, S... > > ---------- *)
Theorem opt_must_opt_table r1 r2 im cnd m m' :
  node r1 (HIfMust true) [cnd; m] -> node r2 HPartial [im] -> node im (HIfMust false) [cnd; m'] -> leq m m' -> obs_equiv r1 r2.
Proof.
  intros N1 N2 Ni [Lm Lm'].
  assert (NF : forall k, cnofail (ecl k m)) by (intros k; eapply must_sub_nofail; eauto).
  assert (NF' : forall k, cnofail (ecl k m')) by (intros k; eapply must_sub_nofail; eauto).
  split.
  - apply (refines_of_cS 0 1). intros [|k]; [oof_case|].
    apply cS_trans with (g := c_if_must C true (ecl k cnd) (ecl k m)).
    { apply (node_l k 0 r1 (HIfMust true) [cnd; m]); [exact N1 | reflexivity | leafs | left; reflexivity]. }
    apply cS_trans with (g := c_opt C (c_if_must C false (ecl k cnd) (ecl k m'))).
    { intros d1 d2 c. apply opt_must_opt_A; [apply ecl_cS; lia | apply Lm; lia | apply NF | apply ecl_crest | apply ecl_crest]. }
    replace (S k + 1) with (S (S k)) by lia.
    apply (node_r (S k) 0 r2 HPartial [im]); [exact N2 | reflexivity | | left; reflexivity | discriminate].
    constructor; [|constructor].
    apply (node_r k 0 im (HIfMust false) [cnd; m']); [exact Ni | reflexivity | leafs | left; reflexivity |].
    intros dflt _. apply lcl2_nofail. apply NF'.
  - apply (refines_of_cS 0 0). intros [|[|k]]; [oof_case| |]; rewrite Nat.add_0_r.
    { apply cS_trans with (g := c_opt C (ecl 0 im)).
      { apply (node_l 0 0 r2 HPartial [im]); [exact N2 | reflexivity | leafs | left; reflexivity]. }
      intros d1 d2 c. left. reflexivity. }
    apply cS_trans with (g := c_opt C (c_if_must C false (ecl (S k) cnd) (ecl (S k) m'))).
    { apply (node_l (S k) 0 r2 HPartial [im]); [exact N2 | reflexivity | | left; reflexivity].
      constructor; [|constructor].
      apply (node_l k 0 im (HIfMust false) [cnd; m']); [exact Ni | reflexivity | leafs | left; reflexivity]. }
    apply cS_trans with (g := c_if_must C true (ecl (S k) cnd) (ecl (S k) m)).
    { intros d1 d2 c. apply opt_must_opt_B; [apply ecl_cS; lia | apply Lm'; lia | apply NF' | apply ecl_crest | apply ecl_crest]. }
    apply (node_r (S k) 0 r1 (HIfMust true) [cnd; m]); [exact N1 | reflexivity | leafs | left; reflexivity |].
    intros dflt _. apply lcl2_nofail. apply NF.
Qed.

(* what refinement says in plain terms: a verdict of r1 is a verdict of r2 — same outcome (for an exception: the
   same exception, i.e. same raising rule and position), same cursor after success, and the same (restored)
   cursor after a local failure when both run in required mode *)
Lemma refines_spec r1 r2 : refines r1 r2 -> forall f d1 d2 c o c1 ev1, eval G C f d1 r1 c = Res o c1 ev1 ->
  exists f' c2 ev2, eval G C f' d2 r2 c = Res o c2 ev2 /\ (o = Ok -> c2 = c1) /\ (o = Fail -> dM d1 = true -> dM d2 = true -> c2 = c1).
Proof.
  intros H f d1 d2 c o c1 ev1 E. destruct (H f d1 d2 c) as [f' K]. exists f'. rewrite E in K.
  destruct K as [K|K]; [discriminate|].
  destruct (eval G C f' d2 r2 c) as [o2 c2 ev2| |]; [|destruct o; contradiction|destruct o; contradiction].
  destruct o as [| |x]; destruct o2 as [| |x2]; simpl in K; try contradiction.
  - subst c2. eexists; eexists; split; [reflexivity|]. split; [auto | discriminate].
  - eexists; eexists; split; [reflexivity|]. split; [discriminate|]. intros _ M1 M2. rewrite M1, M2 in K. simpl in K. auto.
  - destruct K as [<- _]. eexists; eexists; split; [reflexivity|]. split; discriminate.
Qed.

End Table.
