(* Denote.v — the structure tie between a SURFACE grammar (what the author wrote, sexp) and a TABLE
   (what the C++ compiler produced through rule_t / subs_t): a boolean checker denb, run by the
   driver on every classical corpus grammar, and used as the hypothesis of the C01 theorems.
   It encodes the expected result of the library's normalisation for the classical operators:
     seq<A>            : node HSeq [A]          (denotes what A denotes)
     seq<A,B,C>        : node HSeq [A;B;C]      ~ SSeq A (SSeq B C)
     sor<...>          : node HSor [...]        likewise with SSor
     star<A...>        : node HStarPartial [x]  x = A or the hidden internal::seq<A...>
     plus<A...> opt<A...> at<A...> not_at<A...> : one sub, same convention (opt is HPartial)
     struct N : body   : node of N has the head and subs of body;  a reference denotes node nm k. *)
From PegtlV Require Import Base Decode Grammar Spec.
Local Open Scope N_scope.

Definition small (cs : list byte) : bool := forallb (fun b => b <? 128) cs.
Fixpoint eqb_zs (a b : list Z) : bool :=
  match a, b with
  | [], [] => true
  | x :: a', y :: b' => Z.eqb x y && eqb_zs a' b'
  | _, _ => false
  end.
Fixpoint eqb_ns (a b : list N) : bool :=
  match a, b with
  | [], [] => true
  | x :: a', y :: b' => N.eqb x y && eqb_ns a' b'
  | _, _ => false
  end.

Section Den.
Variable G : grammar.
Variable g : sgrammar.
Variable nm : nat -> rid.

Fixpoint den_seqb (dn : rid -> sexp -> bool) (rs : list rid) (e : sexp) : bool :=
  match rs with
  | [] => false
  | [r] => dn r e
  | r :: rs' => match e with SSeq a b => dn r a && den_seqb dn rs' b | _ => false end
  end.
Fixpoint den_sorb (dn : rid -> sexp -> bool) (rs : list rid) (e : sexp) : bool :=
  match rs with
  | [] => false
  | [r] => dn r e
  | r :: rs' => match e with SSor a b => dn r a && den_sorb dn rs' b | _ => false end
  end.

Definition den_node (dn : rid -> sexp -> bool) (nd : node) (e : sexp) : bool :=
  match nhead nd, nsubs nd with
  | HAny PkChar, [] => match e with SAny => true | _ => false end
  | HOne true PkChar zs, [] => match e with SOne cs => eqb_zs zs (map Z.of_N cs) && small cs | _ => false end
  | HOne false PkChar zs, [] => match e with SNotOne cs => eqb_zs zs (map Z.of_N cs) && small cs | _ => false end
  | HRange true PkChar zl zh, [] => match e with SRange lo hi => Z.eqb zl (Z.of_N lo) && Z.eqb zh (Z.of_N hi) && (lo <? 128) && (hi <? 128) | _ => false end
  | HString bs, [] => match e with SString cs => eqb_ns bs cs | _ => false end
  | HEof, [] => match e with SEof => true | _ => false end
  | HSuccess, [] => match e with SSuccess => true | _ => false end
  | HFailure, [] => match e with SFailure => true | _ => false end
  | HSeq, rs => (2 <=? length rs)%nat && den_seqb dn rs e      (* seq<A> with one argument is not generated *)
  | HSor, rs => (2 <=? length rs)%nat && den_sorb dn rs e
  | HStarPartial, [r1] => match e with SStar e1 => dn r1 e1 | _ => false end
  | HPlus, [r1] => match e with SPlus e1 => dn r1 e1 | _ => false end
  | HPartial, [r1] => match e with SOpt e1 => dn r1 e1 | _ => false end
  | HAt, [r1] => match e with SAt e1 => dn r1 e1 | _ => false end
  | HNotAt, [r1] => match e with SNotAt e1 => dn r1 e1 | _ => false end
  | _, _ => false
  end.

Fixpoint denb (n : nat) (r : rid) (e : sexp) {struct n} : bool :=
  match n with
  | O => false
  | S n' =>
    match nth_error G r with
    | None => false
    | Some nd =>
      match e with
      | SRef k => (Nat.eqb r (nm k) && match nth_error g k with Some _ => true | None => false end) || den_node (denb n') nd e
      | _ => den_node (denb n') nd e
      end
    end
  end.

(* every named rule's node denotes its body; a body is an operator application, not a bare reference *)
Definition not_ref (e : sexp) : bool := match e with SRef _ => false | _ => true end.
Fixpoint defs_ok (n : nat) (g' : sgrammar) (k : nat) : bool :=
  match g' with
  | [] => true
  | e :: g'' => not_ref e && denb n (nm k) e && defs_ok n g'' (S k)
  end.
End Den.

Definition structure_tie (n : nat) (G : grammar) (names : list rid) (g : sgrammar) (root : rid) (e : sexp) : bool :=
  let nm := fun k => nth k names (length G) in
  Nat.eqb (length names) (length g) && defs_ok G g nm n g 0 && denb G g nm n root e.
