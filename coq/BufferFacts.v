(* BufferFacts.v — proofs about the buffer machine of BufferInput.v (property C07):
   invariant, require() contract under every reader schedule, refinement of the memory
   machine over arbitrary operation sequences, client discipline, discard safety,
   overflow justification. *)
From PegtlV Require Import Base BufferInput.
From Coq Require Import List Arith PeanoNat NArith Lia Bool.
Import ListNotations.

(* ================================================================== list helpers *)

Lemma nth_error_firstn_lt : forall (A : Type) (n : nat) (l : list A) (i : nat),
  i < n -> nth_error (firstn n l) i = nth_error l i.
Proof.
  intros A n. induction n as [|n IH]; intros l i Hi.
  - lia.
  - destruct l as [|x l]; [reflexivity|]. destruct i as [|i]; [reflexivity|].
    simpl. apply IH. lia.
Qed.

Lemma nth_error_skipn_add : forall (A : Type) (n : nat) (l : list A) (i : nat),
  nth_error (skipn n l) i = nth_error l (n + i).
Proof.
  intros A n. induction n as [|n IH]; intros l i.
  - reflexivity.
  - destruct l as [|x l].
    + simpl. destruct i; reflexivity.
    + simpl. apply IH.
Qed.

Lemma skipn_skipn_add : forall (A : Type) (n m : nat) (l : list A),
  skipn n (skipn m l) = skipn (m + n) l.
Proof.
  intros A n m. induction m as [|m IH]; intros l.
  - reflexivity.
  - destruct l as [|x l].
    + simpl. destruct n; reflexivity.
    + simpl. apply IH.
Qed.

Lemma Forall2_len : forall (A B : Type) (P : A -> B -> Prop) (l : list A) (l' : list B),
  Forall2 P l l' -> length l = length l'.
Proof.
  intros A B P l l' H. induction H as [|x y l l' Hxy H IH]; [reflexivity|].
  simpl. now rewrite IH.
Qed.

Lemma Forall2_nth_some : forall (A B : Type) (P : A -> B -> Prop) (l : list A) (l' : list B) (k : nat) (x : A),
  Forall2 P l l' -> nth_error l k = Some x -> exists y, nth_error l' k = Some y /\ P x y.
Proof.
  intros A B P l l' k x H. revert k. induction H as [|a b l l' Hab H IH]; intros k Hk.
  - destruct k; discriminate.
  - destruct k as [|k].
    + simpl in Hk. inversion Hk; subst. exists b. split; [reflexivity|assumption].
    + simpl in Hk. simpl. apply IH. assumption.
Qed.

Lemma Forall2_nth_none : forall (A B : Type) (P : A -> B -> Prop) (l : list A) (l' : list B) (k : nat),
  Forall2 P l l' -> nth_error l k = None -> nth_error l' k = None.
Proof.
  intros A B P l l' k H Hk. apply nth_error_None. apply nth_error_None in Hk.
  rewrite <- (Forall2_len _ _ _ _ _ H). assumption.
Qed.

Lemma Forall2_impl_same : forall (A B : Type) (P Q : A -> B -> Prop) (l : list A) (l' : list B),
  (forall a b, P a b -> Q a b) -> Forall2 P l l' -> Forall2 Q l l'.
Proof.
  intros A B P Q l l' HPQ H. induction H as [|a b l l' Hab H IH]; constructor; auto.
Qed.

(* ================================================================== windows of the buffer *)

Lemma win_length : forall (b : list byte) (off e : nat),
  e <= length b -> length (win b off e) = e - off.
Proof.
  intros b off e He. unfold win. rewrite firstn_length, skipn_length. lia.
Qed.

Lemma win_nth : forall (b : list byte) (off e i : nat),
  i < e - off -> nth_error (win b off e) i = nth_error b (off + i).
Proof.
  intros b off e i Hi. unfold win.
  rewrite nth_error_firstn_lt by assumption. apply nth_error_skipn_add.
Qed.

Lemma win_skipn : forall (b : list byte) (off e n : nat),
  skipn n (win b off e) = win b (off + n) e.
Proof.
  intros b off e n. unfold win.
  rewrite skipn_firstn_comm, skipn_skipn_add.
  replace (e - off - n) with (e - (off + n)) by lia. reflexivity.
Qed.

Lemma write_at_length : forall (off : nat) (data b : list byte),
  off + length data <= length b -> length (write_at off data b) = length b.
Proof.
  intros off data b H. unfold write_at.
  rewrite !app_length, firstn_length, skipn_length. lia.
Qed.

Lemma win_write_gen : forall (A : Type) (b data : list A) (off e : nat),
  off <= e -> e + length data <= length b ->
  firstn (e + length data - off) (skipn off (firstn e b ++ data ++ skipn (e + length data) b))
  = firstn (e - off) (skipn off b) ++ data.
Proof.
  intros A b data off e Hoe Hlen.
  assert (Hfe : length (firstn e b) = e) by (apply firstn_length_le; lia).
  rewrite skipn_app, Hfe.
  replace (off - e) with 0 by lia. rewrite skipn_O.
  rewrite skipn_firstn_comm.
  rewrite firstn_app.
  assert (Hl1 : length (firstn (e - off) (skipn off b)) = e - off).
  { rewrite firstn_length, skipn_length. lia. }
  rewrite Hl1.
  assert (Hf1 : firstn (e + length data - off) (firstn (e - off) (skipn off b)) = firstn (e - off) (skipn off b)).
  { apply firstn_all2. rewrite Hl1. lia. }
  rewrite Hf1.
  replace (e + length data - off - (e - off)) with (length data) by lia.
  rewrite firstn_app. rewrite firstn_all. replace (length data - length data) with 0 by lia.
  rewrite firstn_O, app_nil_r. reflexivity.
Qed.

Lemma win_write_at : forall (b data : list byte) (off e : nat),
  off <= e -> e + length data <= length b ->
  win (write_at e data b) off (e + length data) = win b off e ++ data.
Proof.
  intros b data off e Hoe Hlen. unfold win, write_at. apply win_write_gen; assumption.
Qed.

(* ================================================================== the reader *)

Lemma reader_call_spec : forall (q : nat) (r : rd) (data : list byte) (r' : rd),
  reader_call q r = (data, r') ->
  data ++ stream_rest r' = stream_rest r /\ length data <= q /\
  (1 <= q -> length data = 0 -> stream_rest r = []).
Proof.
  intros q r data r' H. unfold reader_call in H. inversion H as [[Hd Hr]]; clear H. cbn [stream_rest].
  set (k := Nat.min q (Nat.min (match sched r with [] => q | s :: _ => Nat.max 1 s end) (length (stream_rest r)))).
  split; [apply firstn_skipn|]. split.
  - rewrite firstn_length. subst k. lia.
  - intros Hq H0. rewrite firstn_length in H0.
    destruct (stream_rest r) as [|x l] eqn:E; [reflexivity|].
    exfalso. subst k. cbn [length] in H0. destruct (sched r) as [|[|s0] tl0]; lia.
Qed.

(* ================================================================== invariant *)

Definition Inv (c : bcfg) (s : bstate) : Prop :=
  length (buf s) = cap c /\ cur s <= end_ s /\ end_ s <= cap c.

(* what the rest of the stream looks like from buffer offset off *)
Definition remaining_from (s : bstate) (off : nat) : list byte :=
  win (buf s) off (end_ s) ++ stream_rest (rdr s).

(* a region handed to the reader: non-empty, inside the allocation, not over-filled *)
Definition call_ok (c : bcfg) (x : rcall) : Prop :=
  1 <= snd (fst x) /\ fst (fst x) + snd (fst x) <= cap c /\ snd x <= snd (fst x).

Lemma remaining_length : forall (c : bcfg) (s : bstate) (off : nat),
  Inv c s -> length (remaining_from s off) = end_ s - off + length (stream_rest (rdr s)).
Proof.
  intros c s off (Hl & _ & He). unfold remaining_from.
  rewrite app_length, win_length by lia. reflexivity.
Qed.

Lemma read_once_spec : forall (c : bcfg) (n : nat) (s s1 : bstate) (call : rcall),
  Inv c s -> cur s + n <= cap c -> end_ s < cur s + n ->
  read_once c n s = (s1, call) ->
  Inv c s1 /\ cur s1 = cur s /\ bpos s1 = bpos s /\ epoch s1 = epoch s /\ dmark s1 = dmark s /\
  end_ s1 = end_ s + snd call /\ fst (fst call) = end_ s /\ call_ok c call /\
  (forall off, off <= end_ s -> remaining_from s1 off = remaining_from s off) /\
  end_ s1 + length (stream_rest (rdr s1)) = end_ s + length (stream_rest (rdr s)) /\
  (snd call = 0 -> stream_rest (rdr s1) = []).
Proof.
  intros c n s s1 call (Hl & Hce & Hec) Hfit Hneed H.
  unfold read_once in H.
  set (q := Nat.min (free_after_end c s) (Nat.max (n - occupied s) (chunk c))) in H.
  destruct (reader_call q (rdr s)) as [data r'] eqn:E.
  inversion H as [[Hs1 Hcall]]; clear H.
  apply reader_call_spec in E. destruct E as (Happ & Hlen & Hzero).
  assert (Hq1 : 1 <= q).
  { subst q. unfold free_after_end, occupied. lia. }
  assert (Hqc : end_ s + q <= cap c).
  { subst q. unfold free_after_end. lia. }
  subst s1 call. unfold Inv, call_ok.
  cbn [buf cur end_ bpos epoch dmark rdr fst snd].
  repeat split; try reflexivity.
  - rewrite write_at_length; lia.
  - lia.
  - lia.
  - assumption.
  - assumption.
  - assumption.
  - intros off Hoff. unfold remaining_from. cbn [buf end_ rdr].
    rewrite win_write_at by lia. rewrite <- Happ. rewrite app_assoc. reflexivity.
  - rewrite <- Happ. rewrite app_length. lia.
  - intros H0. specialize (Hzero Hq1 H0). rewrite Hzero in Happ.
    destruct data as [|x l]; [|discriminate]. simpl in Happ. assumption.
Qed.

(* the loop of require(): never runs out of fuel, keeps the invariant, only appends, and ends
   with the request satisfied or the stream exhausted - whatever the schedule *)
Lemma require_loop_spec : forall (fuel : nat) (c : bcfg) (n : nat) (s : bstate),
  Inv c s -> cur s + n <= cap c -> cur s + n - end_ s <= fuel ->
  exists s' calls,
    require_loop fuel c n s = Some (s', calls) /\
    Inv c s' /\ cur s' = cur s /\ bpos s' = bpos s /\ epoch s' = epoch s /\ dmark s' = dmark s /\
    end_ s <= end_ s' /\
    (forall off, off <= end_ s -> remaining_from s' off = remaining_from s off) /\
    end_ s' + length (stream_rest (rdr s')) = end_ s + length (stream_rest (rdr s)) /\
    (cur s + n <= end_ s' \/ stream_rest (rdr s') = []) /\
    Forall (call_ok c) calls.
Proof.
  intros fuel. induction fuel as [|f IH]; intros c n s HI Hfit Hfuel; pose proof HI as (Hl0 & Hce0 & Hec0).
  - cbn [require_loop]. destruct (cur s + n <=? end_ s) eqn:E.
    + apply Nat.leb_le in E. exists s, []. repeat split; auto; try lia; try (left; lia); try constructor.
    + apply Nat.leb_gt in E. lia.
  - cbn [require_loop]. destruct (cur s + n <=? end_ s) eqn:E.
    + apply Nat.leb_le in E. exists s, []. repeat split; auto; try lia; try (left; lia); try constructor.
    + apply Nat.leb_gt in E.
      destruct (read_once c n s) as [s1 call] eqn:ER.
      destruct (read_once_spec c n s s1 call HI Hfit E ER)
        as (HI1 & Hc1 & Hp1 & He1 & Hd1 & Hend1 & Hoff1 & Hok1 & Hrem1 & Hsum1 & Hz1).
      pose proof HI1 as (Hl1 & Hce1 & Hec1).
      destruct (snd call) as [|k] eqn:Ek.
      * exists s1, [call]. repeat split; auto; try lia; try (right; auto; fail); try (constructor; [assumption|constructor]).
      * assert (Hfit1 : cur s1 + n <= cap c) by lia.
        assert (Hfuel1 : cur s1 + n - end_ s1 <= f) by lia.
        destruct (IH c n s1 HI1 Hfit1 Hfuel1)
          as (s2 & calls & Hrun & HI2 & Hc2 & Hp2 & He2 & Hd2 & Hend2 & Hrem2 & Hsum2 & Hfin2 & Hok2).
        pose proof HI2 as (Hl2 & Hce2 & Hec2).
        rewrite Hrun. exists s2, (call :: calls).
        split; [reflexivity|]. split; [assumption|].
        split; [congruence|]. split; [congruence|]. split; [congruence|]. split; [congruence|].
        split; [lia|]. split.
        { intros off Hoff. rewrite Hrem2 by lia. apply Hrem1. assumption. }
        split; [lia|]. split.
        { destruct Hfin2 as [Hfin2|Hfin2]; [left; lia|right; assumption]. }
        constructor; assumption.
Qed.

Lemma require_spec : forall (c : bcfg) (n : nat) (s : bstate),
  Inv c s ->
  match require c n s with
  | RqOk s' calls =>
      Inv c s' /\ cur s' = cur s /\ bpos s' = bpos s /\ epoch s' = epoch s /\ dmark s' = dmark s /\
      end_ s <= end_ s' /\
      (forall off, off <= end_ s -> remaining_from s' off = remaining_from s off) /\
      end_ s' + length (stream_rest (rdr s')) = end_ s + length (stream_rest (rdr s)) /\
      (n <= occupied s' \/ stream_rest (rdr s') = []) /\
      Forall (call_ok c) calls
  | RqOverflow => cap c < cur s + n
  | RqFuel => False
  end.
Proof.
  intros c n s HI. unfold require.
  destruct (cur s + n <=? end_ s) eqn:E.
  - apply Nat.leb_le in E. repeat split; auto; try apply HI. left. unfold occupied. lia.
  - apply Nat.leb_gt in E. destruct (cap c <? cur s + n) eqn:E2.
    + apply Nat.ltb_lt in E2. assumption.
    + apply Nat.ltb_ge in E2.
      destruct (require_loop_spec (cur s + n - end_ s) c n s HI E2 (le_n _))
        as (s' & calls & Hrun & HI' & Hc & Hp & He & Hd & Hend & Hrem & Hsum & Hfin & Hok).
      rewrite Hrun. repeat split; auto; try apply HI'.
      destruct Hfin as [Hfin|Hfin]; [left; unfold occupied; lia|right; assumption].
Qed.

(* ================================================================== require(): the contract *)

(* after require( n ) without overflow at least min( n, everything that is left ) bytes are
   buffered - for EVERY legal reader schedule (this is what fix c67e147 established) *)
Lemma require_contract : forall (c : bcfg) (n : nat) (s s' : bstate) (calls : list rcall),
  Inv c s -> require c n s = RqOk s' calls ->
  Nat.min n (length (remaining_from s (cur s))) <= occupied s' /\
  occupied s' <= length (remaining_from s (cur s)).
Proof.
  intros c n s s' calls HI H. pose proof (require_spec c n s HI) as HS. rewrite H in HS.
  destruct HS as (HI' & Hc & _ & _ & _ & Hend & Hrem & Hsum & Hfin & _).
  pose proof HI as (Hl & Hce & Hec).
  assert (Hlen : length (remaining_from s (cur s)) = length (remaining_from s' (cur s'))).
  { rewrite Hc. rewrite Hrem by lia. reflexivity. }
  rewrite Hlen. rewrite (remaining_length c s' (cur s') HI'). unfold occupied.
  split; [|lia].
  destruct Hfin as [Hfin|Hfin].
  - unfold occupied in Hfin. lia.
  - rewrite Hfin. simpl. lia.
Qed.

(* ================================================================== refinement relation *)

(* the memory machine's cursor is a suffix of the stream and its byte counter counts the
   consumed prefix *)
Definition mem_ok (stream : list byte) (m : cursor) : Prop :=
  exists pre, pre ++ rest m = stream /\ pbyte (cpos m) = N.of_nat (length pre).

(* a saved inputerator corresponds to a saved memory cursor as long as no discard moved the
   data since it was taken *)
Definition slot_rel (s : bstate) (it : biter) (m : cursor) : Prop :=
  it_epoch it <= epoch s /\
  (it_epoch it = epoch s ->
   it_off it <= end_ s /\ rest m = remaining_from s (it_off it) /\ cpos m = it_pos it).

Definition R (c : bcfg) (stream : list byte) (rb : brun) (rm : mrun) : Prop :=
  Inv c (fst rb) /\
  rest (fst rm) = remaining_from (fst rb) (cur (fst rb)) /\
  cpos (fst rm) = bpos (fst rb) /\
  mem_ok stream (fst rm) /\
  Forall2 (slot_rel (fst rb)) (snd rb) (snd rm) /\
  Forall (mem_ok stream) (snd rm) /\
  end_ (fst rb) + length (stream_rest (rdr (fst rb))) <= length stream /\
  (dmark (fst rb) + N.of_nat (end_ (fst rb)) + N.of_nat (length (stream_rest (rdr (fst rb))))
   <= N.of_nat (length stream) + N.of_nat (chunk c))%N.

Lemma R_init : forall (c : bcfg) (stream : list byte) (schedule : list nat) (g : list byte),
  length g = cap c -> R c stream (binit c stream schedule g) (minit stream).
Proof.
  intros c stream schedule g Hg. unfold R, binit, minit. cbn [fst snd buf cur end_ bpos dmark rdr stream_rest rest cpos].
  split; [unfold Inv; cbn [buf cur end_]; lia|].
  split; [reflexivity|]. split; [reflexivity|].
  split; [exists []; split; reflexivity|].
  split; [constructor|]. split; [constructor|]. split; [lia|]. lia.
Qed.

Lemma binit0_length : forall (c : bcfg), length (repeat 0%N (cap c)) = cap c.
Proof. intros c. apply repeat_length. Qed.

(* slot_rel only looks at epoch, end, contents and the unread stream *)
Lemma slot_rel_ext : forall (s s' : bstate) (it : biter) (m : cursor),
  epoch s' = epoch s -> end_ s <= end_ s' ->
  (forall off, off <= end_ s -> remaining_from s' off = remaining_from s off) ->
  slot_rel s it m -> slot_rel s' it m.
Proof.
  intros s s' it m He Hend Hrem (Hle & Hfresh). unfold slot_rel. rewrite He.
  split; [assumption|]. intros Heq. destruct (Hfresh Heq) as (Hoff & Hrest & Hpos).
  split; [lia|]. split; [|assumption]. rewrite Hrem by assumption. assumption.
Qed.

Lemma remaining_same : forall (s s' : bstate) (off : nat),
  buf s' = buf s -> end_ s' = end_ s -> rdr s' = rdr s ->
  remaining_from s' off = remaining_from s off.
Proof. intros s s' off Hb He Hr. unfold remaining_from. rewrite Hb, He, Hr. reflexivity. Qed.

(* ------------------------------------------------------------------ bump facts *)

Lemma bump_bytes_pbyte : forall (ch : N) (bs : list byte) (p : pos),
  pbyte (bump_bytes ch bs p) = (pbyte p + N.of_nat (length bs))%N.
Proof.
  intros ch bs. unfold bump_bytes. induction bs as [|b bs IH]; intros p.
  - simpl. lia.
  - cbn [fold_left length]. rewrite IH. unfold bump1_pos.
    destruct (b =? ch)%N; cbn [pbyte]; lia.
Qed.

Lemma bump_scan_app : forall (ch : N) (n : nat) (w r : list byte) (p : pos),
  n <= length w ->
  bump_scan ch n (mkcur (w ++ r) p) = Some (mkcur (skipn n w ++ r) (bump_bytes ch (firstn n w) p)).
Proof.
  intros ch n. induction n as [|n IH]; intros w r p Hn.
  - reflexivity.
  - destruct w as [|b w]; [simpl in Hn; lia|].
    cbn [bump_scan rest app cpos]. rewrite IH by (simpl in Hn; lia). reflexivity.
Qed.

Lemma drop_app : forall (n : nat) (w r : list byte),
  n <= length w -> drop n (w ++ r) = Some (skipn n w ++ r).
Proof.
  intros n. induction n as [|n IH]; intros w r Hn.
  - reflexivity.
  - destruct w as [|b w]; [simpl in Hn; lia|]. simpl. apply IH. simpl in Hn. lia.
Qed.

Lemma bump_pos_pbyte : forall (ch : N) (k : bkind) (n : nat) (w : list byte) (p : pos),
  n <= length w -> pbyte (bump_pos ch k n w p) = (pbyte p + N.of_nat n)%N.
Proof.
  intros ch k n w p Hn. destruct k; cbn [bump_pos pbyte]; try reflexivity.
  rewrite bump_bytes_pbyte. rewrite firstn_length_le by assumption. reflexivity.
Qed.

Lemma mbump_app : forall (ch : N) (k : bkind) (n : nat) (w r : list byte) (p : pos),
  n <= length w ->
  mbump ch k n (mkcur (w ++ r) p) = Some (mkcur (skipn n w ++ r) (bump_pos ch k n w p)).
Proof.
  intros ch k n w r p Hn. destruct k; cbn [mbump bump_pos].
  - apply bump_scan_app. assumption.
  - unfold bump_in_line. cbn [rest cpos]. rewrite drop_app by assumption. reflexivity.
  - unfold bump_next_line. cbn [rest cpos]. rewrite drop_app by assumption. reflexivity.
Qed.

(* ------------------------------------------------------------------ discard facts *)

Lemma discard_spec : forall (c : bcfg) (s : bstate),
  Inv c s ->
  let s' := fst (discard c s) in
  Inv c s' /\ window s' = window s /\ occupied s' = occupied s /\ cur s' <= chunk c /\
  rdr s' = rdr s /\ bpos s' = bpos s /\ dmark s' = pbyte (bpos s) /\
  remaining_from s' (cur s') = remaining_from s (cur s) /\
  (snd (discard c s) = true -> epoch s' = S (epoch s) /\ cur s' = 0) /\
  (snd (discard c s) = false -> epoch s' = epoch s /\ buf s' = buf s /\ cur s' = cur s /\ end_ s' = end_ s).
Proof.
  intros c s (Hl & Hce & Hec). unfold discard.
  destruct (chunk c <? cur s) eqn:E; cbn [fst snd].
  - apply Nat.ltb_lt in E.
    unfold Inv, window, occupied, remaining_from. cbn [buf cur end_ rdr bpos dmark epoch].
    assert (Hw : length (win (buf s) (cur s) (end_ s)) = end_ s - cur s).
    { apply win_length. lia. }
    assert (Hwin : win (win (buf s) (cur s) (end_ s) ++ skipn (end_ s - cur s) (buf s)) 0 (end_ s - cur s)
                   = win (buf s) (cur s) (end_ s)).
    { unfold win at 1. rewrite skipn_O, Nat.sub_0_r.
      rewrite firstn_app, Hw, Nat.sub_diag, firstn_O, app_nil_r.
      apply firstn_all2. lia. }
    rewrite Hwin.
    repeat split; try reflexivity; try lia; try discriminate.
    rewrite app_length, skipn_length, Hw. lia.
  - apply Nat.ltb_ge in E. unfold Inv, window, occupied, remaining_from.
    cbn [buf cur end_ rdr bpos dmark epoch].
    repeat split; try reflexivity; try lia; try discriminate.
Qed.

(* ================================================================== one step simulates *)

(* an overflow_error is only thrown when the bytes since the start of the input exceed the
   capacity AND the bytes since the last discard() exceed the user's maximum *)
Definition overflow_justified (c : bcfg) (s : bstate) (n : nat) : Prop :=
  (N.of_nat (cap c) < pbyte (bpos s) + N.of_nat n)%N /\
  (N.of_nat (maxi c) + dmark s < pbyte (bpos s) + N.of_nat n)%N.

Lemma sim_with_require : forall (c : bcfg) (stream : list byte) (s : bstate) (sl : list biter)
                                (m : cursor) (ml : list cursor) (n : nat) (k : bstate -> ans),
  R c stream (s, sl) (m, ml) ->
  match with_require c n (s, sl) k with
  | BDone a calls rb' =>
      exists s', rb' = (s', sl) /\ a = k s' /\ R c stream (s', sl) (m, ml) /\
                 Forall (call_ok c) calls /\ cur s' = cur s /\ cur s' <= end_ s' /\
                 occupied s <= occupied s' /\
                 occupied s' <= length (rest m) /\
                 (n <= occupied s' \/ occupied s' = length (rest m))
  | BOverflow => overflow_justified c s n
  | BErr e => False
  end.
Proof.
  intros c stream s sl m ml n k HR.
  destruct HR as (HI & Hrest & Hpos & Hmok & Hsl & Hmsl & Hbase & Hdm). cbn [fst snd] in *.
  pose proof HI as (Hl & Hce & Hec).
  unfold with_require. cbn [fst snd].
  pose proof (require_spec c n s HI) as HS.
  destruct (require c n s) as [s' calls| |].
  - destruct HS as (HI' & Hc & Hp & He & Hd & Hend & Hrem & Hsum & Hfin & Hok).
    pose proof HI' as (Hl' & Hce' & Hec').
    assert (Hrest' : rest m = remaining_from s' (cur s')).
    { rewrite Hc, Hrem by lia. assumption. }
    assert (Hlen : length (rest m) = end_ s' - cur s' + length (stream_rest (rdr s'))).
    { rewrite Hrest'. apply (remaining_length c). assumption. }
    exists s'. split; [reflexivity|]. split; [reflexivity|]. split.
    { unfold R. cbn [fst snd]. split; [assumption|]. split; [assumption|].
      split; [congruence|]. split; [assumption|]. split.
      { apply (Forall2_impl_same _ _ (slot_rel s)); [|assumption].
        intros it mc Hrel. apply (slot_rel_ext s); assumption. }
      split; [assumption|]. split; [lia|]. rewrite Hd. lia. }
    split; [assumption|]. split; [assumption|]. split; [assumption|].
    unfold occupied in *. split; [lia|]. split; [lia|].
    destruct Hfin as [Hfin|Hfin]; [left; assumption|right]. rewrite Hlen, Hfin. simpl. lia.
  - destruct Hmok as (pre & Hpre & Hpb).
    assert (Hlen : length (rest m) = end_ s - cur s + length (stream_rest (rdr s))).
    { rewrite Hrest. apply (remaining_length c). assumption. }
    assert (Hstream : length stream = length pre + length (rest m)).
    { rewrite <- Hpre. apply app_length. }
    unfold overflow_justified. rewrite <- Hpos, Hpb. unfold cap in *. split; lia.
  - assumption.
Qed.

Lemma min_clamp : forall (a b n : nat), a <= b -> (n <= a \/ a = b) -> Nat.min a n = Nat.min b n.
Proof. intros a b n H1 H2. lia. Qed.

Lemma sim_step : forall (c : bcfg) (stream : list byte) (o : op) (rb : brun) (rm : mrun),
  R c stream rb rm ->
  match bstep c o rb with
  | BDone a calls rb' =>
      exists a' rm', mstep (eolc c) o rm = MDone a' rm' /\ clamp o a = clamp o a' /\
                     R c stream rb' rm' /\ Forall (call_ok c) calls
  | BOverflow => exists n, amount_of o = Some n /\ overflow_justified c (fst rb) n
  | BErr e => e <> EFuel /\
              (e = EBadSlot -> mstep (eolc c) o rm = MErr EBadSlot) /\
              (forall e', mstep (eolc c) o rm = MErr e' -> e' = e)
  end.
Proof.
  intros c stream o [s sl] [m ml] HR.
  destruct o as [n|n|n| |i|k n| | |k].
  - (* size *)
    pose proof (sim_with_require c stream s sl m ml n (fun s' => ASize (occupied s')) HR) as H.
    cbn [bstep]. destruct (with_require c n (s, sl) (fun s' => ASize (occupied s'))) as [a calls rb'| |e].
    + destruct H as (s' & -> & -> & HR' & Hok & _ & _ & _ & Hle & Hfin).
      exists (ASize (in_size m)), (m, ml). split; [reflexivity|]. split; [|split; assumption].
      cbn [clamp]. unfold in_size. f_equal. apply min_clamp; assumption.
    + exists n. split; [reflexivity|]. assumption.
    + contradiction.
  - (* end *)
    pose proof (sim_with_require c stream s sl m ml n (fun s' => ASize (occupied s')) HR) as H.
    cbn [bstep]. destruct (with_require c n (s, sl) (fun s' => ASize (occupied s'))) as [a calls rb'| |e].
    + destruct H as (s' & -> & -> & HR' & Hok & _ & _ & _ & Hle & Hfin).
      exists (ASize (in_size m)), (m, ml). split; [reflexivity|]. split; [|split; assumption].
      cbn [clamp]. unfold in_size. f_equal. apply min_clamp; assumption.
    + exists n. split; [reflexivity|]. assumption.
    + contradiction.
  - (* require *)
    pose proof (sim_with_require c stream s sl m ml n (fun _ => AUnit) HR) as H.
    cbn [bstep]. destruct (with_require c n (s, sl) (fun _ => AUnit)) as [a calls rb'| |e].
    + destruct H as (s' & -> & -> & HR' & Hok & _).
      exists AUnit, (m, ml). split; [reflexivity|]. split; [reflexivity|]. split; assumption.
    + exists n. split; [reflexivity|]. assumption.
    + contradiction.
  - (* empty *)
    pose proof (sim_with_require c stream s sl m ml 1 (fun s' => AEmpty (cur s' =? end_ s')) HR) as H.
    cbn [bstep]. destruct (with_require c 1 (s, sl) (fun s' => AEmpty (cur s' =? end_ s'))) as [a calls rb'| |e].
    + destruct H as (s' & -> & -> & HR' & Hok & _ & Hce' & _ & Hle & Hfin).
      exists (AEmpty (in_empty m)), (m, ml). split; [reflexivity|]. split; [|split; assumption].
      cbn [clamp]. f_equal. unfold in_empty. unfold occupied in *.
      destruct (rest m) as [|x l] eqn:Erest; cbn [length] in *.
      * apply Nat.eqb_eq. lia.
      * apply Nat.eqb_neq. lia.
    + exists 1. split; [reflexivity|]. assumption.
    + contradiction.
  - (* peek *)
    destruct HR as (HI & Hrest & Hpos & Hmok & Hsl & Hmsl & Hbase & Hdm). cbn [fst snd] in *.
    pose proof HI as (Hl & Hce & Hec).
    cbn [bstep fst snd mstep]. unfold peek_at. rewrite Hrest. unfold remaining_from, occupied.
    destruct (i <? end_ s - cur s) eqn:E.
    + apply Nat.ltb_lt in E.
      assert (Hnth : nth_error (win (buf s) (cur s) (end_ s) ++ stream_rest (rdr s)) i
                     = nth_error (buf s) (cur s + i)).
      { rewrite nth_error_app1 by (rewrite win_length by lia; lia). apply win_nth. assumption. }
      rewrite Hnth.
      destruct (nth_error (buf s) (cur s + i)) as [b|] eqn:En.
      * exists (APeek b), (m, ml). split; [reflexivity|]. split; [reflexivity|].
        split; [|constructor]. unfold R. cbn [fst snd]. repeat split; assumption.
      * split; [discriminate|]. split; [discriminate|]. intros e' He'. inversion He'. reflexivity.
    + split; [discriminate|]. split; [discriminate|]. intros e' He'.
      destruct (nth_error (win (buf s) (cur s) (end_ s) ++ stream_rest (rdr s)) i); inversion He'. reflexivity.
  - (* bump *)
    destruct HR as (HI & Hrest & Hpos & Hmok & Hsl & Hmsl & Hbase & Hdm). cbn [fst snd] in *.
    pose proof HI as (Hl & Hce & Hec).
    cbn [bstep fst snd mstep]. unfold occupied.
    destruct (n <=? end_ s - cur s) eqn:E.
    + apply Nat.leb_le in E.
      assert (Hw : length (window s) = end_ s - cur s).
      { unfold window. apply win_length. lia. }
      destruct m as [mr mp]. cbn [rest cpos] in *.
      assert (Hmb : mbump (eolc c) k n (mkcur mr mp)
                    = Some (mkcur (skipn n (window s) ++ stream_rest (rdr s)) (bump_pos (eolc c) k n (window s) (bpos s)))).
      { rewrite Hrest, Hpos. unfold remaining_from. apply mbump_app. fold (window s). lia. }
      rewrite Hmb.
      eexists AUnit, (_, ml). split; [reflexivity|]. split; [reflexivity|]. split; [|constructor].
      unfold R. cbn [fst snd buf cur end_ bpos rdr dmark rest cpos].
      split; [unfold Inv; cbn [buf cur end_]; lia|].
      split.
      { unfold remaining_from. cbn [buf cur end_ rdr]. unfold window. rewrite win_skipn. reflexivity. }
      split; [reflexivity|].
      split.
      { destruct Hmok as (pre & Hpre & Hpb). cbn [rest cpos] in *.
        exists (pre ++ firstn n (window s)). cbn [rest cpos]. split.
        - rewrite <- app_assoc, (app_assoc (firstn n (window s))), firstn_skipn.
          rewrite <- Hpre, Hrest. reflexivity.
        - rewrite bump_pos_pbyte by lia. rewrite app_length, firstn_length_le by lia.
          rewrite <- Hpos, Hpb. lia. }
      split.
      { apply (Forall2_impl_same _ _ (slot_rel s)); [|assumption].
        intros it mc Hrel. apply (slot_rel_ext s); try assumption; try reflexivity;
          try (cbn [end_]; lia); try (intros off _; apply remaining_same; reflexivity). }
      split; [assumption|]. split; assumption.
    + split; [discriminate|]. split; [discriminate|]. intros e' He'.
      destruct (mbump (eolc c) k n m); inversion He'. reflexivity.
  - (* discard *)
    destruct HR as (HI & Hrest & Hpos & Hmok & Hsl & Hmsl & Hbase & Hdm). cbn [fst snd] in *.
    pose proof HI as (Hl & Hce & Hec).
    cbn [bstep fst snd mstep].
    pose proof (discard_spec c s HI) as HD. cbn zeta in HD.
    destruct (discard c s) as [s' moved] eqn:ED. cbn [fst snd] in HD.
    destruct HD as (HI' & Hwin & Hocc & Hcur & Hrdr & Hbp & Hdmk & Hrem & Hmv & Hnmv).
    exists AUnit, (m, ml). split; [reflexivity|]. split; [reflexivity|]. split; [|constructor].
    destruct Hmok as (pre & Hpre & Hpb).
    assert (Hlen : length (rest m) = end_ s - cur s + length (stream_rest (rdr s))).
    { rewrite Hrest. apply (remaining_length c). assumption. }
    assert (Hstream : length stream = length pre + length (rest m)).
    { rewrite <- Hpre. apply app_length. }
    pose proof HI' as (Hl' & Hce' & Hec').
    unfold occupied in Hocc.
    unfold R. cbn [fst snd].
    split; [assumption|]. split; [congruence|]. split; [congruence|].
    split; [exists pre; split; assumption|].
    split.
    { destruct moved.
      - destruct (Hmv eq_refl) as (Hmv' & _).
        apply (Forall2_impl_same _ _ (slot_rel s)); [|assumption].
        intros it mc (Hle & _). unfold slot_rel. rewrite Hmv'. split; [lia|]. intros Heq. lia.
      - destruct (Hnmv eq_refl) as (He & Hb & Hc & Hen).
        apply (Forall2_impl_same _ _ (slot_rel s)); [|assumption].
        intros it mc Hrel. apply (slot_rel_ext s); try assumption; try lia.
        intros off _. apply remaining_same; assumption. }
    split; [assumption|]. rewrite Hrdr, Hdmk, <- Hpos, Hpb.
    destruct moved.
    + destruct (Hmv eq_refl) as (_ & Hc0). split; lia.
    + destruct (Hnmv eq_refl) as (_ & _ & Hc0 & He0). split; lia.
  - (* save *)
    destruct HR as (HI & Hrest & Hpos & Hmok & Hsl & Hmsl & Hbase & Hdm). cbn [fst snd] in *.
    cbn [bstep fst snd mstep].
    exists AUnit, (m, ml ++ [m]). split; [reflexivity|]. split; [reflexivity|]. split; [|constructor].
    unfold R. cbn [fst snd].
    split; [assumption|]. split; [assumption|]. split; [assumption|]. split; [assumption|].
    split.
    { apply Forall2_app; [assumption|]. constructor; [|constructor].
      unfold slot_rel. cbn [it_epoch it_off it_pos]. split; [lia|]. intros _.
      split; [apply HI|]. split; assumption. }
    split; [|split; assumption].
    apply Forall_app. split; [assumption|]. constructor; [assumption|constructor].
  - (* restore *)
    destruct HR as (HI & Hrest & Hpos & Hmok & Hsl & Hmsl & Hbase & Hdm). cbn [fst snd] in *.
    pose proof HI as (Hl & Hce & Hec).
    cbn [bstep fst snd mstep].
    destruct (nth_error sl k) as [it|] eqn:En.
    + destruct (Forall2_nth_some _ _ _ _ _ _ _ Hsl En) as (mc & Hmc & Hrel).
      rewrite Hmc.
      destruct (it_epoch it =? epoch s) eqn:Ee.
      * apply Nat.eqb_eq in Ee. destruct Hrel as (_ & Hfresh).
        destruct (Hfresh Ee) as (Hoff & Hrm & Hcp).
        exists AUnit, (mc, ml). split; [reflexivity|]. split; [reflexivity|]. split; [|constructor].
        unfold R. cbn [fst snd buf cur end_ bpos rdr dmark].
        split; [unfold Inv; cbn [buf cur end_]; lia|].
        split; [rewrite Hrm; apply remaining_same; reflexivity|].
        split; [assumption|].
        split.
        { rewrite Forall_forall in Hmsl. apply Hmsl. apply nth_error_In with k. assumption. }
        split.
        { apply (Forall2_impl_same _ _ (slot_rel s)); [|assumption].
          intros it' mc' Hrel'. apply (slot_rel_ext s); try assumption; try reflexivity;
            try (cbn [end_]; lia); try (intros off _; apply remaining_same; reflexivity). }
        split; [assumption|]. split; assumption.
      * split; [discriminate|]. split; [discriminate|]. intros e' He'. inversion He'.
    + rewrite (Forall2_nth_none _ _ _ _ _ _ Hsl En).
      split; [discriminate|]. split; [reflexivity|]. intros e' He'. inversion He'. reflexivity.
Qed.

(* ================================================================== why a run stopped *)

Definition err_explained (rb : brun) (o : op) (e : err) : Prop :=
  match e with
  | EPeekWindow => exists i, o = OPeek i /\ occupied (fst rb) <= i
  | EBumpWindow => exists k n, o = OBump k n /\ occupied (fst rb) < n
  | EStaleRewind => exists k it, o = ORestore k /\ nth_error (snd rb) k = Some it /\ it_epoch it < epoch (fst rb)
  | EBadSlot => exists k, o = ORestore k /\ nth_error (snd rb) k = None
  | EFuel => False
  end.

Lemma bstep_err_explained : forall (c : bcfg) (stream : list byte) (o : op) (rb : brun) (rm : mrun) (e : err),
  R c stream rb rm -> bstep c o rb = BErr e -> err_explained rb o e.
Proof.
  intros c stream o [s sl] [m ml] e HR H.
  pose proof HR as (HI & _ & _ & _ & Hsl & _). cbn [fst snd] in *.
  pose proof HI as (Hl & Hce & Hec).
  destruct o as [n|n|n| |i|k n| | |k]; cbn [bstep fst snd] in H.
  - pose proof (sim_with_require c stream s sl m ml n (fun s' => ASize (occupied s')) HR) as HW.
    rewrite H in HW. contradiction.
  - pose proof (sim_with_require c stream s sl m ml n (fun s' => ASize (occupied s')) HR) as HW.
    rewrite H in HW. contradiction.
  - pose proof (sim_with_require c stream s sl m ml n (fun _ => AUnit) HR) as HW.
    rewrite H in HW. contradiction.
  - pose proof (sim_with_require c stream s sl m ml 1 (fun s' => AEmpty (cur s' =? end_ s')) HR) as HW.
    rewrite H in HW. contradiction.
  - destruct (i <? occupied s) eqn:E.
    + apply Nat.ltb_lt in E. unfold occupied in E.
      destruct (nth_error (buf s) (cur s + i)) as [b|] eqn:En; [discriminate|].
      apply nth_error_None in En. lia.
    + apply Nat.ltb_ge in E. inversion H. cbn [err_explained fst]. exists i. split; [reflexivity|assumption].
  - destruct (n <=? occupied s) eqn:E; [discriminate|].
    apply Nat.leb_gt in E. inversion H. cbn [err_explained fst]. exists k, n. split; [reflexivity|assumption].
  - destruct (discard c s). discriminate.
  - discriminate.
  - destruct (nth_error sl k) as [it|] eqn:En.
    + destruct (it_epoch it =? epoch s) eqn:Ee; [discriminate|].
      apply Nat.eqb_neq in Ee. inversion H. cbn [err_explained fst snd].
      destruct (Forall2_nth_some _ _ _ _ _ _ _ Hsl En) as (mc & _ & Hle & _).
      exists k, it. split; [reflexivity|]. split; [assumption|]. lia.
    + inversion H. cbn [err_explained fst snd]. exists k. split; [reflexivity|assumption].
Qed.

(* ================================================================== runs: refinement *)

Lemma bobs_cons : forall (o : op) (tl : list op) (e : bentry) (l : list bentry),
  bobs (o :: tl) (e :: l) = (o, clamp o (be_ans e), be_pos e) :: bobs tl l.
Proof. reflexivity. Qed.

Lemma mobs_cons : forall (o : op) (tl : list op) (a : ans) (p : pos) (l : list (ans * pos)),
  mobs (o :: tl) ((a, p) :: l) = (o, clamp o a, p) :: mobs tl l.
Proof. reflexivity. Qed.

Definition stop_explained (c : bcfg) (ops : list op) (lb : list bentry) (fb : stop) (rbf : brun)
                          (lm : list (ans * pos)) (fm : stop) : Prop :=
  match fb with
  | SDone => fm = SDone /\ length lb = length ops /\ length lm = length ops
  | SOverflow => exists o n, nth_error ops (length lb) = Some o /\ amount_of o = Some n /\
                             overflow_justified c (fst rbf) n
  | SErr e => exists o, nth_error ops (length lb) = Some o /\ err_explained rbf o e /\
                        (e = EBadSlot -> fm = SErr EBadSlot /\ length lm = length lb)
  end.

Lemma sim_run : forall (c : bcfg) (stream : list byte) (ops : list op) (rb : brun) (rm : mrun),
  R c stream rb rm ->
  forall lb fb rbf lm fm rmf,
  brun_ops c ops rb = (lb, fb, rbf) -> mrun_ops (eolc c) ops rm = (lm, fm, rmf) ->
  bobs ops lb = firstn (length lb) (mobs ops lm) /\
  length lb <= length lm /\
  Forall (fun e => Forall (call_ok c) (be_calls e)) lb /\
  (exists rm', R c stream rbf rm') /\
  (fb = SDone -> R c stream rbf rmf) /\
  stop_explained c ops lb fb rbf lm fm.
Proof.
  intros c stream ops. induction ops as [|o tl IH]; intros rb rm HR lb fb rbf lm fm rmf Hb Hm.
  - cbn [brun_ops mrun_ops] in Hb, Hm. inversion Hb; subst. inversion Hm; subst.
    split; [reflexivity|]. split; [apply le_n|]. split; [constructor|].
    split; [exists rmf; assumption|]. split; [intros _; assumption|].
    cbn [stop_explained length]. repeat split; reflexivity.
  - cbn [brun_ops mrun_ops] in Hb, Hm.
    pose proof (sim_step c stream o rb rm HR) as HS.
    pose proof (bstep_err_explained c stream o rb rm) as HE.
    destruct (bstep c o rb) as [a calls rb'| |e] eqn:Eb.
    + destruct HS as (a' & rm' & Hms & Hcl & HR' & Hok). rewrite Hms in Hm.
      destruct (brun_ops c tl rb') as [[l f] rf] eqn:Ebt.
      destruct (mrun_ops (eolc c) tl rm') as [[l' f'] rf'] eqn:Emt.
      inversion Hb; subst. inversion Hm; subst.
      destruct (IH rb' rm' HR' l fb rbf l' fm rmf Ebt Emt) as (H1 & H2 & H3 & H4 & H5 & H6).
      split.
      { rewrite bobs_cons, mobs_cons. cbn [length firstn be_ans be_pos]. rewrite Hcl, H1.
        replace (bpos (fst rb')) with (cpos (fst rm')); [reflexivity|]. apply HR'. }
      split; [cbn [length]; lia|].
      split; [constructor; assumption|].
      split; [assumption|]. split; [assumption|].
      unfold stop_explained in *. cbn [length nth_error].
      destruct fb as [| |e].
      * destruct H6 as (Ha & Hb' & Hc'). repeat split; try assumption; lia.
      * assumption.
      * destruct H6 as (o' & Hn & Hex & Hbad). exists o'. split; [assumption|]. split; [assumption|].
        intros Hbs. destruct (Hbad Hbs) as (Hx & Hy). split; [assumption|lia].
    + inversion Hb; subst. cbn [length firstn].
      split; [reflexivity|]. split; [lia|]. split; [constructor|].
      split; [exists rm; assumption|]. split; [discriminate|].
      cbn [stop_explained length nth_error].
      destruct HS as (n & Hn & Hj). exists o, n. repeat split; try assumption; apply Hj.
    + inversion Hb; subst. cbn [length firstn].
      split; [reflexivity|]. split; [lia|]. split; [constructor|].
      split; [exists rm; assumption|]. split; [discriminate|].
      cbn [stop_explained length nth_error].
      exists o. split; [reflexivity|]. split; [apply HE; [assumption|reflexivity]|].
      intros Hbs. destruct HS as (_ & Hbad & _). rewrite (Hbad Hbs) in Hm. inversion Hm; subst.
      split; reflexivity.
Qed.

(* ================================================================== client discipline *)

Lemma disciplined_run : forall (c : bcfg) (stream : list byte) (ops : list op) (known : nat) (rb : brun) (rm : mrun),
  R c stream rb rm -> known <= occupied (fst rb) -> disciplined c known ops rb = true ->
  snd (fst (brun_ops c ops rb)) <> SErr EPeekWindow /\
  snd (fst (brun_ops c ops rb)) <> SErr EBumpWindow.
Proof.
  intros c stream ops. induction ops as [|o tl IH]; intros known rb rm HR Hk Hd.
  - cbn [brun_ops fst snd]. split; discriminate.
  - cbn [disciplined] in Hd. apply andb_true_iff in Hd. destruct Hd as (Hal & Hd).
    cbn [brun_ops].
    pose proof (sim_step c stream o rb rm HR) as HS.
    pose proof (bstep_err_explained c stream o rb rm) as HE.
    destruct (bstep c o rb) as [a calls rb'| |e] eqn:Eb.
    + destruct HS as (a' & rm' & Hms & Hcl & HR' & Hok).
      assert (Hk' : known_after o (clamp o a) known <= occupied (fst rb')).
      { destruct rb as [s sl]. destruct rm as [m ml]. cbn [fst] in Hk.
        pose proof HR as (HI & _). cbn [fst] in HI. pose proof HI as (Hl & Hce & Hec).
        destruct o as [n|n|n| |i|k n| | |k]; cbn [bstep fst snd] in Eb.
        - pose proof (sim_with_require c stream s sl m ml n (fun s' => ASize (occupied s')) HR) as HW.
          rewrite Eb in HW. destruct HW as (s' & -> & -> & _).
          cbn [clamp known_after fst]. lia.
        - pose proof (sim_with_require c stream s sl m ml n (fun s' => ASize (occupied s')) HR) as HW.
          rewrite Eb in HW. destruct HW as (s' & -> & -> & _).
          cbn [clamp known_after fst]. lia.
        - pose proof (sim_with_require c stream s sl m ml n (fun _ => AUnit) HR) as HW.
          rewrite Eb in HW. destruct HW as (s' & -> & -> & _ & _ & _ & _ & Hgrow & _).
          cbn [clamp known_after fst]. lia.
        - pose proof (sim_with_require c stream s sl m ml 1 (fun s' => AEmpty (cur s' =? end_ s')) HR) as HW.
          rewrite Eb in HW. destruct HW as (s' & -> & -> & _ & _ & _ & Hce' & Hgrow & _).
          cbn [clamp known_after fst].
          destruct (cur s' =? end_ s') eqn:Ee.
          + lia.
          + apply Nat.eqb_neq in Ee. unfold occupied in *. lia.
        - destruct (i <? occupied s); [|discriminate].
          destruct (nth_error (buf s) (cur s + i)); [|discriminate].
          inversion Eb; subst. cbn [clamp known_after fst]. assumption.
        - destruct (n <=? occupied s) eqn:En; [|discriminate].
          inversion Eb; subst. cbn [clamp known_after fst]. unfold occupied in *. cbn [cur end_]. lia.
        - pose proof (discard_spec c s HI) as HD. cbn zeta in HD.
          destruct (discard c s) as [s' moved]. cbn [fst snd] in HD.
          inversion Eb; subst. cbn [clamp known_after fst]. destruct HD as (_ & _ & Hocc & _). lia.
        - inversion Eb; subst. cbn [clamp known_after fst]. assumption.
        - destruct (nth_error sl k) as [it|]; [|discriminate].
          destruct (it_epoch it =? epoch s); [|discriminate].
          inversion Eb; subst. cbn [clamp known_after fst]. lia. }
      specialize (IH _ rb' rm' HR' Hk' Hd).
      destruct (brun_ops c tl rb') as [[l f] rf]. cbn [fst snd] in *. assumption.
    + cbn [fst snd]. split; discriminate.
    + cbn [fst snd]. specialize (HE e HR eq_refl).
      split; intros Heq; inversion Heq; subst e; cbn [err_explained] in HE.
      * destruct HE as (i & -> & Hi). cbn [allowed] in Hal. apply Nat.ltb_lt in Hal. lia.
      * destruct HE as (k & n & -> & Hn). cbn [allowed] in Hal. apply Nat.leb_le in Hal. lia.
Qed.

(* ================================================================== discard at safe points *)

Lemma bstep_slots : forall (c : bcfg) (o : op) (s : bstate) (sl : list biter) (a : ans) (calls : list rcall)
                           (s' : bstate) (sl' : list biter),
  Inv c s -> bstep c o (s, sl) = BDone a calls (s', sl') ->
  (o = OSave /\ sl' = sl ++ [mkit (cur s) (bpos s) (epoch s)] /\ epoch s' = epoch s) \/
  (o = ODiscard /\ sl' = sl) \/
  (o <> OSave /\ o <> ODiscard /\ sl' = sl /\ epoch s' = epoch s).
Proof.
  intros c o s sl a calls s' sl' HI H.
  assert (HW : forall n k, with_require c n (s, sl) k = BDone a calls (s', sl') -> sl' = sl /\ epoch s' = epoch s).
  { intros n k HWR. unfold with_require in HWR. cbn [fst snd] in HWR.
    pose proof (require_spec c n s HI) as HS.
    destruct (require c n s) as [s1 calls1| |]; try discriminate.
    inversion HWR; subst. destruct HS as (_ & _ & _ & He & _). split; [reflexivity|assumption]. }
  destruct o as [n|n|n| |i|k n| | |k]; cbn [bstep fst snd] in H.
  - right. right. destruct (HW _ _ H). repeat split; try discriminate; assumption.
  - right. right. destruct (HW _ _ H). repeat split; try discriminate; assumption.
  - right. right. destruct (HW _ _ H). repeat split; try discriminate; assumption.
  - right. right. destruct (HW _ _ H). repeat split; try discriminate; assumption.
  - right. right. destruct (i <? occupied s); [|discriminate].
    destruct (nth_error (buf s) (cur s + i)); [|discriminate]. inversion H; subst.
    repeat split; discriminate.
  - right. right. destruct (n <=? occupied s); [|discriminate]. inversion H; subst.
    repeat split; discriminate.
  - right. left. destruct (discard c s). inversion H; subst. split; reflexivity.
  - left. inversion H; subst. repeat split; reflexivity.
  - right. right. destruct (nth_error sl k) as [it|]; [|discriminate].
    destruct (it_epoch it =? epoch s); [|discriminate]. inversion H; subst.
    repeat split; discriminate.
Qed.

Definition fresh_inv (nslots fresh_from : nat) (rb : brun) : Prop :=
  length (snd rb) = nslots /\ fresh_from <= nslots /\
  forall k it, fresh_from <= k -> nth_error (snd rb) k = Some it -> it_epoch it = epoch (fst rb).

Lemma restores_fresh_run : forall (c : bcfg) (stream : list byte) (ops : list op) (nslots ff : nat) (rb : brun) (rm : mrun),
  R c stream rb rm -> fresh_inv nslots ff rb -> restores_fresh nslots ff ops = true ->
  snd (fst (brun_ops c ops rb)) <> SErr EStaleRewind.
Proof.
  intros c stream ops. induction ops as [|o tl IH]; intros nslots ff rb rm HR HF Hrf.
  - cbn [brun_ops fst snd]. discriminate.
  - cbn [brun_ops].
    pose proof (sim_step c stream o rb rm HR) as HS.
    pose proof (bstep_err_explained c stream o rb rm) as HE.
    destruct (bstep c o rb) as [a calls rb'| |e] eqn:Eb.
    + destruct HS as (a' & rm' & Hms & Hcl & HR' & Hok).
      destruct rb as [s sl]. destruct rb' as [s' sl'].
      pose proof HR as (HI & _). cbn [fst] in HI.
      destruct HF as (Hlen & Hff & Hfresh). cbn [fst snd] in *.
      assert (Hnext : exists nslots' ff', fresh_inv nslots' ff' (s', sl') /\ restores_fresh nslots' ff' tl = true).
      { destruct (bstep_slots c o s sl a calls s' sl' HI Eb) as [(-> & -> & He)|[(-> & ->)|(Hns & Hnd & -> & He)]].
        - exists (S nslots), ff. cbn [restores_fresh] in Hrf. split; [|assumption].
          unfold fresh_inv. cbn [fst snd]. rewrite app_length. cbn [length].
          split; [lia|]. split; [lia|]. intros k it Hk Hn.
          destruct (Nat.lt_ge_cases k (length sl)) as [Hlt|Hge].
          + rewrite nth_error_app1 in Hn by assumption. rewrite He. apply (Hfresh k); assumption.
          + rewrite nth_error_app2 in Hn by assumption.
            destruct (k - length sl) as [|j]; cbn [nth_error] in Hn.
            * inversion Hn; subst. cbn [it_epoch]. symmetry. assumption.
            * destruct j; discriminate.
        - exists nslots, nslots. cbn [restores_fresh] in Hrf. split; [|assumption].
          unfold fresh_inv. cbn [fst snd]. split; [assumption|]. split; [lia|].
          intros k it Hk Hn. exfalso. assert (Hsome : nth_error sl k <> None) by congruence.
          apply nth_error_Some in Hsome. lia.
        - exists nslots, ff. split.
          + unfold fresh_inv. cbn [fst snd]. split; [assumption|]. split; [assumption|].
            intros k it Hk Hn. rewrite He. apply (Hfresh k); assumption.
          + destruct o; cbn [restores_fresh] in Hrf; try assumption; try congruence.
            apply andb_true_iff in Hrf. apply Hrf. }
      destruct Hnext as (nslots' & ff' & HF' & Hrf').
      specialize (IH nslots' ff' (s', sl') rm' HR' HF' Hrf').
      destruct (brun_ops c tl (s', sl')) as [[l f] rf]. cbn [fst snd] in *. assumption.
    + cbn [fst snd]. discriminate.
    + cbn [fst snd]. specialize (HE e HR eq_refl). intros Heq. inversion Heq; subst e.
      cbn [err_explained] in HE. destruct HE as (k & it & -> & Hn & Hlt).
      cbn [restores_fresh] in Hrf. apply andb_true_iff in Hrf. destruct Hrf as (Hk & _).
      apply Nat.leb_le in Hk. destruct HF as (_ & _ & Hfresh).
      specialize (Hfresh k it Hk Hn). lia.
Qed.

(* ================================================================== discards are invisible *)

Definition prefix {A : Type} (a b : list A) : Prop := exists t, b = a ++ t.

Lemma strip_obs_firstn : forall (k : nat) (l : list obs), prefix (strip_obs (firstn k l)) (strip_obs l).
Proof.
  intros k l. exists (strip_obs (skipn k l)). unfold strip_obs.
  rewrite <- filter_app, firstn_skipn. reflexivity.
Qed.

(* on the memory machine a discard is a no-op: removing all discards from a client removes
   exactly the discard entries from its observation log *)
Lemma mrun_strip : forall (ch : N) (ops : list op) (rm : mrun),
  strip_obs (mobs ops (fst (fst (mrun_ops ch ops rm)))) = mobs (strip ops) (fst (fst (mrun_ops ch (strip ops) rm))).
Proof.
  intros ch ops. induction ops as [|o tl IH]; intros rm.
  - reflexivity.
  - destruct o as [n|n|n| |i|k n| | |k].
    7: { cbn [strip filter is_discard negb mrun_ops mstep]. fold (strip tl).
         specialize (IH rm). destruct (mrun_ops ch tl rm) as [[l f] rf]. cbn [fst snd] in *.
         rewrite mobs_cons. unfold strip_obs at 1. cbn [filter fst is_discard negb]. exact IH. }
    all: cbn [strip filter is_discard negb mrun_ops]; fold (strip tl);
      match goal with |- context [mstep ?cc ?o ?rr] => destruct (mstep cc o rr) as [a rm'|e] end;
      [ specialize (IH rm'); destruct (mrun_ops ch tl rm') as [[l f] rf];
        destruct (mrun_ops ch (strip tl) rm') as [[l' f'] rf']; cbn [fst snd] in *;
        rewrite !mobs_cons; unfold strip_obs at 1; cbn [filter fst is_discard negb];
        fold (strip_obs (mobs tl l)); rewrite IH; reflexivity
      | reflexivity ].
Qed.

(* ================================================================== top-level statements *)

Lemma mobs_length : forall (ops : list op) (l : list (ans * pos)),
  length (mobs ops l) = Nat.min (length ops) (length l).
Proof. intros ops l. unfold mobs. rewrite map_length. apply combine_length. Qed.

(* C07_refines *)
Theorem refines : forall (c : bcfg) (stream : list byte) (schedule : list nat) (g : list byte) (ops : list op)
                         lb fb rbf lm fm rmf,
  length g = cap c ->
  brun_ops c ops (binit c stream schedule g) = (lb, fb, rbf) ->
  mrun_ops (eolc c) ops (minit stream) = (lm, fm, rmf) ->
  bobs ops lb = firstn (length lb) (mobs ops lm) /\
  length lb <= length lm /\
  stop_explained c ops lb fb rbf lm fm /\
  (fb = SDone -> bobs ops lb = mobs ops lm /\ fm = SDone).
Proof.
  intros c stream schedule g ops lb fb rbf lm fm rmf Hg Hb Hm.
  destruct (sim_run c stream ops _ _ (R_init c stream schedule g Hg) _ _ _ _ _ _ Hb Hm)
    as (H1 & H2 & _ & _ & _ & H6).
  split; [assumption|]. split; [assumption|]. split; [assumption|].
  intros Hd. subst fb. cbn [stop_explained] in H6. destruct H6 as (Hfm & Hlb & Hlm).
  split; [|assumption]. rewrite H1. apply firstn_all2. rewrite mobs_length. lia.
Qed.

(* the abstraction function of the refinement *)
Definition abstracts (stream : list byte) (s : bstate) : Prop :=
  exists consumed, consumed ++ window s ++ stream_rest (rdr s) = stream /\
                   pbyte (bpos s) = N.of_nat (length consumed).

Lemma R_abstracts : forall (c : bcfg) (stream : list byte) (rb : brun) (rm : mrun),
  R c stream rb rm -> abstracts stream (fst rb).
Proof.
  intros c stream rb rm (_ & Hrest & Hpos & (pre & Hpre & Hpb) & _).
  exists pre. split.
  - rewrite <- Hpre, Hrest. reflexivity.
  - rewrite <- Hpos. assumption.
Qed.

(* C07_no_corruption *)
Theorem no_corruption : forall (c : bcfg) (stream : list byte) (schedule : list nat) (g : list byte) (ops : list op)
                               lb fb rbf,
  length g = cap c ->
  brun_ops c ops (binit c stream schedule g) = (lb, fb, rbf) ->
  Inv c (fst rbf) /\ abstracts stream (fst rbf) /\
  Forall (fun e => Forall (call_ok c) (be_calls e)) lb /\
  fb <> SErr EFuel.
Proof.
  intros c stream schedule g ops lb fb rbf Hg Hb.
  destruct (mrun_ops (eolc c) ops (minit stream)) as [[lm fm] rmf] eqn:Hm.
  destruct (sim_run c stream ops _ _ (R_init c stream schedule g Hg) _ _ _ _ _ _ Hb Hm)
    as (_ & _ & H3 & (rm' & HR') & _ & H6).
  split; [apply HR'|]. split; [apply (R_abstracts c stream rbf rm'); assumption|].
  split; [assumption|].
  intros Hf. subst fb. cbn [stop_explained] in H6. destruct H6 as (o & _ & Hex & _). exact Hex.
Qed.

Lemma discard_window : forall (c : bcfg) (s : bstate),
  Inv c s -> window (fst (discard c s)) = window s /\ Inv c (fst (discard c s)) /\
             bpos (fst (discard c s)) = bpos s /\ rdr (fst (discard c s)) = rdr s.
Proof.
  intros c s HI. pose proof (discard_spec c s HI) as HD. cbn zeta in HD.
  destruct HD as (H1 & H2 & _ & _ & H5 & H6 & _). repeat split; assumption || apply H1.
Qed.

(* Buffer Details, point 1+2: after a discard at least `maximum` bytes can be required *)
Lemma discard_then_fits : forall (c : bcfg) (s : bstate) (n : nat),
  Inv c s -> n <= maxi c -> require c n (fst (discard c s)) <> RqOverflow.
Proof.
  intros c s n HI Hn. pose proof (discard_spec c s HI) as HD. cbn zeta in HD.
  destruct HD as (_ & _ & _ & Hcur & _).
  unfold require. destruct (cur (fst (discard c s)) + n <=? end_ (fst (discard c s))); [discriminate|].
  destruct (cap c <? cur (fst (discard c s)) + n) eqn:E.
  - apply Nat.ltb_lt in E. unfold cap in E. lia.
  - destruct (require_loop _ c n (fst (discard c s))) as [[s' calls]|]; discriminate.
Qed.

(* C07_discard_safe, part 1: wherever discards are placed (and whatever the buffer size, chunk
   size and reader schedule), the answers to all other operations are a prefix of one and
   the same list - the answers of the memory input *)
Theorem discard_independent : forall (c c' : bcfg) (stream : list byte) (sch sch' : list nat) (g g' : list byte)
                                     (ops ops' : list op),
  eolc c = eolc c' -> length g = cap c -> length g' = cap c' -> strip ops = strip ops' ->
  exists L,
    prefix (strip_obs (bobs ops (fst (fst (brun_ops c ops (binit c stream sch g)))))) L /\
    prefix (strip_obs (bobs ops' (fst (fst (brun_ops c' ops' (binit c' stream sch' g')))))) L.
Proof.
  intros c c' stream sch sch' g g' ops ops' He Hg Hg' Hs.
  exists (mobs (strip ops) (fst (fst (mrun_ops (eolc c) (strip ops) (minit stream))))).
  split.
  - destruct (brun_ops c ops (binit c stream sch g)) as [[lb fb] rbf] eqn:Hb.
    destruct (mrun_ops (eolc c) ops (minit stream)) as [[lm fm] rmf] eqn:Hm.
    destruct (refines c stream sch g ops _ _ _ _ _ _ Hg Hb Hm) as (H1 & _).
    cbn [fst]. rewrite H1. rewrite <- mrun_strip. rewrite Hm. cbn [fst]. apply strip_obs_firstn.
  - destruct (brun_ops c' ops' (binit c' stream sch' g')) as [[lb fb] rbf] eqn:Hb.
    destruct (mrun_ops (eolc c') ops' (minit stream)) as [[lm fm] rmf] eqn:Hm.
    destruct (refines c' stream sch' g' ops' _ _ _ _ _ _ Hg' Hb Hm) as (H1 & _).
    cbn [fst]. rewrite H1. rewrite He, Hs. rewrite <- mrun_strip. rewrite Hm. cbn [fst]. apply strip_obs_firstn.
Qed.

(* C07_discard_safe, part 2: the one thing a discard can break is a later restore of an
   inputerator saved before it *)
Theorem discard_safe_points : forall (c : bcfg) (stream : list byte) (schedule : list nat) (g : list byte) (ops : list op),
  length g = cap c -> restores_fresh 0 0 ops = true ->
  snd (fst (brun_ops c ops (binit c stream schedule g))) <> SErr EStaleRewind.
Proof.
  intros c stream schedule g ops Hg Hrf.
  apply (restores_fresh_run c stream ops 0 0 _ (minit stream)); [apply R_init; assumption| |assumption].
  unfold fresh_inv, binit. cbn [fst snd length]. split; [reflexivity|]. split; [lia|].
  intros k it _ Hn. destruct k; discriminate.
Qed.

(* a disciplined client (peeks and bumps only below what size()/empty() answered, clamped at
   the amount asked for) never touches bytes outside the window *)
Theorem disciplined_in_window : forall (c : bcfg) (stream : list byte) (schedule : list nat) (g : list byte) (ops : list op),
  length g = cap c -> disciplined c 0 ops (binit c stream schedule g) = true ->
  snd (fst (brun_ops c ops (binit c stream schedule g))) <> SErr EPeekWindow /\
  snd (fst (brun_ops c ops (binit c stream schedule g))) <> SErr EBumpWindow.
Proof.
  intros c stream schedule g ops Hg Hd.
  apply (disciplined_run c stream ops 0 _ (minit stream)); [apply R_init; assumption|lia|assumption].
Qed.

(* ================================================================== the pre-fix require() *)

Definition abc2 : list byte := [97; 98; 99; 97; 98; 99]%N.
Definition cfg82 : bcfg := mkcfg 8 2 10%N.

(* with require() as it was before c67e147 (one reader call) a reader that delivers one byte
   per call - legal - breaks the contract: 1 byte buffered, 3 requested, 6 available *)
Lemma require_once_refuted :
  exists (c : bcfg) (n : nat) (s s' : bstate) (calls : list rcall),
    Inv c s /\ require_once c n s = RqOk s' calls /\
    occupied s' < Nat.min n (length (remaining_from s (cur s))).
Proof.
  exists cfg82, 3, (fst (binit0 cfg82 abc2 [1; 1; 1; 1; 1; 1])).
  eexists. eexists. split; [|split].
  - unfold Inv. vm_compute. repeat split; lia.
  - vm_compute. reflexivity.
  - vm_compute. lia.
Qed.

(* ================================================================== adaptive clients *)

Lemma mplay_extends : forall (fuel : nat) (ch : N) (st : strategy) (hist : list obs) (rm : mrun),
  prefix hist (fst (mplay fuel ch st hist rm)).
Proof.
  intros fuel. induction fuel as [|f IH]; intros ch st hist rm.
  - exists []. cbn [mplay fst]. symmetry. apply app_nil_r.
  - cbn [mplay]. destruct (st hist) as [o|].
    + destruct (mstep ch o rm) as [a rm'|e].
      * destruct (IH ch st (hist ++ [(o, clamp o a, cpos (fst rm'))]) rm') as (t & Ht).
        exists ((o, clamp o a, cpos (fst rm')) :: t). rewrite Ht. rewrite <- app_assoc. reflexivity.
      * exists []. cbn [fst]. symmetry. apply app_nil_r.
    + exists []. cbn [fst]. symmetry. apply app_nil_r.
Qed.

(* a client that chooses every next operation from the (clamped) answers so far sees the same
   history on the buffer input as on the memory input - as far as the buffer run gets; and
   when the buffer run finishes, the memory run finishes with the identical history *)
Theorem adaptive : forall (fuel : nat) (c : bcfg) (stream : list byte) (st : strategy) (hist : list obs)
                          (rb : brun) (rm : mrun),
  R c stream rb rm ->
  prefix (fst (bplay fuel c st hist rb)) (fst (mplay fuel (eolc c) st hist rm)) /\
  (snd (bplay fuel c st hist rb) = SDone -> mplay fuel (eolc c) st hist rm = bplay fuel c st hist rb) /\
  snd (bplay fuel c st hist rb) <> SErr EFuel.
Proof.
  intros fuel. induction fuel as [|f IH]; intros c stream st hist rb rm HR.
  - cbn [bplay mplay fst snd]. split; [exists []; symmetry; apply app_nil_r|]. split; [reflexivity|discriminate].
  - pose proof (mplay_extends (S f) (eolc c) st hist rm) as Hext.
    cbn [bplay mplay]. cbn [mplay] in Hext. destruct (st hist) as [o|].
    + pose proof (sim_step c stream o rb rm HR) as HS.
      destruct (bstep c o rb) as [a calls rb'| |e] eqn:Eb.
      * destruct HS as (a' & rm' & Hms & Hcl & HR' & _). rewrite Hms.
        assert (Hp : cpos (fst rm') = bpos (fst rb')) by apply HR'.
        rewrite <- Hcl, Hp. apply (IH c stream); assumption.
      * cbn [fst snd]. split; [exact Hext|]. split; discriminate.
      * cbn [fst snd]. split; [exact Hext|]. split; [discriminate|].
        destruct HS as (Hne & _). congruence.
    + cbn [fst snd]. split; [exists []; symmetry; apply app_nil_r|]. split; [reflexivity|discriminate].
Qed.

Theorem adaptive_init : forall (fuel : nat) (c : bcfg) (stream : list byte) (schedule : list nat) (g : list byte) (st : strategy),
  length g = cap c ->
  prefix (fst (bplay fuel c st [] (binit c stream schedule g))) (fst (mplay fuel (eolc c) st [] (minit stream))) /\
  (snd (bplay fuel c st [] (binit c stream schedule g)) = SDone ->
   mplay fuel (eolc c) st [] (minit stream) = bplay fuel c st [] (binit c stream schedule g)) /\
  snd (bplay fuel c st [] (binit c stream schedule g)) <> SErr EFuel.
Proof.
  intros fuel c stream schedule g st Hg. apply (adaptive fuel c stream). apply R_init. assumption.
Qed.

(* ================================================================== size_t( -1 ): the pointer wrap *)

(* known finding: with amount = 2^64 - 1 (internal::everything) the wrapped test succeeds although
   nothing is buffered, so require() returns at once and size() answers buffer_occupied() = 0 *)
Lemma everything_wrap_refuted :
  exists base cur e amount : N,
    (base + e < 2 ^ 64)%N /\ (amount < 2 ^ 64)%N /\ (cur <= e)%N /\
    early_return_wrapped base cur e amount = true /\ ~ (cur + amount <= e)%N.
Proof.
  exists 4096%N, 0%N, 0%N, (2 ^ 64 - 1)%N.
  split; [vm_compute; reflexivity|]. split; [vm_compute; reflexivity|].
  split; [vm_compute; discriminate|]. split; [vm_compute; reflexivity|].
  vm_compute. intros H. apply H. reflexivity.
Qed.

(* without wrap-around the machine's test is the model's test *)
Lemma everything_wrap_partial : forall base cur e amount : N,
  (base + cur + amount < 2 ^ 64)%N ->
  early_return_wrapped base cur e amount = (cur + amount <=? e)%N.
Proof.
  intros base cur e amount H. unfold early_return_wrapped.
  rewrite N.mod_small by assumption.
  destruct (cur + amount <=? e)%N eqn:E.
  - apply N.leb_le in E. apply N.leb_le. lia.
  - apply N.leb_gt in E. apply N.leb_gt. lia.
Qed.
