(* UriCompleteV6.v — C20: completeness (hence exactness) of uri::IPv6address on the generated table, by the
   computed certificate of UriComplete.v (split from UriComplete.v: the certificate takes minutes to evaluate). *)
From PegtlV Require Import Base Grammar Engine ExactSound Regex Rfc3986 UriModel UriProof UriComplete.

Lemma complete_IPv6address : forall s, bytes_ok s -> matches (rfc TIPv6address) s -> uri_accepts TIPv6address s.
Proof. apply complete_of_cert. vm_cast_no_check (eq_refl true). Qed.

Lemma exact_IPv6address : forall s, bytes_ok s -> (uri_accepts TIPv6address s <-> matches (rfc TIPv6address) s).
Proof. intros s Hs. split; [apply sound_IPv6address; exact Hs | apply complete_IPv6address; exact Hs]. Qed.

(* the same certificate re-derives completeness of uri::IPv4address (UriProof.complete_IPv4address proves it by hand) *)
Lemma complete_IPv4address_cert : forall s, bytes_ok s -> matches (rfc TIPv4address) s -> uri_accepts TIPv4address s.
Proof. apply complete_of_cert. vm_cast_no_check (eq_refl true). Qed.
