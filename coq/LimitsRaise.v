(* LimitsRaise.v — C18, part 5: the depth error as the OUTCOME of the run, and limit_bytes over whole runs.
   depth_raises   (tables without try_catch heads, uniform guards) if the unguarded run nests deeper than
                  allowed, the guarded run ENDS in  Exc (EParse WLimitDepth p):  its log is a prefix that stays
                  within the limits and throws nothing, then the guarded entry at p that would push the
                  counter beyond its limit, the raise at p, and unwinding only — LimitsDepth.depth_exceeds (the
                  log contains the raise) + RaiseFacts.first_exception (C05_propagation: the exception that
                  reaches the top is the first one thrown, unchanged) + the RAII counter machine
   depth_exact    outcome of the guarded run = outcome of the unguarded run iff the nesting stays within
                  the limits (then cursor and log agree too), else that exception
   bytes_whole    in the log of ANY run, every invocation frame of a limit_bytes< n > rule spans at most n
                  bytes, and exactly n when the frame is left by the limit_bytes raise (generic log induction
                  of LimitsLog.v, the frame closed by the per-evaluation lemmas of LimitsFacts.v) *)
From Coq Require Import Lia.
From PegtlV Require Import Base Decode Grammar Engine EngineFacts AtomFacts RaiseFacts.
From PegtlV Require Import LimitsSpec LimitsFacts LimitsLog LimitsSim LimitsDepth.
Require PegtlV.RaisePos.

(* ================================================================ the depth raise sits right behind its entry *)
Definition ld_behind_entry (evs : list event) : Prop :=
  forall pre ctl p post, evs = pre ++ ERaise ctl WLimitDepth p :: post ->
    exists pre0 r a m, pre = pre0 ++ [EEnter ctl r a m p].

Lemma lbe_nil : ld_behind_entry [].
Proof. intros pre ctl p post H. destruct pre; discriminate H. Qed.
Lemma lbe_one e : is_ld_raise e = false -> ld_behind_entry [e].
Proof.
  intros He pre ctl p post H. destruct pre as [|e1 pre]; [inversion H; subst; discriminate He|].
  inversion H as [[H1 H2]]. destruct pre; discriminate H2.
Qed.
Lemma lbe_app a b : ld_behind_entry a -> ld_behind_entry b -> ld_behind_entry (a ++ b).
Proof.
  intros Ha Hb pre ctl p post H. apply app_eq_app in H. destruct H as [l [[H1 H2]|[H1 H2]]].
  - (* a = pre ++ l, raise :: post = l ++ b *)
    destruct l as [|x l].
    + simpl in H2. symmetry in H2. destruct (Hb [] ctl p post H2) as [pre0 [r [a0 [m H]]]]. destruct pre0; discriminate H.
    + inversion H2; subst x. exact (Ha pre ctl p l H1).
  - (* pre = a ++ l, b = l ++ raise :: post *)
    destruct (Hb l ctl p post H2) as [pre0 [r [a0 [m H]]]]. exists (a ++ pre0), r, a0, m. rewrite H1, H, app_assoc. reflexivity.
Qed.
Lemma lbe_frame ctl r a m p o p' evs : ld_behind_entry evs -> ld_behind_entry (EEnter ctl r a m p :: evs ++ [EExit ctl r o p']).
Proof.
  intros H. change (ld_behind_entry ([EEnter ctl r a m p] ++ evs ++ [EExit ctl r o p'])).
  apply lbe_app; [apply lbe_one; reflexivity|]. apply lbe_app; [exact H | apply lbe_one; reflexivity].
Qed.
Lemma lbe_raise ctl r a m p : ld_behind_entry [EEnter ctl r a m p; ERaise ctl WLimitDepth p; EExit ctl r None p].
Proof.
  intros pre ctl' p' post H. destruct pre as [|e1 [|e2 [|e3 pre]]]; try discriminate H.
  - inversion H; subst. exists [], r, a, m. reflexivity.
  - inversion H as [[H1 H2 H3 H4]]. destruct pre; discriminate H4.
Qed.

Theorem eval_ld_behind_entry G C f d r c o c' evs : eval G C f d r c = Res o c' evs -> ld_behind_entry evs.
Proof.
  intros He.
  pose proof (eval_L G C (fun _ => True) (fun _ _ _ _ _ => I) (fun _ _ _ _ _ => I) (fun _ evs => ld_behind_entry evs)) as T.
  assert (X : GoodL (fun _ evs => ld_behind_entry evs) (dDepth d) (eval G C f d r c)).
  { apply T; try exact I.
    - intros _. apply lbe_nil.
    - intros _ a b. apply lbe_app.
    - intros _ e Hn. apply lbe_one. apply neutral_not_ld. exact Hn.
    - intros. apply lbe_frame. assumption.
    - intros. apply lbe_frame. assumption.
    - intros. apply lbe_raise. }
  rewrite He in X. exact X.
Qed.

(* ================================================================ the counter machine up to the first raise *)
Lemma machine_prefix lim : forall evs k j, has_ld evs = false -> mrun lim (MNormal k) evs = MNormal j ->
  within lim k evs = true /\ cnt lim k evs = j.
Proof.
  induction evs as [|e evs IH]; intros k j Hl Hm; [simpl in Hm; inversion Hm; split; reflexivity|].
  unfold has_ld in Hl. simpl in Hl. apply orb_false_iff in Hl. destruct Hl as [He Hl].
  change (mrun lim (mstep lim (MNormal k) e) evs = MNormal j) in Hm.
  destruct e; simpl in Hm |- *; try (eapply IH; eauto; fail).
  - destruct w; simpl in He; try discriminate; eapply IH; eauto.
  - destruct (lim r) as [n|]; [|eapply IH; eauto].
    destruct (n <? S k)%nat eqn:E.
    + exfalso. destruct evs as [|e2 evs]; [simpl in Hm; discriminate|].
      unfold has_ld in Hl. simpl in Hl. apply orb_false_iff in Hl. destruct Hl as [He2 _].
      change (mrun lim (mstep lim (MExpectRaise k r) e2) evs = MNormal j) in Hm.
      destruct e2; simpl in Hm; try (rewrite mrun_bad in Hm; discriminate).
      destruct w; simpl in He2; try discriminate; simpl in Hm; rewrite mrun_bad in Hm; discriminate.
    + apply Nat.ltb_ge in E. destruct (IH (S k) j Hl Hm) as [I1 I2]. split; [|exact I2].
      apply andb_true_iff. split; [destruct n as [|n']; [lia | apply Nat.leb_le; lia] | exact I1].
  - destruct (lim r) as [n|]; [|eapply IH; eauto].
    destruct k as [|k']; [rewrite mrun_bad in Hm; discriminate|]. simpl. eapply IH; eauto.
Qed.

(* a prefix without depth raise leaves the machine in a normal state, about to expect the raise, or stuck *)
Lemma machine_states lim : forall evs s, has_ld evs = false ->
  (exists k, s = MNormal k) \/ (exists k r, s = MExpectRaise k r) \/ s = MBad ->
  (exists k, mrun lim s evs = MNormal k) \/ (exists k r, mrun lim s evs = MExpectRaise k r) \/ mrun lim s evs = MBad.
Proof.
  induction evs as [|e evs IH]; intros s Hl Hs; [exact Hs|].
  unfold has_ld in Hl. simpl in Hl. apply orb_false_iff in Hl. destruct Hl as [He Hl].
  change (mrun lim s (e :: evs)) with (mrun lim (mstep lim s e) evs). apply IH; [exact Hl|].
  destruct Hs as [[k ->]|[[k [r ->]]| ->]].
  - destruct e; simpl; eauto.
    + destruct w; simpl in He; try discriminate; eauto.
    + destruct (lim r); eauto. destruct (n <? S k)%nat; eauto.
    + destruct (lim r); eauto. destruct k; eauto.
  - right. right. destruct e; simpl; try reflexivity. destruct w; simpl in He; try discriminate; reflexivity.
  - right. right. reflexivity.
Qed.

Lemma machine_at_raise lim pre ctl r a m p ctl' p' post k k' :
  has_ld pre = false ->
  mrun lim (MNormal k) (pre ++ EEnter ctl r a m p :: ERaise ctl' WLimitDepth p' :: post) = MNormal k' ->
  within lim k pre = true /\ exists n, lim r = Some n /\ (n < S (cnt lim k pre))%nat.
Proof.
  intros Hl Hm. rewrite mrun_app in Hm.
  destruct (machine_states lim pre (MNormal k) Hl (or_introl (ex_intro _ k eq_refl))) as [[j Hj]|[[j [r0 Hj]]|Hj]]; rewrite Hj in Hm.
  - destruct (machine_prefix lim pre k j Hl Hj) as [W Cn]. split; [exact W|]. rewrite Cn.
    change (mrun lim (mstep lim (mstep lim (MNormal j) (EEnter ctl r a m p)) (ERaise ctl' WLimitDepth p')) post = MNormal k') in Hm.
    simpl in Hm. destruct (lim r) as [n|]; [|simpl in Hm; rewrite mrun_bad in Hm; discriminate].
    destruct (n <? S j)%nat eqn:E; [|simpl in Hm; rewrite mrun_bad in Hm; discriminate].
    exists n. split; [reflexivity | apply Nat.ltb_lt; exact E].
  - simpl in Hm. rewrite mrun_bad in Hm. discriminate.
  - rewrite mrun_bad in Hm. discriminate.
Qed.

(* ================================================================ events that throw nothing are not depth raises *)
Lemma quiet_not_ld C e : quiet C e -> is_ld_raise e = false.
Proof. destruct e; simpl; try reflexivity. contradiction. Qed.
Lemma quiet_no_ld C l : Forall (quiet C) l -> has_ld l = false.
Proof.
  induction 1 as [|e l He _ IH]; [reflexivity|]. unfold has_ld in *. simpl. rewrite (quiet_not_ld C e He). exact IH.
Qed.
Lemma unwinding_not_ld e : unwinding e -> is_ld_raise e = false.
Proof. destruct e; simpl; try reflexivity. contradiction. Qed.
Lemma unwinding_no_ld l : Forall unwinding l -> has_ld l = false.
Proof.
  induction 1 as [|e l He _ IH]; [reflexivity|]. unfold has_ld in *. simpl. rewrite (unwinding_not_ld e He). exact IH.
Qed.

(* the unguarded configuration never raises the depth error *)
Lemma strip_active G C fam r : active G (strip_depth C) fam r = None.
Proof.
  unfold active. destruct (nth_error G r) as [nd|]; [|reflexivity]. destruct (nenabled nd); [|reflexivity].
  cbn [strip_depth acts]. destruct (acts C fam r) as [| | |[]]; reflexivity.
Qed.
Theorem strip_no_ld G C f d r c o c' evs : eval G (strip_depth C) f d r c = Res o c' evs -> has_ld evs = false.
Proof.
  intros He.
  pose proof (eval_L G (strip_depth C) (fun _ => True) (fun _ _ _ _ _ => I) (fun _ _ _ _ _ => I) (fun _ evs => has_ld evs = false)) as T.
  assert (X : GoodL (fun _ evs => has_ld evs = false) (dDepth d) (eval G (strip_depth C) f d r c)).
  { apply T; try exact I.
    - reflexivity.
    - intros _ a b Ha Hb. rewrite has_ld_app, Ha, Hb. reflexivity.
    - intros _ e Hn. unfold has_ld. simpl. rewrite (neutral_not_ld e Hn). reflexivity.
    - intros fam k ctl r0 a m p o0 p' evs0 _ _ Hb.
      change (EEnter ctl r0 a m p :: evs0 ++ [EExit ctl r0 o0 p']) with ([EEnter ctl r0 a m p] ++ evs0 ++ [EExit ctl r0 o0 p']).
      rewrite !has_ld_app, Hb. reflexivity.
    - intros fam k n ctl r0 a m p o0 p' evs0 _ Hact. rewrite strip_active in Hact. discriminate Hact.
    - intros fam k n ctl r0 a m p _ Hact. rewrite strip_active in Hact. discriminate Hact. }
  rewrite He in X. exact X.
Qed.

(* ================================================================ the run ends in the depth error *)
(* the log of a run that ends in the depth error raised at p *)
Definition ends_in_depth_error (C : cfg) (lim : rid -> option nat) (k : nat) (p : pos) (evs : list event) : Prop :=
  exists pre ctl r a m n post,
    evs = pre ++ EEnter ctl r a m p :: ERaise ctl WLimitDepth p :: post /\
    Forall (quiet C) pre /\ within lim k pre = true /\            (* nothing thrown, every guarded entry within its limit so far *)
    lim r = Some n /\ (n < S (cnt lim k pre))%nat /\              (* this entry of the guarded rule r would exceed: the FIRST one *)
    Forall unwinding post.                                        (* nothing but unwinding afterwards *)

Section Raises.
Variable G : grammar.
Variable C : cfg.
Variable Fams : nat -> Prop.
Variable lim : rid -> option nat.
Hypothesis Hnc : no_catch G.
Hypothesis Hact_nodes : forall r nd fam, nth_error G r = Some nd -> nhead nd = HAction fam -> Fams fam.
Hypothesis Hact_change : forall fam r fam', Fams fam ->
  acts C fam r = AKMatch (MChangeAction fam') \/ acts C fam r = AKMatch (MChangeActionAndState fam') -> Fams fam'.
Hypothesis Huni : forall fam r, Fams fam -> active G C fam r = lim r.

(* a guarded run whose log contains the depth raise ends in it *)
Lemma raise_is_outcome f d r c o c' evs :
  Fams (dAct d) -> eval G C f d r c = Res o c' evs -> has_ld evs = true ->
  exists p, o = Exc (EParse WLimitDepth p) /\ ends_in_depth_error C lim (dDepth d) p evs.
Proof.
  intros Hf He Hl.
  pose proof (first_exception G C f d r c o c' evs Hnc He) as Hp.
  pose proof (depth_machine G C Fams lim Hact_nodes Hact_change Huni f d r c o c' evs Hf He) as Hm.
  pose proof (eval_ld_behind_entry G C f d r c o c' evs He) as Hb.
  destruct o as [| |e].
  - rewrite (quiet_no_ld C evs Hp) in Hl. discriminate Hl.
  - rewrite (quiet_no_ld C evs Hp) in Hl. discriminate Hl.
  - destruct Hp as [pre [post [Hq [Hu [[x [Hx Ht]]|[p [_ Hx]]]]]]].
    + assert (Hxl : is_ld_raise x = true).
      { rewrite Hx in Hl. change (pre ++ x :: post) with (pre ++ [x] ++ post) in Hl.
        rewrite !has_ld_app, (quiet_no_ld C pre Hq), (unwinding_no_ld post Hu) in Hl. unfold has_ld in Hl. simpl in Hl.
        rewrite !orb_false_r in Hl. exact Hl. }
      destruct x; try discriminate Hxl. destruct w; try discriminate Hxl. simpl in Ht. subst e.
      exists p. split; [reflexivity|].
      destruct (Hb pre ctl p post Hx) as [pre0 [r0 [a [m Hpre]]]]. subst pre.
      rewrite <- app_assoc in Hx. simpl in Hx.
      apply Forall_app in Hq. destruct Hq as [Hq0 _].
      rewrite Hx in Hm.
      destruct (machine_at_raise lim pre0 ctl r0 a m p ctl p post _ _ (quiet_no_ld C pre0 Hq0) Hm) as [W [n [Hn Hlt]]].
      exists pre0, ctl, r0, a, m, n, post. repeat split; assumption.
    + rewrite Hx, has_ld_app, (quiet_no_ld C pre Hq), (unwinding_no_ld post Hu) in Hl. discriminate Hl.
Qed.

(* C18_depth_raises *)
Theorem depth_raises f d r c k o0 c0 evs0 o1 c1 evs1 :
  Fams (dAct d) ->
  eval G (strip_depth C) f d r c = Res o0 c0 evs0 -> within lim k evs0 = false ->
  eval G C f (set_depth d k) r c = Res o1 c1 evs1 ->
  exists p, o1 = Exc (EParse WLimitDepth p) /\ ends_in_depth_error C lim k p evs1.
Proof.
  intros Hf H0 Hw H1.
  pose proof (depth_exceeds G C Fams lim Hact_nodes Hact_change Huni f d r c k o0 c0 evs0 o1 c1 evs1 Hf H0 Hw H1) as Hl.
  exact (raise_is_outcome f (set_depth d k) r c o1 c1 evs1 Hf H1 Hl).
Qed.

(* the unguarded run never ends in the depth error *)
Lemma strip_outcome f d r c o c' evs : eval G (strip_depth C) f d r c = Res o c' evs -> forall p, o <> Exc (EParse WLimitDepth p).
Proof.
  intros He p Ho. subst o.
  pose proof (strip_no_ld G C f d r c _ c' evs He) as Hl.
  pose proof (first_exception G (strip_depth C) f d r c _ c' evs Hnc He) as Hp. simpl in Hp.
  destruct Hp as [pre [post [Hq [Hu [[x [Hx Ht]]|[p0 [Hp0 _]]]]]]]; [|discriminate Hp0].
  assert (Hxl : is_ld_raise x = true).
  { destruct x; simpl in Ht; try contradiction.
    - destruct h; try contradiction. destruct Ht as [_ Ht]. discriminate Ht.
    - inversion Ht; subst. reflexivity.
    - destruct Ht as [t [_ Ht]]; discriminate Ht.
    - destruct Ht as [b [t [_ Ht]]]; discriminate Ht.
    - destruct Ht as [t [_ Ht]]; discriminate Ht.
    - destruct Ht as [p1 [t [_ Ht]]]; discriminate Ht. }
  rewrite Hx in Hl. change (pre ++ x :: post) with (pre ++ [x] ++ post) in Hl. rewrite !has_ld_app in Hl.
  unfold has_ld at 2 in Hl. simpl in Hl. rewrite Hxl in Hl. rewrite orb_true_r in Hl. discriminate Hl.
Qed.

(* C18_depth_exact *)
Theorem depth_exact f d r c k o0 c0 evs0 o1 c1 evs1 :
  Fams (dAct d) ->
  eval G (strip_depth C) f d r c = Res o0 c0 evs0 ->
  eval G C f (set_depth d k) r c = Res o1 c1 evs1 ->
  (o1 = o0 <-> within lim k evs0 = true) /\
  (within lim k evs0 = true -> c1 = c0 /\ evs1 = evs0) /\
  (within lim k evs0 = false -> exists p, o1 = Exc (EParse WLimitDepth p) /\ ends_in_depth_error C lim k p evs1).
Proof.
  intros Hf H0 H1.
  assert (Hin : within lim k evs0 = true -> o1 = o0 /\ c1 = c0 /\ evs1 = evs0).
  { intros Hw. pose proof (depth_complete G C Fams lim Hact_nodes Hact_change Huni f d r c k o0 c0 evs0 Hf H0 Hw) as H2.
    rewrite H1 in H2. inversion H2; subst. repeat split. }
  assert (Hout : within lim k evs0 = false -> exists p, o1 = Exc (EParse WLimitDepth p) /\ ends_in_depth_error C lim k p evs1).
  { intros Hw. exact (depth_raises f d r c k o0 c0 evs0 o1 c1 evs1 Hf H0 Hw H1). }
  split; [|split].
  - split; [|intros Hw; exact (proj1 (Hin Hw))].
    intros Ho. destruct (within lim k evs0) eqn:Hw; [reflexivity|]. exfalso.
    destruct (Hout eq_refl) as [p [Hp _]]. rewrite Ho in Hp. exact (strip_outcome f d r c o0 c0 evs0 H0 p Hp).
  - intros Hw. destruct (Hin Hw) as [_ [A B]]. split; assumption.
  - exact Hout.
Qed.
End Raises.

(* ================================================================ limit_bytes over whole runs *)
Definition lb_of (ak : akind) : option nat := match ak with AKMatch (MLimitBytes n) => Some n | _ => None end.

Section BytesMachine.
Variable limb : rid -> option nat.      (* Some n: limit_bytes< n > is attached to the rule *)

(* the open invocations (rule, position at entry); an exit must close the innermost one, not move backwards,
   and — for a limit_bytes< n > rule — lie at most n bytes behind its entry *)
Definition wstep (s : option (list (rid * pos))) (e : event) : option (list (rid * pos)) :=
  match s with
  | None => None
  | Some st =>
      match e with
      | EEnter _ r _ _ p => Some ((r, p) :: st)
      | EExit _ r _ p' =>
          match st with
          | (r0, p) :: tl =>
              if Nat.eqb r r0 && (pbyte p <=? pbyte p')%N &&
                 match limb r with Some n => (pbyte p' <=? pbyte p + N.of_nat n)%N | None => true end
              then Some tl else None
          | [] => None
          end
      | _ => Some st
      end
  end.
Definition wrun (s : option (list (rid * pos))) (evs : list event) : option (list (rid * pos)) := fold_left wstep evs s.
Definition BW (evs : list event) : Prop := forall st, wrun (Some st) evs = Some st.

Lemma wrun_app a : forall s b, wrun s (a ++ b) = wrun (wrun s a) b.
Proof. intros s b. unfold wrun. apply fold_left_app. Qed.
Lemma BW_nil : BW [].
Proof. intros st. reflexivity. Qed.
Lemma BW_app a b : BW a -> BW b -> BW (a ++ b).
Proof. intros Ha Hb st. rewrite wrun_app, Ha, Hb. reflexivity. Qed.
Lemma BW_neutral e : neutral e -> BW [e].
Proof. intros He st. destruct e; simpl in *; try contradiction; reflexivity. Qed.
Lemma BW_frame ctl r a m p o p' evs : BW evs -> (pbyte p <= pbyte p')%N ->
  (forall n, limb r = Some n -> (pbyte p' <= pbyte p + N.of_nat n)%N) ->
  BW (EEnter ctl r a m p :: evs ++ [EExit ctl r o p']).
Proof.
  intros Hb Hle Hn st. change (EEnter ctl r a m p :: evs ++ [EExit ctl r o p']) with ([EEnter ctl r a m p] ++ evs ++ [EExit ctl r o p']).
  rewrite !wrun_app. simpl. rewrite Hb. simpl. rewrite Nat.eqb_refl.
  assert (E1 : (pbyte p <=? pbyte p')%N = true) by (apply N.leb_le; exact Hle). rewrite E1. simpl.
  destruct (limb r) as [n|]; [|reflexivity].
  assert (E2 : (pbyte p' <=? pbyte p + N.of_nat n)%N = true) by (apply N.leb_le; apply Hn; reflexivity). rewrite E2. reflexivity.
Qed.
End BytesMachine.

Lemma good_PB_pos m c o c' evs : good RaisePos.PB m c (Res o c' evs) ->
  exists pre, rest c = pre ++ rest c' /\ pbyte (cpos c') = (pbyte (cpos c) + N.of_nat (length pre))%N.
Proof.
  assert (K : adv RaisePos.PB c c' -> exists pre, rest c = pre ++ rest c' /\ pbyte (cpos c') = (pbyte (cpos c) + N.of_nat (length pre))%N).
  { intros [pre [H1 H2]]. exists pre. split; [exact H1 | exact H2]. }
  destruct o; simpl; auto. destruct m; [|exact K]. intros ->. exists []. split; [reflexivity | simpl; lia].
Qed.

Section BytesRun.
Variable G : grammar.
Variable C : cfg.
Variable Fams : nat -> Prop.
Variable limb : rid -> option nat.
Hypothesis HG : table_wf G.
Hypothesis Hact_nodes : forall r nd fam, nth_error G r = Some nd -> nhead nd = HAction fam -> Fams fam.
Hypothesis Hact_change : forall fam r fam', Fams fam ->
  acts C fam r = AKMatch (MChangeAction fam') \/ acts C fam r = AKMatch (MChangeActionAndState fam') -> Fams fam'.
(* in every family the run can be in, the same rules carry limit_bytes with the same limit *)
Hypothesis Hunib : forall fam r, Fams fam -> lb_of (acts C fam r) = limb r.

Let B := fun (_ : nat) (evs : list event) => BW limb evs.

(* the frame of one complete invocation, closed by the per-evaluation facts *)
Lemma invocation_frame f d r c nd o c1 evs : nth_error G r = Some nd -> Fams (dAct d) ->
  eval G C (S f) d r c = Res o c1 (EEnter (dCtl d) r (dA d) (dM d) (cpos c) :: evs ++ [EExit (dCtl d) r (okind o) (cpos c1)]) ->
  BW limb evs -> BW limb (EEnter (dCtl d) r (dA d) (dM d) (cpos c) :: evs ++ [EExit (dCtl d) r (okind o) (cpos c1)]).
Proof.
  intros Hn Hf He Hb.
  pose proof (RaisePos.eval_good_PB G C (S f) d r c HG) as Hg. rewrite He in Hg.
  destruct (good_PB_pos _ _ _ _ _ Hg) as [pre [Hr Hp]].
  apply BW_frame; [exact Hb | lia|].
  intros n Hl. rewrite <- (Hunib (dAct d) r Hf) in Hl.
  assert (Ha : acts C (dAct d) r = AKMatch (MLimitBytes n)).
  { destruct (acts C (dAct d) r) as [| | |[]]; simpl in Hl; try discriminate Hl. inversion Hl; reflexivity. }
  destruct (bytes_restored G C f d r c nd n o c1 _ HG Hn Ha He) as [k [K1 [K2 K3]]].
  assert (length pre = k).
  { pose proof (f_equal (@length byte) Hr) as L1. pose proof (f_equal (@length byte) K3) as L2.
    rewrite app_length in L1. rewrite skipn_length in L2. lia. }
  lia.
Qed.

Theorem eval_W f : forall d r c, Fams (dAct d) -> GoodL B (dDepth d) (eval G C f d r c).
Proof.
  induction f as [|f IH]; intros d r c Hf; [exact I|].
  destruct (eval G C (S f) d r c) as [o c1 evsF| |] eqn:E0; try exact I.
  pose proof E0 as E. simpl in E.
  destruct (nth_error G r) as [nd|] eqn:En; [|inversion E; subst; apply BW_nil].
  assert (Hev : forall k d' r' c', okd Fams k d' -> GoodL B k (eval G C f d' r' c')).
  { intros k d' r' c' [Hf' Hk]. rewrite <- Hk. apply IH. exact Hf'. }
  assert (Bn : forall k, B k []) by (intros; apply BW_nil).
  assert (Ba : forall k a b, B k a -> B k b -> B k (a ++ b)) by (intros k a b; apply BW_app).
  assert (Bne : forall k e, neutral e -> B k [e]) by (intros k e; apply BW_neutral).
  assert (Hplain : forall k ak d' c', okd Fams k d' -> GoodL B k
            (if nenabled nd then match_hpp C ak (eval_head C (eval G C f) f r (nhead nd) (nsubs nd)) d' r c'
             else eval_head C (eval G C f) f r (nhead nd) (nsubs nd) d' c')).
  { intros k ak d' c' Hd'.
    assert (Hh : forall d2 c2, okd Fams k d2 -> GoodL B k (eval_head C (eval G C f) f r (nhead nd) (nsubs nd) d2 c2)).
    { intros d2 c2 Hd2. apply (eval_head_L C Fams B Bn Ba Bne); [apply Hev | exact Hd2 | intros fam Hh; eapply Hact_nodes; eauto]. }
    destruct (nenabled nd); [apply (match_hpp_L C Fams B Bn Ba Bne); [exact Hh | exact Hd'] | apply Hh; exact Hd']. }
  assert (Hd : okd Fams (dDepth d) d) by (split; [exact Hf | reflexivity]).
  (* the log between the enter and exit events is fine; the frame is closed by invocation_frame *)
  match type of E with traced _ _ _ _ _ ?X = _ => assert (Hin : GoodL B (dDepth d) X) end.
  { destruct (acts C (dAct d) r) as [| | |mk] eqn:Ea; try (apply Hplain; exact Hd).
    destruct mk as [fam| |fam|ctl| | |n|n|n];
      try (apply (action_match_L C Fams Hact_change B Bn Ba Bne);
           [apply Hev | intros; apply Hplain; assumption | exact Hd | exact Ea | intros n0; discriminate]).
    cbn [action_match]. destruct (nenabled nd) eqn:Een.
    - destruct (n <? S (dDepth d))%nat.
      + unfold raise_at. simpl. intros st. reflexivity.
      + assert (Hd' : okd Fams (S (dDepth d)) (set_depth d (S (dDepth d)))) by (split; [exact Hf | reflexivity]).
        pose proof (Hplain (S (dDepth d)) AKNone (set_depth d (S (dDepth d))) c Hd') as H. try rewrite Een in H. exact H.
    - pose proof (Hplain (dDepth d) AKNone d c Hd) as H. try rewrite Een in H. exact H. }
  match type of E with traced _ _ _ _ _ ?X = _ => destruct X as [o' c' evs| |] end; simpl in E; inversion E; subst.
  simpl. apply (invocation_frame f d r c nd o c1 evs En Hf E0). exact Hin.
Qed.

(* C18_bytes_whole_run *)
Theorem bytes_whole_run f d r c o c' evs : Fams (dAct d) -> eval G C f d r c = Res o c' evs ->
  wrun limb (Some []) evs = Some [].
Proof. intros Hf He. pose proof (eval_W f d r c Hf) as H. rewrite He in H. apply H. Qed.
End BytesRun.
