(* Grammar.v — grammar tables as the C++ compiler sees them: one node per distinct rule
   type, (implementing class = rule_t, value template arguments, subs_t as indices,
   enable_control).  Tables are produced by harness/dump.hpp from /repo on every run. *)
From PegtlV Require Import Base Decode.

Inductive cfilter := FAny | FStd | FParse | FType (tag : N).   (* catch(...) / std::exception / parse_error_base / a named type *)

Inductive head :=
(* atoms *)
| HSuccess | HFailure | HEof | HEol | HEolf | HBof | HBol | HEverything | HDiscard
| HAny (pk : peek)
| HOne (found : bool) (pk : peek) (cs : list Z)
| HRange (found : bool) (pk : peek) (lo hi : Z)
| HRanges (pk : peek) (cs : list Z)
| HString (cs : list byte) | HIString (cs : list byte)
| HBytes (n : nat) | HRequire (n : nat)
(* combinators with their own match() *)
| HSeq | HSor | HStarPartial | HPlus | HPartial | HAt | HNotAt
| HUntil1 | HUntil2 | HRep (n : nat) | HRepMinMax (mn mx : nat) | HRepOpt (mx : nat)
| HIfThenElse | HIfMust (dflt : bool) | HMust | HRaise
| HStrict | HStarStrict | HRematch
| HTryCatchFalse (f : cfilter) | HTryCatchNested (f : cfilter)
| HState | HAction (fam : nat) | HControl (ctl : nat) | HEnable | HDisable
| HApply (acts : list nat) | HApply0 (acts : list nat) | HIfApply (acts : list nat)
(* a type that is only named (raise<T>, state types): never matched *)
| HOpaque.

Record node := mknode { nhead : head; nsubs : list rid; nenabled : bool }.
Definition grammar := list node.
