(* PosTop.v — C06, part 3: the property-level statements.
   - eval_positions: final cursor and every observable position of a run are `track` of a consumed prefix;
   - lazy tracking (memory_input_base< lazy >::position( it ) = internal::bump from m_begin over it - begin) computes
     exactly `track`, hence eager = lazy at every observation point;
   - the deviations of the code that exists, as computed witnesses. *)
From Coq Require Import Lia.
From PegtlV Require Import Base Decode Grammar Engine EngineFacts AtomFacts PosFacts PosFacts2 PosLog.
Local Open Scope N_scope.

(* ---------- C06_invariant ---------- *)
Theorem eval_positions G C f d r c o c' evs :
  table_ok (ceol C) G -> eval G C f d r c = Res o c' evs ->
  (exists pre, rest c = pre ++ rest c' /\ cpos c' = track (eol_ch (ceol C)) (cpos c) pre) /\
  Forall (ev_ok (eol_ch (ceol C)) c) evs /\ out_ok (eol_ch (ceol C)) c o.
Proof.
  intros HG E. pose proof (eval_goodP G C f d r c HG) as Hg.
  pose proof (eval_logok (eol_ch (ceol C)) C eq_refl G HG f d r c) as Hl.
  rewrite E in Hg, Hl. simpl in Hl. split; [|exact Hl].
  assert (A : adv (PTr (eol_ch (ceol C))) c c').
  { destruct o; simpl in Hg; try exact Hg. destruct (dM d); [subst; apply adv_refl; apply PTr_refl | exact Hg]. }
  exact A.
Qed.

(* the arithmetic content of "reachable": byte / line / column of every observable position *)
Lemma reach_spec ch c p : reach ch c p ->
  exists pre tl, rest c = pre ++ tl /\
    pbyte p = pbyte (cpos c) + N.of_nat (length pre) /\
    pline p = pline (cpos c) + N.of_nat (count_ch ch pre) /\
    pcol p = match after_last ch pre with Some s => 1 + N.of_nat (length s) | None => pcol (cpos c) + N.of_nat (length pre) end.
Proof.
  intros [pre [tl [H1 H2]]]. exists pre, tl. split; [exact H1|]. subst p. apply track_spec.
Qed.

(* tables all of whose heads are tracked in the sense of PosFacts.head_tracked *)
Definition table_tracked (e : eolp) (G : grammar) : Prop :=
  forall r nd, nth_error G r = Some nd -> head_wf (nhead nd) /\ head_tracked e (nhead nd) = true.
Lemma table_tracked_ok e G : table_tracked e G -> table_ok e G.
Proof. intros H r nd En. destruct (H r nd En) as [W T]. apply head_tracked_ok; assumption. Qed.

Definition table_okb (e : eolp) (G : grammar) : bool := forallb (fun nd => head_ok e (nhead nd)) G.
Lemma table_okb_ok e G : table_okb e G = true -> table_ok e G.
Proof.
  intros H r nd En. apply nth_error_In in En. unfold table_okb in H. rewrite forallb_forall in H. apply (H nd En).
Qed.

(* ---------- lazy tracking ---------- *)
(* memory_input_base< tracking_mode::lazy >::position( it ):
     internal::inputerator c( m_begin );  internal::bump( c, it - m_begin.data, Eol::ch );  return position( c, source )
   m_begin = { data, initial byte, initial line, initial column };  internal::bump = Base.bump_scan *)
Definition lazy_position (ch : N) (p0 : pos) (input : list byte) (n : nat) : option pos :=
  option_map cpos (bump_scan ch n (mkcur input p0)).

Lemma bump_scan_app ch : forall pre c tl, rest c = pre ++ tl ->
  bump_scan ch (length pre) c = Some (mkcur tl (track ch (cpos c) pre)).
Proof.
  induction pre as [|b pre IH]; intros c tl H; simpl in *.
  - rewrite <- H. destruct c; reflexivity.
  - rewrite H. apply (IH (mkcur (pre ++ tl) (bump1_pos ch (cpos c) b)) tl). reflexivity.
Qed.
Lemma lazy_position_track ch p0 pre tl : lazy_position ch p0 (pre ++ tl) (length pre) = Some (track ch p0 pre).
Proof. unfold lazy_position. rewrite (bump_scan_app ch pre (mkcur (pre ++ tl) p0) tl eq_refl). reflexivity. Qed.

(* p is what a lazy input over `input` (initial counters p0) reports for the data pointer begin + n,
   and n is the byte distance the position itself records *)
Definition lazy_at (ch : N) (p0 : pos) (input : list byte) (p : pos) : Prop :=
  exists n, (n <= length input)%nat /\ lazy_position ch p0 input n = Some p /\ pbyte p = pbyte p0 + N.of_nat n.

Lemma reach_lazy_at ch p0 input p : reach ch (mkcur input p0) p -> lazy_at ch p0 input p.
Proof.
  intros [pre [tl [H1 H2]]]. simpl in *. subst input p. exists (length pre). split; [rewrite app_length; lia|].
  split; [apply lazy_position_track | apply track_spec].
Qed.

(* events / outcomes with an arbitrary predicate on their positions *)
Definition ev_pos (R : pos -> Prop) (e : event) : Prop :=
  match e with
  | EHook _ _ _ p | ERaise _ _ p | ERaiseNested _ _ p | EApply0 _ _ p
  | EStNew _ p | EStSuccess _ p | EEnter _ _ _ _ p | EExit _ _ _ p => R p
  | EApply _ _ b e | EInline _ b e => R b /\ R e
  | EInline0 _ | EStDrop _ => True
  end.
Fixpoint exn_pos (R : pos -> Prop) (x : exn) : Prop :=
  match x with
  | EParse _ p | ECheckBytes p => R p
  | EAct _ => True
  | ENested _ p inner => R p /\ exn_pos R inner
  end.
Definition out_pos (R : pos -> Prop) (o : outcome) : Prop := match o with Exc x => exn_pos R x | _ => True end.

Lemma ev_ok_pos ch c (R : pos -> Prop) e : (forall p, reach ch c p -> R p) -> ev_ok ch c e -> ev_pos R e.
Proof. intros H. destruct e; simpl; try tauto; try (intros K; apply H; exact K); intros [K1 K2]; split; apply H; assumption. Qed.
Lemma out_ok_pos ch c (R : pos -> Prop) o : (forall p, reach ch c p -> R p) -> out_ok ch c o -> out_pos R o.
Proof.
  intros H. destruct o as [| |x]; simpl; try tauto. induction x as [w p|p|t|r p x IH]; simpl; try tauto; try (intros K; apply H; exact K).
  intros [K1 K2]. split; [apply H; exact K1 | apply IH; exact K2].
Qed.

(* C06_lazy_eq_eager: the eager position of the final cursor and of every event / error of a run from the beginning
   of an input IS the position a lazy input reports for the same data pointer *)
Theorem lazy_eq_eager G C f d r input p0 o c' evs :
  table_ok (ceol C) G -> run G C f d r input p0 = Res o c' evs ->
  lazy_position (eol_ch (ceol C)) p0 input (length input - length (rest c')) = Some (cpos c') /\
  Forall (ev_pos (lazy_at (eol_ch (ceol C)) p0 input)) evs /\
  out_pos (lazy_at (eol_ch (ceol C)) p0 input) o.
Proof.
  intros HG E. unfold run in E. destruct (eval_positions G C f d r _ o c' evs HG E) as [[pre [H1 H2]] [H3 H4]]. simpl in H1, H2.
  split; [|split].
  - rewrite H1, app_length. replace (length pre + length (rest c') - length (rest c'))%nat with (length pre) by lia.
    rewrite H2. apply lazy_position_track.
  - eapply Forall_impl; [|exact H3]. intros e He. eapply ev_ok_pos; [|exact He]. intros p. apply reach_lazy_at.
  - eapply out_ok_pos; [|exact H4]. intros p. apply reach_lazy_at.
Qed.

(* ---------- the input's own byte(): memory_input_base< eager >::byte() = m_current.byte,
   memory_input_base< lazy >::byte() = m_begin.byte + ( current() - m_begin.data )  (after /repo e0cf8e4; before that
   fix the initial byte counter was not added and the two disagreed for inputs with a non-default initial byte) ---------- *)
Definition eager_byte (c : cursor) : N := pbyte (cpos c).
Definition lazy_byte (p0 : pos) (input : list byte) (c : cursor) : N := pbyte p0 + N.of_nat (length input - length (rest c)).

Lemma byte_lazy_eq_eager ch input p0 c' : adv (PTr ch) (mkcur input p0) c' -> eager_byte c' = lazy_byte p0 input c'.
Proof.
  intros [pre [H1 H2]]. simpl in *. unfold eager_byte, lazy_byte. rewrite H2, H1, app_length.
  replace (length pre + length (rest c') - length (rest c'))%nat with (length pre) by lia. apply track_spec.
Qed.

(* ---------- witnesses of the deviations of the code that exists ---------- *)
Definition cfg0 (e : eolp) : cfg :=
  mkcfg e (fun _ _ => AKNone) (fun _ _ _ _ => ARet true) (fun _ _ _ => ARet true) (fun _ => true) (fun _ _ => false).
Definition dyn0 : dyn := mkdyn true true 0%nat 0%nat 0%nat.

(* (a) eol::cr_crlf, rule eol on "\r\n": bump_to_next_line( 2 ) gives 2:2:1, the consumed prefix gives 2:2:2 *)
Definition G_eol : grammar := [mknode HEol [] true].
Lemma refuted_cr_crlf :
  exists c' evs, run G_eol (cfg0 EolCrCrlf) 5%nat dyn0 0%nat [13; 10] pos0 = Res Ok c' evs /\
                 cpos c' = mkpos 2 2 1 /\ track (eol_ch EolCrCrlf) pos0 [13; 10] = mkpos 2 2 2 /\
                 lazy_position (eol_ch EolCrCrlf) pos0 [13; 10] 2%nat = Some (mkpos 2 2 2).
Proof. eexists. eexists. vm_compute. repeat split. Qed.

(* (b) uint8::mask_one< 0xF0, 0x00 > on "\n" (eol::lf): matches, bump_help tests the unmasked '\n' *)
Definition G_mask : grammar := [mknode (HOne true (PkMaskUint8 240) [0%Z]) [] true].
Lemma refuted_mask_uint8 :
  exists c' evs, run G_mask (cfg0 EolLf) 5%nat dyn0 0%nat [10] pos0 = Res Ok c' evs /\
                 cpos c' = mkpos 1 1 2 /\ track (eol_ch EolLf) pos0 [10] = mkpos 1 2 1 /\
                 head_ok EolLf (HOne true (PkMaskUint8 240) [0%Z]) = false.
Proof. eexists. eexists. vm_compute. repeat split. Qed.

(* (e) rematch under lazy tracking (after /repo 1d941ee): the inner input of a lazy input keeps the OUTER begin and initial
   counters and is positioned at the start of the rematched span, so a position at offset k of the span is computed by
   lazy position() from the initial counters over everything before it - the same value the outer input reports.
   (Before the fix the inner m_begin was { span begin, 0, 1, 1 }: witness kept below as the regression to avoid.) *)
Definition rematch_inner_lazy_position (ch : N) (p0 : pos) (pre span : list byte) (k : nat) : option pos :=
  lazy_position ch p0 (pre ++ span) (length pre + k).
Lemma lazy_rematch_absolute ch p0 pre span post k :
  (k <= length span)%nat ->
  rematch_inner_lazy_position ch p0 pre span k = lazy_position ch p0 (pre ++ span ++ post) (length pre + k).
Proof.
  intros Hk. unfold rematch_inner_lazy_position.
  rewrite <- (firstn_skipn k span) at 1 2.
  assert (L : length (firstn k span) = k) by (apply firstn_length_le; exact Hk).
  replace (pre ++ firstn k span ++ skipn k span) with ((pre ++ firstn k span) ++ skipn k span) by (rewrite app_assoc; reflexivity).
  replace (pre ++ (firstn k span ++ skipn k span) ++ post) with ((pre ++ firstn k span) ++ (skipn k span ++ post))
    by (rewrite <- !app_assoc; reflexivity).
  replace (length pre + k)%nat with (length (pre ++ firstn k span)) by (rewrite app_length, L; reflexivity).
  rewrite !lazy_position_track. reflexivity.
Qed.
Lemma old_lazy_rematch_was_relative :
  exists ch p0 pre span k,
    lazy_position ch pos0 span k <> lazy_position ch p0 (pre ++ span) (length pre + k).
Proof. exists 10, pos0, [10], [97], 0%nat. vm_compute. discriminate. Qed.

(* ---------- a non-trivial instance: star< sor< seq< eol, one<'a'> >, string<'a','\n'>, utf8::range<0x80,0x7FF>, any > >
   with every rule control-enabled ---------- *)
Definition G_ex : grammar :=
  [ mknode HStarPartial [1%nat] true;
    mknode HSor [2%nat; 5%nat; 6%nat; 7%nat] true;
    mknode HSeq [3%nat; 4%nat] true;
    mknode HEol [] true;
    mknode (HOne true PkChar [97%Z]) [] true;
    mknode (HString [97; 10]) [] true;
    mknode (HRange true PkUtf8 128 2047) [] true;
    mknode (HAny PkChar) [] true ].
Definition C_ex : cfg :=
  mkcfg EolLfCrlf (fun _ _ => AKApply false) (fun _ _ _ _ => ARet true) (fun _ _ _ => ARet true) (fun _ => true) (fun _ _ => false).
Definition in_ex : list byte := [13; 10; 98; 10; 97; 10; 195; 169; 10; 13].

(* ---------- the mask condition of head_ok is exact: whenever it fails for a uint8::mask_one / mask_not_one rule,
   the one-byte input consisting of the eol character is matched and bumped with bump_in_this_line ---------- *)
Lemma mask_exact e found m cs p :
  test_one_set found cs (Z.of_N (eol_ch e)) = false ->
  test_one_set found cs (Z.of_N (N.land (eol_ch e) m)) = true ->
  eval_atom e (HOne found (PkMaskUint8 m) cs) (mkcur [eol_ch e] p)
    = Some (Res Ok (mkcur [] (mkpos (pbyte p + 1) (pline p) (pcol p + 1))) []) /\
  track (eol_ch e) p [eol_ch e] = mkpos (pbyte p + 1) (pline p + 1) 1.
Proof.
  intros H1 H2. split.
  - cbn [eval_atom]. unfold peek_test_bump, do_peek, peek_uint8, rd, in_empty, peek_at. cbn [rest nth_error].
    rewrite H2. unfold ch_as_data. rewrite H1. reflexivity.
  - unfold track. simpl. unfold bump1_pos. rewrite N.eqb_refl. reflexivity.
Qed.
