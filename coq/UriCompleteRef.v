(* UriCompleteRef.v — C20: completeness (hence exactness) of uri::URI_reference on the generated table, by the computed certificate of
   UriCert2.v (soundness of the certificate: UriComplete2.cert2_sound); one file per production so that the three
   certificates are evaluated in parallel. *)
From PegtlV Require Import Base Grammar Engine ExactSound Regex Rfc3986 UriModel UriProof UriSoundRef UriCert2 UriComplete2.

Lemma complete_URI_reference : forall s, bytes_ok s -> matches (rfc TURI_reference) s -> uri_accepts TURI_reference s.
Proof. apply complete_of_cert2. vm_cast_no_check (eq_refl true). Qed.

Lemma exact_URI_reference : forall s, bytes_ok s -> (uri_accepts TURI_reference s <-> matches (rfc TURI_reference) s).
Proof. intros s Hs. split; [apply sound_URI_reference; exact Hs | apply complete_URI_reference; exact Hs]. Qed.
