(* RegexQuot.v — two more verified regular-language checks used by the completeness argument of C20:
     quot_auto fuel R L K = true ->
        forall w r, matches R w -> matches L (w ++ r) -> matches K r        (left quotient R \ L inside K)
     noprefix cs K = true ->
        no string of K starts with a byte of the class cs
   Same architecture as RegexIncl.v: an untrusted exploration of pairs of simultaneous derivatives,
   a checked closure condition, soundness by induction on the input. *)
From Coq Require Import List NArith PArith Bool Lia FMapPositive.
From PegtlV Require Import Regex RegexIncl.
Import ListNotations.
Local Open Scope N_scope.

Definition tbl_forall (P : re * re -> bool) (tbl : table) : bool :=
  forallb (fun kv => forallb P (snd kv)) (PositiveMap.elements tbl).
Lemma tbl_forall_mem P tbl p : tbl_forall P tbl = true -> mem tbl p = true -> P p = true.
Proof.
  unfold tbl_forall, mem. intros Hc Hm.
  destruct (PositiveMap.find (pair_key p) tbl) as [l|] eqn:Ef; [|discriminate].
  apply existsb_exists in Hm. destruct Hm as [q [Hq E]]. apply pair_eqb_eq in E. subst q.
  rewrite forallb_forall in Hc. specialize (Hc (pair_key p, l) (PositiveMap.elements_correct tbl (pair_key p) Ef)).
  simpl in Hc. rewrite forallb_forall in Hc. apply Hc. exact Hq.
Qed.

Section Quot.
Variable atoms : list cset.
Variable reps : list N.
Variable K : re.
Variable ifuel : nat.

(* a pair with an empty side needs no entry: nothing matches it *)
Definition skip (p : re * re) : bool := is_empty (fst p) || is_empty (snd p).
Definition seen (tbl : table) (p : re * re) : bool := skip p || mem tbl p.

Fixpoint qexplore (fuel : nat) (todo : list (re * re)) (tbl : table) : option table :=
  match fuel with
  | O => None
  | S f =>
    match todo with
    | [] => Some tbl
    | p :: todo' =>
        if seen tbl p then qexplore f todo' tbl
        else qexplore f (succs reps p ++ todo') (add tbl p)
    end
  end.

Definition qcheck_pair (tbl : table) (p : re * re) : bool :=
  implb (nullable (fst p)) (incl_auto ifuel (snd p) K) && forallb (seen tbl) (succs reps p).
Definition qcheck (tbl : table) : bool := tbl_forall (qcheck_pair tbl) tbl.

Hypothesis Hreps : reps_ok atoms reps = true.

Lemma skip_false a l w : skip (a, l) = true -> matches a w -> forall r, matches l (w ++ r) -> False.
Proof.
  unfold skip. simpl. intros H Ha r Hl. apply orb_true_iff in H. destruct H as [H|H].
  - destruct a; try discriminate. eapply empty_inv; eauto.
  - destruct l; try discriminate. eapply empty_inv; eauto.
Qed.

Theorem qcheck_sound tbl : qcheck tbl = true ->
  forall w a l, seen tbl (a, l) = true ->
  (forall cs, In cs (csets a) -> In cs atoms) -> (forall cs, In cs (csets l) -> In cs atoms) ->
  bytes_lt256 w -> matches a w -> forall r, bytes_lt256 r -> matches l (w ++ r) -> matches K r.
Proof.
  intros Hc. induction w as [|c w IH]; intros a l Hs Aa Al Hb Ha r Hr Hl.
  - unfold seen in Hs. apply orb_true_iff in Hs. destruct Hs as [Hs|Hs]; [exfalso; eapply skip_false; eauto|].
    pose proof (tbl_forall_mem _ _ _ Hc Hs) as Q. unfold qcheck_pair in Q. simpl in Q.
    apply andb_true_iff in Q. destruct Q as [Q _].
    apply nullable_iff in Ha. rewrite Ha in Q. simpl in Q. simpl in Hl.
    eapply incl_auto_sound; eauto.
  - unfold seen in Hs. apply orb_true_iff in Hs. destruct Hs as [Hs|Hs]; [exfalso; eapply skip_false; eauto|].
    pose proof (tbl_forall_mem _ _ _ Hc Hs) as Q. unfold qcheck_pair in Q. simpl in Q.
    apply andb_true_iff in Q. destruct Q as [_ Q].
    inversion Hb as [|? ? Hc1 Hb']; subst.
    destruct (reps_ok_spec atoms reps c Hreps Hc1) as [c' [Hin Hsig]].
    assert (Ea : deriv c a = deriv c' a) by (apply deriv_ext; intros cs Hcs; apply Hsig; apply Aa; exact Hcs).
    assert (El : deriv c l = deriv c' l) by (apply deriv_ext; intros cs Hcs; apply Hsig; apply Al; exact Hcs).
    rewrite forallb_forall in Q.
    assert (Hq : seen tbl (deriv c' a, deriv c' l) = true).
    { apply Q. unfold succs. apply (in_map (fun c0 => (deriv c0 (fst (a, l)), deriv c0 (snd (a, l)))) reps c' Hin). }
    apply (IH (deriv c' a) (deriv c' l) Hq).
    + intros cs Hcs. apply Aa. eapply deriv_csets; eauto.
    + intros cs Hcs. apply Al. eapply deriv_csets; eauto.
    + exact Hb'.
    + rewrite <- Ea. apply deriv_iff. exact Ha.
    + exact Hr.
    + rewrite <- El. apply deriv_iff. exact Hl.
Qed.
End Quot.

Definition quot_auto (fuel : nat) (R L K : re) : bool :=
  let a := norm R in
  let l := norm L in
  let atoms := dedup (csets a ++ csets l) [] in
  let reps := pick_reps atoms in
  match qexplore reps fuel [(a, l)] (PositiveMap.empty _) with
  | Some tbl => reps_ok atoms reps && atoms_in atoms a && atoms_in atoms l && seen tbl (a, l) && qcheck reps K fuel tbl
  | None => false
  end.

Theorem quot_auto_sound fuel R L K : quot_auto fuel R L K = true ->
  forall w r, bytes_lt256 w -> bytes_lt256 r -> matches R w -> matches L (w ++ r) -> matches K r.
Proof.
  unfold quot_auto.
  destruct (qexplore (pick_reps (dedup (csets (norm R) ++ csets (norm L)) [])) fuel [(norm R, norm L)] (PositiveMap.empty _)) as [tbl|]; [|discriminate].
  rewrite !andb_true_iff. intros [[[[H1 Ha] Hl] Hs] Hq] w r Hw Hr Mw Ml.
  eapply (qcheck_sound _ _ K fuel H1 tbl Hq w (norm R) (norm L) Hs).
  - apply atoms_in_spec. exact Ha.
  - apply atoms_in_spec. exact Hl.
  - exact Hw.
  - apply norm_iff. exact Mw.
  - exact Hr.
  - apply norm_iff. exact Ml.
Qed.

(* no string of K starts with a byte of cs *)
Definition noprefix (cs : cset) (K : re) : bool :=
  forallb (fun c => implb (cs_mem c cs) (is_empty (deriv c (norm K)))) all_bytes.
Lemma noprefix_sound cs K : noprefix cs K = true ->
  forall c k, c < 256 -> cs_mem c cs = true -> ~ matches K (c :: k).
Proof.
  unfold noprefix. rewrite forallb_forall. intros H c k Hc Hm M.
  specialize (H c (all_bytes_in c Hc)). rewrite Hm in H. simpl in H.
  apply norm_iff in M. apply deriv_iff in M. destruct (deriv c (norm K)); try discriminate. eapply empty_inv; eauto.
Qed.
