(* Properties_C12.v — C12: the parse tree is exactly the surviving derivation of the selected rules.
   Theorems only.  Model: ParseTree.v (parse_tree.hpp: selection, is_leaf< 8 >, the three
   state_handler variants as a node-stack machine over the hook events, the transformers, parse()).
   Spec: ParseTreeSpec.v (call tree of the log, derivation tree, documented transformers).
   Quantifiers: every call tree / every hook log the C08 protocol accepts / every log the engine
   model produces, every grammar table, every selector and transformer assignment, every handler
   classification consistent with the selection (in particular is_leaf< L > for every L), every
   stack the run starts from.
   Engine-level span theorems (end of file, ParseTreeMono.v): C12_engine_cmono derives the premise of
   C12_spans_partial from the engine for every table without at<> / rematch<Head, Rules...>
   (span_table), and C12_spans_engine states "children contained in and ordered within their parent"
   unconditionally for the tree parse_tree::parse returns on such tables. *)
From PegtlV Require Import Base Decode Grammar Engine Hooks HookFacts ParseTree ParseTreeSpec ParseTreeFacts ParseTreeEngine ParseTreeSpans.
Local Open Scope N_scope.

(* ---- the call tree of a log is well defined: call_forest is the inverse of flatten_forest ---- *)
Theorem C12_call_tree_of_flatten : forall ts, forallb wf_ct ts = true -> call_forest (flatten_forest ts) = Some ts.
Proof. exact call_forest_flatten. Qed.
Print Assumptions C12_call_tree_of_flatten.

Theorem C12_call_tree_sound : forall evs ts, call_forest evs = Some ts -> forallb wf_ct ts = true /\ evs = flatten_forest ts.
Proof. exact call_forest_sound. Qed.
Print Assumptions C12_call_tree_sound.

(* every log accepted by the strict C08 protocol checker (Hooks.run) has a call tree *)
Theorem C12_protocol_logs_have_call_tree : forall ro po evs,
  Hooks.run true ro po [] evs = Some [] -> exists ts, call_forest (hooks_of evs) = Some ts.
Proof. exact accepted_has_call_forest. Qed.
Print Assumptions C12_protocol_logs_have_call_tree.

(* ---- C12_exact: builder = derivation tree of the log's call tree ----
   kind_ : any handler classification that agrees with the selection selp; leaf_clean_forest: below an
   attempt of a leaf-classified rule no selected rule is attempted (discharged from the table by
   C12_leaf_opt_sound_table below) *)
Theorem C12_exact : forall kind_ selp evs ts,
  (forall r, match kind_ r with KSel t => selp r = Some t | _ => selp r = None end) ->
  call_forest evs = Some ts -> leaf_clean_forest kind_ selp ts ->
  build kind_ [blank] evs = Some [derivation_tree selp ts].
Proof. exact build_exact_log. Qed.
Print Assumptions C12_exact.

(* ---- C12_stack_one: any balanced piece of log, run from ANY non-empty stack, only appends the
   derivation of that piece to the node on top; depth and everything below are untouched; a failed or
   unwound attempt leaves the stack exactly as it found it ---- *)
Theorem C12_stack_one : forall kind_ selp ts,
  (forall r, match kind_ r with KSel t => selp r = Some t | _ => selp r = None end) ->
  leaf_clean_forest kind_ selp ts -> forallb wf_ct ts = true ->
  forall top tl, build kind_ (top :: tl) (flatten_forest ts) = Some (add_children top (deriv_forest selp ts) :: tl).
Proof. intros kind_ selp ts Hs. apply build_forest. exact Hs. Qed.
Print Assumptions C12_stack_one.

Theorem C12_nothing_left_after_abort : forall kind_ selp r b h e kids st,
  (forall r, match kind_ r with KSel t => selp r = Some t | _ => selp r = None end) ->
  leaf_clean kind_ selp (CT r b h e kids) -> wf_ct (CT r b h e kids) = true -> h <> HkSuccess -> st <> [] ->
  build kind_ st (flatten (CT r b h e kids)) = Some st.
Proof. intros kind_ selp r b h e kids st Hs. apply build_aborted. exact Hs. Qed.
Print Assumptions C12_nothing_left_after_abort.

(* ---- C12_leaf_opt_sound ----
   table side: if is_leaf< L, subs > holds (any L; the code uses 8 and falls back to "not a leaf"
   beyond), no rule reachable through subs_t from one of `subs` is selected *)
Theorem C12_leaf_opt_sound_table : forall G sel L subs, is_leaf G sel L subs = true ->
  forall r, In r subs -> is_selected G sel r = false /\ forall r', reach G r r' -> is_selected G sel r' = false.
Proof. exact is_leaf_closed. Qed.
Print Assumptions C12_leaf_opt_sound_table.

(* builder side: on every call tree that conforms to the table (attempts inside an attempt of r are of
   rules reachable from r through subs_t), skipping the bookkeeping for leaf-classified rules gives
   the same stack as keeping a scratch node for every unselected rule — for every level L *)
Theorem C12_leaf_opt_sound : forall G sel L ts, Forall (conf G) ts -> forallb wf_ct ts = true ->
  build (kind_at G sel L) [blank] (flatten_forest ts) = build (kind_noleaf G sel) [blank] (flatten_forest ts).
Proof. exact leaf_opt_sound. Qed.
Print Assumptions C12_leaf_opt_sound.

(* ignoring the events of leaf-classified rules = those rules not being control-enabled at all *)
Theorem C12_leaf_events_irrelevant : forall k evs st, build k st (filter (not_leaf_ev k) evs) = build k st evs.
Proof. exact build_filter_leaf. Qed.
Print Assumptions C12_leaf_events_irrelevant.

(* ---- C12_spans: every node of the tree is a successful attempt of a selected rule all of whose
   ancestors succeeded, begins where that attempt started and, if it has content, ends where it
   succeeded ---- *)
Theorem C12_spans : forall selp ts x, In x (flat_map tree_nodes (deriv_forest selp ts)) ->
  exists c, In c (live_forest ts) /\ node_of_call selp x c.
Proof. exact derivation_nodes. Qed.
Print Assumptions C12_spans.

(* C12_spans_partial (containment): FULL STATEMENT "children contained in and ordered within their
   parent, for every run" is refuted below (C12_spans_refuted_lookahead).  Closed here: whenever the
   call forest is position-monotone for the contributing attempts (cmono_forest: each contributing
   attempt inside its parent's span and after the previous contributing sibling — what a run without
   at / not_at / rematch produces; the check measures tree_ok on every real tree and accepts a failure
   only for grammars with such look-ahead heads), every position visible in the tree is nested and
   ordered, for every selection and transformer assignment. *)
Theorem C12_spans_partial : forall selp ts n, cmono_forest selp 0 n ts -> tree_ok 0 n (derivation_tree selp ts).
Proof. exact derivation_tree_ok. Qed.
Print Assumptions C12_spans_partial.

(* ... and with store_content / remove_content only, the nodes are in pre-order EXACTLY those attempts *)
Theorem C12_nodes_exact : forall selp ts, plain_sel selp ->
  map strip (flat_map tree_nodes (deriv_forest selp ts)) = map strip_call (filter (is_sel selp) (live_forest ts)).
Proof. exact derivation_nodes_exact. Qed.
Print Assumptions C12_nodes_exact.

(* the transformer code does what the documentation says *)
Theorem C12_transformers : forall t r b e ks, xform t (set_end (Node (Some r) b None ks) e) = doc_transform t r b e ks.
Proof. exact xform_doc. Qed.
Print Assumptions C12_transformers.

(* ---- on top of the engine model: parse_tree::parse< Rule, Node, Selector, Action, Control > ----
   for every table, selector, configuration (actions incl. vetoing ones, must<>/raise<> exceptions,
   try_catch, raising failure hooks of a must_if-style control), mode, input, fuel and outcome;
   only hypothesis: no Action< Rule >::apply/apply0 THROWS (the recorded finding below) *)

(* every log the engine produces under parse_tree's control has a call tree, and that call tree
   conforms to the table (attempts inside an attempt of r are of rules reachable from r through
   subs_t): the premise of C12_leaf_opt_sound is discharged for every modelled head *)
Theorem C12_engine_logs_conform : forall G C,
  (forall k, has_unwind C k = true) -> (forall fam r b e t, abeh C fam r b e <> AThrow t) ->
  forall f d r c o c' evs, eval G C f d r c = Res o c' evs ->
  exists ts, call_forest (hooks_of evs) = Some ts /\ Forall (conf G) ts.
Proof. exact engine_call_forest. Qed.
Print Assumptions C12_engine_logs_conform.

(* C12_exact + C12_stack_one on the engine: the builder's final stack is exactly [derivation tree of
   the run's call tree]; parse() returns that tree on success, nullptr on local failure, and lets the
   exception through otherwise (the assertion stack.size() == 1 holds) *)
Theorem C12_engine_exact : forall G sel C,
  (forall fam r b e t, abeh C fam r b e <> AThrow t) ->
  forall f d r c o c' evs, eval (pt_table G sel) (pt_cfg C) f d r c = Res o c' evs ->
  exists ts, call_forest (hooks_of evs) = Some ts /\ Forall (conf G) ts /\
    build (kind G sel) [blank] (hooks_of evs) = Some [derivation_tree (selected G sel) ts] /\
    pt_parse G sel C f d r c = match o with
                               | Ok => PtTree (derivation_tree (selected G sel) ts)
                               | Fail => PtNull
                               | Exc e => PtExc e
                               end.
Proof. exact pt_parse_exact. Qed.
Print Assumptions C12_engine_exact.

(* the builder is only an observer: forcing the unselected non-leaf rules control-enabled and giving
   every handler an unwind() changes neither outcome nor cursor of the run — provided the rules that
   are not control-enabled in the grammar (internal::seq etc.) carry no action and no raising hook *)
Definition hidden_rules_inert (G : grammar) (C : cfg) : Prop :=
  forall r nd, nth_error G r = Some nd -> nenabled nd = false ->
    (forall fam, acts C fam r = AKNone) /\ (forall k, raise_on_failure C k r = false).

Theorem C12_observer : forall G sel C, hidden_rules_inert G C ->
  forall f d r c o c' evs, eval G C f d r c = Res o c' evs ->
  exists evs', eval (pt_table G sel) (pt_cfg C) f d r c = Res o c' evs'.
Proof. exact pt_observer. Qed.
Print Assumptions C12_observer.

(* C12_iff: parse_tree::parse returns a tree iff the PLAIN parse (same table, user's control) succeeds,
   nullptr iff it fails locally, and throws the same exception otherwise *)
Theorem C12_iff : forall G sel C,
  (forall fam r b e t, abeh C fam r b e <> AThrow t) -> hidden_rules_inert G C ->
  forall f d r c o c' evs, eval G C f d r c = Res o c' evs ->
  ((exists t, pt_parse G sel C f d r c = PtTree t) <-> o = Ok) /\
  (pt_parse G sel C f d r c = PtNull <-> o = Fail) /\
  (forall e, pt_parse G sel C f d r c = PtExc e <-> o = Exc e).
Proof. exact pt_parse_iff. Qed.
Print Assumptions C12_iff.

(* ---- RECORDED FINDING (known_findings.json, consequence of the open C08 finding): a selected rule
   whose OWN action throws gets start but no unwind, so its node is never popped; when try_catch turns
   the exception into a local failure the run goes on with a stale node on the stack.
   G = sor< T, B >, T = try_catch_any_return_false< A >, A = B = one<'a'>, Action< A >::apply throws,
   input "a", store_all: the parse succeeds, assert( state.stack.size() == 1 ) fails; what NDEBUG
   returns is G's unfinished node, containing the FAILED rule T spanning [0,1) with child B. ---- *)
Definition one_a : head := HOne true PkChar [97%Z].
Definition fx_G : grammar :=
  [ mknode HSor [1; 2]%nat true; mknode (HTryCatchFalse FAny) [3]%nat true; mknode one_a [] true; mknode one_a [] true ].
Definition fx_C : cfg :=
  mkcfg EolLfCrlf (fun _ r => if Nat.eqb r 3 then AKApply false else AKNone)
        (fun _ _ _ _ => AThrow 0) (fun _ _ _ => ARet true) (fun _ => true) (fun _ _ => false).
Definition all_store : selector := fun _ => Some TStore.
Definition p1 : pos := mkpos 1 1 2.
Theorem C12_stack_one_refuted_own_action_throws :
  pt_parse fx_G all_store fx_C 10 (mkdyn true true 0 0 0) 0%nat (mkcur [97] pos0) =
  PtStale [ Node (Some 0%nat) pos0 None [ Node (Some 1%nat) pos0 (Some p1) [ Node (Some 2%nat) pos0 (Some p1) [] ] ];
            Node None null_pos None [] ] /\
  exists c' evs, eval fx_G fx_C 10 (mkdyn true true 0 0 0) 0%nat (mkcur [97] pos0) = Res Ok c' evs.
Proof. split; [vm_compute; reflexivity | eexists; eexists; vm_compute; reflexivity]. Qed.
Print Assumptions C12_stack_one_refuted_own_action_throws.

(* ---- C12_spans_refuted (statement level, known_findings.json): "children contained in their parent"
   is false as soon as matches inside a succeeding and-predicate are kept, which the property demands:
   at< one<'a'> > on "a" with store_all gives  at [0,0) ( one<'a'> [0,1) ). ---- *)
Definition at_G : grammar := [ mknode HAt [1]%nat true; mknode one_a [] true ].
Definition no_C : cfg :=
  mkcfg EolLfCrlf (fun _ _ => AKNone) (fun _ _ _ _ => ARet true) (fun _ _ _ => ARet true) (fun _ => true) (fun _ _ => false).
Theorem C12_spans_refuted_lookahead :
  pt_parse at_G all_store no_C 10 (mkdyn true true 0 0 0) 0%nat (mkcur [97] pos0) =
  PtTree (Node None null_pos None [ Node (Some 0%nat) pos0 (Some pos0) [ Node (Some 1%nat) pos0 (Some p1) [] ] ]).
Proof. vm_compute. reflexivity. Qed.
Print Assumptions C12_spans_refuted_lookahead.

(* ---- non-vacuity: star< A, B > (hidden internal::seq between star and A, B), A selected with
   fold_one-free store, B = one<'b'>; input "aba": second round matches A then fails on B, the scratch
   node of the hidden seq is popped and the second A does not survive; hypotheses of C12_engine_exact and
   C12_iff hold for no_C ---- *)
Definition ex_G : grammar :=
  [ mknode HStarPartial [1]%nat true; mknode HSeq [2; 3]%nat false; mknode one_a [] true; mknode (HOne true PkChar [98%Z]) [] true ].
Definition ex_sel : selector := fun r => if Nat.eqb r 2 then Some TStore else None.
Example C12_example_backtrack :
  kind ex_G ex_sel 1%nat = KPass /\ kind ex_G ex_sel 3%nat = KLeaf /\
  pt_parse ex_G ex_sel no_C 20 (mkdyn true true 0 0 0) 0%nat (mkcur [97; 98; 97] pos0) =
  PtTree (Node None null_pos None [ Node (Some 2%nat) pos0 (Some p1) [] ]) /\
  (forall fam r b e t, abeh no_C fam r b e <> AThrow t) /\ hidden_rules_inert ex_G no_C.
Proof. repeat split; try (vm_compute; reflexivity); intros; try discriminate; reflexivity. Qed.
Print Assumptions C12_example_backtrack.

(* the premise of C12_spans_partial holds on that run *)
Example C12_example_monotone :
  exists c' evs ts, eval (pt_table ex_G ex_sel) (pt_cfg no_C) 20 (mkdyn true true 0 0 0) 0%nat (mkcur [97; 98; 97] pos0) = Res Ok c' evs /\
    call_forest (hooks_of evs) = Some ts /\ cmono_forest (selected ex_G ex_sel) 0 3 ts.
Proof.
  eexists. eexists. eexists. split; [vm_compute; reflexivity|]. split; [vm_compute; reflexivity|].
  cbv. intuition discriminate.
Qed.
Print Assumptions C12_example_monotone.

(* ---- C12_spans on top of the engine (ParseTreeMono.v): the premise of C12_spans_partial is DERIVED ----
   span_table G: decidable on the table — no rule is the and-predicate at< R > and no rule is
   rematch< Head, Rules... > with at least one Rule (the two constructs that re-read input a kept match
   has already consumed; not_at< R > is allowed: when it succeeds, everything inside it failed).
   For every such table, every selector, every configuration without a throwing Action<Rule>::apply
   (the hypothesis of C12_engine_exact), every mode, input, fuel and OUTCOME: the call forest of the
   engine's log under parse_tree's control is position-monotone for the contributing attempts, between
   the start position and the position the run ends at.  Rewinding after a failed sibling is covered:
   a failed attempt contributes nothing, and a rule that stays hidden under parse_tree's control is an
   is_leaf< 8 > leaf, below which nothing is selected. *)
From PegtlV Require Import AtomFacts ParseTreeMono.

Theorem C12_engine_cmono : forall G sel C, table_wf G -> span_table G = true ->
  (forall fam r b e t, abeh C fam r b e <> AThrow t) ->
  forall f d r c o c' evs, eval (pt_table G sel) (pt_cfg C) f d r c = Res o c' evs ->
  exists ts, call_forest (hooks_of evs) = Some ts /\
    cmono_forest (selected G sel) (pbyte (cpos c)) (pbyte (cpos c')) ts.
Proof. exact pt_engine_cmono. Qed.
Print Assumptions C12_engine_cmono.

(* C12_spans_engine: the clause "children contained in and ordered within their parent" as a theorem
   about engine runs — on span-safe tables the tree parse_tree::parse returns is the (default-constructed)
   root over a forest whose every visible position is nested and ordered (tree_ok / forest_ok), all of it
   between the position the parse started at and the position it ended at. *)
Theorem C12_spans_engine : forall G sel C, table_wf G -> span_table G = true ->
  (forall fam r b e t, abeh C fam r b e <> AThrow t) ->
  forall f d r c c' evs, eval (pt_table G sel) (pt_cfg C) f d r c = Res Ok c' evs ->
  exists ch, pt_parse G sel C f d r c = PtTree (Node None null_pos None ch) /\
    forest_ok (pbyte (cpos c)) (pbyte (cpos c')) ch /\
    tree_ok 0 (pbyte (cpos c')) (Node None null_pos None ch).
Proof. exact pt_spans_engine. Qed.
Print Assumptions C12_spans_engine.

(* the hypotheses are satisfiable (the backtracking example above) and exclude exactly the refuting table *)
Example C12_example_span_safe :
  table_wf ex_G /\ span_table ex_G = true /\ span_table at_G = false /\
  span_table [ mknode HNotAt [1]%nat true; mknode one_a [] true ] = true.
Proof.
  split; [|repeat split; reflexivity].
  intros r nd H. destruct r as [|[|[|[|r]]]]; simpl in H; inversion H; subst; simpl; try exact I. destruct r; discriminate.
Qed.
Print Assumptions C12_example_span_safe.
