# C10 — character-class and encoding rules accept exactly the documented sets.
#
#   proofs          Properties_C10.v (Coq): decoders and atoms of the model are exact w.r.t. Utf.v
#   correspondence  harness/c10_impl.cpp (real PEGTL rules on exact-size heap buffers) against
#                   driver/c10_driver.ml (extracted Coq model evaluating the heads the compiler dumped)
#                   on identical, deterministically enumerated byte strings; per-spec digests, verbose
#                   re-run of a spec only on mismatch                         -> ctx.diff
#   oracle          THIS FILE: decoders written from RFC 3629 section 4 (table of byte ranges), the
#                   Unicode definition of UTF-16/UTF-32, int.from_bytes for the binary rules, the
#                   documented byte sets of the ASCII / RFC 5234 classes and ASCII-only folding for
#                   istring; rule meaning taken from the *surface* template-id text (stringified in the
#                   harness from the very tokens that instantiate the rule), never from the model.
#                   impl != oracle                                            -> ctx.violation
import concurrent.futures
import multiprocessing
import os
import random
import re
import shutil
import sys
import time

import vlib

M1 = 2147483647
M2 = 2147483629

# ----------------------------------------------------------------------------- oracle: decoders
TAIL = (0x80, 0xBF)
# RFC 3629 section 4 (ABNF): lead byte range -> ranges of the following bytes
UTF8_TABLE = [
    ((0x00, 0x7F), []),                                   # UTF8-1
    ((0xC2, 0xDF), [TAIL]),                               # UTF8-2
    ((0xE0, 0xE0), [(0xA0, 0xBF), TAIL]),                 # UTF8-3
    ((0xE1, 0xEC), [TAIL, TAIL]),
    ((0xED, 0xED), [(0x80, 0x9F), TAIL]),
    ((0xEE, 0xEF), [TAIL, TAIL]),
    ((0xF0, 0xF0), [(0x90, 0xBF), TAIL, TAIL]),           # UTF8-4
    ((0xF1, 0xF3), [TAIL, TAIL, TAIL]),
    ((0xF4, 0xF4), [(0x80, 0x8F), TAIL, TAIL]),
]
UTF8_LEAD = {}
for (_lo, _hi), _conts in UTF8_TABLE:
    for _b in range(_lo, _hi + 1):
        UTF8_LEAD[_b] = _conts
PAYLOAD_MASK = {1: 0x7F, 2: 0x1F, 3: 0x0F, 4: 0x07}       # RFC 3629 section 3: 0xxxxxxx 110xxxxx 1110xxxx 11110xxx

OK, FAIL, TRUNC = 1, 0, 2


def dec_utf8(bs):
    """(OK, cp, n) if bs starts with a well-formed unit; (FAIL,) if no extension of bs can;
    (TRUNC,) if bs is a proper prefix of a possibly well-formed unit (fails if input ends here)."""
    if not bs:
        return (TRUNC,)
    conts = UTF8_LEAD.get(bs[0])
    if conts is None:
        return (FAIL,)
    n = 1 + len(conts)
    cp = bs[0] & PAYLOAD_MASK[n]
    for i, (lo, hi) in enumerate(conts):
        if i + 1 >= len(bs):
            return (TRUNC,)
        b = bs[i + 1]
        if b < lo or b > hi:
            return (FAIL,)
        cp = (cp << 6) | (b & 0x3F)
    return (OK, cp, n)


def dec_utf16(order):
    def f(bs):
        if len(bs) < 2:
            return (TRUNC,)
        u = int.from_bytes(bytes(bs[0:2]), order)
        if u < 0xD800 or u > 0xDFFF:
            return (OK, u, 2)
        if u >= 0xDC00:
            return (FAIL,)                                # low surrogate first
        if len(bs) < 4:
            return (TRUNC,)
        l = int.from_bytes(bytes(bs[2:4]), order)
        if l < 0xDC00 or l > 0xDFFF:
            return (FAIL,)
        return (OK, 0x10000 + ((u - 0xD800) << 10) + (l - 0xDC00), 4)
    return f


def dec_utf32(order):
    def f(bs):
        if len(bs) < 4:
            return (TRUNC,)
        u = int.from_bytes(bytes(bs[0:4]), order)
        if u > 0x10FFFF or 0xD800 <= u <= 0xDFFF:
            return (FAIL,)
        return (OK, u, 4)
    return f


def dec_uint(w, order):
    def f(bs):
        if len(bs) < w:
            return (TRUNC,)
        return (OK, int.from_bytes(bytes(bs[0:w]), order), w)
    return f


def dec_char(bs):
    if not bs:
        return (TRUNC,)
    b = bs[0]
    return (OK, b - 256 if b >= 128 else b, 1)            # C `char` is signed on the modelled platform


DECODERS = {
    "ascii": dec_char, "utf8": dec_utf8,
    "utf16be": dec_utf16("big"), "utf16le": dec_utf16("little"),
    "utf32be": dec_utf32("big"), "utf32le": dec_utf32("little"),
    "uint8": dec_uint(1, "big"), "uint8m": dec_uint(1, "big"),
    "uint16be": dec_uint(2, "big"), "uint16le": dec_uint(2, "little"),
    "uint32be": dec_uint(4, "big"), "uint32le": dec_uint(4, "little"),
    "uint64be": dec_uint(8, "big"), "uint64le": dec_uint(8, "little"),
}

# ----------------------------------------------------------------------------- oracle: documented sets


def _s(chars):
    return frozenset(ord(c) for c in chars)


LOWER = _s("abcdefghijklmnopqrstuvwxyz")
UPPER = _s("ABCDEFGHIJKLMNOPQRSTUVWXYZ")
DIGIT = _s("0123456789")
CLASS_SETS = {
    # doc/Rule-Reference.md, "ASCII Rules"
    "alnum": LOWER | UPPER | DIGIT, "alpha": LOWER | UPPER, "any": frozenset(range(256)),
    "blank": _s(" \t"), "digit": DIGIT, "identifier_first": LOWER | UPPER | _s("_"),
    "identifier_other": LOWER | UPPER | DIGIT | _s("_"), "lower": LOWER, "nul": frozenset([0]),
    "odigit": _s("01234567"), "print": frozenset(range(32, 127)), "seven": frozenset(range(0, 128)),
    "space": _s(" \n\r\t\v\f"), "upper": UPPER, "xdigit": DIGIT | _s("abcdefABCDEF"),
    # RFC 5234 appendix B.1 (ABNF literal strings are case-insensitive, hence a-f in HEXDIG)
    "abnf::ALPHA": frozenset(range(0x41, 0x5B)) | frozenset(range(0x61, 0x7B)), "abnf::BIT": _s("01"),
    "abnf::CHAR": frozenset(range(0x01, 0x80)), "abnf::CR": frozenset([0x0D]),
    "abnf::CTL": frozenset(range(0x00, 0x20)) | frozenset([0x7F]), "abnf::DIGIT": frozenset(range(0x30, 0x3A)),
    "abnf::DQUOTE": frozenset([0x22]), "abnf::HEXDIG": DIGIT | _s("ABCDEFabcdef"), "abnf::HTAB": frozenset([0x09]),
    "abnf::LF": frozenset([0x0A]), "abnf::OCTET": frozenset(range(256)), "abnf::SP": frozenset([0x20]),
    "abnf::VCHAR": frozenset(range(0x21, 0x7F)), "abnf::WSP": frozenset([0x20, 0x09]),
}
CLASS_ORDER = ["alnum", "alpha", "any", "blank", "digit", "identifier_first", "identifier_other", "lower", "nul", "odigit",
               "print", "seven", "space", "upper", "xdigit", "abnf::ALPHA", "abnf::BIT", "abnf::CHAR", "abnf::CR", "abnf::CTL",
               "abnf::DIGIT", "abnf::DQUOTE", "abnf::HEXDIG", "abnf::HTAB", "abnf::LF", "abnf::OCTET", "abnf::SP", "abnf::VCHAR",
               "abnf::WSP"]

# ----------------------------------------------------------------------------- oracle: rule meaning from surface text
ESC = {"n": 10, "r": 13, "t": 9, "v": 11, "f": 12, "0": 0, "\\": 92, "'": 39}


def parse_arg(a):
    a = a.strip()
    m = re.fullmatch(r"char\(\s*(.+?)\s*\)", a)
    if m:
        v = int(m.group(1), 0) & 0xFF
        return ("char", v)
    if a.startswith("'"):
        body = a[1:-1]
        v = ESC[body[1]] if body.startswith("\\") else ord(body)
        return ("char", v)
    return ("int", int(a, 0))


def split_args(s):
    out, depth, cur, q = [], 0, "", False
    for c in s:
        if c == "'" :
            q = not q
        if c == "(" and not q:
            depth += 1
        if c == ")" and not q:
            depth -= 1
        if c == "," and depth == 0 and not q:
            out.append(cur)
            cur = ""
        else:
            cur += c
    if cur.strip():
        out.append(cur)
    return out


class Rule:
    def __init__(self, family, idx, text, dump):
        self.family, self.idx, self.text, self.dump = family, idx, text.strip(), dump.strip()
        m = re.fullmatch(r"([A-Za-z_:0-9]+)\s*(?:<(.*)>)?", self.text)
        self.name = m.group(1)
        raw = [parse_arg(a) for a in split_args(m.group(2))] if m.group(2) else []
        if family == "ascii":
            # template arguments of type char: compare as the signed values they are
            self.vals = [(v - 256 if v >= 128 else v) if k == "char" else v for k, v in raw]
        else:
            self.vals = [v for _, v in raw]
        self.mask = None
        self.kind = self.name
        if self.name.startswith("mask_"):
            self.mask = self.vals[0]
            self.vals = self.vals[1:]
            self.kind = self.name[5:]
        self.has_peek = self.kind not in ("string", "istring")

    def accepts(self, data):
        k, vs = self.kind, self.vals
        if k in CLASS_SETS and self.family == "ascii" and not vs and k != "any":
            return (data & 0xFF) in CLASS_SETS[k]
        if k == "any":
            return True
        if k == "bom":
            return data == 0xFEFF
        if k == "one":
            return data in vs
        if k == "not_one":
            return data not in vs
        if k == "range":
            return vs[0] <= data <= vs[1]
        if k == "not_range":
            return not (vs[0] <= data <= vs[1])
        if k == "ranges":
            for i in range(0, len(vs) - 1, 2):
                if vs[i] <= data <= vs[i + 1]:
                    return True
            return len(vs) % 2 == 1 and data == vs[-1]
        raise ValueError("oracle does not know rule " + self.text)

    def string_match(self, bs):
        n = len(self.vals)
        if len(bs) < n:
            return False
        for c, b in zip(self.vals, bs):
            if self.kind == "string":
                if b != c:
                    return False
            else:
                letter = (0x41 <= c <= 0x5A) or (0x61 <= c <= 0x7A)   # ASCII letters only
                if not (b == c or (letter and b == (c ^ 0x20))):
                    return False
        return True


ZERO = (0, 0, 0, 0, False)     # ok, consumed, psize, |data|, negative


def records(family, rules, bs, leaf):
    """Expected observation of every rule on any input that starts with bs (leaf: input == bs).
    None = not decided by bs alone."""
    if family == "string":
        need = max(len(r.vals) for r in rules)
        if not leaf and len(bs) < need:
            return None
        out = []
        for r in rules:
            ok = r.string_match(bs)
            out.append((1, len(r.vals), 0, 0, False) if ok else ZERO)
        return out
    st = DECODERS[family](bs)
    if st[0] == TRUNC:
        if not leaf:
            return None
        st = (FAIL,)
    if st[0] == FAIL:
        return [ZERO] * len(rules)
    _, v, n = st
    out = []
    for r in rules:
        if r.kind == "one" and not r.vals:
            out.append(ZERO)           # one<> (empty value list) is documented as equivalent to failure: no peek, never matches
            continue
        d = v & r.mask if r.mask is not None else v
        acc = r.accepts(d)
        out.append((1 if acc else 0, n if acc else 0, n, abs(d), d < 0))
    return out


def rec_words(rec):
    ok, consumed, psize, mag, neg = rec
    return (ok | (consumed << 1) | (psize << 6), mag & 0x3FFFFFFF, (mag >> 30) & 0x3FFFFFFF, (mag >> 60) | (16 if neg else 0))


def rec_str(rec):
    ok, consumed, psize, mag, neg = rec
    return "%d:%d:%d:%s%X" % (ok, consumed, psize, "-" if neg else "", mag)


# ----------------------------------------------------------------------------- specs
class Spec:
    def __init__(self, family, sel, kind, alphas=None, path=None, cases=None, note=""):
        self.family, self.sel, self.kind, self.alphas, self.path, self.file_cases, self.note = family, sel, kind, alphas, path, cases, note

    def line(self):
        sel = "all" if self.sel is None else ",".join(str(i) for i in self.sel)
        if self.kind == "pp":
            return " ".join([self.family, sel, "pp"] + [("all" if len(a) == 256 and a == list(range(256)) else "hex:" + "".join("%02X" % b for b in a)) for a in self.alphas])
        return " ".join([self.family, sel, "file", self.path])

    def ncases(self):
        if self.kind == "pp":
            n = 1
            for a in self.alphas:
                n *= len(a)
            return n
        return len(self.file_cases)

    def nrules(self, fam_rules):
        return len(fam_rules[self.family]) if self.sel is None else len(self.sel)

    def rules(self, fam_rules):
        fr = fam_rules[self.family]
        return fr if self.sel is None else [fr[i] for i in self.sel]


def oracle_digest(args):
    """Expected digest of a spec, by pruned recursion: a subtree of inputs sharing a prefix that
    already decides every rule contributes in closed form."""
    spec, rules = args
    fam = spec.family
    nR = len(rules)
    s1 = s2 = 0
    nonzero = 0

    def contrib(recs, first, count):
        nonlocal s1, s2, nonzero
        last = first + count - 1
        base = 4 * nR * ((first + last) * count // 2)
        for j, rec in enumerate(recs):
            if rec is ZERO:
                continue
            ws = rec_words(rec)
            nz = False
            for t in range(4):
                w = ws[t]
                if w:
                    nz = True
                    s = base + (j * 4 + t + 1) * count
                    s1 += s * w
                    s2 += s * w
            if nz:
                nonzero += count

    if spec.kind == "file":
        for i, bs in enumerate(spec.file_cases):
            contrib(records(fam, rules, bs, True), i, 1)
        return (spec.ncases(), nonzero, s1 % M1, s2 % M2)
    al = spec.alphas
    L = len(al)
    sub = [1] * (L + 1)
    for d in range(L - 1, -1, -1):
        sub[d] = sub[d + 1] * len(al[d])

    def go(prefix, d, first):
        recs = records(fam, rules, prefix, d == L)
        if recs is not None:
            contrib(recs, first, sub[d])
            return
        step = sub[d + 1]
        for i, a in enumerate(al[d]):
            go(prefix + [a], d + 1, first + i * step)

    go([], 0, 0)
    return (spec.ncases(), nonzero, s1 % M1, s2 % M2)


def enumerate_spec(spec):
    if spec.kind == "file":
        for bs in spec.file_cases:
            yield list(bs)
        return
    al = spec.alphas
    L = len(al)
    ix = [0] * L
    while True:
        yield [al[i][ix[i]] for i in range(L)]
        p = L
        while True:
            if p == 0:
                return
            p -= 1
            ix[p] += 1
            if ix[p] < len(al[p]):
                break
            ix[p] = 0


# ----------------------------------------------------------------------------- case spaces
ALL = list(range(256))
# one representative at every boundary of the RFC 3629 byte classes
B26 = [0x00, 0x7F, 0x80, 0x8F, 0x90, 0x9F, 0xA0, 0xBF, 0xC0, 0xC1, 0xC2, 0xDF, 0xE0, 0xE1, 0xEC, 0xED, 0xEE, 0xEF,
       0xF0, 0xF1, 0xF3, 0xF4, 0xF5, 0xF7, 0xF8, 0xFF]
B16 = [0x00, 0x01, 0x41, 0x7F, 0x80, 0xD7, 0xD8, 0xD9, 0xDB, 0xDC, 0xDD, 0xDF, 0xE0, 0xFD, 0xFE, 0xFF]
B32 = [0x00, 0x01, 0x0F, 0x10, 0x11, 0x41, 0xD7, 0xD8, 0xDF, 0xE0, 0xFE, 0xFF]
BSTR = [0x41, 0x61, 0x4B, 0x6B, 0x5A, 0x7A, 0x39, 0x19, 0x5F, 0x7F, 0x40, 0x60, 0x5B, 0x7B, 0xC9, 0xE9]
BU16 = [0x00, 0x01, 0x02, 0x0D, 0x0F, 0x10, 0x12, 0x30, 0x34, 0x7F, 0x80, 0x81, 0xE0, 0xF0, 0xFE, 0xFF]
BU32 = [0x00, 0x01, 0x12, 0x34, 0x56, 0x78, 0x7F, 0x80, 0xFE, 0xFF]
BU64 = [0x00, 0x01, 0x80, 0xFF]
SURR_HI = [0xD7, 0xD8, 0xD9, 0xDA, 0xDB, 0xDC, 0xDD, 0xDE, 0xDF, 0xE0]


def rule_constant_cases(rules, w, order):
    """for the binary rules: every constant named by a rule, its neighbours and single-bit flips
    inside/outside the masks, as w-byte strings"""
    vals = set()
    top = (1 << (8 * w)) - 1
    for r in rules:
        cs = list(r.vals) + ([r.mask] if r.mask is not None else [])
        for c in cs:
            for d in (-1, 0, 1):
                vals.add((c + d) & top)
            for bit in range(0, 8 * w, max(1, w)):
                vals.add((c ^ (1 << bit)) & top)
            if r.mask is not None:
                vals.add((c | (~r.mask & top)) & top)
    return [list(v.to_bytes(w, order)) for v in sorted(vals)]


def build_specs(tier, seed, fam_rules, tmpdir):
    S = []
    rng = random.Random(seed)

    def pp(fam, sel, alphas, note=""):
        S.append(Spec(fam, sel, "pp", alphas=[list(a) for a in alphas], note=note))

    def fl(fam, sel, cases, name, note=""):
        path = os.path.join(tmpdir, name + ".cases")
        with open(path, "w") as fh:
            for bs in cases:
                fh.write(("".join("%02X" % b for b in bs) or "-") + "\n")
        S.append(Spec(fam, sel, "file", path=path, cases=[list(b) for b in cases], note=note))

    # ---- ascii classes / one / range / ranges over peek_char: every byte value, every second byte class
    pp("ascii", None, [])
    pp("ascii", None, [ALL])
    pp("ascii", None, [ALL, [0x00, 0x0A, 0x41, 0x80, 0xFF]])
    # ---- string / istring: folding-relevant bytes in every position, every truncation, one trailing byte
    for n in range(0, 5):
        pp("string", None, [BSTR] * n)
    pp("string", None, [BSTR] * 4 + [[0x41, 0x00]])
    pp("string", None, [ALL, ALL])
    # ---- UTF-8
    pp("utf8", None, [])
    pp("utf8", None, [ALL])
    pp("utf8", None, [ALL, ALL])
    pp("utf8", None, [B26] * 3)
    pp("utf8", None, [B26] * 4)
    pp("utf8", [0, 2], [B26] * 5)
    # every scalar-value boundary and its neighbours, encoded, with every truncation and a trailing byte
    fl("utf8", None, utf8_boundary_cases(), "utf8_boundaries")
    # ---- UTF-16: all single units, boundary pairs, every truncation (odd lengths, lone surrogates)
    for fam in ("utf16be", "utf16le"):
        pp(fam, None, [])
        pp(fam, None, [ALL])
        pp(fam, None, [ALL, ALL])
        pp(fam, None, [B16] * 3)
        pp(fam, None, [B16] * 4)
        pp(fam, [0, 2], [B16] * 5)
    # ---- UTF-32: boundary lattice, every truncation
    for fam in ("utf32be", "utf32le"):
        for n in range(0, 4):
            pp(fam, None, [B32] * n)
        pp(fam, None, [B32] * 4)
        pp(fam, [0, 2], [B32] * 4 + [[0x00, 0xFF]])
        order = "big" if fam.endswith("be") else "little"
        vals = set()
        for c in (0, 0x7F, 0x80, 0x7FF, 0x800, 0xD7FF, 0xD800, 0xDBFF, 0xDC00, 0xDFFF, 0xE000, 0xFEFF, 0xFFFD, 0xFFFF, 0x10000,
                  0x103FF, 0x10400, 0x1F600, 0x10FFFF, 0x110000, 0x7FFFFFFF, 0x80000000, 0xFFFFFFFF, 0x00D80000, 0xFFFE0000,
                  0xFFFF1000, 0x01000000, 0x00110000, 0x0010FFFF):
            for d in (-2, -1, 0, 1, 2):
                vals.add((c + d) & 0xFFFFFFFF)
        fl(fam, None, [list(v.to_bytes(4, order)) for v in sorted(vals)], fam + "_boundaries")
    # ---- uint8: all values, all rules (17 rules with 9 different masks), truncation, trailing byte
    pp("uint8", None, [])
    pp("uint8", None, [ALL])
    pp("uint8", None, [ALL, [0x00, 0xFF]])
    # ---- uint8, every mask value 0..255 (512 generated rules): all byte values
    pp("uint8m", None, [])
    pp("uint8m", None, [ALL])
    # ---- uint16: all values
    for fam in ("uint16be", "uint16le"):
        pp(fam, None, [])
        pp(fam, None, [ALL])
        pp(fam, None, [ALL, ALL] if tier == "thorough" else [BU16, BU16])
        if tier != "thorough":
            pp(fam, [0, 1, 6], [ALL, ALL])
        pp(fam, None, [BU16, BU16, [0x00, 0xFF]])
        order = "big" if fam.endswith("be") else "little"
        fl(fam, None, rule_constant_cases(fam_rules[fam], 2, order), fam + "_constants")
    for fam in ("uint32be", "uint32le"):
        for n in range(0, 4):
            pp(fam, None, [BU32] * n)
        pp(fam, None, [BU32] * 4)
        pp(fam, [0, 1], [BU32] * 4 + [[0x00]])
        order = "big" if fam.endswith("be") else "little"
        fl(fam, None, rule_constant_cases(fam_rules[fam], 4, order), fam + "_constants")
    for fam in ("uint64be", "uint64le"):
        for n in range(0, 8):
            pp(fam, None, [[0x00, 0x80, 0xFF]] * n)
        pp(fam, None, [BU64] * 8)
        pp(fam, [0, 1], [[0x00, 0xFF]] * 8 + [[0x00]])
        order = "big" if fam.endswith("be") else "little"
        fl(fam, None, rule_constant_cases(fam_rules[fam], 8, order), fam + "_constants")

    if tier == "thorough":
        # all 3-byte sequences (all rules), all 4-byte sequences with lead F0..F7 (any + one<...>);
        # leads F8..FF and every other lead are covered through all 1-3-byte sequences and B26^4
        for b0 in range(256):
            pp("utf8", None, [[b0], ALL, ALL], note="all 3-byte")
        for b0 in range(0xF0, 0xF8):
            for b1 in range(256):
                pp("utf8", None, [[b0], [b1], ALL, ALL], note="all 4-byte lead F0..F7")
        # 4-byte sequences with any lead below F0 over the boundary alphabet but ALL last bytes
        pp("utf8", [0], [B26, B26, B26, ALL])
        for fam in ("utf16be", "utf16le"):
            hi_first = fam.endswith("be")
            for h1 in SURR_HI:
                a = [[h1], ALL] if hi_first else [ALL, [h1]]
                b = [SURR_HI, ALL] if hi_first else [ALL, SURR_HI]
                pp(fam, None, a + b, note="all unit pairs around the surrogate blocks")
            # any first unit x boundary second unit
            c = [ALL, ALL] + ([[0x00, 0xD8, 0xDB, 0xDC, 0xDF, 0xFF], [0x00, 0xFF]] if hi_first else [[0x00, 0xFF], [0x00, 0xD8, 0xDB, 0xDC, 0xDF, 0xFF]])
            pp(fam, [0, 2], c)
        for fam in ("utf32be", "utf32le"):
            order = "big" if fam.endswith("be") else "little"
            # every value up to 0x11FFFF (the whole valid range and its upper neighbourhood)
            for hi in range(0x00, 0x12):
                if order == "big":
                    pp(fam, [0, 2, 4], [[0x00], [hi], ALL, ALL], note="all values <= 0x11FFFF")
                else:
                    pp(fam, [0, 2, 4], [ALL, ALL, [hi], [0x00]], note="all values <= 0x11FFFF")
            n = 1 << 20
            vals = [rng.getrandbits(32) for _ in range(n // 2)] + [rng.randrange(0, 0x120000) for _ in range(n // 4)] \
                + [(rng.getrandbits(8) << 24) | rng.randrange(0, 0x120000) for _ in range(n // 4)]
            fl(fam, None, [list(v.to_bytes(4, order)) for v in vals], fam + "_sampled", note="2^20 sampled 32-bit units (seeded)")
        for fam, w in (("uint32be", 4), ("uint32le", 4), ("uint64be", 8), ("uint64le", 8)):
            order = "big" if fam.endswith("be") else "little"
            n = 1 << 18
            vals = [rng.getrandbits(8 * w) for _ in range(n)]
            fl(fam, None, [list(v.to_bytes(w, order)) for v in vals], fam + "_sampled", note="2^18 sampled values (seeded)")
        pp("uint64be", None, [[0x00, 0x01, 0x7F, 0x80, 0xFF]] * 8)
        pp("uint64le", None, [[0x00, 0x01, 0x7F, 0x80, 0xFF]] * 8)
        pp("string", None, [BSTR + [0x00, 0x20, 0xFF, 0x1A]] * 4)
    return S


def utf8_encode_ref(cp):
    """RFC 3629 section 3 (used only to build inputs; the verdict comes from dec_utf8)"""
    if cp < 0x80:
        return [cp]
    if cp < 0x800:
        return [0xC0 | (cp >> 6), 0x80 | (cp & 0x3F)]
    if cp < 0x10000:
        return [0xE0 | (cp >> 12), 0x80 | ((cp >> 6) & 0x3F), 0x80 | (cp & 0x3F)]
    return [0xF0 | ((cp >> 18) & 0x07), 0x80 | ((cp >> 12) & 0x3F), 0x80 | ((cp >> 6) & 0x3F), 0x80 | (cp & 0x3F)]


def utf8_boundary_cases():
    cases = []
    seen = set()
    for c in (0, 0x41, 0x7F, 0x80, 0xE9, 0x7FF, 0x800, 0xFFF, 0x1000, 0x20AC, 0xCFFF, 0xD000, 0xD7FF, 0xD800, 0xDBFF, 0xDC00,
              0xDFFF, 0xE000, 0xFEFF, 0xFFFD, 0xFFFF, 0x10000, 0x1F600, 0x3FFFF, 0x40000, 0xFFFFF, 0x100000, 0x10FFFF, 0x110000,
              0x13FFFF, 0x140000, 0x1FFFFF):
        for d in (-1, 0, 1):
            cp = c + d
            if cp < 0 or cp > 0x1FFFFF:
                continue
            enc = utf8_encode_ref(cp)
            forms = [enc]
            # overlong forms of the same number
            if cp < 0x80:
                forms.append([0xC0 | (cp >> 6), 0x80 | (cp & 0x3F)])
            if cp < 0x800:
                forms.append([0xE0, 0x80 | ((cp >> 6) & 0x3F), 0x80 | (cp & 0x3F)])
            if cp < 0x10000:
                forms.append([0xF0, 0x80 | ((cp >> 12) & 0x3F), 0x80 | ((cp >> 6) & 0x3F), 0x80 | (cp & 0x3F)])
            for f in forms:
                for k in range(0, len(f) + 1):
                    for tail in ([], [0x41], [0x80], [0xFF]):
                        if k < len(f) and tail and tail != [0x41]:
                            continue
                        bs = tuple(f[:k] + tail)
                        if bs not in seen:
                            seen.add(bs)
                            cases.append(list(bs))
    return cases


# ----------------------------------------------------------------------------- running the programs
def run_chunks(exe_args_fn, specs, fam_rules, tmpdir, tag, jobs):
    """distribute specs over `jobs` processes balanced by estimated cost; returns {spec index: fields}"""
    order = sorted(range(len(specs)), key=lambda i: -(specs[i].ncases() * specs[i].nrules(fam_rules)))
    loads = [0] * jobs
    chunks = [[] for _ in range(jobs)]
    for i in order:
        j = loads.index(min(loads))
        chunks[j].append(i)
        loads[j] += specs[i].ncases() * specs[i].nrules(fam_rules) + 2000
    res = {}

    def run(j):
        if not chunks[j]:
            return []
        path = os.path.join(tmpdir, "%s_%d.spec" % (tag, j))
        with open(path, "w") as fh:
            for i in chunks[j]:
                fh.write(specs[i].line() + "\n")
        rc, out = vlib.sh(exe_args_fn(path), timeout=3000)
        lines = [l for l in out.split("\n") if l.startswith("D ")]
        if rc != 0 or len(lines) != len(chunks[j]):
            raise RuntimeError("%s chunk %d failed (rc=%s):\n%s" % (tag, j, rc, out[-2000:]))
        return [(chunks[j][int(l.split()[1])], l.split()[2:]) for l in lines]

    with concurrent.futures.ThreadPoolExecutor(max_workers=jobs) as ex:
        for part in ex.map(run, range(jobs)):
            for i, f in part:
                res[i] = f
    return res


def run_verbose(cmd_fn, spec, tmpdir, tag):
    path = os.path.join(tmpdir, "%s_verbose.spec" % tag)
    with open(path, "w") as fh:
        fh.write(spec.line() + "\n")
    rc, out = vlib.sh(cmd_fn(path), timeout=3000)
    return [l for l in out.split("\n") if l.startswith("C ")]



_uniq = [0]


def split_spec(spec, tmpdir):
    """smaller specs that together enumerate the same inputs"""
    if spec.kind == "pp":
        for d, a in enumerate(spec.alphas):
            if len(a) > 1:
                return [Spec(spec.family, spec.sel, "pp", alphas=spec.alphas[:d] + [[b]] + spec.alphas[d + 1:]) for b in a]
        return []
    n = len(spec.file_cases)
    if n < 2:
        return []
    k = min(16, n)
    out = []
    for i in range(k):
        part = spec.file_cases[i * n // k:(i + 1) * n // k]
        _uniq[0] += 1
        path = os.path.join(tmpdir, "narrow_%d.cases" % _uniq[0])
        with open(path, "w") as fh:
            for bs in part:
                fh.write(("".join("%02X" % b for b in bs) or "-") + "\n")
        out.append(Spec(spec.family, spec.sel, "file", path=path, cases=part))
    return out


def narrow(spec, first_bad, tmpdir, limit=70000):
    """a spec whose digests disagree -> a sub-spec of at most `limit` inputs that still disagrees"""
    while spec.ncases() > limit:
        subs = split_spec(spec, tmpdir)
        if not subs:
            break
        bad = first_bad(subs)
        if bad is None:
            break
        spec = bad
    return spec


def sig_for(rule, bs, got, exp):
    what = "accepts" if got.startswith("1") and exp.startswith("0") else ("rejects" if got.startswith("0") and exp.startswith("1") else "mis-decodes")
    return "%s %s %s %s" % (rule.family, rule.text, what, "".join("%02X" % b for b in bs) or "<empty>")


def buf_stage(ctx):
    """multi-byte units arriving in pieces: harness/c10_buf.cpp runs the unit rules on the same bytes through memory_input
    and through buffer_input with readers delivering 1, 2, 3 or 5 bytes per call (result and consumed count must agree)"""
    vlib.bad_done_stage(ctx, "c10_buf.cpp", "c10_buf", "unit delivered in pieces differs from memory_input", "buf")


def run(ctx):
    t0 = time.time()
    buf_stage(ctx)
    rep = ctx.proofs("Properties_C10")
    model = vlib.build_ocaml("ExtractC10", "c10_driver.ml", "c10_driver")
    impl = vlib.build_cpp([os.path.join(vlib.VERIF, "harness", "c10_impl.cpp")], "c10_impl", flags=["-O1"])
    tmpdir = os.path.join(vlib.BUILD, "c10run-%d" % os.getpid())
    shutil.rmtree(tmpdir, ignore_errors=True)
    os.makedirs(tmpdir)
    try:
        _run(ctx, model, impl, tmpdir, t0)
    finally:
        shutil.rmtree(tmpdir, ignore_errors=True)


def load_rules(impl, tmpdir):
    rc, out = vlib.sh([impl, "--rules"], timeout=60)
    rules_path = os.path.join(tmpdir, "rules.txt")
    with open(rules_path, "w") as fh:
        fh.write(out)
    fam_rules = {}
    for l in out.split("\n"):
        m = re.fullmatch(r"RULE (\S+) (\d+) (.*) \| (.*)", l)
        if m:
            fam_rules.setdefault(m.group(1), []).append(Rule(m.group(1), int(m.group(2)), m.group(3), m.group(4)))
    return rules_path, fam_rules


def _run(ctx, model, impl, tmpdir, t0):
    jobs = vlib.JOBS
    rules_path, fam_rules = load_rules(impl, tmpdir)
    nrules = sum(len(v) for v in fam_rules.values())
    untranslatable = [r for rs in fam_rules.values() for r in rs if r.dump.startswith("unknown")]
    for r in untranslatable:
        ctx.diff("untranslatable rule_t (compiler dump)", r.family + " " + r.text, impl=r.dump)

    # --- structure tie: the class table transcribed in Coq = what the compiler says the rules are
    rc, out = vlib.sh([model, "--classes"], timeout=60)
    coq_classes = [re.fullmatch(r"CLASS (\d+) (\S+) \| (.*)", l) for l in out.split("\n") if l.startswith("CLASS ")]
    asc = fam_rules.get("ascii", [])
    if [m.group(2) for m in coq_classes] != CLASS_ORDER:
        ctx.diff("class_table names/order differ from the check's list", "class_table", model=[m.group(2) for m in coq_classes])
    for m in coq_classes:
        i = int(m.group(1))
        if i >= len(asc) or asc[i].text != m.group(2) or asc[i].dump != m.group(3).strip():
            ctx.diff("class_table entry differs from the compiler's dump of ascii.hpp/abnf.hpp", m.group(2),
                     impl=(asc[i].text + " | " + asc[i].dump) if i < len(asc) else None, model=m.group(3))

    specs = build_specs(ctx.tier, ctx.seed, fam_rules, tmpdir)
    ncases = sum(s.ncases() for s in specs)
    nobs = sum(s.ncases() * s.nrules(fam_rules) for s in specs)

    # --- run implementation, model and oracle
    with multiprocessing.Pool(jobs) as pool:
        oracle_async = pool.map_async(oracle_digest, [(s, s.rules(fam_rules)) for s in specs], chunksize=1)
        with concurrent.futures.ThreadPoolExecutor(max_workers=2) as ex:
            f_impl = ex.submit(run_chunks, lambda p: [impl, p], specs, fam_rules, tmpdir, "impl", jobs)
            f_model = ex.submit(run_chunks, lambda p: [model, rules_path, p], specs, fam_rules, tmpdir, "model", jobs)
            r_impl = f_impl.result()
            r_model = f_model.result()
        r_oracle = oracle_async.get()
    t_run = time.time() - t0

    nonzero = 0
    bad_specs_model, bad_specs_oracle = [], []
    oob = 0
    for i, s in enumerate(specs):
        fi, fm, fo = r_impl[i], r_model[i], r_oracle[i]
        nonzero += int(fi[1])
        oob += int(fi[4])
        if int(fm[4]) != 0:
            ctx.diff("model reached Err/OOB (unreachable by theorem do_peek_no_oob)", s.line(), model=fm)
        if fi[:4] != fm[:4]:
            bad_specs_model.append(i)
        if tuple(int(x) for x in fi[:4]) != tuple(fo):
            bad_specs_oracle.append(i)

    # --- localise disagreements: narrow the offending spec by re-digesting sub-specs, then one verbose run
    def first_bad_model(subs):
        a = run_chunks(lambda p: [impl, p], subs, fam_rules, tmpdir, "nimpl", min(jobs, len(subs)))
        b = run_chunks(lambda p: [model, rules_path, p], subs, fam_rules, tmpdir, "nmodel", min(jobs, len(subs)))
        return next((subs[i] for i in range(len(subs)) if a[i][:4] != b[i][:4]), None)

    def first_bad_oracle(subs):
        a = run_chunks(lambda p: [impl, p], subs, fam_rules, tmpdir, "nimpl", min(jobs, len(subs)))
        return next((subs[i] for i in range(len(subs)) if tuple(int(x) for x in a[i][:4]) != tuple(oracle_digest((subs[i], subs[i].rules(fam_rules))))), None)

    def first_bad_oob(subs):
        a = run_chunks(lambda p: [impl, p], subs, fam_rules, tmpdir, "nimpl", min(jobs, len(subs)))
        return next((subs[i] for i in range(len(subs)) if int(a[i][4]) != 0), None)

    if oob:
        oob_specs = sorted((i for i in range(len(specs)) if int(r_impl[i][4]) != 0), key=lambda i: specs[i].ncases())
        s = narrow(specs[oob_specs[0]], first_bad_oob, tmpdir)
        li = run_verbose(lambda p: [impl, "-v", p], s, tmpdir, "impl")
        hit = next((l.split()[1] for l in li if l.endswith("!oob")), None)
        hexs = "" if hit in (None, "-") else hit
        ctx.violation("%s rule reads outside the input on %s" % (s.family, hexs or "<unknown>"),
                      "%d guarded accesses outside [current,end) reported by the memory_input bounds hook; first on %s input %s (exact-size buffer): a rule inspected bytes that are not there"
                      % (oob, s.family, hexs or "<empty>"),
                      {"family": s.family, "rule_index": (s.sel[0] if s.sel else 0), "rule": s.rules(fam_rules)[0].text, "input_hex": hexs, "oob": True, "count": oob})

    bad_specs_model.sort(key=lambda i: specs[i].ncases())
    bad_specs_oracle.sort(key=lambda i: specs[i].ncases())
    for i in bad_specs_model[:4]:
        s = narrow(specs[i], first_bad_model, tmpdir)
        li = run_verbose(lambda p: [impl, "-v", p], s, tmpdir, "impl")
        lm = run_verbose(lambda p: [model, "-v", rules_path, p], s, tmpdir, "model")
        li = [l.replace(" !oob", "") for l in li]
        first = next(((a, b) for a, b in zip(li, lm) if a != b), (li[:1], lm[:1]))
        ctx.diff("model and implementation disagree", {"spec": specs[i].line(), "rules": [r.text for r in s.rules(fam_rules)]}, impl=first[0], model=first[1])
    for i in bad_specs_model[4:]:
        ctx.diff("model and implementation disagree (digest only)", {"spec": specs[i].line()}, impl=r_impl[i], model=r_model[i])
    nviol = 0
    for i in bad_specs_oracle:
        if nviol >= 6:
            break
        s = narrow(specs[i], first_bad_oracle, tmpdir)
        rules = s.rules(fam_rules)
        li = run_verbose(lambda p: [impl, "-v", p], s, tmpdir, "impl")
        found = False
        for l, bs in zip(li, enumerate_spec(s)):
            toks = [t for t in l.split() if t != "!oob"]
            exp = [rec_str(r) for r in records(s.family, rules, bs, True)]
            got = toks[2:]
            if got != exp:
                for r, g, e in zip(rules, got, exp):
                    if g != e:
                        ctx.violation(sig_for(r, bs, g, e),
                                      "%s::%s on input %s (exact-size buffer): implementation ok:consumed:peeksize:peekdata = %s, specification (RFC 3629 / Unicode / documented set) = %s"
                                      % (r.family, r.text, "".join("%02X" % b for b in bs) or "<empty>", g, e),
                                      {"family": r.family, "rule_index": r.idx, "rule": r.text, "input_hex": "".join("%02X" % b for b in bs), "impl": g, "expected": e})
                        nviol += 1
                        found = True
                        break
            if found:
                break
        if not found:
            ctx.diff("implementation digest differs from the oracle digest but the verbose re-run shows no differing case (answer not a function of the input - uninitialised or out-of-bounds read - or a harness bug)", specs[i].line(), impl=r_impl[i])

    # --- thorough: the same inputs (all specs up to 500k inputs) under AddressSanitizer + UBSan:
    #     exact-size heap buffers turn any read past a truncated unit into a report
    if ctx.tier == "thorough":
        try:
            asan = vlib.build_cpp([os.path.join(vlib.VERIF, "harness", "c10_impl.cpp")], "c10_impl_asan",
                                  flags=["-O1", "-g", "-fsanitize=address,undefined", "-fno-sanitize-recover=all"])
        except vlib.BuildError as e:
            asan = None
            ctx.note("sanitizer build unavailable: " + str(e)[-300:])
        if asan:
            small_ix = [i for i, s in enumerate(specs) if s.ncases() <= 500000]
            small = [specs[i] for i in small_ix]
            try:
                r_asan = run_chunks(lambda p: ["env", "ASAN_OPTIONS=detect_leaks=0", asan, p], small, fam_rules, tmpdir, "asan", jobs)
            except RuntimeError as e:
                # localise: first spec that aborts, narrowed to <= 70k inputs, then the input after the last completed verbose line
                def aborts(sp):
                    path = os.path.join(tmpdir, "asan_one.spec")
                    with open(path, "w") as fh:
                        fh.write(sp.line() + "\n")
                    rc, out = vlib.sh(["env", "ASAN_OPTIONS=detect_leaks=0", asan, path], timeout=3000)
                    return rc != 0
                culprit = next((sp for sp in sorted(small, key=lambda x: x.ncases()) if aborts(sp)), None)
                hexs, fam, rule_text, rule_idx, report = "", "?", "?", 0, str(e)[-1500:]
                if culprit is not None:
                    culprit = narrow(culprit, lambda subs: next((x for x in subs if aborts(x)), None), tmpdir)
                    path = os.path.join(tmpdir, "asan_verbose.spec")
                    with open(path, "w") as fh:
                        fh.write(culprit.line() + "\n")
                    rc, out = vlib.sh(["env", "ASAN_OPTIONS=detect_leaks=0", asan, "-v", path], timeout=3000)
                    done = sum(1 for l in out.split("\n") if l.startswith("C "))
                    bs = next((b for k, b in enumerate(enumerate_spec(culprit)) if k == done), [])
                    hexs = "".join("%02X" % b for b in bs)
                    fam = culprit.family
                    rule_text = culprit.rules(fam_rules)[0].text
                    rule_idx = culprit.sel[0] if culprit.sel else 0
                    m = re.search(r"ERROR: AddressSanitizer: [^\n]*|runtime error: [^\n]*", out)
                    report = re.sub(r" on address.*", "", m.group(0)) if m else "sanitizer abort"
                ctx.violation("%s sanitizer report on exact-size input %s" % (fam, hexs or "<empty>"),
                              "AddressSanitizer/UBSan stopped the harness while the %s rules ran on input %s (new char[%d], no terminator): %s"
                              % (fam, hexs or "<empty>", len(hexs) // 2, report),
                              {"family": fam, "rule_index": rule_idx, "rule": rule_text, "input_hex": hexs, "asan": True, "all_rules": True, "report": report})
            else:
                for k, i in enumerate(small_ix):
                    if r_asan[k][:4] != r_impl[i][:4]:
                        ctx.diff("sanitizer build and plain build of the harness disagree", specs[i].line(), impl=r_impl[i], model=r_asan[k])
                ctx.cover(sanitizer_inputs=sum(s.ncases() for s in small))

    samples = []
    for fam, hexs in (("utf8", ["F09F988041", "EDA080", "E0A080", "F48FBFBF", "F4908080", "C080"]), ("utf16le", ["3DD800DE", "3DD8"]), ("utf32be", ["0010FFFF", "00110000"]),
                      ("uint64be", ["0102030405060708"]), ("string", ["417A395F"])):
        rules = fam_rules[fam]
        cases = [list(bytes.fromhex(hx)) for hx in hexs]
        path = os.path.join(tmpdir, "samples_%s.cases" % fam)
        with open(path, "w") as fh:
            for hx in hexs:
                fh.write(hx + "\n")
        sp = Spec(fam, [0, 1, 2], "file", path=path, cases=cases)
        for l in run_verbose(lambda p: [impl, "-v", p], sp, tmpdir, "samples"):
            toks = l.split()
            samples.append("%s %s -> impl %s" % (fam, toks[1], " ".join("%s=%s" % (r.text.split("<")[0].strip(), x) for r, x in zip(rules[:3], toks[2:]))))
    ctx.cover(evaluations=nobs, distinct=nonzero, validated=nobs,
              rule=("%d real rules in %d families (ascii+abnf classes, string/istring, utf8, utf16/32 be+le, uint8/16/32/64 be+le incl. mask_*) x %d specs = %d inputs "
                    "(exact-size heap buffers; per-position byte alphabets enumerated identically by harness, extracted model and oracle; digests compared per spec). "
                    "quick: all 0/1/2-byte strings, 26^3/26^4/26^5 RFC-3629 class-boundary products, all truncations, boundary scalar values incl. overlong forms, all 16-bit units, "
                    "16^3..16^5 UTF-16 and 12^4 UTF-32 boundary lattices, all byte values x 17 uint8 rules + 512 generated rules covering every 8-bit mask, all/lattice uint16, lattices + rule constants +-1/bit flips for uint32/64; "
                    "thorough adds all 3-byte, all 4-byte F0..F7 sequences, all unit pairs around the surrogate blocks, every UTF-32 value <= 0x11FFFF, 2^20 seeded 32-bit units, 2^18 seeded uint32/64 values. "
                    "non-trivial = observation where the decoder produced a unit or the rule matched") % (nrules, len(fam_rules), len(specs), ncases),
              samples=samples[:12], exhaustive=False, specs=len(specs), inputs=ncases, rules=nrules, run_seconds=round(t_run, 1),
              class_table_entries=len(coq_classes), oracle_mismatching_specs=len(bad_specs_oracle), model_mismatching_specs=len(bad_specs_model))
    ctx.assumptions = [
        "theorems are about the Coq model (Decode.v, Engine.eval_atom); the tie to the C++ is the per-rule dump of rule_t by the compiler plus the behavioural correspondence on the enumerated inputs",
        "C `char` is signed 8-bit, host is little-endian (endian_gcc.hpp branch)",
        "inputs are byte lists (every element < 256)",
    ]


def replay(j):
    """bin/check --replay <file>: re-run the stored input on the current tree and re-judge it"""
    rp = j["replay"]
    if rp.get("mode") == "buf":
        return vlib.replay_bad_done("C10", "c10_buf.cpp", "c10_buf", "unit delivered in pieces differs from memory_input", "buf")
    impl = vlib.build_cpp([os.path.join(vlib.VERIF, "harness", "c10_impl.cpp")], "c10_impl", flags=["-O1"])
    tmpdir = os.path.join(vlib.BUILD, "c10replay-%d" % os.getpid())
    os.makedirs(tmpdir, exist_ok=True)
    try:
        _, fam_rules = load_rules(impl, tmpdir)
        bs = list(bytes.fromhex(rp["input_hex"]))
        cases = os.path.join(tmpdir, "case.cases")
        with open(cases, "w") as fh:
            fh.write((rp["input_hex"] or "-") + "\n")
        s = Spec(rp["family"], None if rp.get("all_rules") else [rp["rule_index"]], "file", path=cases, cases=[bs])
        if rp.get("asan"):
            asan = vlib.build_cpp([os.path.join(vlib.VERIF, "harness", "c10_impl.cpp")], "c10_impl_asan",
                                  flags=["-O1", "-g", "-fsanitize=address,undefined", "-fno-sanitize-recover=all"])
            path = os.path.join(tmpdir, "replay_asan.spec")
            with open(path, "w") as fh:
                fh.write(s.line() + "\n")
            rc, out = vlib.sh(["env", "ASAN_OPTIONS=detect_leaks=0", asan, "-v", path], timeout=600)
            if rc != 0:
                m = re.search(r"ERROR: AddressSanitizer: [^\n]*|runtime error: [^\n]*", out)
                print("%s rules on exact-size input %s: %s" % (rp["family"], rp["input_hex"] or "<empty>", re.sub(r" on address.*", "", m.group(0)) if m else "sanitizer abort"))
                print("VIOLATION property=C10 replay=reproduced")
                return 1
            print("not reproduced on the current tree")
            return 0
        li = run_verbose(lambda p: [impl, "-v", p], s, tmpdir, "replay")
        if rp.get("oob"):
            if li[0].endswith("!oob"):
                print("rule %s::%s input %s: access outside [current,end) reproduced" % (rp["family"], rp["rule"], rp["input_hex"] or "<empty>"))
                print("VIOLATION property=C10 replay=reproduced")
                return 1
            print("not reproduced on the current tree")
            return 0
        got = li[0].split()[2]
        exp = rec_str(records(rp["family"], s.rules(fam_rules), bs, True)[0])
        print("rule %s::%s input %s: implementation %s, specification %s" % (rp["family"], rp["rule"], rp["input_hex"] or "<empty>", got, exp))
        if got != exp:
            print("VIOLATION property=C10 replay=reproduced")
            return 1
        print("not reproduced on the current tree")
        return 0
    finally:
        shutil.rmtree(tmpdir, ignore_errors=True)
