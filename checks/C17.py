# C17 - unescape helpers produce exact UTF-8 and reject invalid code points.
#
#  proofs          Properties_C17.v (model Unescape.v, spec UnescapeSpec.v, decoder Decode.peek_utf8)
#  implementation  harness/c17_impl.cpp : the real tao::pegtl::unescape functions and actions
#  model           driver/c17_driver.ml over the extraction of Unescape.v (ExtractC17.v)
#  oracle          this file: RFC 3629 section 3 (encoder), RFC 8259 section 7 (\u escapes, surrogate
#                  pairs, two-character escapes), ISO C simple escapes, positional hex value - written
#                  from the RFC texts with Python integers, cross-checked against Python's own codecs
#                  and json module, and (S* commands) against the extracted Coq specification.
#  impl != model  -> ctx.diff        impl != oracle -> ctx.violation        Coq spec != oracle -> ctx.diff
import itertools
import json
import os
import random
import zlib

import vlib

HERE_REPO_EXAMPLES = "src/example/pegtl"

# ------------------------------------------------------------------------------------------------
# oracle (independent of the model)
# ------------------------------------------------------------------------------------------------


def is_scalar(cp):
    return 0 <= cp <= 0x10FFFF and not (0xD800 <= cp <= 0xDFFF)


def rfc3629(cp):
    """RFC 3629 section 3: fill the x bits of the table row for cp, most significant first."""
    assert is_scalar(cp)
    bits = bin(cp)[2:]
    if cp <= 0x7F:
        b = bits.zfill(7)
        out = ["0" + b]
    elif cp <= 0x7FF:
        b = bits.zfill(11)
        out = ["110" + b[:5], "10" + b[5:]]
    elif cp <= 0xFFFF:
        b = bits.zfill(16)
        out = ["1110" + b[:4], "10" + b[4:10], "10" + b[10:]]
    else:
        b = bits.zfill(21)
        out = ["11110" + b[:3], "10" + b[3:9], "10" + b[9:15], "10" + b[15:]]
    r = bytes(int(x, 2) for x in out)
    if r != chr(cp).encode("utf-8"):          # second opinion: Python's codec
        raise RuntimeError("oracle disagrees with Python's utf-8 codec at U+%04X" % cp)
    return r


def hx(b):
    return b.hex() if b else "-"


def unhx(h):
    return b"" if h == "-" else bytes.fromhex(h)


HEXVAL = {c: i for i, c in enumerate("0123456789abcdef")}
HEXVAL.update({c: i for i, c in enumerate("0123456789ABCDEF")})


def hexval(digits):
    v = 0
    for ch in digits:
        v = v * 16 + HEXVAL[ch]
    return v


def pair_units(units):
    """RFC 8259 section 7 / RFC 2781: list of 16-bit units -> (code points before the first lone
    surrogate, ok)."""
    out = []
    i = 0
    while i < len(units):
        u = units[i]
        if 0xD800 <= u <= 0xDBFF:
            if i + 1 < len(units) and 0xDC00 <= units[i + 1] <= 0xDFFF:
                out.append(0x10000 + ((u - 0xD800) << 10) + (units[i + 1] - 0xDC00))
                i += 2
                continue
            return out, False
        if 0xDC00 <= u <= 0xDFFF:
            return out, False
        out.append(u)
        i += 1
    return out, True


JSON_ESC = {'"': 0x22, "\\": 0x5C, "/": 0x2F, "b": 0x08, "f": 0x0C, "n": 0x0A, "r": 0x0D, "t": 0x09}      # RFC 8259 section 7
C_ESC = {"'": 0x27, '"': 0x22, "?": 0x3F, "\\": 0x5C, "a": 0x07, "b": 0x08, "f": 0x0C, "n": 0x0A, "r": 0x0D, "t": 0x09, "v": 0x0B}  # ISO C 6.4.4.4


def oracle_json_literal(raw):
    """raw = bytes of a JSON string literal with quotes (only syntactically valid literals are
    generated). Returns bytes or None for 'must be rejected' (lone surrogate)."""
    assert raw[:1] == b'"' and raw[-1:] == b'"'
    body = raw[1:-1].decode("utf-8")
    toks = []
    i = 0
    while i < len(body):
        ch = body[i]
        if ch == "\\":
            e = body[i + 1]
            if e == "u":
                toks.append(("u", int(body[i + 2:i + 6], 16)))
                i += 6
            else:
                toks.append(("c", JSON_ESC[e]))
                i += 2
        else:
            assert ord(ch) >= 0x20 and ch != '"'
            toks.append(("c", ord(ch)))
            i += 1
    out = bytearray()
    i = 0
    while i < len(toks):
        k, v = toks[i]
        if k == "u":
            run = []
            while i < len(toks) and toks[i][0] == "u":      # consecutive \uXXXX escapes
                run.append(toks[i][1])
                i += 1
            cps, ok = pair_units(run)
            if not ok:
                return None
            for cp in cps:
                out += rfc3629(cp)
        else:
            out += rfc3629(v)
            i += 1
    out = bytes(out)
    # second opinion: Python's json module (it tolerates lone surrogates, so only on accepted input)
    try:
        if json.loads(raw.decode("utf-8")).encode("utf-8") != out:
            raise RuntimeError("oracle disagrees with json.loads on %r" % raw)
    except UnicodeEncodeError:
        raise RuntimeError("oracle accepted a literal json.loads maps to a lone surrogate: %r" % raw)
    return out


def oracle_c_literal(raw):
    """the `padded` grammar of src/example/pegtl/unescape.cpp; only valid literals are generated."""
    s = raw.decode("utf-8").strip(" \t")
    assert s[0] == '"' and s[-1] == '"'
    body = s[1:-1]
    out = bytearray()
    i = 0
    while i < len(body):
        ch = body[i]
        if ch == "\\":
            e = body[i + 1]
            if e == "x":
                out.append(int(body[i + 2:i + 4], 16))
                i += 4
            elif e == "u" or e == "U":
                n = 4 if e == "u" else 8
                cp = int(body[i + 2:i + 2 + n], 16)
                if not is_scalar(cp):
                    return None
                out += rfc3629(cp)
                i += 2 + n
            else:
                out.append(C_ESC[e])
                i += 2
        else:
            out += rfc3629(ord(ch))
            i += 1
    return bytes(out)


def parse_j_input(inb):
    """c0 XXXX ( ?? XXXX )* -> units"""
    assert (len(inb) + 1) % 6 == 0
    return [int(inb[i:i + 4].decode("ascii"), 16) for i in range(1, len(inb), 6)]


def oracle(cmd):
    """expected output line for a command, as (line, exact?) - exact False means only the verdict
    word is specified by the property; None when the case is outside the property's quantifier
    (used for correspondence only)."""
    t = cmd.split()
    c = t[0]
    if c == "a":
        cp = int(t[1], 16)
        if is_scalar(cp):
            return "a %08x 1 %s" % (cp, hx(b"Z" + rfc3629(cp))), True
        return "a %08x 0 %s" % (cp, hx(b"Z")), True
    if c == "J":
        s0, inb = unhx(t[1]), unhx(t[2])
        cps, ok = pair_units(parse_j_input(inb))
        if ok:
            return "%s ok %s" % (cmd, hx(s0 + b"".join(rfc3629(x) for x in cps))), True
        return "%s throw" % cmd, False
    if c == "U":
        s0, inb = unhx(t[1]), unhx(t[2])
        digits = inb[1:].decode("ascii")
        if len(digits) > 8:
            return None
        v = hexval(digits)
        if is_scalar(v):
            return "%s ok %s" % (cmd, hx(s0 + rfc3629(v))), True
        return "%s throw %s" % (cmd, hx(s0)), True
    if c == "X":
        s0, inb = unhx(t[1]), unhx(t[2])
        digits = inb[1:].decode("ascii")
        if len(digits) > 2:
            return None
        return "%s ok %s" % (cmd, hx(s0 + bytes([hexval(digits)]))), True
    if c == "P":
        return "%s ok %s" % (cmd, hx(unhx(t[1]) + unhx(t[2]))), True
    if c == "C":
        tbl = JSON_ESC if t[1] == "json" else C_ESC
        s0, inb = unhx(t[2]), unhx(t[3])
        ch = chr(inb[0])
        if ch in tbl:
            return "%s ok %s" % (cmd, hx(s0 + bytes([tbl[ch]]))), True
        return "%s nomatch" % cmd, True
    if c == "H":
        w = 8 if t[1] == "c" else int(t[1])
        digits = "" if t[2] == "-" else t[2]
        if 4 * len(digits) > w:
            return None
        return "%s %x" % (cmd, hexval(digits)), True
    if c == "GJ":
        r = oracle_json_literal(unhx(t[1]))
        return ("%s error" % cmd if r is None else "%s ok %s" % (cmd, hx(r))), True
    if c == "GC":
        r = oracle_c_literal(unhx(t[1]))
        return ("%s error" % cmd if r is None else "%s ok %s" % (cmd, hx(r))), True
    raise RuntimeError("no oracle for " + cmd)


def oracle_tables():
    def tab(name, d):
        return "T %s %s %s" % (name, hx("".join(d.keys()).encode("latin-1")), hx(bytes(d.values())))
    return [tab("json", JSON_ESC), tab("cex", C_ESC)]


# ------------------------------------------------------------------------------------------------
# case enumeration
# ------------------------------------------------------------------------------------------------

UNITS12 = [0x0000, 0x007F, 0x0080, 0x07FF, 0x0800, 0xD7FF, 0xD800, 0xDBFF, 0xDC00, 0xDFFF, 0xE000, 0xFFFF]
APPEND_HI = 0x110000
CHUNK = 0x1000


def boundary_values(rng, n=65536):
    """exactly n 32-bit values outside the exhaustive range or on its edges: neighbourhoods of every
    power of two, of the surrogate block and of U+10FFFF, the top of the 32-bit range, values whose
    low 21 bits look like valid code points, then seeded random values."""
    vals = []
    seen = set()

    def add(v):
        if 0 <= v <= 0xFFFFFFFF and v not in seen:
            seen.add(v)
            vals.append(v)
    for k in range(0, 33):
        for d in range(-40, 41):
            add((1 << k) + d)
    for d in range(-300, 301):
        add(0x10FFFF + d)
        add(0xD800 + d)
        add(0xDFFF + d)
    for d in range(0, 4096):
        add(0xFFFFFFFF - d)
        add(0x110000 + d)
    for hi in range(1, 2048):                        # same low 21 bits as a code point, garbage above
        add((hi << 21) | 0x41)
        add((hi << 21) | 0x1F600)
        add((hi << 21) | 0x7FF)
        add((hi << 21) | 0xD800)
    for v in (0x1FFFFF, 0x200000, 0x3FFFFFF, 0x4000000, 0x7FFFFFFF, 0x80000000):
        add(v)
    while len(vals) < n:
        add(rng.randrange(APPEND_HI, 1 << 32))
    return vals[:n]


def j_input(units, upper=True, sep="\\u", first="u"):
    f = "%04X" if upper else "%04x"
    return (first + sep.join(f % u for u in units)).encode("ascii")


def rand_unit(rng):
    k = rng.randrange(6)
    if k == 0:
        return rng.randrange(0xD800, 0xDC00)
    if k == 1:
        return rng.randrange(0xDC00, 0xE000)
    if k == 2:
        return rng.choice(UNITS12)
    return rng.randrange(0, 0x10000)


def gen_cases(tier, rng, bvals):
    both = []          # commands for impl, model and oracle
    thorough = tier == "thorough"
    # --- append: explicit boundary / high values
    both += ["a %x" % v for v in bvals]
    # --- unescape_j: all sequences of 1..3 boundary units, both digit cases, empty / non-empty string
    jseqs = [list(p) for k in (1, 2, 3) for p in itertools.product(UNITS12, repeat=k)]
    for us in jseqs:
        for upper in (True, False):
            for s0 in ("-", "5a"):
                both.append("J %s %s" % (s0, hx(j_input(us, upper))))
    for us in itertools.product(UNITS12, repeat=2):       # the two bytes between groups are not inspected
        both.append("J - %s" % hx(j_input(list(us), True, sep="??", first="U")))
    for _ in range(20000 if thorough else 2000):
        us = [rand_unit(rng) for _ in range(rng.randrange(1, 7))]
        both.append("J %s %s" % (rng.choice(["-", "c3a9"]), hx(j_input(us, rng.random() < 0.5))))
    # --- unescape_u: every 4-digit form, the boundary values as 8-digit forms, every shorter length
    for v in range(0x10000):
        both.append("U - %s" % hx(b"u" + (b"%04x" % v)))
    for v in (bvals if thorough else bvals[:16384]):
        both.append("U 5a %s" % hx(b"U" + (b"%08X" % v)))
    for v in UNITS12 + [0x10000, 0x10FFFF, 0x1F600]:
        both.append("U - %s" % hx(b"U" + (b"%08x" % v)))
    alpha = "0178dDfF"
    for n in (0, 1, 2, 3):
        for p in itertools.product(alpha, repeat=n):
            both.append("U 5a %s" % hx(("u" + "".join(p)).encode()))
    for n in (5, 6, 7):
        for p in itertools.product("0178dDfF" if (thorough and n < 7) else "0df8", repeat=n):
            both.append("U - %s" % hx(("U" + "".join(p)).encode()))
    for d in ("100000041", "1000000000000041", "fffffffff", "10001f600", "0000000041"):   # > 8 digits: wraps (correspondence only)
        both.append("U - %s" % hx(("U" + d).encode()))
    # --- unescape_x, unhex_string< char >, < unsigned char >: every string that fits
    hexchars = "0123456789abcdefABCDEF"
    for n in (0, 1, 2):
        for p in itertools.product(hexchars, repeat=n):
            d = "".join(p)
            both.append("X - %s" % hx(("x" + d).encode()))
            both.append("X 5a %s" % hx(("x" + d).encode()))
            both.append("H 8 %s" % (d or "-"))
            both.append("H c %s" % (d or "-"))
    # --- unhex_string< unsigned short >: every lower-case string that fits, every mixed-case string up to 3
    for n in (0, 1, 2, 3, 4):
        for p in itertools.product("0123456789abcdef", repeat=n):
            both.append("H 16 %s" % ("".join(p) or "-"))
    for n in (1, 2, 3):
        for p in itertools.product(hexchars, repeat=n):
            both.append("H 16 %s" % "".join(p))
    for _ in range(4000):
        both.append("H 16 %s" % "".join(rng.choice(hexchars) for _ in range(4)))
    # --- unsigned / unsigned long long: boundary values, unpadded and padded, both cases
    for v in (bvals if thorough else bvals[:8192]):
        both.append("H 32 %x" % v)
        both.append("H 32 %08X" % v)
    v64 = set()
    for k in range(0, 65):
        for d in (-1, 0, 1):
            x = (1 << k) + d
            if 0 <= x < (1 << 64):
                v64.add(x)
    for _ in range(2000):
        v64.add(rng.getrandbits(rng.randrange(1, 65)))
    for x in sorted(v64):
        both.append("H 64 %x" % x)
        both.append("H 64 %016X" % x)
    # --- beyond the width: wrap-around of the unsigned targets (correspondence only)
    for p in itertools.product("0123456789abcdef", repeat=3):
        both.append("H 8 %s" % "".join(p))
    for d in ("10000", "12345", "fffff", "100000000", "123456789", "fffffffff"):
        both.append("H 16 %s" % d)
        both.append("H 32 %s" % d)
    for d in ("10000000000000000", "123456789abcdef01", "fffffffffffffffff"):
        both.append("H 32 %s" % d)
        both.append("H 64 %s" % d)
    # --- unescape_c: every byte against both shipped tables; append_all
    for b in range(256):
        for tbl in ("json", "cex"):
            both.append("C %s - %02x" % (tbl, b))
            both.append("C %s 5a %02x" % (tbl, b))
    for s in (b"", b"A", "é😀".encode("utf-8"), bytes(range(256))):
        both.append("P - %s" % hx(s))
        both.append("P 5a %s" % hx(s))
    return both


def gen_literals(tier, rng):
    """whole literals through the shipped grammars + example actions (impl and oracle; the model is
    composed from its action-level answers)."""
    g = []
    # JSON: the empty string and all 1..3 sequences of boundary escapes (1 + 12 + 144 + 1728)
    for k in (0, 1, 2, 3):
        for us in itertools.product(UNITS12, repeat=k):
            g.append(b'"' + "".join("\\u%04X" % u for u in us).encode() + b'"')
    for a, b in itertools.product(UNITS12, repeat=2):                 # escapes that are NOT consecutive
        for mid in ("x", "\\n", "\\\\", "é", " "):
            g.append(('"\\u%04x%s\\u%04x"' % (a, mid, b)).encode("utf-8"))
    for e in JSON_ESC:
        g.append(('"a\\%sb"' % e).encode())
        g.append(('"\\%s\\ud83d\\ude00\\%s"' % (e, e)).encode())
    g.append('"pré\\u00e9 😀 \\uD83D\\uDE00\\uD83D\\uDE00 \\/"'.encode("utf-8"))
    toks = ["a", "é", "😀", " ", "\\n", "\\\\", "\\/", '\\"', "\\t"]
    for _ in range(6000 if tier == "thorough" else 1000):
        parts = []
        for _ in range(rng.randrange(1, 8)):
            if rng.random() < 0.6:
                parts.append(("\\u%04X" if rng.random() < 0.5 else "\\u%04x") % rand_unit(rng))
            else:
                parts.append(rng.choice(toks))
        g.append(('"' + "".join(parts) + '"').encode("utf-8"))
    gj = ["GJ %s" % hx(x) for x in g]
    # C-style literals of unescape.cpp
    c = []
    for b in range(256):
        c.append('"\\x%02x"' % b)
        c.append('"\\x%02X"' % b)
    for u in UNITS12 + [0x0041, 0x00E9, 0x20AC]:
        c.append('"\\u%04x"' % u)
        c.append(' \t"a\\u%04Xb" ' % u)
    for v in UNITS12 + [0x10000, 0x1F600, 0x10FFFF, 0x110000, 0x1FFFFF, 0x200000, 0x7FFFFFFF, 0x80000000, 0xFFFFFFFF, 0x8000D800]:
        c.append('"\\U%08x"' % v)
        c.append('"\\U%08X\\U%08X"' % (0x41, v))
    for e in C_ESC:
        c.append('"\\%s"' % e)
        c.append(' "x\\%sy\\%s" ' % (e, e))
    c.append('""')
    c.append('"é😀\\xc3\\xa9"')
    for _ in range(3000 if tier == "thorough" else 500):
        parts = []
        for _ in range(rng.randrange(1, 7)):
            k = rng.randrange(5)
            if k == 0:
                parts.append("\\x%02x" % rng.randrange(256))
            elif k == 1:
                parts.append("\\u%04x" % rand_unit(rng))
            elif k == 2:
                parts.append("\\U%08x" % rng.choice([rng.randrange(0, 0x110000), rng.randrange(0, 1 << 32), rand_unit(rng)]))
            elif k == 3:
                parts.append("\\" + rng.choice(list(C_ESC)))
            else:
                parts.append(rng.choice(["a", "é", "😀", " "]))
        c.append('"' + "".join(parts) + '"')
    gc = ["GC %s" % hx(x.encode("utf-8")) for x in c]
    return gj + gc


def literal_to_model_calls(cmd):
    """split a literal the way the shipped grammar does, into the action calls the model answers."""
    t = cmd.split()
    raw = unhx(t[1]).decode("utf-8")
    calls = []
    if t[0] == "GJ":
        body = raw[1:-1]
        i = 0
        while i < len(body):
            if body[i] == "\\":
                if body[i + 1] == "u":                      # json::unicode = list< u XXXX, '\\' >
                    j = i + 1
                    while True:
                        j += 5
                        if body[j:j + 2] == "\\u":
                            j += 1
                            continue
                        break
                    calls.append("J - %s" % hx(body[i + 1:j].encode()))
                    i = j
                else:
                    calls.append("C json - %s" % hx(body[i + 1].encode()))
                    i += 2
            else:
                calls.append("P - %s" % hx(body[i].encode("utf-8")))
                i += 1
    else:
        body = raw.strip(" \t")[1:-1]
        i = 0
        while i < len(body):
            if body[i] == "\\":
                e = body[i + 1]
                if e == "x":
                    calls.append("X - %s" % hx(body[i + 1:i + 4].encode()))
                    i += 4
                elif e == "u":
                    calls.append("U - %s" % hx(body[i + 1:i + 6].encode()))
                    i += 6
                elif e == "U":
                    calls.append("U - %s" % hx(body[i + 1:i + 10].encode()))
                    i += 10
                else:
                    calls.append("C cex - %s" % hx(e.encode()))
                    i += 2
            else:
                calls.append("P - %s" % hx(body[i].encode("utf-8")))
                i += 1
    return calls


# ------------------------------------------------------------------------------------------------
# running
# ------------------------------------------------------------------------------------------------


def build_impl(flags=("-O1",), name="c17_impl"):
    ex = os.path.join(vlib.REPO, HERE_REPO_EXAMPLES)
    if not os.path.exists(os.path.join(ex, "json_unescape.hpp")):
        ex = os.path.join("/repo", HERE_REPO_EXAMPLES)       # scratch copies usually hold include/ only
    return vlib.build_cpp([os.path.join(vlib.VERIF, "harness", "c17_impl.cpp")], name,
                          flags=list(flags) + ["-I" + ex],
                          extra_key=vlib.file_hash(os.path.join(ex, "json_unescape.hpp")))


def run_prog(exe, lines, timeout=900):
    rc, out = vlib.sh([exe], input="\n".join(lines) + "\n", timeout=timeout)
    return rc, out.split("\n")[:-1] if out.endswith("\n") else out.split("\n")


def canon_model(line):
    # the C table actions are reached through the grammar only for characters of T = one< Qs... >;
    # for every other character the rule does not match (impl: nomatch) and the action, if it were
    # called, would run into std::terminate() (model: terminate)
    if line.startswith("C ") and line.endswith(" terminate"):
        return line[:-len("terminate")] + "nomatch"
    return line


CLASS_NAME = {"a": "utf8_append_utf32", "AR": "utf8_append_utf32", "J": "unescape_j", "U": "unescape_u", "X": "unescape_x",
              "P": "append_all", "C": "unescape_c", "H": "unhex_string", "GJ": "json_unescape literal", "GC": "unescape.cpp literal",
              "T": "unescape_c tables"}


def describe(cmd):
    t = cmd.split()
    c = t[0]
    if c == "a":
        return "utf8_append_utf32(0x%x)" % int(t[1], 16)
    if c in ("J", "U", "X", "P"):
        return "%s on %r (string initially %r)" % (CLASS_NAME[c], unhx(t[2]).decode("latin-1"), unhx(t[1]).decode("latin-1"))
    if c == "C":
        return "unescape_c[%s] on %r" % (t[1], unhx(t[3]).decode("latin-1"))
    if c == "H":
        return "unhex_string<%s-bit>(%r)" % ("8 signed" if t[1] == "c" else t[1], "" if t[2] == "-" else t[2])
    if c in ("GJ", "GC"):
        return "%s %r" % (CLASS_NAME[c], unhx(t[1]).decode("utf-8", "replace"))
    return cmd


class Tally:
    def __init__(self, ctx):
        self.ctx = ctx
        self.viol = {}     # class -> [count, first cmd, impl, expected]
        self.ndiff = 0

    @staticmethod
    def key(cmd):
        return (len(cmd), "3f3f" in cmd, cmd)      # shortest first, the usual \\u separator before the '??' variant

    def violation(self, cmd, impl, expected):
        k = CLASS_NAME[cmd.split()[0]]
        if k not in self.viol:
            self.viol[k] = [0, cmd, impl, expected]
        elif self.key(cmd) < self.key(self.viol[k][1]):                       # keep the minimal failing input
            self.viol[k][1:] = [cmd, impl, expected]
        self.viol[k][0] += 1

    def diff(self, what, case, impl, model):
        self.ndiff += 1
        if self.ndiff <= 20:
            self.ctx.diff(what, case, impl=impl, model=model)

    def flush(self):
        for k, (n, cmd, impl, expected) in sorted(self.viol.items()):
            self.ctx.violation("%s wrong: %s" % (k, describe(cmd)),
                               "%s: implementation printed %r, RFC oracle expects %r (%d failing cases in this class)" % (describe(cmd), impl, expected, n),
                               {"cmd": cmd, "impl": impl, "expected": expected, "failing_cases_in_class": n})
        if self.ndiff > 20:
            self.ctx.note("%d correspondence differences in total (first 20 recorded)" % self.ndiff)


def check_line(tally, cmd, il, ml):
    """compare one implementation line with the model (if given) and the oracle"""
    if ml is not None and il != canon_model(ml):
        tally.diff("model and implementation disagree", cmd, il, ml)
    exp = oracle(cmd)
    if exp is None:
        return False
    line, exact = exp
    ok = (il == line) if exact else (il == line or il.startswith(line + " "))
    if not ok:
        tally.violation(cmd, il, line)
    return True


def append_chunk_oracle(start, hi):
    lines = []
    for cp in range(start, min(start + CHUNK, hi)):
        if is_scalar(cp):
            lines.append("a %08x 1 %s\n" % (cp, hx(b"Z" + rfc3629(cp))))
        else:
            lines.append("a %08x 0 5a\n" % cp)
    text = "".join(lines).encode()
    return "AR %08x %08x %08x" % (start, zlib.crc32(text), zlib.adler32(text))


def run(ctx):
    rng = random.Random(ctx.seed)
    rep = ctx.proofs("Properties_C17")
    model = vlib.build_ocaml("ExtractC17", "c17_driver.ml", "c17_driver")
    impl = build_impl()
    tally = Tally(ctx)
    evaluations = 0
    validated = 0
    nontrivial = 0

    # ---- 0. tables the compiler sees vs. model constants vs. RFC
    _, ti = run_prog(impl, ["T"])
    _, tm = run_prog(model, ["T"])
    if ti != tm:
        tally.diff("Qs/Rs packs of the shipped unescape_c instances differ from the model's constants", "T", ti, tm)
    if ti != oracle_tables():
        tally.violation("T", ti, oracle_tables())

    # ---- 1. utf8_append_utf32 exhaustively on [0, 0x110000): per-chunk hashes, drill down on mismatch
    cmd = "AR 0 %x %x" % (APPEND_HI, CHUNK)
    rci, ai = run_prog(impl, [cmd])
    rcm, am = run_prog(model, [cmd])
    starts = list(range(0, APPEND_HI, CHUNK))
    if len(ai) != len(starts) or len(am) != len(starts):
        tally.diff("append range run truncated", cmd, "rc=%d lines=%d" % (rci, len(ai)), "rc=%d lines=%d" % (rcm, len(am)))
    bad = []
    for i, s in enumerate(starts):
        o = append_chunk_oracle(s, APPEND_HI)
        li = ai[i] if i < len(ai) else "?"
        lm = am[i] if i < len(am) else "?"
        if li != lm or li != o:
            bad.append(s)
    evaluations += APPEND_HI
    validated += APPEND_HI
    nontrivial += APPEND_HI
    for s in bad[:8]:                                              # drill down into the differing chunks
        cmds = ["a %x" % v for v in range(s, min(s + CHUNK, APPEND_HI))]
        _, li = run_prog(impl, cmds)
        _, lm = run_prog(model, cmds)
        for c, x, y in zip(cmds, li, lm):
            check_line(tally, c, x, y)
    if len(bad) > 8:
        ctx.note("%d of %d append chunks differ; the first 8 were expanded" % (len(bad), len(starts)))

    # ---- 2. explicit cases through implementation, model and oracle
    bvals = boundary_values(rng)
    cases = gen_cases(ctx.tier, rng, bvals)
    rci, li = run_prog(impl, cases)
    rcm, lm = run_prog(model, cases)
    if rci != 0 or len(li) != len(cases):
        tally.diff("implementation harness stopped early", "rc=%d" % rci, "%d of %d lines; last: %r" % (len(li), len(cases), li[-1:] ), None)
    if rcm != 0 or len(lm) != len(cases):
        tally.diff("model driver stopped early", "rc=%d" % rcm, None, "%d of %d lines; last: %r" % (len(lm), len(cases), lm[-1:]))
    for c, x, y in zip(cases, li, lm):
        in_scope = check_line(tally, c, x, y)
        evaluations += 1
        validated += 1
        if in_scope and (" throw" in x or c[0] in "aJU"):
            nontrivial += 1

    # ---- 3. whole literals through the shipped grammars and example actions
    lits = gen_literals(ctx.tier, rng)
    rci, gl = run_prog(impl, lits)
    if rci != 0 or len(gl) != len(lits):
        tally.diff("implementation harness stopped early (literals)", "rc=%d" % rci, "%d of %d lines" % (len(gl), len(lits)), None)
    calls = []
    spans = []
    for c in lits:
        cs = literal_to_model_calls(c)
        spans.append((len(calls), len(calls) + len(cs)))
        calls += cs
    _, ml = run_prog(model, calls)
    for c, x, (a, b) in zip(lits, gl, spans):
        check_line(tally, c, x, None)
        out = b""
        verdict = "ok"
        for r in ml[a:b]:                                          # compose the model's per-action answers
            w = r.split()
            if w[-2] == "ok":
                out += unhx(w[-1])
            else:
                verdict = "error"
                break
        composed = "%s %s" % (c, "error" if verdict == "error" else "ok " + hx(out))
        if composed != x:
            tally.diff("literal: implementation vs. composition of the model's action results", c, x, composed)
        evaluations += 1
        validated += 1
        nontrivial += 1

    # ---- 4. the Coq specification (extracted) against this file's oracle
    spec_cmds = ["SE %x" % v for v in bvals[:20000]] + ["SE %x" % v for v in range(0, APPEND_HI, 97)]
    spec_exp = []
    for c in spec_cmds:
        v = int(c.split()[1], 16)
        spec_exp.append("SE %x %d %s" % (v, 1 if is_scalar(v) else 0, hx(rfc3629(v)) if is_scalar(v) else "-"))
    for k in (1, 2, 3):
        for us in itertools.product(UNITS12, repeat=k):
            spec_cmds.append("SJ %s" % ",".join("%04x" % u for u in us))
            cps, ok = pair_units(list(us))
            spec_exp.append("%s %s %s" % (spec_cmds[-1], "ok" if ok else "err", hx(b"".join(rfc3629(x) for x in cps))))
    for d in ["0", "f", "F", "fFfF", "0123456789abcdefABCDEF", "10000", "deadBEEF"]:
        spec_cmds.append("SH %s" % d)
        spec_exp.append("SH %s %x" % (d, hexval(d)))
    for b in range(256):
        for name, tbl in (("json", JSON_ESC), ("cex", C_ESC)):
            spec_cmds.append("SC %s %02x" % (name, b))
            spec_exp.append("SC %s %02x %s" % (name, b, ("%02x" % tbl[chr(b)]) if chr(b) in tbl else "none"))
    _, sl = run_prog(model, spec_cmds)
    if len(sl) != len(spec_cmds):
        tally.diff("spec run truncated", "S*", None, "%d of %d" % (len(sl), len(spec_cmds)))
    for c, x, e in zip(spec_cmds, sl, spec_exp):
        if x != e:
            tally.diff("extracted Coq specification disagrees with the RFC oracle", c, e, x)

    # ---- 5. thorough: the same action/literal cases under ASan+UBSan (exact-size heap buffers)
    if ctx.tier == "thorough":
        san = build_impl(flags=("-O1", "-g", "-fsanitize=address,undefined", "-fno-sanitize-recover=all"), name="c17_impl_san")
        sub = [c for c in cases if c[0] in "JUXCP"] + lits
        ref = [x for c, x in zip(cases, li) if c[0] in "JUXCP"] + gl
        rc, so = run_prog(san, sub)
        if rc != 0 or so != ref:
            first = next((i for i, (p, q) in enumerate(zip(so, ref)) if p != q), min(len(so), len(ref)))
            tally.diff("sanitizer build reports a problem or prints something else", sub[first] if first < len(sub) else "?",
                       "\n".join(so[first:first + 12])[:1500], ref[first] if first < len(ref) else None)
        evaluations += len(sub)

    # ---- a few named instances for the evidence file (checked like every other case)
    scmds = ["a 1f600", "a dfff", "a 110000",
             "J - %s" % hx(b"uD83D\\uDE00"), "J 5a %s" % hx(b"u0041\\uD83D\\u0041"), "J - %s" % hx(b"uDE00\\uD83D"),
             "U - %s" % hx(b"U0001F600"), "X - %s" % hx(b"x7e"), "C json - 6e", "H 16 fFfF",
             "GJ %s" % hx(b'"\\uD83D\\uDE00\\n"')]
    _, si = run_prog(impl, scmds)
    _, sm = run_prog(model, [c for c in scmds if not c.startswith("G")])
    sm = sm + [None] * (len(scmds) - len(sm))
    for c, x, y in zip(scmds, si, sm):
        check_line(tally, c, x, y)
    samples = ["%s => %s" % (describe(c), x.split(" ", len(c.split()))[-1]) for c, x in zip(scmds, si)]

    tally.flush()
    ctx.cover(evaluations=evaluations, distinct=nontrivial, validated=validated,
              rule="utf8_append_utf32: every value 0..0x10FFFF (both programs and the oracle enumerate the range; per-4096 CRC-32+Adler-32) plus 65536 boundary/high 32-bit values; "
                   "unescape_j: all 12+144+1728 sequences of boundary units x digit case x initial string, plus seeded random runs of 1..6 units; "
                   "unescape_u: all 65536 four-digit forms, boundary eight-digit forms, all shorter/odd lengths over a boundary alphabet; "
                   "unescape_x / unhex_string<8-bit>: every string that fits; unhex_string<16-bit>: every lower-case string that fits + mixed case; 32/64-bit: boundary values; "
                   "unescape_c: every byte x both shipped tables; whole JSON / C literals through the shipped grammars (1+12+144+1728 escape sequences + interleavings + seeded). "
                   "non-trivial = append/unescape_j/unescape_u evaluations, rejections, and whole literals",
              samples=samples,
              exhaustive=True,
              append_chunks=len(starts), append_chunks_differing=len(bad), cases=len(cases), literals=len(lits), spec_crosschecks=len(spec_cmds))
    ctx.trusted_base = vlib.default_trusted_base() + [
        "C17: Python oracle in checks/C17.py (RFC 3629 table, RFC 8259 section 7), cross-checked each run against Python's utf-8 codec / json module and against the extracted Coq specification",
        "C17: platform facts `unsigned` = 32 bit, `char` = 8 bit; harness/c17_impl.cpp and driver/c17_driver.ml (hex printing, CRC-32/Adler-32)",
    ]
    ctx.assumptions = [
        "the theorems are about the Gallina transcription of contrib/unescape.hpp (Unescape.v) and of internal/peek_utf8.hpp (Decode.v); the tie to the C++ is the correspondence run above",
        "action preconditions as documented in the header: unescape_j is applied to u XXXX ( ?? XXXX )* (what json::unicode matches), unescape_u/x to one character followed by hex digits, unescape_c to one character of its one<...>; outside these the model answers std::terminate()/assert failure",
        "unescape_u / unhex_string with more digits than the target type holds wrap modulo 2^w (proved as C17_unhex_wrap / C17_unescape_u_wrap); the property's quantifier stops at the width",
    ]


def replay(j):
    """bin/check --replay <file>: rerun the stored command on the current tree"""
    r = j.get("replay", {})
    cmd = r.get("cmd")
    if not cmd:
        print("nothing to replay in this file")
        return 2
    impl = build_impl()
    if cmd == "T":
        _, out = run_prog(impl, ["T"])
        exp = oracle_tables()
        print("impl    :", out)
        print("expected:", exp)
        ok = out == exp
    else:
        _, out = run_prog(impl, [cmd])
        line, exact = oracle(cmd)
        print("impl    :", out[0] if out else None)
        print("expected:", line + ("" if exact else " ..."))
        ok = bool(out) and ((out[0] == line) if exact else (out[0] == line or out[0].startswith(line + " ")))
    print("REPRODUCED" if not ok else "not reproduced (implementation now agrees with the oracle)")
    return 1 if not ok else 0
