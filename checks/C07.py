# C07 - parse results do not depend on the input class, buffering or chunking.
#
#  proofs   : coq/Properties_C07.v (buffer machine refines the memory machine for every client,
#             schedule, maximum, chunk; require() contract; no corruption; discard safety)
#  part (a) : API-level correspondence + oracle.  The same (bytes, reader schedule, maximum,
#             Chunk, operation sequence) cases run on the REAL buffer_input / memory_input
#             (harness/c07_impl.cpp, mode api) and on the extracted buffer / memory machines
#             (driver/c07_driver.ml).  model != impl -> ctx.diff.  The ORACLE is the memory
#             machine (specification side of C07_refines) plus the statement of the theorems
#             (clamped answers and positions equal; overflow only when justified; window errors
#             only for undisciplined clients; stale rewind only after a discard; reader regions
#             inside the allocation): real buffer_input deviating from it -> ctx.violation.
#  part (b) : grammar-level differential on the real library only (mode gram): 42 grammars x
#             inputs x input classes, every class compared with memory_input<eager>.
import concurrent.futures
import os
import random

import vlib

NPARTS = 15
CHUNKS = [1, 2, 3, 8, 64]
MAXS = [1, 2, 3, 4, 5, 6, 7, 8, 16]
SRC = os.path.join(vlib.VERIF, "harness", "c07_impl.cpp")


# ----------------------------------------------------------------------------- builds

def build_impl(part, extra=()):
    return vlib.build_cpp([SRC], "c07_impl_p%d" % part,
                          flags=["-O1", "-DC07_NPARTS=%d" % NPARTS, "-DC07_PART=%d" % part] + list(extra))


def build_all(asan):
    vlib.tree_hash(os.path.join(vlib.REPO, "include"))      # fill the cache before threading
    vlib.tree_hash(os.path.join(vlib.VERIF, "harness"))
    jobs = [(k, ()) for k in range(NPARTS)]
    if asan:
        jobs.append((0, ("-g", "-fsanitize=address,undefined", "-fno-sanitize-recover=undefined")))
    with concurrent.futures.ThreadPoolExecutor(max_workers=vlib.JOBS) as ex:
        futs = [ex.submit(build_impl, k, extra) for k, extra in jobs]
        exes = [f.result() for f in futs]
    return exes[:NPARTS], (exes[NPARTS] if asan else None)


# ----------------------------------------------------------------------------- API cases

def compositions(n):
    """all ways to cut a stream of n bytes into consecutive reads (2^(n-1); [[]] for n = 0)"""
    if n == 0:
        return [[]]
    out = []
    for mask in range(1 << (n - 1)):
        parts, piece = [], 1
        for i in range(n - 1):
            if mask & (1 << i):
                parts.append(piece)
                piece = 1
            else:
                piece += 1
        parts.append(piece)
        out.append(parts)
    return out


class Client:
    """builds an operation sequence while simulating what a rule may rely on (memory semantics,
    answers clamped at the requested amount) - the discipline of coq/BufferInput.v"""

    def __init__(self, stream):
        self.n = len(stream)
        self.pos = 0
        self.known = 0
        self.ops = []
        self.slots = []
        self.fresh_from = 0

    def rem(self):
        return self.n - self.pos

    def size(self, k, tok="Z"):
        self.ops.append("%s%d" % (tok, k))
        self.known = min(k, self.rem())
        return self.known

    def require(self, k):
        self.ops.append("Q%d" % k)

    def empty(self):
        self.ops.append("M")
        if self.rem() > 0:
            self.known = max(self.known, 1)
        return self.rem() == 0

    def peek(self, i):
        self.ops.append("P%d" % i)

    def bump(self, k, tok="B"):
        self.ops.append("%s%d" % (tok, k))
        self.pos += k
        self.known = max(0, self.known - k)

    def discard(self):
        self.ops.append("D")
        self.fresh_from = len(self.slots)

    def save(self):
        self.ops.append("S")
        self.slots.append(self.pos)

    def restore(self, k):
        self.ops.append("R%d" % k)
        if k < len(self.slots):
            self.pos = self.slots[k]
        self.known = 0


def seq_tokens(stream, k, disc, tok):
    """string<k>-like rule in a star, optional discard after every token"""
    c = Client(stream)
    for _ in range(len(stream) + 2):
        m = c.size(k)
        for i in range(m):
            c.peek(i)
        if m == 0:
            c.empty()
            break
        c.bump(m, tok)
        if disc:
            c.discard()
    return c.ops


def seq_lookahead(stream, la):
    """at< la bytes >, then consume one byte, discard at the safe point"""
    c = Client(stream)
    for _ in range(len(stream) + 1):
        c.save()
        m = c.size(la, "E")
        for i in range(m):
            c.peek(i)
        if m:
            c.bump(m, "L")
        c.restore(len(c.slots) - 1)
        if c.empty():
            break
        c.size(1)
        c.peek(0)
        c.bump(1)
        c.discard()
    return c.ops


def seq_poll(stream):
    c = Client(stream)
    c.require(2)
    for _ in range(len(stream) + 1):
        if c.empty():
            break
        c.peek(0)
        c.bump(1, "N" if c.pos % 2 else "B")
    c.size(2, "E")
    c.empty()
    return c.ops


def seq_stale(stream, k):
    c = Client(stream)
    c.save()
    m = c.size(k)
    if m:
        c.bump(m)
    c.discard()
    c.save()
    c.restore(0)          # stale iff the discard moved data
    c.size(1)
    return c.ops


def seq_capacity(stream, cap):
    """amounts at the capacity boundary: exactly the capacity must not overflow"""
    c = Client(stream)
    m = c.size(cap)
    for i in range(min(m, 3)):
        c.peek(i)
    if m:
        c.bump(1)
    c.size(cap - 1)
    c.size(cap)           # after one consumed byte: one byte too many -> overflow_error is justified
    return c.ops


def seq_after_discard(stream, maximum, chunk):
    """consume chunk + 1 bytes, discard, then require exactly `maximum` bytes (Buffer Details)"""
    c = Client(stream)
    for _ in range(len(stream) + 1):
        m = c.size(maximum)
        for i in range(min(m, 2)):
            c.peek(i)
        t = min(m, chunk + 1)
        if t == 0:
            c.empty()
            break
        c.bump(t, "L")
        c.discard()
    return c.ops


def seq_undisciplined(stream, which):
    c = Client(stream)
    if which == 0:
        c.peek(0)                       # no size() before
    elif which == 1:
        c.size(1)
        c.peek(1)                       # above the clamp
    elif which == 2:
        c.size(2)
        c.bump(3)
    else:
        c.save()
        c.restore(3)                    # no such slot
    c.size(1)
    return c.ops


def random_ops(rnd, stream, maximum, chunk):
    c = Client(stream)
    for _ in range(rnd.randint(4, 22)):
        r = rnd.random()
        if r < 0.22:
            c.size(rnd.choice([1, 1, 2, 2, 3, 4, 5, maximum, maximum + chunk, 9]), rnd.choice("ZZZE"))
        elif r < 0.30:
            c.empty()
        elif r < 0.34:
            c.require(rnd.choice([1, 2, 3, maximum]))
        elif r < 0.56:
            if c.known > 0 or rnd.random() < 0.06:
                c.peek(rnd.randrange(c.known) if c.known > 0 and rnd.random() < 0.95 else c.known + rnd.randint(0, 2))
        elif r < 0.78:
            if c.known > 0:
                c.bump(rnd.randint(1, c.known) if rnd.random() < 0.96 else c.known + 1, rnd.choice("BBLN"))
        elif r < 0.86:
            c.discard()
        elif r < 0.93:
            c.save()
        else:
            if c.slots:
                lo = c.fresh_from if (rnd.random() < 0.85 and c.fresh_from < len(c.slots)) else 0
                c.restore(rnd.randrange(lo, len(c.slots)))
            elif rnd.random() < 0.1:
                c.restore(0)
    return c.ops


BASE_STREAM = b"ab\nc\rd"


def gen_api_cases(ctx):
    cases = []

    def add(maximum, chunk, eol, stream, sched, ops):
        if not ops:
            return
        cases.append(("a%d" % len(cases), maximum, chunk, eol, stream, sched, ops))

    # systematic: every composition of every stream of length <= 6, every maximum and chunk
    for n in range(0, 7):
        stream = BASE_STREAM[:n]
        for sched in compositions(n):
            for maximum in MAXS:
                for chunk in CHUNKS:
                    cap = maximum + chunk
                    fam = [
                        seq_tokens(stream, 1, True, "B"),
                        seq_tokens(stream, 2, True, "B"),
                        seq_tokens(stream, 3, True, "L"),
                        seq_tokens(stream, 3, False, "B"),
                        seq_tokens(stream, 4, True, "N"),
                        seq_lookahead(stream, 3),
                        seq_poll(stream),
                        seq_stale(stream, 3),
                        seq_after_discard(stream, maximum, chunk),
                    ]
                    if cap <= 24:
                        fam.append(seq_capacity(stream, cap))
                    k = (n + len(sched) + maximum + chunk) % 4
                    fam.append(seq_undisciplined(stream, k))
                    eol = 13 if (n + maximum) % 3 == 0 else 10
                    for ops in fam:
                        add(maximum, chunk, eol, stream, sched, ops)
    # seeded: longer streams, random schedules (including zero entries = clipped to 1, and reads
    # larger than any request), random clients
    rnd = random.Random(ctx.seed * 7919 + 17)
    nrand = 6000 if ctx.tier == "quick" else 60000
    for _ in range(nrand):
        n = rnd.randint(0, 14)
        stream = bytes(rnd.choice(b"ab\n\r\xc3") for _ in range(n))
        style = rnd.randrange(4)
        sched = [(1 if style == 0 else rnd.randint(0, 2) if style == 1 else rnd.randint(1, 5) if style == 2 else rnd.randint(1, 80))
                 for _ in range(rnd.randint(0, n + 3))]
        maximum = rnd.choice(MAXS)
        chunk = rnd.choice(CHUNKS)
        add(maximum, chunk, rnd.choice([10, 10, 13]), stream, sched, random_ops(rnd, stream, maximum, chunk))
    return cases


def case_line(c):
    cid, maximum, chunk, eol, stream, sched, ops = c
    return "%s %d %d %d %s %s %s" % (cid, maximum, chunk, eol, stream.hex() or "-",
                                     ",".join(map(str, sched)) or "-", " ".join(ops))


# ----------------------------------------------------------------------------- API oracle

def parse_side(text):
    """' Z3=3[0,3,1/1,2,1]@0,1,1 ... ;done' -> (entries, stop); entry = (tok, ans, calls, pos)"""
    toks = text.split()
    stop = toks[-1][1:]
    ents = []
    for t in toks[:-1]:
        op, rest = t.split("=", 1)
        val, pos = rest.rsplit("@", 1)
        calls = []
        if "[" in val:
            val, cs = val.split("[", 1)
            cs = cs.rstrip("]")
            if cs:
                calls = [tuple(int(x) for x in c.split(",")) for c in cs.split("/")]
        ents.append((op, val, calls, tuple(int(x) for x in pos.split(","))))
    return ents, stop


def split_line(line):
    cid, rest = line.split(" |B|", 1)
    b, m = rest.split(" |M|", 1)
    return cid, b, m


def clamp(op, val):
    if op[0] in "ZE":
        return str(min(int(val), int(op[1:])))
    if op[0] == "D":
        return "-"
    return val


def amount(op):
    if op[0] in "ZEQ":
        return int(op[1:])
    if op[0] == "M":
        return 1
    return None


def api_oracle(case, impl_b, model_m):
    """judge the REAL buffer_input trace against the memory machine; returns (kind, text) or None"""
    cid, maximum, chunk, eol, stream, sched, ops = case
    cap = maximum + chunk
    be, bstop = parse_side(impl_b)
    me, mstop = parse_side(model_m)
    if "!corrupt" in bstop:
        return ("corrupt", "buffer offsets inconsistent or reader handed a region outside the allocation")
    known, nslots, fresh_from, dmark = 0, 0, 0, 0
    disciplined, fresh = True, True
    prev_byte = 0
    for i, op in enumerate(ops):
        allowed = True
        if op[0] == "P":
            allowed = int(op[1:]) < known
        elif op[0] in "BLN":
            allowed = int(op[1:]) <= known
        elif op[0] == "R":
            if int(op[1:]) < fresh_from:
                fresh = False
        disciplined = disciplined and allowed
        if i >= len(be):
            # the buffer run stopped at this operation
            if bstop == "done":
                return ("short", "trace ended early without a reason")
            if bstop == "overflow":
                n = amount(op)
                if n is None:
                    return ("overflow", "std::overflow_error from %s" % op)
                if prev_byte + n <= cap:
                    return ("overflow", "std::overflow_error at byte %d for %s although byte + amount <= maximum + Chunk = %d" % (prev_byte, op, cap))
                if prev_byte - dmark + n <= maximum:
                    return ("overflow", "std::overflow_error at byte %d for %s although only %d bytes were consumed since the last discard() and maximum is %d" % (prev_byte, op, prev_byte - dmark, maximum))
                return None
            if bstop in ("err:peek", "err:bump"):
                if i < len(me) and disciplined:
                    return ("window", "%s leaves the buffered window although the preceding size()/empty() answers (memory semantics) cover it" % op)
                return None
            if bstop == "err:stale":
                if fresh:
                    return ("stale", "%s: inputerator invalidated although no discard() happened since it was saved" % op)
                return None
            if bstop == "err:slot":
                if mstop != "err:slot" or len(me) != i:
                    return ("slot", "slot bookkeeping differs")
                return None
            return ("stop", "unexpected stop reason " + bstop)
        if i >= len(me):
            return ("mem-short", "buffer_input answered %s where the memory semantics stop with %s" % (op, mstop))
        bop, bval, bcalls, bpos = be[i]
        mop, mval, _, mpos = me[i]
        for (off, req, ret) in bcalls:
            if req < 1 or off + req > cap or ret > req:
                return ("region", "reader was handed region [%d,%d) of a %d byte buffer (returned %d) during %s" % (off, off + req, cap, ret, op))
        if clamp(op, bval) != clamp(op, mval):
            return ("answer", "%s answers %s, memory semantics %s (operation %d)" % (op, bval, mval, i))
        if bpos != mpos:
            return ("position", "position after %s is %s, memory semantics %s" % (op, bpos, mpos))
        # what the client may rely on afterwards
        cv = clamp(op, mval)
        if op[0] in "ZE":
            known = int(cv)
        elif op[0] == "M":
            if cv == "0":
                known = max(known, 1)
        elif op[0] in "BLN":
            known = max(0, known - int(op[1:]))
        elif op[0] == "R":
            known = 0
        elif op[0] == "S":
            nslots += 1
        elif op[0] == "D":
            fresh_from = nslots
            dmark = mpos[0]
        prev_byte = mpos[0]
    if bstop != "done":
        return ("stop", "stop reason %s after the last operation" % bstop)
    return None


def run_api(ctx, model, impl, asan):
    cases = gen_api_cases(ctx)
    text = "\n".join(case_line(c) for c in cases) + "\n"
    rc_m, out_m = vlib.sh([model], input=text, timeout=1500)
    rc_i, out_i = vlib.sh([impl, "api"], input=text, timeout=1500)
    if rc_m != 0:
        ctx.diff("c07_driver (extracted model) failed", out_m[-2000:])
        return
    if rc_i != 0:
        ctx.violation("buffer_input API harness crashed (rc %d)" % rc_i,
                      "c07_impl api terminated abnormally (assertion, signal or sanitizer): " + out_i[-1500:],
                      {"mode": "api", "rc": rc_i})
        return
    lm = out_m.splitlines()
    li = out_i.splitlines()
    if len(lm) != len(cases) or len(li) != len(cases):
        ctx.diff("API-level: line count differs", {"cases": len(cases), "model": len(lm), "impl": len(li)})
        return
    if asan is not None:
        rc_a, out_a = vlib.sh([asan, "api"], input=text, timeout=1500,
                              env={"ASAN_OPTIONS": "detect_leaks=0", "UBSAN_OPTIONS": "print_stacktrace=0"})
        if rc_a != 0 or out_a.splitlines() != li:
            ctx.violation("buffer_input API run under ASan/UBSan fails or differs",
                          "sanitizer build of c07_impl api: rc %d: %s" % (rc_a, out_a[-1500:]), {"mode": "api-asan", "rc": rc_a})
    nd = 0
    seen_kinds = {}
    nontrivial = 0
    short_reads = 0
    stops = {}
    for c, a, b in zip(cases, lm, li):
        cid_m, mb, mm = split_line(a)
        cid_i, ib, im = split_line(b)
        if ib != mb:
            nd += 1
            if nd <= 5:
                ctx.diff("buffer_input API trace differs from the buffer machine (BufferInput.v)", case_line(c), impl=ib, model=mb)
        if im != mm:
            nd += 1
            if nd <= 5:
                ctx.diff("memory_input API trace differs from the memory machine (BufferInput.v)", case_line(c), impl=im, model=mm)
        v = api_oracle(c, ib, mm)
        if v is not None:
            kind, what = v
            seen_kinds[kind] = seen_kinds.get(kind, 0) + 1
            if seen_kinds[kind] == 1:
                sig = "buffer_input<Chunk=%d> maximum=%d stream=%s schedule=%s ops=%s: %s" % (
                    c[2], c[1], c[4].hex() or "-", ",".join(map(str, c[5])) or "-", " ".join(c[6]), what)
                ctx.violation(sig, "real buffer_input deviates from the memory-input semantics other than by std::overflow_error: " + what,
                              {"mode": "api", "case": case_line(c), "impl": ib, "oracle_memory_machine": mm, "model_buffer_machine": mb})
        st = ib.split(";")[-1]
        stops[st] = stops.get(st, 0) + 1
        ents = ib.split()
        if len(ents) >= 5:
            nontrivial += 1
        if any(("," in e and "[" in e and any(int(x.split(",")[2]) < int(x.split(",")[1]) and int(x.split(",")[2]) > 0
                                               for x in e.split("[")[1].split("]")[0].split("/") if x)) for e in ents[:-1]):
            short_reads += 1
    if nd > 5:
        ctx.diff("API-level: %d further differing traces not listed" % (nd - 5), None)
    ctx.cover(evaluations=len(cases), distinct=nontrivial, validated=len(cases),
              rule="API level: every composition of a stream of <= 6 bytes into read sizes x maximum in {1..8,16} x Chunk in {1,2,3,8,64} x 10-11 client families, plus %s seeded clients; non-trivial = at least 4 answered operations" % ("6000" if ctx.tier == "quick" else "60000"),
              samples=[case_line(cases[i]) + "  =>  " + li[i].split(" |B|", 1)[1] for i in (0, 1500, len(cases) // 2, len(cases) - 1) if i < len(cases)],
              exhaustive=False, api_stop_reasons=stops, api_cases_with_short_reads=short_reads,
              api_oracle_violation_kinds=seen_kinds)


# ----------------------------------------------------------------------------- grammar level

def short(h, n=48):
    """keep signatures readable: long hex inputs / schedules are abbreviated (the replay has them in full)"""
    h = h or "-"
    return h if len(h) <= n else "%s...(%d chars)" % (h[:n], len(h))


# the recorded known finding (known_findings.json): one signature for the whole class
WRAP_SIG = "buffer_input::require pointer wrap on size_t(-1): everything consumes only buffered bytes"
WRAP_WITNESS = {"mode": "gram", "grammar": 30, "class": "buffer_input<programmable reader>", "maximum": 100, "chunk": 64,
                "schedule": "-", "input_hex": b"abcdef".hex(), "rule": "everything", "input": "abcdef"}
NGRAMMARS = 42


def handle_mismatch(ctx, l):
    head, why, rule, base, got = [x.strip() for x in l.split(" | ")]
    f = dict(x.split("=", 1) for x in head.split()[1:] if "=" in x)
    cls = head.split(" class=", 1)[1].split(" maximum=", 1)[0]
    if why[4:] == "EVERYTHING-WRAP":
        ctx.violation(WRAP_SIG,
                      "a grammar containing `everything` succeeds on a buffered input with the same actions as on memory_input but "
                      "consumes only the bytes already buffered (m_current.data + size_t(-1) wraps in buffer_input::require): "
                      "%s %s input=%s maximum=%s chunk=%s | %s | %s" % (cls, rule[5:], short(f.get("input")), f.get("maximum"), f.get("chunk"), base, got),
                      dict(WRAP_WITNESS))
        return
    sig = "%s %s input=%s maximum=%s chunk=%s schedule=%s: %s" % (
        cls, rule[5:], short(f.get("input")), f.get("maximum"), f.get("chunk"), short(f.get("schedule")), why[4:])
    ctx.violation(sig, "input class changes the parse: " + why[4:] + " | " + base + " | " + got,
                  {"mode": "gram", "grammar": int(f["grammar"]), "class": cls, "maximum": int(f["maximum"]),
                   "chunk": int(f["chunk"]), "schedule": f["schedule"], "input_hex": f["input"], "rule": rule[5:]})


def run_wrap_witness(ctx, exes):
    """replay the minimal witness of the known finding on the current tree: everything on "abcdef", maximum 100"""
    w = WRAP_WITNESS
    rc, out = vlib.sh([exes[w["grammar"] % NPARTS], "one", str(w["grammar"]), w["class"], str(w["maximum"]), str(w["chunk"]),
                       w["schedule"], w["input_hex"]], timeout=120)
    lines = out.splitlines()
    for l in lines:
        if l.startswith("MISMATCH "):
            handle_mismatch(ctx, l)
    if rc not in (0, 1) or not any(l in ("OK", "VIOLATED") for l in lines):
        ctx.violation("c07_impl one (everything witness) crashed (rc %d)" % rc, out[-1500:], {"mode": "gram-crash", "rc": rc})
    ctx.note("known-finding witness on this tree: parse< everything > on \"abcdef\", buffer_input maximum 100: " + " ; ".join(l for l in lines if l.startswith(("base=", "got=")) or l in ("OK", "VIOLATED")))


def run_gram(ctx, exes):
    def one(k):
        # the harness has its own watchdog (alarm: 100 s quick / 600 s thorough) and reports the hanging case
        try:
            return vlib.sh([exes[k], "gram", ctx.tier, str(ctx.seed)], timeout=(160 if ctx.tier == "quick" else 700))
        except Exception as e:      # subprocess.TimeoutExpired
            return (-99, "HANG part %d: no answer from the harness (%s)\n" % (k, type(e).__name__))
    with concurrent.futures.ThreadPoolExecutor(max_workers=vlib.JOBS) as ex:
        outs = list(ex.map(one, range(NPARTS)))
    runs = inputs = overflow = nontrivial = mism = raised = matched = 0
    summaries = []
    for k, (rc, out) in enumerate(outs):
        lines = out.splitlines()
        for l in lines:
            if l.startswith("MISMATCH "):
                handle_mismatch(ctx, l)
            elif l.startswith("HANG "):
                ctx.violation("non-terminating or >100x slower parse: " + l[5:].split(" | rule=")[0] + " " + l.split(" | rule=")[-1],
                              "the parse does not terminate (or the harness watchdog expired) under this input class although memory_input<eager> terminates: " + l,
                              {"mode": "gram-hang", "line": l})
            elif l.startswith("SUMMARY "):
                f = dict(x.split("=", 1) for x in l.split(" | ")[0].split()[1:])
                runs += int(f["runs"])
                inputs += int(f["inputs"])
                overflow += int(f["overflow"])
                nontrivial += int(f["nontrivial"])
                mism += int(f["mismatches"])
                raised += int(f["raised"])
                matched += int(f["matched"])
                summaries.append(l)
        if rc == 4 and any(l.startswith("HANG ") for l in lines):
            pass
        elif rc != 0 or not any(l.startswith("SUMMARY ") for l in lines):
            ctx.violation("c07_impl gram part %d crashed (rc %d)" % (k, rc),
                          "grammar-level harness terminated abnormally (assertion in buffer_input, signal, or exception escaping an input class): " + out[-1500:],
                          {"mode": "gram-crash", "part": k, "rc": rc})
    if len(summaries) != NGRAMMARS and not any(v["signature"] != WRAP_SIG for v in ctx.violations):
        ctx.diff("grammar-level: expected %d grammar summaries" % NGRAMMARS, {"got": len(summaries)})
    ctx.cover(evaluations=runs, distinct=nontrivial, validated=0,
              rule="grammar level (real library only): 30 buffering-sensitive grammars + 2 grammars with `everything` (recorded known finding) x all inputs over a 3-4 letter alphabet up to length %d (+ seeded longer ones, + files of 0,1,pagesize-1,pagesize,pagesize+1,2*pagesize bytes) x {memory lazy, string eager/lazy, argv, istream, cstream, read, mmap, file, buffer_input<programmable reader> under ALL compositions of the input into read sizes x maximum in {1..8,16} x Chunk in {1,2,3,8,64}}; compared with memory_input<eager>: result, final byte/line/column, action trace with spans, parse_error message+position; non-trivial = input of >= 2 bytes with a non-empty action trace" % (6 if ctx.tier == "quick" else 7),
              samples=summaries[:4], gram_inputs=inputs, gram_runs=runs, gram_overflow_outcomes=overflow,
              gram_raised=raised, gram_matched=matched, gram_mismatches=mism)


# ----------------------------------------------------------------------------- entry points

def nul_stage(ctx):
    """data with embedded NUL bytes through every input class that takes a length (the grammar-level corpus uses C-string
    alphabets): harness/c07_nul.cpp compares each class with memory_input( pointer, size )"""
    exe = vlib.build_cpp([os.path.join(vlib.VERIF, "harness", "c07_nul.cpp")], "c07_nul", flags=["-O1"], compiler="g++")
    rc, out = vlib.sh([exe], timeout=600)
    done = [l for l in out.split("\n") if l.startswith("DONE ")]
    if rc != 0 or not done:
        ctx.violation("c07 NUL stage crashed", "harness/c07_nul.cpp ended abnormally: " + out[-400:], {"mode": "nul"})
        return
    seen = set()
    for l in [l for l in out.split("\n") if l.startswith("BAD ")]:
        cls_ = l[4:].split(" on ")[0]
        if cls_ in seen:
            continue
        seen.add(cls_)
        ctx.violation("NUL-bearing data: %s differs from memory_input( pointer, size )" % cls_, l[4:500], {"mode": "nul", "line": l[:1000]})
    ctx.cover(evaluations=int(done[0].split()[1]) * 9, distinct=int(done[0].split()[1]), validated=0, nul_stage_cases=int(done[0].split()[1]))


def run(ctx):
    nul_stage(ctx)
    rep = ctx.proofs("Properties_C07")
    model = vlib.build_ocaml("ExtractC07", "c07_driver.ml", "c07_driver")
    exes, asan = build_all(ctx.tier == "thorough")
    ctx.note("file_input / mmap_input / read_input / cstream_input / istream_input / argv_input: the operating system and "
             "libc (open, mmap, fread, iostreams, argv) are modelled as 'yields these bytes', not verified; exercised "
             "differentially only (temporary files of 0, 1, pagesize-1, pagesize, pagesize+1, 2*pagesize bytes, fmemopen, istringstream)")
    ctx.note("amounts are natural numbers in the model: wrap-around of m_current.data + amount for amounts near SIZE_MAX is "
             "outside the executable model; the only library caller is internal::everything (size_t(-1)): recorded known finding "
             "(C07_everything_wrap_refuted / C07_everything_wrap_partial state the wrapped first test of require() separately)")
    ctx.note("engine-level equality of whole parses on top of the proved buffer arithmetic is by differential execution "
             "(part b), not by proof")
    ctx.assumptions = [
        "the theorems are about the Coq model of buffer_input.hpp / memory_input.hpp (coq/BufferInput.v); the tie to the C++ is the API-level trace correspondence, including every reader call (offset, request, returned)",
        "a reader is legal iff it returns 1..request bytes while input is left and 0 only at the end (doc: Custom Readers); every finite behaviour of such a reader is a schedule",
        "clients are sequences of API operations; adaptive clients are covered because the theorem holds for every sequence and answers agree up to the clamp every PEGTL rule applies",
    ]
    run_wrap_witness(ctx, exes)
    run_api(ctx, model, exes[0], asan)
    run_gram(ctx, exes)


def replay(j):
    r = j.get("replay", {})
    mode = r.get("mode")
    if mode == "nul":
        class _C:
            def __init__(self):
                self.v = []

            def violation(self, sig, what, rp):
                self.v.append(what)

            def cover(self, **k):
                pass
        c = _C()
        nul_stage(c)
        for w in c.v[:6]:
            print("REPLAY:", w[:300])
        print("VIOLATION property=C07 replay=(replayed)" if c.v else "no violation on the current tree")
        return 1 if c.v else 0
    if mode == "gram":
        part = r["grammar"] % NPARTS
        exe = build_impl(part)
        rc, out = vlib.sh([exe, "one", str(r["grammar"]), r["class"], str(r["maximum"]), str(r["chunk"]), r["schedule"], r["input_hex"]], timeout=300)
        print(out, end="")
        return 1 if rc != 0 else 0
    if mode == "api":
        exe = build_impl(0)
        model = vlib.build_ocaml("ExtractC07", "c07_driver.ml", "c07_driver")
        line = r["case"] + "\n"
        rc_i, out_i = vlib.sh([exe, "api"], input=line, timeout=300)
        rc_m, out_m = vlib.sh([model], input=line, timeout=300)
        print("impl : " + out_i, end="")
        print("model: " + out_m, end="")
        if rc_i != 0 or rc_m != 0:
            return 1
        f = r["case"].split()
        case = (f[0], int(f[1]), int(f[2]), int(f[3]), bytes.fromhex("" if f[4] == "-" else f[4]),
                [] if f[5] == "-" else [int(x) for x in f[5].split(",")], f[6:])
        _, ib, _ = split_line(out_i.strip())
        _, _, mm = split_line(out_m.strip())
        v = api_oracle(case, ib, mm)
        print("oracle:", v)
        return 1 if v is not None else 0
    print("replay: nothing to re-run for mode", mode)
    return 2
