import engine_check
import shipped
import Contrib


def run(ctx):
    engine_check.run(ctx, "C03", sanitize_thorough=True)
    # shipped grammars (json, uri, http, integer, raw_string, abnf, ...) on exact-size heap buffers: guarded bounds hook in every
    # memory_input (incl. the ones PEGTL constructs internally); thorough: the same again under ASan/UBSan
    shipped.run_oracle(ctx, "C03")
    if ctx.tier == "thorough":
        shipped.run_oracle(ctx, "C03", sanitize=True)
    # rep_one_min_max, predicates, http chunk rules: Coq models (Contrib.v, Properties_Contrib.v) + model/implementation correspondence + oracle
    Contrib.stage(ctx)


def replay(j):
    if (j.get("replay") or {}).get("stage") == "contrib":
        return Contrib.replay(j)
    return engine_check.replay(j)
