import engine_check
import shipped


def run(ctx):
    engine_check.run(ctx, "C03", sanitize_thorough=True)
    # shipped grammars (json, uri, http, integer, raw_string, abnf, ...) on exact-size heap buffers: guarded bounds hook in every
    # memory_input (incl. the ones PEGTL constructs internally); thorough: the same again under ASan/UBSan
    shipped.run_oracle(ctx, "C03")
    if ctx.tier == "thorough":
        shipped.run_oracle(ctx, "C03", sanitize=True)


def replay(j):
    return engine_check.replay(j)
