import engine_check
def run(ctx):
    engine_check.run(ctx, "C03", sanitize_thorough=True)
    ctx.note("partial w.r.t. raw memory: the theorem covers API-level accesses of the model; raw reads through current() in the C++ are validated by ASan on exact-size heap buffers (thorough tier) and by the bounds hook")

def replay(j):
    return engine_check.replay(j)
