import os
import threading
import time

import engine_check
import engine_run
import vlib


def _keep_alive(stop, t0, vmain_dir):
    """vlib.prune_cache() (run at the end of EVERY check, also of checks running concurrently) deletes all but
    the 400 most recently used build directories; a long run can lose its vmain.o or a chunk directory it is
    compiling into ("linker command failed").  Keep the directories this run uses young while it runs."""
    root = os.path.join(vlib.BUILD, "corpus")
    while not stop.wait(4.0):
        try:
            os.utime(vmain_dir)
        except OSError:
            pass
        try:
            for x in os.listdir(root):
                p = os.path.join(root, x)
                try:
                    if os.path.getmtime(p) >= t0:
                        os.utime(p)
                except OSError:
                    pass
        except OSError:
            pass


def run(ctx):
    stop = threading.Event()
    th = None
    try:
        common = engine_run.prepare_common()
        th = threading.Thread(target=_keep_alive, args=(stop, time.time() - 1.0, os.path.dirname(common["vmain_o"])), daemon=True)
        th.start()
    except Exception:      # noqa  (engine_check.run reports build problems itself)
        pass
    try:
        engine_check.run(ctx, "C05")
    finally:
        stop.set()
        if th is not None:
            th.join(timeout=10)


def replay(j):
    return engine_check.replay(j)
