import os

import engine_check
import vlib


def names_stage(ctx):
    """identity clause, message side: 'parse error matching ' + the rule's name must identify the rule.  demangle.hpp has a
    code path per compiler and the correspondence harness is built with one compiler only, so this stage is compiled with
    BOTH g++ and clang++ (harness/c05_names.cpp: names well bracketed, distinct for distinct rules, message and what())."""
    total = 0
    for cxx in ("g++", "clang++"):
        exe = vlib.build_cpp([os.path.join(vlib.VERIF, "harness", "c05_names.cpp")], "c05_names_" + cxx.replace("+", "p"), flags=["-O0"], compiler=cxx)
        rc, out = vlib.sh([exe], timeout=300)
        done = [l for l in out.split("\n") if l.startswith("DONE ")]
        if rc != 0 or not done:
            ctx.violation("c05 names stage crashed (%s)" % cxx, "harness/c05_names.cpp built with %s ended abnormally: %s" % (cxx, out[-400:]), {"stage": "names", "compiler": cxx})
            continue
        total += int(done[0].split()[1])
        for l in [l for l in out.split("\n") if l.startswith("BAD ")][:3]:
            ctx.violation("rule name / default message (%s): %s" % (cxx, l[4:60]), "%s (built with %s)" % (l[4:], cxx), {"stage": "names", "compiler": cxx, "line": l})
    ctx.cover(evaluations=total, distinct=total, validated=0, names_stage_rules=total)


def run(ctx):
    engine_check.run(ctx, "C05")
    names_stage(ctx)


def replay(j):
    if (j.get("replay") or {}).get("stage") == "names":
        class _C:
            def __init__(self):
                self.v = []

            def violation(self, sig, what, rp):
                self.v.append(what)

            def cover(self, **k):
                pass
        c = _C()
        names_stage(c)
        for w in c.v[:6]:
            print("REPLAY:", w[:300])
        print("REPLAY: VIOLATION reproduced" if c.v else "REPLAY: not reproduced on the current tree")
        return 1 if c.v else 0
    return engine_check.replay(j)
