# Contrib - contrib rule classes without an engine head that are named in the quantifiers of C02, C03 and C09:
# contrib/rep_one_min_max.hpp, contrib/predicates.hpp, http::chunk_size / http::chunk_data (contrib/http.hpp).
# Not a property id of its own (not in MANIFEST): `stage(ctx)` is meant to be called from checks/C02.py,
# C03.py and C09.py; `run(ctx)` makes the module runnable on its own:
#   cd /verif && python3 -c "import sys; sys.path[:0]=['lib','checks']; import vlib, Contrib; \
#       c=vlib.Ctx('C02','quick',1); Contrib.run(c); print(len(c.diffs), len(c.violations), c.coverage['evaluations'])"
#
# 1. proofs: Properties_Contrib.v (model Contrib.v against the specification ContribSpec.v; for every admissible
#    answer of in.size(), i.e. for memory and buffer inputs).
# 2. correspondence: the extracted model (driver/contrib_driver.ml) and the real rules (harness/contrib_impl.cpp,
#    compiled against the current /repo/include) run on the same case files, through memory_input (exact-size
#    window inside a larger allocation whose tail continues the match) and through buffer_input< Chunk = 1 > with a
#    one-byte-per-call reader; any difference -> ctx.diff.
# 3. oracle: the documented behaviour recomputed here in Python, independent of the model (maximal runs, Python's
#    strict UTF-8 decoder, int( , 16 ), bytes slicing, line/column counting); implementation != oracle, or the
#    TAO_PEGTL_VERIF bounds hook fired -> ctx.violation.
import itertools
import multiprocessing
import os
import random

import vlib

BUFFER_MAXIMUM = 4096 + 1      # harness/contrib_impl.cpp: buffer_maximum + Chunk = buffer_input's capacity (m_maximum)
WRAP_IS_DOCUMENTED = True      # http::chunk_size keeps the hex value modulo 2^64 (17+ digits wrap silently); the
                               # oracle follows that and counts the affected cases in a note (see final report)

# ------------------------------------------------------------------ helpers


def hx(b):
    return b.hex() if b else "-"


def track(data, ch):
    """position after consuming `data` from 0:1:1 with eol character ch: (byte, line, column)"""
    line, col = 1, 1
    for x in data:
        if x == ch:
            line += 1
            col = 1
        else:
            col += 1
    return "%d:%d:%d" % (len(data), line, col)


EOLCH = {"lf": 10, "cr": 13}


def strings(alpha, maxlen, minlen=0):
    for n in range(minlen, maxlen + 1):
        for t in itertools.product(alpha, repeat=n):
            yield bytes(t)


# ------------------------------------------------------------------ predicate terms (printed by the compiler-side describe<>)

def parse_term(s):
    pos = [0]

    def ident():
        st = pos[0]
        while pos[0] < len(s) and s[pos[0]].isalpha():
            pos[0] += 1
        return s[st:pos[0]]

    def number():
        st = pos[0]
        if s[pos[0]] == "-":
            pos[0] += 1
        while pos[0] < len(s) and s[pos[0]].isdigit():
            pos[0] += 1
        return int(s[st:pos[0]])

    def items(f):
        r = [f()]
        while s[pos[0]] == ",":
            pos[0] += 1
            r.append(f())
        return r

    def term():
        name = ident()
        assert s[pos[0]] == "("
        pos[0] += 1
        r = (name, items(number if name in ("one", "range", "ranges") else term))
        assert s[pos[0]] == ")"
        pos[0] += 1
        return r
    t = term()
    assert pos[0] == len(s), s
    return t


def sat(t, v):
    """does the value v satisfy the boolean combination (the documented meaning of one/not_one/range/not_range/ranges
    and of predicates_and / predicates_or / predicate_not)"""
    name, a = t
    if name == "one":
        return (v in a[1:]) == bool(a[0])
    if name == "range":
        return (a[1] <= v <= a[2]) == bool(a[0])
    if name == "ranges":
        for i in range(0, len(a) - 1, 2):
            if a[i] <= v <= a[i + 1]:
                return True
        return len(a) % 2 == 1 and v == a[-1]
    if name == "and":
        return all(sat(q, v) for q in a)
    if name == "or":
        return any(sat(q, v) for q in a)
    if name == "not":
        return not sat(a[0], v)
    raise ValueError(name)


def unit(pk, data):
    """(value, size) of the next unit or None: peek_char = one byte as signed char; peek_utf8 = one well-formed
    UTF-8 sequence (RFC 3629, Python's strict decoder)"""
    if not data:
        return None
    if pk == "char":
        b = data[0]
        return (b - 256 if b >= 128 else b, 1)
    for n in (1, 2, 3, 4):
        if len(data) >= n:
            try:
                u = data[:n].decode("utf-8", "strict")
            except UnicodeDecodeError:
                continue
            if len(u) == 1:
                return (ord(u), n)
    return None


# ------------------------------------------------------------------ oracle

HEXDIGITS = b"0123456789abcdefABCDEF"


def hexrun(s, p=0):
    k = p
    while k < len(s) and s[k] in HEXDIGITS:
        k += 1
    return k - p


def chunk_value(digits):
    v = int(digits, 16)
    return v % (1 << 64) if WRAP_IS_DOCUMENTED else v


def o_chunk(s, p, mode):
    """http::chunk without extension at offset p: new offset | None (fail) | 'EXT' (not judged) | 'OVF' | 'OVF?'"""
    k = hexrun(s, p)
    if k == 0:
        return None
    size = chunk_value(s[p:p + k])
    p += k
    if s[p:p + 1] == b";":
        return "EXT"
    if s[p:p + 2] != b"\r\n":
        return None
    p += 2
    if mode == "B" and p + size > BUFFER_MAXIMUM and size > len(s) - p:
        return "OVF" if size < (1 << 63) else "OVF?"
    if len(s) - p < size:
        return None
    p += size
    if s[p:p + 2] != b"\r\n":
        return None
    return p + 2


def o_chunked_body(s, mode):
    """http::chunked_body on inputs without ';' and ':' (no chunk extensions, no trailer fields)"""
    p = 0
    while True:
        j = p
        while j < len(s) and s[j] == 0x30:
            j += 1
        if j > p and not (j < len(s) and 0x30 <= s[j] <= 0x39) and s[j:j + 2] == b"\r\n":
            p = j + 2
            break
        r = o_chunk(s, p, mode)
        if r is None or isinstance(r, str):
            return r
        p = r
    if s[p:p + 2] == b"\r\n":
        return p + 2
    return None


def expect(toks):
    """-> (kind of expectation, text): ('eq', line) exact line; ('verdict', 'F') only the verdict is fixed;
    ('any', alternatives) one of several lines; ('skip', None) not judged"""
    k = toks[0]
    if k == "ROM":
        mn, mx, cv, eol, mode, h = int(toks[1]), int(toks[2]), int(toks[3]), toks[4], toks[5], toks[6]
        s = bytes.fromhex(h) if h != "-" else b""
        r = 0
        while r < len(s) and s[r] == cv:
            r += 1
        if mn <= r <= mx:
            return ("eq", "T " + track(s[:r], EOLCH[eol]))
        return ("eq", "F 0:1:1")
    if k == "PRD":
        pk, term, eol, h = toks[2], toks[3], toks[4], toks[6]
        s = bytes.fromhex(h) if h != "-" else b""
        u = unit(pk, s)
        if u is not None and sat(parse_term(term), u[0]):
            return ("eq", "T " + track(s[:u[1]], EOLCH[eol]))
        return ("eq", "F 0:1:1")
    if k == "CSZ":
        h = toks[2]
        s = bytes.fromhex(h) if h != "-" else b""
        n = hexrun(s)
        if n == 0:
            return ("eq", "F 0:1:1 0")
        return ("eq", "T %d:1:%d %d" % (n, n + 1, chunk_value(s[:n])))
    if k == "CDT":
        size, eol, mode, h = int(toks[1]), toks[2], toks[3], toks[4]
        s = bytes.fromhex(h) if h != "-" else b""
        if mode == "B" and size > BUFFER_MAXIMUM and size > len(s):
            if size < (1 << 63):
                return ("eq", "OVF")
            return ("any", ("OVF", "F 0:1:1"))
        if size <= len(s):
            return ("eq", "T " + track(s[:size], EOLCH[eol]))
        return ("eq", "F 0:1:1")
    if k == "CHK":
        m, eol, mode, h = toks[1], toks[2], toks[3], toks[4]
        s = bytes.fromhex(h) if h != "-" else b""
        r = o_chunk(s, 0, mode)
        if r == "EXT":
            return ("skip", None)
        if r == "OVF":
            return ("eq", "OVF")
        if r == "OVF?":
            return ("any", ("OVF", "F 0:1:1")) if m == "R" else ("skip", None)
        if r is None:
            return ("eq", "F 0:1:1") if m == "R" else ("verdict", "F")
        return ("eq", "T " + track(s[:r], EOLCH[eol]))
    if k == "CBD":
        mode, h = toks[1], toks[2]
        s = bytes.fromhex(h) if h != "-" else b""
        r = o_chunked_body(s, mode)
        if r == "OVF":
            return ("eq", "OVF")
        if r == "OVF?":
            return ("any", ("OVF", "F 0:1:1"))
        if r is None:
            return ("eq", "F 0:1:1")
        return ("eq", "T " + track(s[:r], 10))
    return ("skip", None)


RULE = {"ROM": "rep_one_min_max", "PRD": "predicates", "CSZ": "http::chunk_size", "CDT": "http::chunk_data",
        "CHK": "http::chunk", "CBD": "http::chunked_body"}


def describe(toks, prd):
    k = toks[0]
    if k == "ROM":
        return "rep_one_min_max< %s, %s, char(%s) > eol::%s" % (toks[1], toks[2], toks[3], toks[4])
    if k == "PRD":
        return "predicates[%s] %s %s eol::%s" % (toks[1], toks[2], toks[3], toks[4])
    if k == "CDT":
        return "http::chunk_data size=%s eol::%s" % (toks[1], toks[2])
    if k == "CHK":
        return "http::chunk rewind_mode::%s eol::%s" % ("required" if toks[1] == "R" else "optional", toks[2])
    return RULE[k]


def why_of(exp, line):
    if line.endswith(" OOB") or line == "OOB":
        return "reads or bumps outside the input"
    kind, val = exp
    want = val if kind in ("eq", "verdict") else val[0]
    if line.startswith("OVF"):
        return "std::overflow_error with a sufficient buffer"
    if line.startswith("X"):
        return "throws parse_error"
    if line[:1] != want[:1]:
        return "accepts what the documentation rejects" if line.startswith("T") else "rejects what the documentation accepts"
    if line.startswith("F"):
        return "local failure with input consumed"
    a, b = line.split(), want.split()
    if len(a) > 1 and len(b) > 1 and a[1] != b[1]:
        if a[1].split(":")[0] != b[1].split(":")[0]:
            return "consumes the wrong number of bytes"
        return "reports a position that is not the track of the consumed bytes"
    return "stores a wrong value"


# ------------------------------------------------------------------ case enumeration

def rom_alphabet(cv):
    return {97: (97, 98, 10), 10: (10, 97, 13), 13: (13, 10, 97), 233: (233, 97, 105)}.get(cv, (cv, 97, 10))


def gen_cases(tier, seed, listing):
    """-> list of (group label, [case lines])"""
    thorough = tier == "thorough"
    rnd = random.Random(seed)
    groups = []
    roms = [l.split()[1:] for l in listing if l.startswith("ROM ")]
    prds = [l.split()[1:] for l in listing if l.startswith("PRD ")]
    # rep_one_min_max: every instantiation x eol policy x input class x ALL inputs over {C, other, eol-ish}
    maxlen = 7 if thorough else 5
    for mn, mx, cv in roms:
        if not thorough and cv not in ("97", "10"):
            ml = 3
        else:
            ml = maxlen if int(mx) >= 3 or thorough else min(maxlen, int(mx) + 2)
        ins = [hx(s) for s in strings(rom_alphabet(int(cv)), ml)]
        lines = []
        for eol in ("lf", "cr"):
            for mode in ("M", "B"):
                for h in ins:
                    lines.append("ROM %s %s %s %s %s %s" % (mn, mx, cv, eol, mode, h))
        groups.append(("rep_one_min_max", lines))
    # predicates
    char_alpha = (97, 98, 109, 120, 48, 10, 13, 0xE9, 0x85, 0x7F)
    char_ins = [hx(s) for s in strings(char_alpha, 2)]
    u8_alpha = (0x61, 0x62, 0x0A, 0x0D, 0xC3, 0xA9, 0xE2, 0x82, 0xAC, 0xF0, 0x90, 0x80, 0xC0, 0xED, 0xA0, 0xF4) if thorough \
        else (0x62, 0x0A, 0xC3, 0xA9, 0xE2, 0x82, 0xAC)
    u8_ins = set(strings(u8_alpha, 4 if not thorough else 3))
    if thorough:
        u8_ins |= set(strings((0x61, 0x0D, 0xC3, 0xA9, 0xE2, 0x82, 0xAC, 0xF0, 0x90, 0x80), 4))
    for cp in (0x0A, 0x0D, 0x61, 0x62, 0x7A, 0x7F, 0x80, 0xE9, 0x7FF, 0x800, 0x20AC, 0xD7FF, 0xE000, 0xFFFF, 0x10000, 0x10FFFF):
        enc = chr(cp).encode("utf-8")
        for tl in (b"", b"x", b"\n", b"\x80"):
            u8_ins.add(enc + tl)
        for k in range(1, len(enc)):
            u8_ins.add(enc[:k])
            u8_ins.add(enc[:k] + b"x")
    for bad in (b"\xed\xa0\x80", b"\xc0\x8a", b"\xe0\x80\x8a", b"\xf4\x90\x80\x80", b"\xf8\x88\x80\x80\x80", b"\xc1\xbf", b"\xe0\x9f\xbf", b"\xf0\x8f\xbf\xbf"):
        u8_ins.add(bad)
        u8_ins.add(bad + b"x")
    u8_ins = [hx(s) for s in sorted(u8_ins)]
    for pid, pk, term in prds:
        ins = char_ins if pk == "char" else u8_ins
        lines = []
        for eol in ("lf", "cr"):
            for mode in ("M", "B"):
                for h in ins:
                    lines.append("PRD %s %s %s %s %s %s" % (pid, pk, term, eol, mode, h))
        groups.append(("predicates", lines))
    # chunk_size
    csz = set(strings((0x31, 0x61, 0x46, 0x67, 0x0D, 0x3A) if not thorough else (0x30, 0x39, 0x61, 0x66, 0x41, 0x46, 0x67, 0x0D), 5 if not thorough else 6))
    for b in range(256):
        csz.add(bytes([b]))
        csz.add(bytes([b, 0x31]))
        csz.add(bytes([0x31, b]))
    for n in (15, 16, 17, 18, 20, 24, 32, 33, 40):
        csz.add(b"1" + b"0" * (n - 1))
        csz.add(b"f" * n)
        csz.add(b"0" * n + b"a")
        for _ in range(6 if not thorough else 40):
            d = bytes(rnd.choice(HEXDIGITS) for _ in range(n))
            csz.add(d)
            csz.add(d + b"\r\n")
            csz.add(d + b"g")
    lines = []
    for mode in ("M", "B"):
        for s in sorted(csz):
            lines.append("CSZ %s %s" % (mode, hx(s)))
    groups.append(("chunk_size", lines))
    # chunk_data
    sizes = (0, 1, 2, 3, 4, 5, 7, 8, 4095, 4096, 4097, 5000, 1 << 32, (1 << 63) - 1, 1 << 63, (1 << 64) - 1)
    cdt_ins = [hx(s) for s in strings((97, 10, 13), 6 if thorough else 4)]
    lines = []
    for size in sizes:
        for eol in ("lf", "cr"):
            for mode in ("M", "B"):
                for h in (cdt_ins if size <= 8 else cdt_ins[:14]):
                    lines.append("CDT %d %s %s %s" % (size, eol, mode, h))
    groups.append(("chunk_data", lines))
    # http::chunk: structured inputs
    heads = (b"0", b"1", b"2", b"3", b"4", b"a", b"00", b"02", b"003", b"10", b"g", b"", b"2;", b"2;x", b"1000", b"1001", b"ffb", b"ffc", b"ffd", b"fffffff",
             b"10000000000000000", b"10000000000000002", b"f" * 16, b"f" * 17, b"7" + b"f" * 15, b"8" + b"0" * 15)
    seps = (b"\r\n", b"\n", b"\r", b"\r\r\n", b"", b" \r\n")
    datas = list(strings((97, 10, 13), 4 if thorough else 2))
    terms = (b"\r\n", b"\r", b"", b"\n\r", b"\r\nX", b"\n")
    chk = set()
    for hd in heads:
        for sp in seps:
            for d in datas:
                for tm in terms:
                    chk.add(hd + sp + d + tm)
    if thorough:
        chk |= set(strings((0x32, 0x0D, 0x0A, 0x61), 7))
    else:
        chk |= set(strings((0x31, 0x0D, 0x0A, 0x61), 5))
    chk = sorted(chk)
    lines = []
    for m in ("R", "O"):
        for eol in ("lf", "cr"):
            for mode in ("M", "B"):
                for s in chk:
                    lines.append("CHK %s %s %s %s" % (m, eol, mode, hx(s)))
    groups.append(("http::chunk", lines))
    # http::chunked_body: implementation against the oracle only (no ';' and no ':' in the alphabet)
    cbd = set()
    chunks = (b"1\r\na\r\n", b"2\r\n\r\n\r\n", b"0a\r\n0123456789\r\n", b"3\r\nab\r\n", b"1\r\na\r", b"g\r\n", b"01\r\n\n\r\n", b"10000000000000001\r\nx\r\n", b"1000\r\nabc\r\n")
    lasts = (b"0\r\n", b"000\r\n", b"0", b"0\r", b"00\n", b"01\r\n", b"0a\r\n")
    tails = (b"\r\n", b"\r", b"", b"\n", b"\r\nx")
    for n in range(0, 3):
        for cs in itertools.product(chunks, repeat=n):
            for la in lasts:
                for tl in tails:
                    cbd.add(b"".join(cs) + la + tl)
    cbd |= set(strings((0x30, 0x31, 0x0D, 0x0A), 7 if thorough else 6))
    lines = []
    for mode in ("M", "B"):
        for s in sorted(cbd):
            lines.append("CBD %s %s" % (mode, hx(s)))
    groups.append(("http::chunked_body", lines))
    return groups


# ------------------------------------------------------------------ running

def _work(job):
    idx, label, lines, impl, model, workdir = job
    path = os.path.join(workdir, "cases-%d.txt" % idx)
    with open(path, "w") as fh:
        fh.write("\n".join(lines) + "\n")
    res = {"label": label, "n": len(lines), "err": None, "diffs": [], "ndiff": 0, "viol": {}, "nviol": 0, "accepted": 0,
           "judged": 0, "wrap_cases": 0, "ovf": 0}
    try:
        rc1, out1 = vlib.sh([impl, "run", path], timeout=1500)
        rc2, out2 = vlib.sh([model, path], timeout=1500)
        a = out1.split("\n")
        b = out2.split("\n")
        if rc1 != 0 or rc2 != 0 or len(a) < len(lines) or len(b) < len(lines):
            res["err"] = "run failed (impl rc=%s, %d lines; model rc=%s, %d lines; %d cases): %s | %s" % (rc1, len(a), rc2, len(b), len(lines), out1[-300:], out2[-300:])
            return res
        for ln, ia, mb in zip(lines, a, b):
            toks = ln.split()
            if ia.startswith("T"):
                res["accepted"] += 1
            if ia == "OVF":
                res["ovf"] += 1
            # model vs implementation (chunked_body has no model; EXT = outside the model; OVF = buffer capacity, not modelled)
            if mb not in ("-", "EXT") and ia != "OVF" and ia != mb:
                res["ndiff"] += 1
                if len(res["diffs"]) < 5:
                    res["diffs"].append((ln, ia, mb))
            # implementation vs documented behaviour
            exp = expect(toks)
            ok = True
            if exp[0] == "eq":
                ok = ia == exp[1]
            elif exp[0] == "verdict":
                ok = ia.split()[0] == exp[1] and not ia.endswith("OOB")
            elif exp[0] == "any":
                ok = ia in exp[1]
            else:
                ok = not ia.endswith("OOB")
            if exp[0] != "skip":
                res["judged"] += 1
            if toks[0] in ("CSZ", "CHK", "CBD") and WRAP_IS_DOCUMENTED:
                h = toks[-1]
                s = bytes.fromhex(h) if h != "-" else b""
                if hexrun(s) > 16 and int(s[:hexrun(s)], 16) >= (1 << 64):
                    res["wrap_cases"] += 1
            if not ok:
                res["nviol"] += 1
                why = why_of(exp, ia)
                key = (toks[0], why)
                cand = (len(toks[-1]), ln, ia, mb, exp)
                if key not in res["viol"] or cand < res["viol"][key]:
                    res["viol"][key] = cand
    except Exception as e:  # noqa: BLE001
        res["err"] = "exception: %r" % (e,)
    finally:
        try:
            os.unlink(path)
        except OSError:
            pass
    return res


def stage(ctx, proofs=True):
    """proofs + correspondence + oracle for the contrib classes; reports through ctx; returns the number of cases"""
    if proofs:
        ctx.proofs("Properties_Contrib")
    model = vlib.build_ocaml("ExtractContrib", "contrib_driver.ml", "contrib_driver")
    impl = vlib.build_cpp([os.path.join(vlib.VERIF, "harness", "contrib_impl.cpp")], "contrib_impl", flags=["-O1"])
    rc, out = vlib.sh([impl, "list"], timeout=120)
    listing = [l for l in out.split("\n") if l.strip()]
    if rc != 0 or not listing:
        ctx.diff("contrib_impl list failed", out[-1500:])
        return 0
    bad_terms = [l for l in listing if l.startswith("PRD") and "?" in l]
    if bad_terms:
        ctx.diff("a predicates type is not described by the harness (translator gap)", bad_terms[:3])
    groups = gen_cases(ctx.tier, ctx.seed, listing)
    workdir = os.path.join(vlib.BUILD, "contrib-%d" % os.getpid())
    os.makedirs(workdir, exist_ok=True)
    jobs = []
    per = 20000
    for label, lines in groups:
        for i in range(0, len(lines), per):
            jobs.append((len(jobs), label, lines[i:i + per], impl, model, workdir))
    with multiprocessing.Pool(min(vlib.JOBS, 16)) as pool:
        results = pool.map(_work, jobs, chunksize=1)
    try:
        os.rmdir(workdir)
    except OSError:
        pass
    total = accepted = judged = ndiff = nviol = wraps = ovf = 0
    by_label = {}
    viol = {}
    diffs = []
    for r in results:
        if r["err"]:
            ctx.diff("contrib correspondence run failed", r["err"])
            continue
        total += r["n"]
        accepted += r["accepted"]
        judged += r["judged"]
        ndiff += r["ndiff"]
        nviol += r["nviol"]
        wraps += r["wrap_cases"]
        ovf += r["ovf"]
        by_label[r["label"]] = by_label.get(r["label"], 0) + r["n"]
        diffs += r["diffs"]
        for key, cand in r["viol"].items():
            if key not in viol or cand < viol[key]:
                viol[key] = cand
    for ln, ia, mb in sorted(diffs, key=lambda d: (len(d[0]), d[0]))[:20]:
        ctx.diff("contrib model and implementation disagree", ln, impl=ia, model=mb)
    if ndiff:
        ctx.note("contrib: %d model/implementation differences in total" % ndiff)
    for (k, why), (_, ln, ia, mb, exp) in sorted(viol.items()):
        toks = ln.split()
        h = toks[-1]
        inp = bytes.fromhex(h) if h != "-" else b""
        want = exp[1] if exp[0] != "any" else " or ".join(exp[1])
        ctx.violation("%s %s: %s on %r" % (RULE[k], why, describe(toks, None), inp.decode("latin-1")),
                      "%s through %s on input %r %s: documented behaviour gives '%s', the implementation printed '%s' (model: '%s')" % (
                          describe(toks, None), "memory_input" if toks[-2] == "M" else "buffer_input< Chunk = 1, one byte per read >", inp, why, want, ia, mb),
                      {"stage": "contrib", "case": ln, "expected": list(exp), "impl": ia, "model": mb,
                       "how": "contrib_impl run <file> with this case line (harness/contrib_impl.cpp)"})
    if nviol:
        ctx.note("contrib: %d implementation results contradict the oracle" % nviol)
    if wraps:
        ctx.note("contrib: %d cases have a chunk-size of more than 16 significant hex digits; http::chunk_size keeps the value modulo 2^64 "
                 "(proved: chunk_size_exact / ex_chunk_size_wraps) and the oracle follows that (WRAP_IS_DOCUMENTED)" % wraps)
    ctx.cover(evaluations=total, distinct=accepted, validated=total,
              rule="contrib: rep_one_min_max< Min, Max, C > for 0 <= Min <= Max <= 4, C in {'a','\\n','\\r',0xE9} x eol {lf_crlf, cr} x {memory_input window with adversarial tail, "
                   "buffer_input Chunk=1 one byte per read} x ALL inputs over {C, two others} up to length %s; 13 predicates rules (and/or/not, nested; peek_char, peek_utf8) x all 1-2 byte "
                   "strings over 10 bytes resp. all UTF-8-alphabet strings up to 4 bytes + boundary code points, truncations, overlongs, surrogates; chunk_size on all short strings over a hex/non-hex "
                   "alphabet, every single byte, digit runs of 15..40; chunk_data for sizes 0..8, around the buffer capacity, 2^32, 2^63, 2^64-1; http::chunk (both rewind modes) on structured and "
                   "exhaustive small inputs; http::chunked_body against the oracle; non-trivial = accepted by the implementation" % ("7" if ctx.tier == "thorough" else "5"),
              samples=["ROM 1 3 97 lf B 61616161 -> F 0:1:1", "PRD utf8 and(range(1,128,65535),one(0,233)) e282ac -> T 3:1:4",
                       "CSZ M '10000000000000000' -> T 17:1:18 0", "CDT 3 lf M 'a\\nb' -> T 3:2:2", "CHK R lf B '3\\r\\nabc\\r' -> F 0:1:1"],
              contrib_by_group=by_label, contrib_judged=judged, contrib_overflow_errors=ovf)
    tb = "Contrib: hand-written driver/contrib_driver.ml and harness/contrib_impl.cpp (compiler-side describe<> of predicate types, memory window + one-byte buffer reader, TAO_PEGTL_VERIF bounds hook); Python oracle in checks/Contrib.py"
    if tb not in ctx.trusted_base:
        ctx.trusted_base = (ctx.trusted_base or vlib.default_trusted_base()) + [tb]
    return total


def run(ctx):
    stage(ctx, proofs=True)
    ctx.assumptions = (ctx.assumptions or vlib.default_assumptions()) + [
        "Contrib: theorems are about the Gallina models in Contrib.v; in.size( amount ) is a parameter constrained by size_ok (min( amount, left ) <= answer <= left), "
        "which covers memory inputs and buffer inputs whose buffer is large enough (otherwise std::overflow_error, outside the model); loop counters stay below 2^64",
    ]


def replay(j):
    r = j.get("replay", {})
    if "case" not in r:
        print("replay file carries no single case")
        return 2
    impl = vlib.build_cpp([os.path.join(vlib.VERIF, "harness", "contrib_impl.cpp")], "contrib_impl", flags=["-O1"])
    workdir = os.path.join(vlib.BUILD, "contrib-replay-%d" % os.getpid())
    os.makedirs(workdir, exist_ok=True)
    path = os.path.join(workdir, "case.txt")
    with open(path, "w") as fh:
        fh.write(r["case"] + "\n")
    rc, out = vlib.sh([impl, "run", path], timeout=600)
    os.unlink(path)
    os.rmdir(workdir)
    line = out.split("\n")[0]
    exp = expect(r["case"].split())
    bad = (exp[0] == "eq" and line != exp[1]) or (exp[0] == "verdict" and (line.split()[0] != exp[1] or line.endswith("OOB"))) or \
          (exp[0] == "any" and line not in exp[1]) or line.endswith("OOB")
    print("%s: implementation '%s', documented %s" % (r["case"], line, exp))
    print("VIOLATION property=%s replay=(replayed)" % j.get("property", "?") if bad else "no violation on the current tree")
    return 1 if bad else 0
