# C15 - integer rules and conversions are exact or report overflow (contrib/integer.hpp).
#
# 1. proofs: Properties_C15.v (model Integer.v against the specification IntegerSpec.v).
# 2. correspondence: the extracted model (driver/c15_driver.ml) and the real rules/actions
#    (harness/c15_impl.cpp, compiled against the current /repo/include) run on the same case files;
#    any difference -> ctx.diff.
# 3. oracle: an arbitrary-precision reading of the DOCUMENTED syntax written here in Python
#    (regular expression + int), independent of the model; implementation != oracle -> ctx.violation.
# 4. a second build of the implementation with AddressSanitizer + UBSan runs on exact-size heap
#    buffers (over-reads, signed overflow); any report -> ctx.violation.
import os
import random
import re
import threading
import multiprocessing

import vlib

KINDS_U_PLAIN = ("U0", "UWN")            # syntax only, unsigned
KINDS_U_CONV = ("UA", "UWA")             # unsigned, converting into uintW_t (Maximum = type max)
KINDS_MAX = ("MR", "MRA", "UMA", "MWA", "MWN")
KINDS_S_PLAIN = ("S0", "SWN")
KINDS_S_CONV = ("SA", "SWA")
RULE_NAME = {
    "U0": "unsigned_rule", "UA": "unsigned_rule+unsigned_action", "UWA": "unsigned_rule_with_action",
    "UWN": "unsigned_rule_with_action(apply_mode::nothing)", "MR": "maximum_rule", "MRA": "maximum_rule+maximum_action",
    "UMA": "unsigned_rule+maximum_action", "MWA": "maximum_rule_with_action",
    "MWN": "maximum_rule_with_action(apply_mode::nothing)", "S0": "signed_rule", "SA": "signed_rule+signed_action",
    "SWA": "signed_rule_with_action", "SWN": "signed_rule_with_action(apply_mode::nothing)",
    "ACC": "accumulate_digit<uint8_t>",
}
TRAILS = (b"", b"x", b"0", b"5", b"+")
SIGNS = (b"", b"+", b"-")

# ------------------------------------------------------------------ oracle (documented syntax)
# unsigned numeral: "0" or a non-zero digit followed by digits; the rule matches the numeral that
# is not followed by a further digit; signed: the same after at most one '-' or '+'.
RE_UNSIGNED = re.compile(rb"(?:0|[1-9][0-9]*)(?![0-9])")
RE_SIGNED = re.compile(rb"[-+]?(?:0|[1-9][0-9]*)(?![0-9])")


def oracle(kind, w, mx, data):
    """-> (cls, consumed, value)  cls in T/F/X; value None when the documentation does not fix the state."""
    if kind in ("S0", "SWN", "SA", "SWA"):
        m = RE_SIGNED.match(data)
        if not m:
            return ("F", 0, None)
        k = m.end()
        if kind in KINDS_S_PLAIN:
            return ("T", k, None)
        v = int(m.group(0))
        if -(1 << (w - 1)) <= v <= (1 << (w - 1)) - 1:
            return ("T", k, v)
        return ("X", None, None)
    m = RE_UNSIGNED.match(data)
    if not m:
        return ("F", 0, None)
    k = m.end()
    if kind in KINDS_U_PLAIN:
        return ("T", k, None)
    v = int(m.group(0))
    limit = (1 << w) - 1 if kind in KINDS_U_CONV else mx
    if v <= limit:
        if kind in ("MR", "MWN"):
            return ("T", k, None)
        return ("T", k, v)
    if kind == "MR" or kind == "MRA":
        return ("F", 0, None)        # the bounded rule fails locally
    return ("X", None, None)         # the others report overflow by exception


def judge(exp, line):
    """None if the implementation's line agrees with the oracle, else a short failure class."""
    if line.endswith(" OOB") or line == "OOB":
        return "reads outside the input"
    cls, k, v = exp
    if cls == "T":
        if v is None:
            if line.startswith("T %d:1:%d " % (k, k + 1)):
                return None
        elif line == "T %d:1:%d %d" % (k, k + 1, v):
            return None
        if line.startswith("T "):
            parts = line.split()
            if parts[1] != "%d:1:%d" % (k, k + 1):
                return "consumes the wrong number of bytes"
            return "stores a wrong value"
        if line.startswith("X:"):
            return "reports overflow for a representable value"
        return "rejects a documented numeral"
    if cls == "F":
        if line.startswith("F 0:1:1 "):
            return None
        if line.startswith("F "):
            return "local failure with input consumed"
        if line.startswith("T "):
            return "accepts what the documented syntax/maximum rejects"
        return "throws instead of failing locally"
    if line.startswith("X:"):
        return None
    if line.startswith("T "):
        return "stores a wrapped/truncated value instead of reporting overflow"
    return "fails locally instead of reporting overflow"


def oracle_acc(mx):
    out = []
    for r in range(256):
        for c in range(10):
            v = 10 * r + c
            out.append(str(v) if v <= mx else "-")
    return ",".join(out) + ","


# ------------------------------------------------------------------ case enumeration

def digit_strings(lo, hi, first=None):
    for n in range(lo, hi + 1):
        if first is None:
            for i in range(10 ** n):
                yield b"%0*d" % (n, i)
        else:
            for i in range(10 ** (n - 1)):
                yield (b"%d" % first) + (b"%0*d" % (n - 1, i) if n > 1 else b"")


def neighbourhood(values, d=3):
    s = set()
    for v in values:
        for x in range(v - d, v + d + 1):
            if x >= 0:
                s.add(x)
    return sorted(s)


def boundary_values(w, maxima):
    vals = [0]
    for e in range(0, len(str(1 << w)) + 2):
        vals.append(10 ** e)
    for e in (w - 1, w):
        vals += [1 << e, (1 << e) - 1]
    for k in range(2, 10):
        vals.append(k << w)                      # multiples of 2^w wrap to 0
        vals.append((k << (w - 1)))
    vals += [(1 << w) + x for x in (10, 99, 100, 255)]
    vals += [((1 << w) - 1) // 10, ((1 << w) - 1) // 10 + 1, ((1 << (w - 1)) - 1) // 10, (1 << (w - 1)) // 10 + 1]
    for m in maxima:
        vals += [m, m // 10, m // 10 + 1, 10 * m, 10 * m + m % 10, m + (1 << w)]
    return neighbourhood(vals)


MISC = [b"", b"+", b"-", b"x", b"+x", b"-x", b"--1", b"++1", b"+-1", b"-+1", b"a1", b" 1", b"1 ", b"00", b"000", b"007",
        b"01", b"+01", b"-01", b"-0", b"+0", b"-00", b"0x", b"0+", b"0-", b"-0x", b"1/", b"1:", b"0/", b"0:", b"/", b":",
        b"/1", b":1", b"\xb1", b"1\xb2", b"0\xb9", b"0\xb0", b"\xb0", b"-\xb1", b"\x00", b"1\x00", b"0\x00", b"\xff",
        b"1\xff", b"9" * 25, b"-" + b"9" * 25, b"1" + b"0" * 25, b"0" * 25, b"12", b"-12", b"+12"]


def hexs(b):
    return b.hex() if b else "-"


def tasks_for(tier, maxima, seed):
    """list of tasks; a task = (label, [(kind, w, max)], input-spec); lines = kinds x inputs.
    input-spec: ("D", lo, hi, first, signs, trails) | ("L", [bytes])"""
    thorough = tier == "thorough"
    T = []
    mx = {w: [m for (ww, m) in maxima if ww == w] for w in (8, 16, 32, 64)}
    all_kinds = {}
    for w in (8, 16, 32, 64):
        ks = [(k, w, 0) for k in KINDS_U_PLAIN + KINDS_U_CONV + KINDS_S_PLAIN + KINDS_S_CONV]
        ks += [(k, w, m) for m in mx[w] for k in KINDS_MAX]
        all_kinds[w] = ks
    # --- 8-bit: every digit string up to 4 digits (one beyond the width of uint8_t/int8_t)
    for first in range(10):
        T.append(("s8-conv", [(k, 8, 0) for k in KINDS_S_CONV], ("D", 1, 4, first, SIGNS, TRAILS)))
        T.append(("u8-conv", [(k, 8, 0) for k in KINDS_U_CONV], ("D", 1, 4, first, (b"",), TRAILS)))
        if thorough:
            T.append(("s8-plain", [(k, 8, 0) for k in KINDS_S_PLAIN], ("D", 1, 4, first, SIGNS, TRAILS)))
            T.append(("u8-plain", [(k, 8, 0) for k in KINDS_U_PLAIN], ("D", 1, 4, first, (b"",), TRAILS)))
            for m in mx[8]:
                T.append(("max8", [(k, 8, m) for k in KINDS_MAX], ("D", 1, 3, first, (b"",), TRAILS)))
                T.append(("max8", [(k, 8, m) for k in KINDS_MAX], ("D", 4, 4, first, (b"",), (b"", b"x"))))
        else:
            T.append(("s8-plain", [(k, 8, 0) for k in KINDS_S_PLAIN], ("D", 1, 3, first, SIGNS, TRAILS)))
            T.append(("u8-plain", [(k, 8, 0) for k in KINDS_U_PLAIN], ("D", 1, 3, first, (b"",), TRAILS)))
            T.append(("max8", [(k, 8, m) for m in mx[8] for k in ("MR", "MWA")], ("D", 1, 3, first, (b"",), (b"", b"x", b"5"))))
            T.append(("max8", [(k, 8, m) for m in mx[8] for k in ("MR", "MWA")], ("D", 4, 4, first, (b"",), (b"",))))
            T.append(("max8", [(k, 8, m) for m in mx[8] for k in ("MRA", "UMA", "MWN")], ("D", 1, 3, first, (b"",), (b"", b"x"))))
    T.append(("u8-signed-input", [(k, 8, 0) for k in KINDS_U_PLAIN + KINDS_U_CONV] + [(k, 8, 255) for k in KINDS_MAX],
              ("D", 1, 2, None, (b"+", b"-"), (b"", b"x"))))
    # --- 16-bit
    if thorough:
        for first in range(10):   # every digit string up to 6 digits (one beyond the width) x signs x trailing
            for tr in TRAILS:
                T.append(("u16-conv", [(k, 16, 0) for k in KINDS_U_CONV], ("D", 1, 6, first, (b"",), (tr,))))
                for sg in SIGNS:
                    T.append(("s16-conv", [(k, 16, 0) for k in KINDS_S_CONV], ("D", 1, 6, first, (sg,), (tr,))))
            for m in mx[16]:
                T.append(("max16", [(k, 16, m) for k in KINDS_MAX], ("D", 1, 5, first, (b"",), (b"", b"x"))))
    else:
        T.append(("u16-conv", [(k, 16, 0) for k in KINDS_U_CONV + KINDS_S_CONV], ("D", 1, 3, None, SIGNS, (b"", b"x"))))
        T.append(("max16", [(k, 16, m) for m in mx[16] for k in ("MR", "MWA")], ("D", 1, 3, None, (b"",), (b"",))))
    # --- seeded random numerals for the wide types (log-uniform magnitude, up to two digits beyond the width)
    rng = random.Random(seed)
    for w in (32, 64):
        nd = len(str(1 << w)) + 2
        inputs = []
        for _ in range(6000 if thorough else 1500):
            n = rng.randint(1, nd)
            ds = (b"%d" % rng.randint(1, 9)) + b"".join(b"%d" % rng.randint(0, 9) for _ in range(n - 1))
            inputs.append(rng.choice(SIGNS) + ds + rng.choice(TRAILS))
        T.append(("random%d" % w, all_kinds[w], ("L", inputs)))
    # --- boundary neighbourhoods for every width, every kind, every sign, every trailing class
    for w in (8, 16, 32, 64):
        vals = boundary_values(w, mx[w])
        s_inputs = []
        u_inputs = []
        for v in vals:
            s = b"%d" % v
            for sg in SIGNS:
                for tr in TRAILS:
                    s_inputs.append(sg + s + tr)
                    if sg == b"" or v < 12:      # a sign makes every unsigned rule fail at once
                        u_inputs.append(sg + s + tr)
            for pre in (b"0", b"00", b"-0", b"+0"):   # leading-zero forms
                s_inputs.append(pre + s)
                u_inputs.append(pre + s)
        step = 4000
        ks_s = [k for k in all_kinds[w] if k[0] in KINDS_S_PLAIN + KINDS_S_CONV]
        ks_u = [k for k in all_kinds[w] if k[0] not in KINDS_S_PLAIN + KINDS_S_CONV]
        for i in range(0, len(s_inputs), step):
            T.append(("boundary%d" % w, ks_s, ("L", s_inputs[i:i + step])))
        for i in range(0, len(u_inputs), step // 4):
            T.append(("boundary%d" % w, ks_u, ("L", u_inputs[i:i + step // 4])))
        T.append(("misc%d" % w, all_kinds[w], ("L", MISC)))
    return T


def gen_inputs(spec):
    if spec[0] == "L":
        return list(spec[1])
    _, lo, hi, first, signs, trails = spec
    out = []
    for ds in digit_strings(lo, hi, first):
        for sg in signs:
            for tr in trails:
                out.append(sg + ds + tr)
    return out


def sanitizer_cases(maxima):
    """exact-size runs under ASan/UBSan: every kind; short digit strings and every boundary value, at the
    very end of the buffer and before a trailing byte."""
    cases = []
    mx = {w: [m for (ww, m) in maxima if ww == w] for w in (8, 16, 32, 64)}
    short = [sg + ds + tr for ds in digit_strings(1, 2) for sg in SIGNS for tr in (b"", b"x")] + MISC
    for w in (8, 16, 32, 64):
        ks = [(k, w, 0) for k in KINDS_U_PLAIN + KINDS_U_CONV + KINDS_S_PLAIN + KINDS_S_CONV]
        ks += [(k, w, m) for m in mx[w] for k in KINDS_MAX]
        vals = boundary_values(w, mx[w])
        bnd = []
        for v in vals:
            s = b"%d" % v
            bnd += [s, s + b"x", b"-" + s, b"+" + s, b"-" + s + b"x"]
        for (k, ww, m) in ks:
            signed = k in KINDS_S_PLAIN + KINDS_S_CONV
            for inp in short + bnd:
                if not signed and inp[:1] in (b"-", b"+") and len(inp) > 3:
                    continue
                cases.append((k, ww, m, inp))
    return cases


# ------------------------------------------------------------------ running one task (worker process)

def _run_task(args):
    idx, task, impl, model, workdir = args
    label, kinds, spec = task
    inputs = gen_inputs(spec)
    cases = [(k, w, m, inp) for (k, w, m) in kinds for inp in inputs]
    return _run_cases(idx, label, cases, impl, model, workdir)


def _run_cases(idx, label, cases, impl, model, workdir, acc=()):
    path = os.path.join(workdir, "cases-%04d.txt" % idx)
    with open(path, "w") as fh:
        for (k, w, m, inp) in cases:
            fh.write("%s %d %d %s\n" % (k, w, m, hexs(inp)))
        for m in acc:
            fh.write("ACC %d\n" % m)
    rc1, out1 = vlib.sh([impl, "run", path], timeout=3000)
    rc2, out2 = vlib.sh([model, path], timeout=3000)
    os.unlink(path)
    li = out1.split("\n")
    lm = out2.split("\n")
    n = len(cases) + len(acc)
    res = {"label": label, "n": len(cases), "acc": len(acc) * 2560, "diffs": [], "viol": {}, "nviol": 0, "ndiff": 0,
           "cls": {"T": 0, "F": 0, "X": 0}, "err": None}
    if rc1 != 0 or rc2 != 0 or len(li) < n or len(lm) < n:
        res["err"] = "task %s: impl rc=%d lines=%d, model rc=%d lines=%d, expected %d; impl tail: %r model tail: %r" % (
            label, rc1, len(li), rc2, len(lm), n, out1[-300:], out2[-300:])
        return res
    for i, (k, w, m, inp) in enumerate(cases):
        a = li[i]
        b = lm[i]
        if a != b:
            res["ndiff"] += 1
            if len(res["diffs"]) < 5:
                res["diffs"].append(("%s<%d,%d> on %r" % (RULE_NAME[k], w, m, inp), a, b))
        exp = oracle(k, w, m, inp)
        res["cls"][exp[0]] += 1
        why = judge(exp, a)
        if why is not None:
            res["nviol"] += 1
            key = (k, why)
            cand = (len(inp), inp, w, m, a, b, exp)
            if key not in res["viol"] or cand < res["viol"][key]:
                res["viol"][key] = cand
    for j, m in enumerate(acc):
        a = li[len(cases) + j]
        b = lm[len(cases) + j]
        if a != b:
            res["ndiff"] += 1
            if len(res["diffs"]) < 5:
                res["diffs"].append(("accumulate_digit<uint8_t,%d> table" % m, a[:200], b[:200]))
        e = oracle_acc(m)
        if a != e:
            res["nviol"] += 1
            # first differing (r, c)
            ea = e.split(",")
            aa = a.split(",")
            pos = next((i for i in range(min(len(ea), len(aa))) if ea[i] != aa[i]), 0)
            key = ("ACC", "accumulate_digit differs from exact arithmetic")
            cand = (0, b"r=%d c=%d" % (pos // 10, pos % 10), 8, m, aa[pos] if pos < len(aa) else "?", "", ("T", 0, ea[pos]))
            if key not in res["viol"] or cand < res["viol"][key]:
                res["viol"][key] = cand
    return res


# ------------------------------------------------------------------ sanitizer run

def run_sanitizer(ctx, san, cases, workdir, max_reports=6):
    """exact-size buffers under ASan+UBSan (-fno-sanitize-recover=all: the first report aborts).
    The implementation prints a line after each completed case, so the number of complete lines
    identifies the offending case; continue behind it."""
    start = 0
    reports = 0
    done = 0
    while start < len(cases) and reports < max_reports:
        path = os.path.join(workdir, "san-%d.txt" % start)
        with open(path, "w") as fh:
            for (k, w, m, inp) in cases[start:]:
                fh.write("%s %d %d %s\n" % (k, w, m, hexs(inp)))
        rc, out = vlib.sh([san, "run", path], timeout=3000,
                          env={"ASAN_OPTIONS": "detect_leaks=1:abort_on_error=0:exitcode=23", "UBSAN_OPTIONS": "print_stacktrace=0"})
        os.unlink(path)
        lines = out.split("\n")
        ok_lines = 0
        for ln in lines:
            if re.match(r"^(T|F|X:\S+) \d+:\d+:\d+ -?\d+( @\d+:\d+:\d+)?$", ln):
                ok_lines += 1
            else:
                break
        if rc == 0 and ok_lines >= len(cases) - start:
            done += len(cases) - start
            break
        # a report: classify it
        text = "\n".join(lines[ok_lines:])
        m1 = re.search(r"ERROR: AddressSanitizer: ([a-z-]+)", text)
        m2 = re.search(r"runtime error: ([^:\n]+)", text)
        m3 = re.search(r"([A-Za-z_./]+\.hpp:\d+)", text)
        if m1:
            kind_of = "AddressSanitizer " + m1.group(1)
        elif m2:
            kind_of = "UBSan " + m2.group(1).strip()
        else:
            kind_of = "sanitizer build failed (rc=%d)" % rc
        bad = start + ok_lines
        done += ok_lines
        if bad >= len(cases):
            ctx.violation("integer.hpp sanitizer run: %s after the last case" % kind_of, text[:1500], {"output": text[:3000]})
            break
        (k, w, m, inp) = cases[bad]
        where = (" at " + os.path.basename(m3.group(1))) if m3 else ""
        ctx.violation("%s<%d> %s on exact-size %r" % (RULE_NAME[k], w, kind_of, inp.decode("latin-1")),
                      "%s (T=%d-bit, Maximum=%d) on the exact-size heap buffer %r: %s%s" % (RULE_NAME[k], w, m, inp, kind_of, where),
                      {"kind": k, "width": w, "maximum": m, "input_hex": hexs(inp), "sanitizer_output": text[:3000],
                       "how": "c15_impl built with -DC15_SANITIZE -fsanitize=address,undefined -fno-sanitize-recover=all; case line '%s %d %d %s'" % (k, w, m, hexs(inp))})
        reports += 1
        start = bad + 1
    return done, reports


# ------------------------------------------------------------------ the check

def run(ctx):
    thorough = ctx.tier == "thorough"
    src = os.path.join(vlib.VERIF, "harness", "c15_impl.cpp")
    built = {}

    def b_impl():
        built["impl"] = vlib.build_cpp([src], "c15_impl", flags=["-O1"])

    def b_san():
        built["san"] = vlib.build_cpp([src], "c15_impl_san",
                                      flags=["-O1", "-g0", "-DC15_SANITIZE", "-fsanitize=address,undefined", "-fno-sanitize-recover=all"])

    def guarded(f, name):
        def g():
            try:
                f()
            except Exception as e:      # re-raised in the main thread below
                built[name + "_err"] = e
        return g

    th = [threading.Thread(target=guarded(b_impl, "impl")), threading.Thread(target=guarded(b_san, "san"))]
    for t in th:
        t.start()
    rep = ctx.proofs("Properties_C15")
    model = vlib.build_ocaml("ExtractC15", "c15_driver.ml", "c15_driver")
    for t in th:
        t.join()
    for name in ("impl", "san"):
        if name + "_err" in built:
            raise built[name + "_err"]
    impl, san = built["impl"], built["san"]

    chk = {}
    if thorough and rep.build_ok:
        def b_chk():
            chk["res"] = vlib.sh(["timeout", "600", "coqchk", "-silent", "-o", "-Q", ".", "PegtlV", "PegtlV.Properties_C15"], cwd=vlib.COQ, timeout=660)
        tchk = threading.Thread(target=b_chk)
        tchk.start()

    rc, out = vlib.sh([impl, "list"], timeout=60)
    maxima = [(int(a), int(b)) for a, b in (ln.split() for ln in out.strip().split("\n"))]

    workdir = os.path.join(vlib.BUILD, "c15-work-%d" % os.getpid())
    os.makedirs(workdir, exist_ok=True)
    tasks = tasks_for(ctx.tier, maxima, ctx.seed)
    jobs = [(i, t, impl, model, workdir) for i, t in enumerate(tasks)]
    with multiprocessing.Pool(min(vlib.JOBS, 16)) as pool:
        acc_async = pool.apply_async(_run_cases, (9000, "acc8", [], impl, model, workdir, tuple(range(256))))
        results = pool.map(_run_task, jobs, chunksize=1)
        results.append(acc_async.get())

    total = 0
    acc_evals = 0
    ndiff = 0
    nviol = 0
    cls = {"T": 0, "F": 0, "X": 0}
    by_label = {}
    viol = {}
    diffs = []
    for r in results:
        if r["err"]:
            ctx.diff("correspondence run failed", r["err"])
            continue
        total += r["n"]
        acc_evals += r["acc"]
        ndiff += r["ndiff"]
        nviol += r["nviol"]
        by_label[r["label"]] = by_label.get(r["label"], 0) + r["n"]
        for c in cls:
            cls[c] += r["cls"][c]
        diffs += r["diffs"]
        for key, cand in r["viol"].items():
            if key not in viol or cand < viol[key]:
                viol[key] = cand
    for (what, a, b) in sorted(diffs)[:20]:
        ctx.diff("model and implementation disagree", what, impl=a, model=b)
    if ndiff > len(diffs[:20]):
        ctx.note("%d model/implementation differences in total" % ndiff)
    for (k, why), (ln, inp, w, m, a, b, exp) in sorted(viol.items()):
        ctx.violation("%s %s: %r" % (RULE_NAME[k], why, inp.decode("latin-1")),
                      "%s (T=%d-bit, Maximum=%s) on input %r %s: the documented syntax/arithmetic gives %s, the implementation printed '%s' (model: '%s')" % (
                          RULE_NAME[k], w, m if k in KINDS_MAX or k == "ACC" else "type max", inp, why,
                          {"T": "success, %s bytes consumed, value %s", "F": "local failure, %s bytes consumed%.0s", "X": "overflow reported by exception%.0s%.0s"}[exp[0]] % (exp[1], exp[2]),
                          a, b),
                      {"kind": k, "width": w, "maximum": m, "input_hex": hexs(inp), "expected": list(exp), "impl": a, "model": b,
                       "how": "c15_impl run <file> with the line '%s %d %d %s' (rewind_mode::required, exact-size buffer)" % (k, w, m, hexs(inp))})
    if nviol:
        ctx.note("%d implementation results contradict the oracle" % nviol)

    if chk or (thorough and rep.build_ok):
        tchk.join()
        crc, cout = chk.get("res", (1, "coqchk did not run"))
        if crc != 0 or "Axioms: <none>" not in cout:
            ctx.diff("coqchk does not accept Properties_C15 without axioms", cout[-1500:])
        else:
            ctx.note("coqchk -o PegtlV.Properties_C15: accepted, Axioms: <none>")

    # sanitizer pass
    scases = sanitizer_cases(maxima)
    if not thorough:
        scases = [c for i, c in enumerate(scases) if c[1] in (8, 32) or i % 3 == 0]
    sdone, sreports = run_sanitizer(ctx, san, scases, workdir)
    try:
        os.rmdir(workdir)
    except OSError:
        pass

    uri_stage(ctx)
    vlib.bad_done_stage(ctx, "c15_buf.cpp", "c15_buf", "numeral delivered in pieces differs from memory_input", "buf")
    ctx.trusted_base = vlib.default_trusted_base() + [
        "C15: hand-written driver/c15_driver.ml and harness/c15_impl.cpp (instantiates the real rules/actions; checked memory_input subclass; ASan+UBSan second build)",
        "C15: the Python oracle in checks/C15.py (regular expression for the documented numeral syntax + int arithmetic)",
    ]
    ctx.assumptions = [
        "theorems are about the Gallina model Integer.v (w-bit patterns with explicit mod 2^w); the tie to contrib/integer.hpp is the line-by-line correspondence on the explored cases",
        "documented syntax = the published grammar rules unsigned_rule_new/signed_rule_new and the changelog sentence 'no redundant leading zeros' (the reference documentation has no further text)",
        "platform: signed 8-bit char, two's complement conversions (implementation-defined before C++20); digit counts below 2^32 (the `unsigned b` counter of the nothrow loop)",
    ]
    ctx.cover(evaluations=total + acc_evals, distinct=cls["T"] + cls["X"], validated=total + acc_evals,
              rule="cases = (rule kind, target width, Maximum) x input; 8-bit targets: every digit string of 1..4 digits x signs {none,+,-} x trailing {end,x,0,5,+}"
                   + ("; 16-bit targets: every digit string of 1..6 digits x signs x trailing, every Maximum x every digit string of 1..5 digits" if thorough else "; 16-bit: every digit string of 1..3 digits")
                   + "; 32/64-bit: seeded random numerals (log-uniform length)"
                   + "; all widths: +-3 neighbourhoods of every power of ten, type limit, multiples of 2^w, Maximum, Maximum/10, 10*Maximum x signs x trailing + leading-zero forms + malformed inputs; accumulate_digit<uint8_t,M> for all (M,r,c); non-trivial = cases where the oracle says success-with-numeral or overflow (the boundary lists overlap the exhaustive sets for 8/16 bit, so a few percent are counted twice)",
              samples=["UA 8 0 '255' -> T 3:1:4 255", "UA 8 0 '256' -> X:unsigned 0:1:1", "MR 8 255 '256' -> F 0:1:1",
                       "SWA 8 0 '-128x' -> T 4:1:5 -128", "SWA 64 0 '-9223372036854775809' -> X:signed", "U0 8 0 '01' -> F 0:1:1"],
              exhaustive=True, by_group=by_label, oracle_classes=cls, sanitizer_cases=sdone, sanitizer_reports=sreports,
              maxima=len(maxima))


def uri_stage(ctx):
    """uri side of C15 (uri.hpp is one of the property's anchors): uri::dec_octet is the shipped use of the bounded
    rule maximum_rule< std::uint8_t >; it must accept exactly the numerals 0..255 without superfluous leading zero,
    consuming the whole digit run, and fail locally (nothing consumed) otherwise; IPv4address = four of them."""
    exe = vlib.build_cpp([os.path.join(vlib.VERIF, "harness", "c15_uri_impl.cpp")], "c15_uri_impl", flags=["-O1"])
    rc, out = vlib.sh([exe], timeout=900)
    if rc != 0:
        ctx.diff("c15_uri_impl failed to run", out[-1500:])
        return 0

    def octet(s):
        """(ok, consumed) of the documented bounded rule on s"""
        k = 0
        while k < len(s) and s[k].isdigit():
            k += 1
        d = s[:k]
        if not d or (len(d) > 1 and d[0] == "0") or int(d) > 255:
            return False, 0
        return True, k

    def ipv4(s):
        pos = 0
        for i in range(4):
            ok, k = octet(s[pos:])
            if not ok:
                return False, 0
            pos += k
            if i < 3:
                if pos >= len(s) or s[pos] != ".":
                    return False, 0
                pos += 1
        return True, pos
    n = 0
    bad = 0
    for line in out.split("\n"):
        t = line.split()
        if len(t) != 4:
            continue
        n += 1
        rule, hx, res, cons = t
        s = bytes.fromhex(hx).decode("latin-1") if hx != "-" else ""
        if rule == "dec_octet":
            ok, k = octet(s)
        elif rule == "IPv4address":
            ok, k = ipv4(s)
        else:
            ok, k = ipv4(s)
            if ok and k != len(s):
                ok, k = False, 0
        exp = ("1" if ok else "0", str(k))
        if (res, cons) != exp:
            bad += 1
            if bad <= 3:
                ctx.violation("uri::%s on %r: expected %s consumed %s" % (rule, s if len(s) < 6 else s[:12], exp[0], exp[1]),
                              "uri::%s on %r gives result %s consumed %s; the bounded rule (numerals 0..255, no superfluous leading zero, whole digit run) gives %s consumed %s" % (rule, s, res, cons, exp[0], exp[1]),
                              {"stage": "uri", "rule": rule, "input_hex": hx, "impl": [res, cons], "expected": list(exp)})
    ctx.cover(evaluations=n, distinct=n // 4, validated=0, uri_stage_cases=n, uri_stage_mismatches=bad)
    return n


def replay(j):
    """bin/check --replay <file>: run the stored case on the current tree and re-evaluate the oracle."""
    r = j["replay"]
    if r.get("mode") == "buf":
        return vlib.replay_bad_done("C15", "c15_buf.cpp", "c15_buf", "numeral delivered in pieces differs from memory_input", "buf")
    if r.get("stage") == "uri":
        class _C:
            def __init__(self):
                self.v = []
            def violation(self, sig, what, rp):
                self.v.append(what)
            def diff(self, *a, **k):
                self.v.append(str(a))
            def cover(self, **k):
                pass
        c = _C()
        uri_stage(c)
        for w in c.v:
            print("REPLAY:", w)
        print("VIOLATION property=C15 replay=(replayed)" if c.v else "no violation on the current tree")
        return 1 if c.v else 0
    src = os.path.join(vlib.VERIF, "harness", "c15_impl.cpp")
    if "kind" not in r:
        print("replay file carries no single case")
        return 2
    k, w, m, hx = r["kind"], r["width"], r["maximum"], r["input_hex"]
    inp = bytes.fromhex(hx) if hx != "-" else b""
    workdir = os.path.join(vlib.BUILD, "c15-replay-%d" % os.getpid())
    os.makedirs(workdir, exist_ok=True)
    path = os.path.join(workdir, "case.txt")
    with open(path, "w") as fh:
        fh.write("ACC %d\n" % m if k == "ACC" else "%s %d %d %s\n" % (k, w, m, hx))
    bad = False
    if "sanitizer_output" in r:
        san = vlib.build_cpp([src], "c15_impl_san",
                             flags=["-O1", "-g0", "-DC15_SANITIZE", "-fsanitize=address,undefined", "-fno-sanitize-recover=all"])
        rc, out = vlib.sh([san, "run", path], timeout=600)
        print(out.strip()[:2000])
        bad = rc != 0 or "runtime error" in out or "AddressSanitizer" in out
    else:
        impl = vlib.build_cpp([src], "c15_impl", flags=["-O1"])
        rc, out = vlib.sh([impl, "run", path], timeout=600)
        line = out.split("\n")[0]
        if k == "ACC":
            bad = line != oracle_acc(m)
            print("accumulate_digit<uint8_t,%d> table %s exact arithmetic" % (m, "differs from" if bad else "equals"))
        else:
            exp = oracle(k, w, m, inp)
            why = judge(exp, line)
            print("%s<%d,%d> on %r: implementation '%s', oracle %s -> %s" % (RULE_NAME[k], w, m, inp, line, exp, why or "agrees"))
            bad = why is not None
    os.unlink(path)
    os.rmdir(workdir)
    print("VIOLATION property=C15 replay=(replayed)" if bad else "no violation on the current tree")
    return 1 if bad else 0
