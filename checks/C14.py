# C14 - the shipped JSON grammar  tao::pegtl::json::text  followed by end of input succeeds on a
# byte string iff that string is a well-formed UTF-8 encoded JSON text according to RFC 8259,
# and never throws.
#
#   tie             gen/Json_gen.v is regenerated from contrib/json.hpp by the compiler-side dump on
#                   every run (an untranslatable rule = broken tie -> ctx.diff)
#   proofs          coq/Properties_C14.v  (spec Rfc8259.v, model JsonModel.v on gen/Json_gen.v)
#   correspondence  harness/c14_impl.cpp (the REAL parse< seq< json::text, eof > > on an exact-size
#                   heap buffer) vs driver/c14_driver.ml column model= (extracted Engine.run on the
#                   generated table), line by line                                  -> ctx.diff
#   oracle          driver/c14_driver.ml column oracle= : the extracted SPECIFICATION recogniser
#                   Rfc8259.rfc8259_b (independent of the PEGTL sources and of the engine model);
#                   implementation true/false must equal it and the implementation must never
#                   throw                                                           -> ctx.violation
#
# Work is cut into tasks (<= ~300k cases); every task is run by a forked worker that generates its
# cases, writes one case file, runs both programs on it (compact output mode -c: one character per
# case and column) and compares the three columns, so the Python side scales with the cores as
# well.  Results are merged in task order: deterministic.  thorough additionally runs the harness
# under ASan+UBSan (exact-size buffers) on the short exhaustive strings and all list families.
import itertools
import multiprocessing
import os
import random
import re
import tempfile
from collections import Counter
from concurrent.futures import ProcessPoolExecutor

import vlib
import gentables

GEN_BODY = '  root< seq< json::text, eof > >( "root" );\n  root< json::text >( "text" );\n  root< json::value >( "value" );'
GEN_INCLUDES = ["tao/pegtl.hpp", "tao/pegtl/contrib/json.hpp"]
SAN_FLAGS = ["-O1", "-g", "-fsanitize=address,undefined", "-fno-sanitize-recover=all"]

# ----------------------------------------------------------------------------- alphabets
# every symbol is a byte string; multi-byte UTF-8 pieces are single symbols
FULL = [b"{", b"}", b"[", b"]", b":", b",", b'"', b"\\", b"/", b" ", b"\n", b"0", b"1", b"9", b"-", b"+", b".", b"e", b"E",
        b"a", b"b", b"f", b"n", b"r", b"t", b"u", b"l", b"s", b"\x1f", b"\x7f",
        b"\xc3\xa9",            # U+00E9
        b"\xe2\x82\xac",        # U+20AC
        b"\xf0\x9f\x98\x80",    # U+1F600
        b"\xed\xa0\x80",        # U+D800 encoded: a surrogate, not UTF-8
        b"\xf4\x90\x80\x80",    # 0x110000: beyond U+10FFFF
        b"\xc1\xbf",            # overlong form of U+007F (an overlong form whose value would be an allowed character)
        b"\x80",                # lone continuation byte
        b"\xc3",                # lone lead byte
        b"\xff"]
# one representative per class of the grammar (ws, the six structural characters, quote, escape,
# solidus, zero, non-zero digit, minus, plus, point, e (exponent + hex digit + inside literals), u,
# n/l (escape letter, literal null), control character, valid multi-byte, invalid UTF-8)
REDUCED = [b"{", b"}", b"[", b"]", b":", b",", b'"', b"\\", b"/", b" ", b"0", b"1", b"-", b"+", b".", b"e", b"u", b"n", b"l",
           b"\x1f", b"\xc3\xa9", b"\x80"]
# reduced + what is needed to spell false / true and one more representative of several classes
MID = REDUCED + [b"\n", b"E", b"a", b"f", b"s", b"t", b"r", b"\xf0\x9f\x98\x80", b"\xed\xa0\x80", b"\xc1\xbf"]
ALPHABETS = {"full": FULL, "reduced": REDUCED, "mid": MID}
# bytes used for the single-byte mutations of generated documents
MUT = sorted(set(b'{}[]:,"\\/ \t\n\r0159-+.eEabfnrtulsxAF') | {0x00, 0x1F, 0x7F, 0x80, 0xBF, 0xC0, 0xC3, 0xE2, 0xED, 0xF0, 0xF4, 0xFF})

MAX_TASK = 300000
MAX_MISM = 40          # mismatches kept per kind and task
MAX_DIFFS = 20         # recorded correspondence diffs


def hx(bs):
    return bs.hex() if len(bs) else "-"


def unhex(h):
    return b"" if h == "-" else bytes.fromhex(h)


def show(bs):
    return repr(bytes(bs))[2:-1]


# ----------------------------------------------------------------------------- document generator
class DocGen:
    """seeded generator of RFC 8259 texts following the ABNF production by production"""
    WS = [b" ", b"\t", b"\n", b"\r"]
    NUMBERS = [b"0", b"-0", b"10", b"1.5", b"1e5", b"1E+5", b"1.25e-3", b"-12.0E0", b"0.0", b"0e0", b"-0.0e-0", b"9", b"1234567890",
               b"0E+00", b"1e-1", b"2E9", b"-1", b"100", b"0.000", b"1.0e+10"]
    RAW = [b"\xc3\xa9", b"\xe2\x82\xac", b"\xf0\x9f\x98\x80", b"\xf4\x8f\xbf\xbf", b"\xc2\x80", b"\xdf\xbf", b"\xe0\xa0\x80", b"\xef\xbf\xbf",
           b"\xed\x9f\xbf", b"\xee\x80\x80", b"\xf0\x90\x80\x80", b"\xef\xbb\xbf"]
    PLAIN = b"abcxyzABCXYZ0159 !#$%&'()*+,-./:;<=>?@[]^_`{|}~"

    def __init__(self, rnd, wsp):
        self.r = rnd
        self.wsp = wsp
        self.feat = Counter()
        self.maxdepth = 0

    def t(self, f):
        self.feat[f] += 1

    def ws(self):
        if self.r.random() >= self.wsp:
            return b""
        n = self.r.choice([1, 1, 1, 2, 3])
        out = b""
        for _ in range(n):
            w = self.r.choice(self.WS)
            self.t("ws:%02x" % w[0])
            out += w
        return out

    def digits(self, lo, hi):
        return bytes(self.r.choice(b"0123456789") for _ in range(self.r.randint(lo, hi)))

    def number(self):
        if self.r.random() < 0.45:
            self.t("number:pool")
            return self.r.choice(self.NUMBERS)
        out = b""
        if self.r.random() < 0.4:
            out += b"-"
            self.t("number:minus")
        if self.r.random() < 0.35:
            out += b"0"
            self.t("number:zero")
        else:
            out += bytes([self.r.choice(b"123456789")]) + self.digits(0, 3)
            self.t("number:int")
        if self.r.random() < 0.4:
            out += b"." + self.digits(1, 3)
            self.t("number:frac")
        if self.r.random() < 0.4:
            e = self.r.choice([b"e", b"E"])
            s = self.r.choice([b"", b"+", b"-"])
            self.t("number:exp:" + (e + s).decode())
            out += e + s + self.digits(1, 2)
        return out

    def hex4(self):
        style = self.r.choice(["lower", "upper", "mixed"])
        self.t("string:\\u:" + style)
        ds = {"lower": b"0123456789abcdef", "upper": b"0123456789ABCDEF", "mixed": b"0123456789abcdefABCDEF"}[style]
        return bytes(self.r.choice(ds) for _ in range(4))

    def char(self):
        k = self.r.random()
        if k < 0.30:
            self.t("string:plain")
            return bytes([self.r.choice(self.PLAIN)])
        if k < 0.36:
            self.t("string:0x7f")
            return b"\x7f"
        if k < 0.58:
            c = self.r.choice(b'"\\/bfnrt')
            self.t("string:\\" + chr(c))
            return b"\\" + bytes([c])
        if k < 0.68:
            return b"\\u" + self.hex4()
        if k < 0.74:
            self.t("string:surrogate-pair-escape")
            return self.r.choice([b"\\uD83D\\uDE00", b"\\ud83d\\ude00", b"\\uD800\\uDC00", b"\\udbff\\udfff"])
        if k < 0.82:
            self.t("string:lone-surrogate-escape")
            return self.r.choice([b"\\uD800", b"\\udfff", b"\\uDBFF", b"\\udc00"])
        c = self.r.choice(self.RAW)
        self.t("string:raw-utf8-%d-byte" % len(c))
        return c

    def string(self, what="string"):
        n = self.r.choice([0, 1, 1, 2, 2, 3, 4, 6])
        self.t(what + (":empty" if n == 0 else ""))
        return b'"' + b"".join(self.char() for _ in range(n)) + b'"'

    def value(self, depth, level):
        self.maxdepth = max(self.maxdepth, level)
        k = self.r.random()
        if depth > 0 and k < 0.62:
            return self.array(depth, level) if self.r.random() < 0.5 else self.object(depth, level)
        k = self.r.random()
        if k < 0.12:
            self.t("literal:false")
            return b"false"
        if k < 0.24:
            self.t("literal:null")
            return b"null"
        if k < 0.36:
            self.t("literal:true")
            return b"true"
        if k < 0.68:
            return self.number()
        return self.string()

    def count(self, depth):
        return self.r.choice([0, 1, 1, 2, 3] if depth <= 2 else [1, 1, 1, 2])

    def array(self, depth, level):
        n = self.count(depth)
        self.t("array:%s" % ("empty" if n == 0 else "1" if n == 1 else "n"))
        out = b"[" + self.ws()
        for i in range(n):
            if i:
                out += b"," + self.ws()
            out += self.value(depth - 1, level + 1) + self.ws()
        return out + b"]"

    def object(self, depth, level):
        n = self.count(depth)
        self.t("object:%s" % ("empty" if n == 0 else "1" if n == 1 else "n"))
        out = b"{" + self.ws()
        for i in range(n):
            if i:
                out += b"," + self.ws()
            out += self.string("key") + self.ws() + b":" + self.ws() + self.value(depth - 1, level + 1) + self.ws()
        return out + b"}"

    def text(self, depth):
        self.maxdepth = 0
        d = self.ws() + self.value(depth, 0) + self.ws()
        self.t("depth:%d" % self.maxdepth)
        return d


def gen_documents(seed, nsmall, nlarge, small_max=48, large_max=600):
    """-> (small docs (every single-byte mutation is run), larger docs (sampled mutations), feature counts)"""
    rnd = random.Random(seed * 1000003 + 14)
    small, large = [], []
    feats = Counter()
    seen = set()
    guard = 0
    while (len(small) < nsmall or len(large) < nlarge) and guard < 200000:
        guard += 1
        g = DocGen(rnd, rnd.choice([0.0, 0.15, 0.4, 0.9]))
        d = g.text(rnd.randint(0, 6))
        if d in seen:
            continue
        if len(d) <= small_max and len(small) < nsmall and len(d) >= 2:
            small.append(d)
        elif small_max < len(d) <= large_max and len(large) < nlarge:
            large.append(d)
        else:
            continue
        seen.add(d)
        feats.update(g.feat)
    return small, large, feats


def mutations(d):
    """every single-byte deletion, replacement and insertion (MUT alphabet)"""
    out = []
    n = len(d)
    for i in range(n):
        out.append(d[:i] + d[i + 1:])
    for i in range(n):
        for b in MUT:
            if b != d[i]:
                out.append(d[:i] + bytes([b]) + d[i + 1:])
    for i in range(n + 1):
        for b in MUT:
            out.append(d[:i] + bytes([b]) + d[i:])
    return out


def sampled_mutations(d, rnd, k):
    out = []
    n = len(d)
    for _ in range(k):
        i = rnd.randrange(n)
        op = rnd.randrange(3)
        b = bytes([rnd.choice(MUT)])
        out.append(d[:i] + d[i + 1:] if op == 0 else d[:i] + b + d[i + 1:] if op == 1 else d[:i] + b + d[i:])
    return out


# ----------------------------------------------------------------------------- hand-written cases
def handwritten():
    c = []
    A = c.append
    for s in ["01", "-01", "00", "-00", "1.", ".5", "1e", "1e+", "1e-", "-", "+1", "0x10", "1E5", "1e5", "1E+5", "1e+5", "1E-5", "-0", "0", "-0.0", "1.5e", "1.e5",
              "1e5.5", "1ee5", "1e+-5", "--1", "-+1", "0.", "0.e1", "0e", "0e1", "00.5", "1 2", "12", "1,2", "123456789012345678901234567890",
              "1e999999", "-1.0e-999999", "0.00000000000000000000000001", "1" + "0" * 400, "1." + "9" * 400 + "e" + "7" * 100, "NaN", "Infinity", "-Infinity", "1f", "0b1", "1_000",
              "", " ", "\t", "\n", "\r", " \t\n\r", "\x0b", "\x0c", " \x0b1", "1\x0c",
              "nul", "null", "nulll", "Null", "NULL", "truee", "True", "true", "tru", "fals", "false", "falsee", "False", "t", "f", "n", "null null", "nullnull", "truefalse",
              "[1,]", "[,1]", "[,]", "[1,,2]", "[1 2]", "[1:2]", "[", "]", "[]", "[ ]", "[]]", "[[]", "[1", "[1,", "[1,2", "1]", "[\"a\" \"b\"]", "[\"a\",\"b\"]", "[null,true,false]",
              "{\"a\":1,}", "{\"a\"}", "{1:2}", "{\"a\":}", "{\"a\" 1}", "{\"a\":1 \"b\":2}", "{\"a\":1,\"b\":2}", "{\"a\":1,,\"b\":2}", "{,}", "{", "}", "{}", "{ }", "{}}", "{{}",
              "{\"a\":1", "{\"a\":", "{\"a\"", "{\"a", "{\"", "{:1}", "{null:1}", "{\"a\":1}}", "{\"a\"::1}", "{\"a\":1:2}", "{\"a\":{\"a\":{\"a\":[]}}}", "{\"\":\"\"}", "{\"a\":1,\"a\":2}",
              "{'a':1}", "['a']", "'a'", "{a:1}", "[1]x", "[1] x", "[1]\x00", "{} {}", "[] []", "\"a\" \"b\"", "\"a\"x", "x\"a\"", "1 ,", "[1],", "//c\n1", "/*c*/1", "1//c", "#1",
              "\"", "\"a", "\"a\\", "\"a\\\"", "\"\\", "\"\"", "\"\"\"", "\"a\"", "\"\\u12\"", "\"\\u123G\"", "\"\\u123\"", "\"\\u1234\"", "\"\\u12345\"", "\"\\U1234\"", "\"\\u\"", "\"\\u",
              "\"\\u1", "\"\\u12", "\"\\u123", "\"\\u1234", "\"\\x41\"", "\"\\'\"", "\"\\a\"", "\"\\v\"", "\"\\0\"", "\"\\e\"", "\"\\ \"", "\"\\\n\"", "\"\\b\\f\\n\\r\\t\\/\\\\\\\"\"",
              "\"\\uD83D\\uDE00\"", "\"\\uD800\"", "\"\\uDFFF\"", "\"\\uDC00\\uD800\"", "\"\\ud800\\u\"", "\"\\ud800\\u12\"", "\"\\ud800\\n\"", "\"\\ud800\\\"", "\"\\ud800\\\\\"",
              "\"\\uABCD\\uabcd\\uAbCd\"", "\"\\u00e9\\u0000\\uFFFF\"", "\"\\u000g\"", "\"\\ug000\"", "\"\\u-123\"", "\"\\u+123\"", "\"\\u 123\"", "\"\\\\u1234\"", "\"/\"", "\"\\/\"",
              "\"a\nb\"", "\"a\tb\"", "\"a\rb\"", "\"\x7f\"", "\"\x00\"", "\"\x1f\"", "\"\x20\"", "\"\\u0000\""]:
        A(s.encode("latin1"))
    # BOM (not part of the RFC 8259 grammar) and other non-ASCII white space look-alikes
    A(b"\xef\xbb\xbf1")
    A(b"\xef\xbb\xbf")
    A(b"\xef\xbb\xbf{}")
    A(b"1\xef\xbb\xbf")
    A(b"\"\xef\xbb\xbf\"")
    A(b"\xc2\xa01")
    A(b"\xe2\x80\xa81")
    A(b"[1\xc2\xa0]")
    # nesting
    for dep in (1, 2, 7, 50, 200):
        A(b"[" * dep + b"]" * dep)
        A(b"[" * dep + b"]" * (dep - 1))
        A(b"[" * dep + b"]" * (dep + 1))
        A(b"[" * dep + b"1" + b"]" * dep)
        A(b'{"a":' * dep + b"null" + b"}" * dep)
        A(b'{"a":' * dep + b"}" * dep)
        A(b'[{"":' * dep + b"[]" + b"}]" * dep)
    A(b"[" * 200 + b" \n" + b"]" * 200 + b"\r\n")
    # invalid UTF-8, raw, in strings (and bare): overlong forms, surrogates, beyond U+10FFFF, bad leads, truncations
    bad = [b"\xc0\x80", b"\xc1\xbf", b"\xe0\x80\x80", b"\xe0\x9f\xbf", b"\xf0\x80\x80\x80", b"\xf0\x8f\xbf\xbf", b"\xed\xa0\x80", b"\xed\xaf\xbf", b"\xed\xb0\x80", b"\xed\xbf\xbf",
           b"\xf4\x90\x80\x80", b"\xf4\xbf\xbf\xbf", b"\xf5\x80\x80\x80", b"\xf7\xbf\xbf\xbf", b"\xf8\x88\x80\x80\x80", b"\xfc\x84\x80\x80\x80\x80", b"\xfe", b"\xff", b"\x80", b"\xbf",
           b"\xc3", b"\xe2", b"\xe2\x82", b"\xf0", b"\xf0\x9f", b"\xf0\x9f\x98", b"\xc3\x28", b"\xc3\xc3\xa9", b"\xe2\x28\xac", b"\xe2\x82\x28", b"\xf0\x28\x98\x80", b"\xf0\x9f\x28\x80",
           b"\xf0\x9f\x98\x28", b"\xc3\xa9\x80", b"\xed\xa0\xbd\xed\xb8\x80"]
    good = [b"\xc2\x80", b"\xdf\xbf", b"\xe0\xa0\x80", b"\xef\xbf\xbf", b"\xed\x9f\xbf", b"\xee\x80\x80", b"\xf0\x90\x80\x80", b"\xf4\x8f\xbf\xbf", b"\xef\xbf\xbe", b"\xf0\x9f\x98\x80",
            b"\xe2\x80\xa8", b"\xe2\x80\xa9"]
    for u in bad + good:
        A(b'"' + u + b'"')          # inside a string
        A(b'"a' + u + b'b"')
        A(b'"' + u)                 # truncated at the end of the input
        A(b'"a' + u)
        A(u)                        # bare
        A(b'["' + u + b'"]')
        A(b'{"' + u + b'":"' + u + b'"}')
        A(b'"\\' + u + b'"')
    # every single byte alone, inside a string, after an escape, and around a value
    for b in range(256):
        x = bytes([b])
        A(x)
        A(b'"' + x + b'"')
        A(b'"\\' + x + b'"')
        A(x + b"1")
        A(b"1" + x)
        A(b"[" + x + b"]")
        A(b"[1" + x + b"2]")
        A(b'"\\u00' + x + b'0"')
    # every byte pair after "\u00" would be too many; every hex digit position with a few bytes
    for pos in range(4):
        for x in b"09afAFgG/:@`[ ":
            h = bytearray(b"1a2B")
            h[pos] = x
            A(b'"\\u' + bytes(h) + b'"')
    seen = set()
    out = []
    for s in c:
        if s not in seen:
            seen.add(s)
            out.append(s)
    return out


def repo_test_data():
    """(name, bytes) of every *.json under the tree's src/test/pegtl/data"""
    for root in (os.path.join(vlib.REPO, "src", "test", "pegtl", "data"), "/repo/src/test/pegtl/data"):
        if os.path.isdir(root):
            out = []
            for f in sorted(os.listdir(root)):
                if f.endswith(".json"):
                    with open(os.path.join(root, f), "rb") as fh:
                        out.append((f, fh.read()))
            return root, out
    return None, []


# ----------------------------------------------------------------------------- worker
# both programs are run in their compact mode (-c): one character per case and column
O_WORD = {"1": "1", "0": "0"}
M_WORD = {"t": "true", "f": "false", "x": "throw", "e": "error", "o": "oof", "s": "skip"}
I_WORD = {"t": "true", "f": "false", "p": "parse_error", "s": "std_exception", "o": "other_exception"}
IMPL2MODEL = {"true": "true", "false": "false", "parse_error": "throw"}
LINE_RE = re.compile(r"^ oracle=[01] model=(true|false|throw|error|oof|skip) impl=(true|false|parse_error|std_exception|other_exception)$")


def judge3(o, m, i):
    """words -> (oracle-kind or None, model-diff?)"""
    kind = None
    if i == "true":
        if o != "1":
            kind = "accepts"
    elif i == "false":
        if o != "0":
            kind = "rejects"
    else:
        kind = "throws"
    mdiff = (m != "skip") and IMPL2MODEL.get(i) != m
    return kind, mdiff


def judge(key):
    """key = ' oracle=O model=M impl=I' (line format, used by replay) -> (kind, model-diff?, o, m, i)"""
    t = key.split()
    o, m, i = t[0][7:], t[1][6:], t[2][5:]
    return judge3(o, m, i) + (o, m, i)


def build_cases(task):
    """-> (hexes, skipflags or None)"""
    if task["type"] == "product":
        A = [s.hex() for s in ALPHABETS[task["alphabet"]]]
        pre = "".join(A[i] for i in task["prefix"])
        k = task["n"] - len(task["prefix"])
        if task["n"] == 0:
            hexes = ["-"]
        else:
            hexes = [pre + "".join(t) for t in itertools.product(A, repeat=k)]
        rate = task["model_rate"]
        if rate >= 1.0:
            return hexes, None
        if rate <= 0.0:
            return hexes, [True] * len(hexes)
        rnd = random.Random(task["seed"])
        rr = rnd.random
        return hexes, [rr() >= rate for _ in hexes]
    return task["hexes"], task.get("skip")


def work(task):
    """run one task: generate, run impl + driver, compare.  Returns a summary dict."""
    hexes, skip = build_cases(task)
    res = {"id": task["id"], "family": task["family"], "n": len(hexes), "keys": Counter(), "bylen": Counter(), "mism": {}, "mism_count": Counter(),
           "diffs": [], "ndiffs": 0, "validated": 0, "errors": [], "accepted": [], "lines": None}
    path = os.path.join(task["workdir"], "t%05d.cases" % task["id"])
    with open(path, "w") as fh:
        if skip is None:
            fh.write("\n".join(hexes))
        else:
            fh.write("\n".join([("!" + h) if s else h for h, s in zip(hexes, skip)]))
        fh.write("\n")
    rc_i, out_i = vlib.sh([task["impl"], "-c", path], timeout=3000)
    rc_d, out_d = vlib.sh([task["driver"], "-c", path], timeout=3000)
    os.unlink(path)
    if rc_i != 0:
        res["errors"].append("c14_impl exited with %d on task %s: %s" % (rc_i, task["label"], out_i[-400:]))
    if rc_d != 0:
        res["errors"].append("c14_driver exited with %d on task %s: %s" % (rc_d, task["label"], out_d[-400:]))
    I = out_i.split("\n")[0]
    dparts = out_d.split("\n")
    O = dparts[0]
    M = dparts[1] if len(dparts) > 1 else ""
    if len(I) != len(hexes) or len(O) != len(hexes) or len(M) != len(hexes):
        res["errors"].append("task %s: %d cases, %d implementation answers, %d oracle answers, %d model answers" % (task["label"], len(hexes), len(I), len(O), len(M)))
        return res
    keys = Counter(zip(O, M, I))
    res["bylen"] = Counter(map(len, hexes))     # hex digits; converted to bytes by the caller ('-' has length 1 -> 0 bytes)
    verdict = {}
    need_pass = False
    for k, cnt in keys.items():
        o, m, i = O_WORD.get(k[0]), M_WORD.get(k[1]), I_WORD.get(k[2])
        if o is None or m is None or i is None:
            res["errors"].append("task %s: unexpected answer characters oracle='%s' model='%s' impl='%s' (%d times)" % (task["label"], k[0], k[1], k[2], cnt))
            continue
        kind, mdiff = judge3(o, m, i)
        verdict[k] = (kind, mdiff, o, m, i)
        res["keys"]["oracle=%s model=%s impl=%s" % (o, m, i)] += cnt
        if kind or mdiff:
            need_pass = True
        if m != "skip" and not mdiff:
            res["validated"] += cnt
    want_accepted = task.get("want_accepted", 0)
    want_lines = task.get("want_lines", False)
    if need_pass or want_accepted or want_lines:
        mism = {}
        lines = []
        for h, k in zip(hexes, zip(O, M, I)):
            v = verdict.get(k)
            if v is None:
                continue
            if want_lines:
                lines.append((v[2], v[3], v[4]))
            if want_accepted and v[2] == "1" and len(res["accepted"]) < want_accepted:
                res["accepted"].append(h)
            if v[0]:
                res["mism_count"][v[0]] += 1
                lst = mism.setdefault(v[0], [])
                lst.append((0 if h == "-" else len(h) // 2, h, v[2], v[3], v[4]))
                if len(lst) > 4 * MAX_MISM:
                    lst.sort()
                    del lst[MAX_MISM:]
            if v[1]:
                res["ndiffs"] += 1
                if len(res["diffs"]) < MAX_DIFFS:
                    res["diffs"].append((h, v[4], v[3], v[2]))
        for kd, lst in mism.items():
            lst.sort()
            res["mism"][kd] = lst[:MAX_MISM]
        if want_lines:
            res["lines"] = lines
    return res


# ----------------------------------------------------------------------------- task construction
def product_tasks(alphabet, n, model_rate, seed, family):
    size = len(ALPHABETS[alphabet])
    p = 0
    while size ** (n - p) > MAX_TASK and p < n:
        p += 1
    tasks = []
    for pi, pre in enumerate(itertools.product(range(size), repeat=p)):
        tasks.append({"type": "product", "alphabet": alphabet, "n": n, "prefix": list(pre), "model_rate": model_rate,
                      "seed": seed * 7919 + n * 1000003 + pi * 31 + size, "family": family,
                      "label": "%s alphabet, length %d symbols, prefix %s" % (alphabet, n, list(pre))})
    return tasks


def list_tasks(family, cases, skip=None, chunk=20000, **kw):
    tasks = []
    for i in range(0, len(cases), chunk):
        t = {"type": "list", "family": family, "hexes": [hx(c) for c in cases[i:i + chunk]], "label": "%s[%d:%d]" % (family, i, i + chunk)}
        if skip is not None:
            t["skip"] = skip[i:i + chunk]
        t.update(kw)
        tasks.append(t)
    return tasks


def plan(tier, seed):
    """-> (tasks, info)"""
    thorough = tier == "thorough"
    tasks = []
    info = {"families": {}, "exhaustive_spaces": []}
    # --- exhaustive short strings
    lf = 4
    for n in range(0, lf + 1):
        tasks += product_tasks("full", n, 1.0, seed, "exhaustive:full<=%d" % lf)
    info["exhaustive_spaces"].append("all strings of 0..%d symbols over the %d-symbol full alphabet (model column: all)" % (lf, len(FULL)))
    r5q = 0.5 if thorough else 0.2
    tasks += product_tasks("reduced", 5, r5q, seed, "exhaustive:reduced=5")
    info["exhaustive_spaces"].append("all strings of 5 symbols over the %d-symbol reduced alphabet (model column: %s)" % (len(REDUCED), "seeded %.0f%% sample" % (100 * r5q)))
    if thorough:
        r5, r6 = 0.03, 0.03
        tasks += product_tasks("mid", 5, r5, seed, "exhaustive:mid=5")
        info["exhaustive_spaces"].append("all strings of 5 symbols over the %d-symbol middle alphabet (model column: seeded %.0f%% sample)" % (len(MID), 100 * r5))
        tasks += product_tasks("reduced", 6, r6, seed, "exhaustive:reduced=6")
        info["exhaustive_spaces"].append("all strings of 6 symbols over the reduced alphabet (model column: seeded %.0f%% sample)" % (100 * r6))
    # --- generated documents and their mutations
    nsmall, nlarge, nsamp = (400, 1000, 40) if thorough else (100, 300, 40)
    small, large, feats = gen_documents(seed, nsmall, nlarge)
    info["doc_features"] = dict(sorted(feats.items()))
    info["docs_small"] = len(small)
    info["docs_large"] = len(large)
    tasks += list_tasks("generated:documents", small + large, chunk=400, want_lines=True)
    seen = set(small) | set(large)
    muts = []
    for d in small:
        for m in mutations(d):
            if m not in seen:
                seen.add(m)
                muts.append(m)
    tasks += list_tasks("generated:all-single-byte-mutations", muts, chunk=15000)
    rnd = random.Random(seed * 31337 + 5)
    smuts = []
    for d in large:
        for m in sampled_mutations(d, rnd, nsamp):
            if m not in seen:
                seen.add(m)
                smuts.append(m)
    tasks += list_tasks("generated:sampled-mutations", smuts, chunk=6000)
    info["n_docs"] = len(small) + len(large)
    # --- hand-written
    hw = handwritten()
    tasks += list_tasks("handwritten", hw, chunk=800)
    deep = [b"[" * 1000 + b"]" * 1000, b"[" * 1000 + b"]" * 999, b'{"k":' * 600 + b"0" + b"}" * 600, b"[" * 3000, b" " * 5000 + b"1" + b"\n" * 5000,
            b'"' + b"a\\n" * 3000 + b'"', b"[" + b"1," * 4000 + b"1]", b"[" + b"1," * 4000 + b"]"]
    tasks += list_tasks("handwritten:long", deep, skip=[True] * len(deep), chunk=100)
    # --- repo test data
    root, files = repo_test_data()
    info["test_data_root"] = root
    info["test_data_files"] = [f for f, _ in files]
    if files:
        tasks += list_tasks("repo-test-data", [b for _, b in files], skip=[len(b) > 4096 for _, b in files], chunk=100, want_lines=True)
    for i, t in enumerate(tasks):
        t["id"] = i
    return tasks, info, files, small, large


# ----------------------------------------------------------------------------- sanitizer pass
def sanitizer_pass(ctx, workdir, cases, plain):
    """thorough: the same harness under ASan+UBSan on exact-size buffers.  cases: list of hex; plain: dict hex -> impl verdict"""
    try:
        san = vlib.build_cpp([os.path.join(vlib.VERIF, "harness", "c14_impl.cpp")], "c14_impl_san", flags=SAN_FLAGS)
    except vlib.BuildError as e:
        ctx.note("sanitizer build unavailable: " + str(e)[-300:])
        return 0
    nchunks = max(1, min(vlib.JOBS * 2, len(cases) // 2000 + 1))
    size = (len(cases) + nchunks - 1) // nchunks
    parts = [cases[i:i + size] for i in range(0, len(cases), size)]
    paths = []
    for i, p in enumerate(parts):
        path = os.path.join(workdir, "san%03d.cases" % i)
        with open(path, "w") as fh:
            fh.write("\n".join(p) + "\n")
        paths.append(path)

    def one(path):
        return vlib.sh(["env", "ASAN_OPTIONS=detect_leaks=0:allocator_may_return_null=1", "UBSAN_OPTIONS=print_stacktrace=0", san, "-f", path], timeout=3000)

    from concurrent.futures import ThreadPoolExecutor
    with ThreadPoolExecutor(max_workers=vlib.JOBS) as ex:
        outs = list(ex.map(one, paths))
    done = 0
    reports = 0
    culprits = []
    for (rc, out), part in zip(outs, parts):
        lines = [l for l in out.split("\n") if " impl=" in l and not l.startswith(" ")]
        ok_lines = lines[:len(part)]
        done += len(ok_lines)
        for l, h in zip(ok_lines, part):
            t = l.split(" impl=")
            if t[0] != h or plain.get(h) != t[1]:
                ctx.diff("sanitizer build and plain build of c14_impl disagree", h, impl=plain.get(h), model=l[-80:])
                break
        if rc != 0:
            reports += 1
            culprit = part[len(ok_lines)] if len(ok_lines) < len(part) else None
            m = re.search(r"ERROR: AddressSanitizer: [^\n]*|runtime error: [^\n]*|ERROR: [A-Za-z]*Sanitizer: [^\n]*", out)
            rep = re.sub(r" on address.*| 0x[0-9a-f]+.*", "", m.group(0)) if m else "abnormal termination rc=%d" % rc
            if culprit is None:
                ctx.diff("sanitizer build of c14_impl ended abnormally after its last case", out[-600:])
                continue
            culprits.append((len(unhex(culprit)), unhex(culprit), culprit, rep, out[-1500:]))
    if culprits:
        # every aborted chunk names its first failing input; report the smallest one
        culprits.sort(key=lambda c: (c[0], c[1]))
        n, b, culprit, rep, tail = culprits[0]
        ctx.violation("json::text sanitizer report on exact-size input '%s'" % show(b)[:80],
                      "AddressSanitizer/UBSan stopped parse< seq< json::text, eof > > on the %d-byte input %s (new char[%d], no terminator): %s (%d of %d chunks of the sanitizer pass were stopped)"
                      % (n, culprit, n, rep, len(culprits), len(parts)),
                      {"input_hex": culprit, "input_repr": show(b), "sanitizer": True, "report": rep, "output_tail": tail,
                       "other_inputs": [c[2] for c in culprits[1:6]],
                       "how": "build harness/c14_impl.cpp with %s against the tree; run  c14_impl -f <file containing the hex line>" % " ".join(SAN_FLAGS)})
    ctx.cover(sanitizer_inputs=done, sanitizer_reports=reports)
    return done


# ----------------------------------------------------------------------------- violations
def abstract(bs):
    """coarse byte-class abstraction used only to avoid reporting one cause several times"""
    out = bytearray()
    for b in bs:
        if b in b"0123456789":
            out.append(0x30)
        elif b in b"eE":
            out.append(0x65)
        elif b in b"abcdfABCDF":
            out.append(0x61)
        elif b in b" \t\n\r":
            out.append(0x20)
        elif b < 0x20:
            out.append(0x1F)
        elif b >= 0x80:
            out.append(0x80)
        else:
            out.append(b)
    return bytes(out)


def subsequence(a, b):
    """is a a (not necessarily contiguous) subsequence of b"""
    it = iter(b)
    return all(x in it for x in a)


SIG = {"accepts": "json::text accepts non-RFC8259 input '%s'",
       "rejects": "json::text rejects RFC8259 text '%s'",
       "throws": "json::text throws on '%s'"}
WHAT = {"accepts": "parse< seq< json::text, eof > > returns true on %s (%d bytes, hex %s) although the RFC 8259 recogniser rfc8259_b rejects it [engine model on the dumped table: %s]",
        "rejects": "parse< seq< json::text, eof > > returns false on %s (%d bytes, hex %s) although it is a well-formed RFC 8259 JSON text (rfc8259_b = true) [engine model on the dumped table: %s]",
        "throws": "parse< seq< json::text, eof > > throws (%s) on %s (%d bytes, hex %s); rfc8259_b = %s [engine model on the dumped table: %s]"}


def report_violations(ctx, mism, mism_count, per_kind=3):
    for kind in ("accepts", "rejects", "throws"):
        lst = sorted(set(mism.get(kind, [])), key=lambda t: (t[0], unhex(t[1])))
        kept = []
        for w in lst:
            a = abstract(unhex(w[1]))
            if any(subsequence(k, a) for k, _ in kept):      # a smaller witness of (very likely) the same cause is already reported
                continue
            kept.append((a, w))
            if len(kept) >= per_kind:
                break
        for _, (n, h, o, m, i) in kept:
            b = unhex(h)
            r = show(b)
            rs = r if len(r) <= 60 else r[:57] + "..."
            if kind == "throws":
                what = WHAT[kind] % (i, "'" + r[:200] + "'", n, h[:400], o, m)
            else:
                what = WHAT[kind] % ("'" + r[:200] + "'", n, h[:400], m)
            ctx.violation(SIG[kind] % rs, "%s (%d inputs of this kind in this run)" % (what, mism_count[kind]),
                          {"input_hex": h, "input_repr": r, "kind": kind, "impl": i, "oracle": o, "model": m, "occurrences": mism_count[kind],
                           "how": "build harness/c14_impl.cpp against the tree (clang++ -std=c++17 -I<tree>/include), write the hex line into a file and run  c14_impl <file>;  "
                                  "the oracle column is printed by  c14_driver --no-model <file>  (extracted Rfc8259.rfc8259_b)"})


# ----------------------------------------------------------------------------- run
def length_bucket(n):
    for hi in (0, 1, 2, 3, 4, 5, 6, 8, 12, 16, 24, 32, 48, 64, 128, 256, 1024, 4096):
        if n <= hi:
            return "<=%d" % hi
    return ">4096"


def run(ctx):
    import time
    phase = {}
    t0 = time.time()
    vlib.bad_done_stage(ctx, "c14_buf.cpp", "c14_buf", "JSON text delivered in pieces differs from memory_input", "buf")
    # (a) the tie: regenerate the table from the tree's json.hpp
    table_ok = True
    try:
        gentables.generate("json", GEN_BODY, GEN_INCLUDES)
    except vlib.BuildError as e:
        table_ok = False
        ctx.diff("gen/Json_gen.v cannot be regenerated from contrib/json.hpp (untranslatable rule or the dump program does not build): "
                 "the table the theorems talk about is not the grammar of this tree", str(e)[-1500:])
    phase["table"] = round(time.time() - t0, 1)
    # (b) proofs
    t0 = time.time()
    rep = ctx.proofs("Properties_C14")
    phase["proofs"] = round(time.time() - t0, 1)
    t0 = time.time()
    # (c) programs
    impl = vlib.build_cpp([os.path.join(vlib.VERIF, "harness", "c14_impl.cpp")], "c14_impl", flags=["-O1"])
    try:
        driver = vlib.build_ocaml("ExtractC14", "c14_driver.ml", "c14_driver")
    except RuntimeError as e:
        ctx.diff("the extracted oracle/model driver cannot be built (model files do not compile against the regenerated table)", str(e)[-1500:])
        return
    phase["build"] = round(time.time() - t0, 1)
    # (d) cases
    t0 = time.time()
    tasks, info, files, small, large = plan(ctx.tier, ctx.seed)
    phase["plan"] = round(time.time() - t0, 1)
    t0 = time.time()
    mism = {}
    mism_count = Counter()
    fam = {}
    bylen = Counter()
    ndiffs = 0
    recorded = 0
    validated = 0
    total = 0
    keys = Counter()
    doc_lines = []
    file_lines = []
    accepted_samples = []
    with tempfile.TemporaryDirectory(prefix="c14-") as wd:
        for t in tasks:
            t["workdir"] = wd
            t["impl"] = impl
            t["driver"] = driver
            if t["family"].startswith("exhaustive") and t["n"] >= 4 and len(t.get("prefix", [])) and t["prefix"][0] == 2:
                t["want_accepted"] = 2
        mp = multiprocessing.get_context("fork")
        with ProcessPoolExecutor(max_workers=vlib.JOBS, mp_context=mp) as ex:
            results = list(ex.map(work, tasks, chunksize=1))
        phase["run"] = round(time.time() - t0, 1)
        t0 = time.time()
        plain = {}
        for t, r in zip(tasks, results):
            for e in r["errors"]:
                ctx.diff("program failed or printed something unexpected", e)
            f = fam.setdefault(r["family"], {"cases": 0, "oracle_accepts": 0, "oracle_rejects": 0, "model_column": 0})
            f["cases"] += r["n"]
            total += r["n"]
            for k, c in r["keys"].items():
                keys[k] += c
                if "oracle=1 " in k:
                    f["oracle_accepts"] += c
                elif "oracle=0 " in k:
                    f["oracle_rejects"] += c
                if " model=skip" not in k:
                    f["model_column"] += c
            for hd, c in r["bylen"].items():
                bylen[hd // 2] += c
            validated += r["validated"]
            ndiffs += r["ndiffs"]
            for (h, i, m, o) in r["diffs"]:
                if recorded < MAX_DIFFS:
                    recorded += 1
                    ctx.diff("engine model on the dumped table and the implementation disagree on seq< json::text, eof >",
                             "input '%s' hex %s" % (show(unhex(h))[:120], h[:300]), impl=i, model="%s (oracle=%s)" % (m, o))
            for kd, lst in r["mism"].items():
                mism.setdefault(kd, []).extend(lst)
            mism_count.update(r["mism_count"])
            accepted_samples += r["accepted"]
            if r["family"] == "generated:documents" and r["lines"]:
                doc_lines += r["lines"]
            if r["family"] == "repo-test-data" and r["lines"]:
                file_lines += r["lines"]
        if ndiffs > recorded:
            ctx.diff("... and %d more model/implementation disagreements (not recorded)" % (ndiffs - recorded), "")
        # generator sanity: every generated document must be accepted by the RFC oracle
        gen_rejected = sum(1 for (o, m, i) in doc_lines if o != "1")
        if gen_rejected or len(doc_lines) != info["n_docs"]:
            ctx.diff("check-internal: the document generator produced %d texts that the RFC 8259 oracle rejects (or lines are missing: %d of %d)"
                     % (gen_rejected, len(doc_lines), info["n_docs"]), "")
        # (d') thorough: sanitizer pass over everything except the long exhaustive families
        if ctx.tier == "thorough":
            san_cases = []
            A = [x.hex() for x in FULL]
            for n in range(0, 4):
                san_cases += ["".join(x) or "-" for x in itertools.product(A, repeat=n)]
            A = [x.hex() for x in REDUCED]
            san_cases += ["".join(x) for x in itertools.product(A, repeat=4)]
            for t in tasks:
                if t["type"] == "list" and t["family"] != "handwritten:long":
                    san_cases += t["hexes"]
            # the plain verdicts for these come from a direct run (cheap)
            p = os.path.join(wd, "san-plain.cases")
            with open(p, "w") as fh:
                fh.write("\n".join(san_cases) + "\n")
            rc, out = vlib.sh([impl, p], timeout=3000)
            for l in out.split("\n"):
                if " impl=" in l:
                    a, b = l.split(" impl=")
                    plain[a] = b
            t1 = time.time()
            sanitizer_pass(ctx, wd, san_cases, plain)
            phase["sanitizer"] = round(time.time() - t1, 1)
    report_violations(ctx, mism, mism_count)
    # (d'') thorough: independent re-check of the compiled proofs by the stand-alone checker (DESIGN 3.3)
    if ctx.tier == "thorough" and rep.build_ok:
        t1 = time.time()
        with vlib.Lock("coq"):
            rc, out = vlib.sh(["timeout", "900", "coqchk", "-silent", "-o", "-Q", ".", "PegtlV", "PegtlV.Properties_C14"], cwd=vlib.COQ, timeout=960)
        flat = " ".join(out.split())
        if rc != 0 or "Axioms: <none>" not in flat:
            ctx.diff("coqchk -o PegtlV.Properties_C14 did not report an axiom-free, fully checked context", flat[-400:])
        else:
            ctx.note("coqchk -o PegtlV.Properties_C14: Axioms: <none>, no type-in-type, no unsafe fixpoints, no assumed positivity")
        phase["coqchk"] = round(time.time() - t1, 1)
    # (e) evidence
    test_files = {}
    for (name, data), (o, m, i) in zip(files, file_lines):
        test_files[name] = "oracle=%s impl=%s model=%s bytes=%d" % (o, i, m, len(data))
    disagree = sorted(n for n, v in test_files.items() if (n.startswith("pass") and "oracle=1" not in v) or (n.startswith("fail") and "oracle=0" not in v))
    if disagree:
        ctx.note("repo test files whose name disagrees with RFC 8259 (the oracle decides, not the file name; fail1 = top-level scalar, fail18 = nesting depth are valid RFC 8259 texts): "
                 + ", ".join("%s[%s]" % (n, test_files[n].split(" bytes")[0]) for n in disagree))
    nacc = sum(c for k, c in keys.items() if "oracle=1 " in k)
    nrej = sum(c for k, c in keys.items() if "oracle=0 " in k)
    near = sum(fam.get(f, {}).get("oracle_rejects", 0) for f in ("generated:all-single-byte-mutations", "generated:sampled-mutations", "handwritten"))
    dup = len(REDUCED) ** 5 if ctx.tier == "thorough" else 0
    hist = Counter()
    for n, c in bylen.items():
        hist[length_bucket(n)] += c
    order = ["<=%d" % h for h in (0, 1, 2, 3, 4, 5, 6, 8, 12, 16, 24, 32, 48, 64, 128, 256, 1024, 4096)] + [">4096"]
    samples = ["'%s' (hex %s): oracle=1 impl=true" % (show(unhex(h)), h) for h in accepted_samples[:4]]
    samples += ["generated '%s'" % show(d)[:100] for d in (small[:2] + large[:1])]
    samples += ["%s: %s" % (n, test_files[n]) for n in sorted(test_files)[:3]]
    ctx.cover(evaluations=total, distinct=nacc + near, validated=validated,
              rule=("every case = one byte string run through (1) the real parse< seq< json::text, eof > > on an exact-size heap buffer, (2) the extracted RFC 8259 recogniser rfc8259_b "
                    "(oracle, all cases), (3) the extracted engine model on the compiler-dumped table (model column; 'validated' counts the cases where the model column was computed and "
                    "equals the implementation). Families: " + "; ".join(info["exhaustive_spaces"]) +
                    "; %d seeded grammar-derived RFC 8259 documents (nesting depth <= 6, all number forms, all escapes, \\u with upper/lower/mixed hex, surrogate-pair and lone-surrogate escapes, "
                    "raw 2/3/4-byte UTF-8, 0x7F, empty containers, all four ws bytes at every ws position) of which the %d with <= 48 bytes get EVERY single-byte deletion, replacement and insertion "
                    "over a %d-byte mutation alphabet and the %d larger ones (<= 600 bytes) a seeded sample of single-byte mutations; %d hand-written edge cases (number forms, literals, separators, "
                    "escapes, control characters, BOM, nesting to depth 200 with the model and 1000 without, every invalid/boundary UTF-8 form in and outside strings and truncated at the end of input, "
                    "every single byte alone / in a string / after a backslash / around values); the tree's src/test/pegtl/data/*.json (model column for files <= 4 KB). "
                    "distinct non-trivial = inputs accepted by the oracle + rejected near misses (mutants of valid documents, hand-written cases)"
                    % (info["n_docs"], info["docs_small"], len(MUT), info["docs_large"], fam.get("handwritten", {}).get("cases", 0))),
              samples=samples, exhaustive=True, exhaustive_spaces=info["exhaustive_spaces"], table_regenerated=table_ok,
              families=fam, by_length={k: hist[k] for k in order if hist[k]}, oracle_accepts=nacc, oracle_rejects=nrej,
              duplicate_inputs_between_families=dup, inputs_minus_known_duplicates=total - dup,
              model_column_cases=sum(f["model_column"] for f in fam.values()), model_implementation_disagreements=ndiffs,
              verdict_combinations={k.strip(): c for k, c in sorted(keys.items())},
              generated_document_features=info["doc_features"], repo_test_data=test_files,
              alphabet_full=[show(s) for s in FULL], alphabet_reduced=[show(s) for s in REDUCED], alphabet_mid=[show(s) for s in MID],
              oracle_violations_by_kind=dict(mism_count), phase_seconds=phase)
    ctx.assumptions = [
        "the theorems are about Engine.eval on gen/Json_gen.json_table for every configuration without veto/throwing actions and without raise-on-failure control (ExactTop.void_cfg), every apply/rewind mode and start position, inputs being byte lists (every element < 256); the tie to contrib/json.hpp is the table dumped by the compiler on every run plus the three-column correspondence on the explored inputs",
        "the oracle is Rfc8259.rfc8259_b (extracted), proved equivalent to the inductive transcription of the RFC 8259 ABNF with RFC 3629 UTF-8 for unescaped characters; inputs are byte lists",
        "parse() is called without actions, with the default control, on a memory_input<> (tracking_mode::eager, eol::lf_crlf)",
    ]


# ----------------------------------------------------------------------------- replay
def replay(j):
    """bin/check --replay <file>: re-run the stored input on the current tree and re-judge it with the extracted oracle"""
    r = j["replay"]
    if r.get("mode") == "buf":
        return vlib.replay_bad_done("C14", "c14_buf.cpp", "c14_buf", "JSON text delivered in pieces differs from memory_input", "buf")
    h = r["input_hex"] or "-"
    with tempfile.TemporaryDirectory(prefix="c14r-") as wd:
        p = os.path.join(wd, "replay.cases")
        with open(p, "w") as fh:
            fh.write(h + "\n")
        if r.get("sanitizer"):
            san = vlib.build_cpp([os.path.join(vlib.VERIF, "harness", "c14_impl.cpp")], "c14_impl_san", flags=SAN_FLAGS)
            rc, out = vlib.sh(["env", "ASAN_OPTIONS=detect_leaks=0", san, "-f", p], timeout=600)
            if rc != 0:
                m = re.search(r"ERROR: AddressSanitizer: [^\n]*|runtime error: [^\n]*", out)
                print("input %s: %s" % (h, m.group(0) if m else "abnormal termination rc=%d" % rc))
                print("VIOLATION property=C14 replay=reproduced")
                return 1
            print("not reproduced on the current tree: " + out.strip())
            return 0
        impl = vlib.build_cpp([os.path.join(vlib.VERIF, "harness", "c14_impl.cpp")], "c14_impl", flags=["-O1"])
        driver = vlib.build_ocaml("ExtractC14", "c14_driver.ml", "c14_driver")
        rc1, out_i = vlib.sh([impl, p], timeout=600)
        rc2, out_d = vlib.sh([driver, p], timeout=600)
    li, ld = out_i.strip(), out_d.strip()
    print("input '%s'" % show(unhex(h))[:300])
    print("  implementation: " + (li.split(" ", 1)[-1] if " " in li else li)[-200:])
    print("  specification/model: " + (ld.split(" ", 1)[-1] if " " in ld else ld)[-200:])
    if rc1 != 0 or rc2 != 0 or not li.startswith(h) or not ld.startswith(h) or not LINE_RE.match(ld[len(h):] + li[len(h):]):
        print("VIOLATION property=C14 replay=programs-failed")
        return 1
    kind, mdiff, o, m, i = judge(ld[len(h):] + li[len(h):])
    if kind:
        print("  -> %s" % (SIG[kind] % show(unhex(h))[:80]))
        print("VIOLATION property=C14 replay=reproduced")
        return 1
    print("not reproduced on the current tree (implementation agrees with RFC 8259 on this input)")
    return 0
