# C20 - the shipped URI grammar (contrib/uri.hpp) accepts exactly RFC 3986.
#
#   tables          gen/Uri_gen.v regenerated from /repo on every run (lib/gentables.py; the dump program
#                   includes harness/c20_describe.hpp for uri::dec_octet = maximum_rule< uint8_t >)
#   proofs          coq/Properties_C20.v  (Regex.v RegexIncl.v RegexQuot.v Rfc3986.v UriModel.v UriProof.v UriSound*.v
#                   UriComplete.v UriCompleteV6.v)
#   implementation  harness/c20_impl.cpp: the real parse< seq< uri::X, eof > >( memory_input ) on exact-size
#                   buffers, X in URI, URI_reference, absolute_URI, IPv4address, IPv6address
#   model           extracted UriModel.uri_verdict (engine model on the generated table)   -> ctx.diff
#   oracle          extracted verified matcher Regex.re_match on the Rfc3986.v terms         -> ctx.violation
#                   (driver/c20_driver.ml reads the implementation's output and prints the disagreements)
#
# Recorded finding (open): uri::host = sor< IP_literal, IPv4address, reg_name > commits to an IPv4address
# prefix of a reg-name.  A disagreement gets that signature only if (a) the implementation rejects what the RFC
# derives, (b) the RFC reading has an authority whose host is a reg-name with an IPv4address as PROPER prefix,
# and (c) the same input with that host made non-IPv4-prefixed ("x" prepended) is accepted by the
# implementation.  Everything else gets its own signature.
import os
import random
import re
import shutil
import tempfile
from concurrent.futures import ThreadPoolExecutor

import vlib
import gentables

SIG_HOST = "uri::host commits to an IPv4address prefix of a reg-name"
TOPS = ["URI", "URI_reference", "absolute_URI", "IPv4address", "IPv6address"]

# one representative per byte class of the URI alphabet (plus class-internal boundaries)
ALPHABET = b"afgv012569:/?#[]@!+-._% \xc3"
# characters used for single-edit mutations: every delimiter, boundary letters and digits, space, a non-ASCII byte
MUT_CHARS = b"afgvzAFGZ0123456789:/?#[]@!$&'()*+,;=-._~% \xc3\x00"


# ----------------------------------------------------------------------------- tables
def gen_tables():
    body = "\n".join('  root< seq< uri::%s, eof > >("%s");' % (x, x) for x in TOPS)
    body += '\n  root< uri::dec_octet >("dec_octet");'
    body += '\n  c20::maxrule_params< uri::dec_octet::rule_t >::print("dec_octet");'
    return gentables.generate("uri", body, ["tao/pegtl/contrib/uri.hpp", "c20_describe.hpp"])


# ----------------------------------------------------------------------------- seeded sampler of the RFC grammar
# (input generation only: every verdict comes from the verified matcher, never from this transcription)
def lit(s):
    return ("lit", s)


def cls(*parts):
    cs = []
    for p in parts:
        if len(p) == 2 and p[0] <= p[1]:
            cs += [chr(c) for c in range(ord(p[0]), ord(p[1]) + 1)]
        else:
            cs += list(p)
    return ("cls", cs)


def seq(*xs):
    return ("seq", xs)


def alt(*xs):
    return ("alt", xs)


def rep(x, lo, hi):
    return ("rep", x, lo, hi)


def ref(n):
    return ("ref", n)


def opt(x):
    return rep(x, 0, 1)


STAR = 4   # cap of unbounded repetitions when sampling
H16C = seq(ref("h16"), lit(":"))
GR = {
    "ALPHA": cls("az", "AZ"), "DIGIT": cls("09"), "HEXDIG": cls("09", "AF", "af"),
    "sub-delims": cls("!$&'()*+,;="),
    "unreserved": alt(ref("ALPHA"), ref("DIGIT"), cls("-._~")),
    "pct-encoded": seq(lit("%"), ref("HEXDIG"), ref("HEXDIG")),
    "pchar": alt(ref("unreserved"), ref("pct-encoded"), ref("sub-delims"), cls(":@")),
    "query": rep(alt(ref("pchar"), cls("/?")), 0, STAR),
    "fragment": rep(alt(ref("pchar"), cls("/?")), 0, STAR),
    "segment": rep(ref("pchar"), 0, STAR),
    "segment-nz": rep(ref("pchar"), 1, STAR),
    "segment-nz-nc": rep(alt(ref("unreserved"), ref("pct-encoded"), ref("sub-delims"), lit("@")), 1, STAR),
    "path-abempty": rep(seq(lit("/"), ref("segment")), 0, 3),
    "path-absolute": seq(lit("/"), opt(seq(ref("segment-nz"), rep(seq(lit("/"), ref("segment")), 0, 3)))),
    "path-noscheme": seq(ref("segment-nz-nc"), rep(seq(lit("/"), ref("segment")), 0, 3)),
    "path-rootless": seq(ref("segment-nz"), rep(seq(lit("/"), ref("segment")), 0, 3)),
    "path-empty": lit(""),
    "dec-octet": alt(ref("DIGIT"), seq(cls("19"), ref("DIGIT")), seq(lit("1"), ref("DIGIT"), ref("DIGIT")),
                     seq(lit("2"), cls("04"), ref("DIGIT")), seq(lit("25"), cls("05"))),
    "IPv4address": seq(ref("dec-octet"), lit("."), ref("dec-octet"), lit("."), ref("dec-octet"), lit("."), ref("dec-octet")),
    "h16": rep(ref("HEXDIG"), 1, 4),
    "ls32": alt(seq(ref("h16"), lit(":"), ref("h16")), ref("IPv4address")),
    "IPv6address": alt(
        seq(rep(H16C, 6, 6), ref("ls32")),
        seq(lit("::"), rep(H16C, 5, 5), ref("ls32")),
        seq(opt(ref("h16")), lit("::"), rep(H16C, 4, 4), ref("ls32")),
        seq(opt(seq(rep(H16C, 0, 1), ref("h16"))), lit("::"), rep(H16C, 3, 3), ref("ls32")),
        seq(opt(seq(rep(H16C, 0, 2), ref("h16"))), lit("::"), rep(H16C, 2, 2), ref("ls32")),
        seq(opt(seq(rep(H16C, 0, 3), ref("h16"))), lit("::"), H16C, ref("ls32")),
        seq(opt(seq(rep(H16C, 0, 4), ref("h16"))), lit("::"), ref("ls32")),
        seq(opt(seq(rep(H16C, 0, 5), ref("h16"))), lit("::"), ref("h16")),
        seq(opt(seq(rep(H16C, 0, 6), ref("h16"))), lit("::"))),
    "IPvFuture": seq(cls("vV"), rep(ref("HEXDIG"), 1, 3), lit("."), rep(alt(ref("unreserved"), ref("sub-delims"), lit(":")), 1, STAR)),
    "IP-literal": seq(lit("["), alt(ref("IPv6address"), ref("IPvFuture")), lit("]")),
    "reg-name": rep(alt(ref("unreserved"), ref("pct-encoded"), ref("sub-delims")), 0, 6),
    "host": alt(ref("IP-literal"), ref("IPv4address"), ref("reg-name")),
    "port": rep(ref("DIGIT"), 0, 5),
    "userinfo": rep(alt(ref("unreserved"), ref("pct-encoded"), ref("sub-delims"), lit(":")), 0, STAR),
    "authority": seq(opt(seq(ref("userinfo"), lit("@"))), ref("host"), opt(seq(lit(":"), ref("port")))),
    "scheme": seq(ref("ALPHA"), rep(alt(ref("ALPHA"), ref("DIGIT"), cls("+-.")), 0, STAR)),
    "hier-part": alt(seq(lit("//"), ref("authority"), ref("path-abempty")), ref("path-absolute"), ref("path-rootless"), ref("path-empty")),
    "relative-part": alt(seq(lit("//"), ref("authority"), ref("path-abempty")), ref("path-absolute"), ref("path-noscheme"), ref("path-empty")),
    "URI": seq(ref("scheme"), lit(":"), ref("hier-part"), opt(seq(lit("?"), ref("query"))), opt(seq(lit("#"), ref("fragment")))),
    "relative-ref": seq(ref("relative-part"), opt(seq(lit("?"), ref("query"))), opt(seq(lit("#"), ref("fragment")))),
    "URI-reference": alt(ref("URI"), ref("relative-ref")),
    "absolute-URI": seq(ref("scheme"), lit(":"), ref("hier-part"), opt(seq(lit("?"), ref("query")))),
}
# how a sample of an inner production is embedded into top-level inputs
CONTEXT = {
    "host": ["//%s", "s://%s/p", "s://u@%s:80"], "authority": ["//%s", "s://%s/p?q#f"], "IP-literal": ["//%s", "s://%s:1/"],
    "IPvFuture": ["//[%s]", "s://[%s]"], "reg-name": ["//%s", "s://%s"], "userinfo": ["//%s@h", "s://%s@1.2.3.4:5/"],
    "port": ["//h:%s", "s://[::1]:%s/"], "path-abempty": ["//h%s", "s://h%s?q"], "path-absolute": ["%s", "s:%s#f"],
    "path-noscheme": ["%s", "%s?q"], "path-rootless": ["s:%s", "s:%s#f"], "query": ["?%s", "s:?%s", "//h?%s#f"],
    "fragment": ["#%s", "s:#%s", "/p#%s"], "segment": ["/%s", "s:/a/%s/b"], "segment-nz": ["s:%s", "/%s"], "segment-nz-nc": ["%s", "%s/x"],
    "pchar": ["/%s", "s:%s"], "pct-encoded": ["/%s", "//%s", "s://u%s@h", "?%s", "#%s"], "unreserved": ["%s", "//%s"],
    "sub-delims": ["%s", "//%s", "s:%s", "?%s"], "scheme": ["%s:", "%s://h", "%s:p"], "hier-part": ["s:%s", "s:%s?q"],
    "relative-part": ["%s", "%s#f"], "relative-ref": ["%s"], "ls32": ["::%s", "1:2:3:4:5:6:%s", "//[::%s]"], "h16": ["::%s", "%s::", "1:%s::2"],
    "dec-octet": ["1.2.3.%s", "%s.2.3.4", "//1.%s.3.4", "::%s.2.3.4"], "IPv4address": ["%s", "//%s", "//%s:8", "::%s", "s://%s/"],
    "IPv6address": ["%s", "//[%s]", "s://u@[%s]:1/p"], "URI": ["%s"], "URI-reference": ["%s"], "absolute-URI": ["%s"],
}


def sample(node, rnd, hist, depth=0):
    k = node[0]
    if k == "lit":
        return node[1]
    if k == "cls":
        return rnd.choice(node[1])
    if k == "seq":
        return "".join(sample(x, rnd, hist, depth) for x in node[1])
    if k == "alt":
        i = rnd.randrange(len(node[1]))
        return sample(node[1][i], rnd, hist, depth)
    if k == "rep":
        n = rnd.randint(node[2], node[3])
        return "".join(sample(node[1], rnd, hist, depth) for _ in range(n))
    if k == "ref":
        if node[1] == "IPv6address":
            i = rnd.randrange(9)
            hist["IPv6address/alt%d" % (i + 1)] = hist.get("IPv6address/alt%d" % (i + 1), 0) + 1
            return sample(GR["IPv6address"][1][i], rnd, hist, depth + 1)
        hist[node[1]] = hist.get(node[1], 0) + 1
        return sample(GR[node[1]], rnd, hist, depth + 1)
    raise ValueError(k)


OCTETS = ["0", "1", "9", "10", "99", "100", "199", "200", "249", "250", "255", "256", "260", "299", "300", "999", "01", "00", "001", "025", "1234", ""]


def directed(rnd):
    """systematic inputs: octet boundaries, leading zeros, every IPv6 shape (valid and invalid group counts),
    compressed and embedded-IPv4 forms, IPvFuture, userinfo / port / empty path forms"""
    out = []
    extra = []      # run, but not mutated (keeps the mutation set bounded)
    for o in OCTETS:
        for pos in range(4):
            q = ["1", "22", "133", "254"]
            q[pos] = o
            out.append(".".join(q))
    for _ in range(60):
        out.append(".".join(rnd.choice(OCTETS) for _ in range(4)))
    out += ["1.2.3", "1.2.3.4.5", "1..3.4", ".1.2.3", "1.2.3.", "1.2.3.4 ", "255.255.255.255", "256.256.256.256", "0.0.0.0", "00.0.0.0"]
    v6 = []

    def h16():
        return "".join(rnd.choice("0123456789abcdefABCDEF") for _ in range(rnd.randint(1, 4)))
    def h16n(n):
        return "".join(rnd.choice("0123456789abcdefABCDEF") for _ in range(n))
    for b in range(0, 9):
        for a in range(0, 9):
            for comp in (True, False):
                for tail4 in (False, True):
                    for glen in (1, 2, 3, 4, 5):       # every group with exactly glen hex digits (5 = too long)
                        gl = [h16n(glen) for _ in range(b)]
                        gr = [h16n(glen) for _ in range(a)] + (["1.2.3.4"] if tail4 else [])
                        w = ":".join(gl) + ("::" if comp else (":" if gl and gr else "")) + ":".join(gr)
                        extra += [w, "//[%s]" % w, "s://u@[%s]:1/p" % w]
                    left = [h16() for _ in range(b)]
                    right = [h16() for _ in range(a)]
                    if tail4:
                        right.append(rnd.choice(["1.2.3.4", "255.255.255.255", "0.0.0.0", "1.2.3.256", "01.2.3.4", "1.2.3"]))
                    s = ":".join(left) + ("::" if comp else (":" if left and right else "")) + ":".join(right)
                    v6.append(s)
    v6 += ["::", "::1", "1::", "::ffff:1.2.3.4", "1:2:3:4:5:6:7:8", "1:2:3:4:5:6:7::", "::2:3:4:5:6:7:8", "1::3:4:5:6:7:8", "12345::", "::12345", "1:::2", "1::2::3",
           ":1", "1:", "::g", "::1.2.3.4.5", "1:2:3:4:5:6:1.2.3.4", "1:2:3:4:5:6:7:1.2.3.4", "::1.2.3.4:5", "0:0:0:0:0:0:0:0", "fe80::1%25eth0", "FFFF::ffff"]
    for s in v6:
        out += [s, "//[%s]" % s, "s://u@[%s]:1/p" % s]
    fut = ["v1.a", "V1f.a:b", "v.a", "v1.", "v1", "v1.a/b", "vg.a", "v1.%41", "v1.a]", "v1.[", "vFF.!$&'()*+,;=:-._~"]
    for s in fut:
        out += ["//[%s]" % s, "s://[%s]:1" % s, "//u@[%s]/" % s]
    out += ["//1.2.3.4a", "//1.2.3.4.com", "http://1.2.3.4.com/x", "//1.2.3.4", "//1.2.3.4:80", "//1.2.3.256", "//1.2.3.4%41", "//u@1.2.3.4a:1/p", "//1.2.3.4-", "s://1.2.3.44a",
            "//1.2.3.04", "//01.2.3.4", "//1.2.3.4@h", "//1.2.3.4a@h",
            "", "a:", "a:/", "a://", "a:///", "a:?", "a:#", "//", "///", "/", "?", "#", "a", "a/b", "a:b", "1:b", "a/b:c", "./a:b", ":", "a:b:c", "//@", "//:", "//@:", "//u:p@h:1",
            "//h:", "//h:80a", "//h:8/", "//a@b@c", "//[::1]", "//[::1]:", "//[::1]x", "//[", "//]", "//[]", "[::1]", "a:[::1]", "%41", "%4", "%", "%zz", "a:%41", "a:%4", "//%41", "//%4g",
            "a b", "a\tb", "\xc3\xa9", "a:\xc3\xa9", "//h/\x00", "A-b+c.d:x", "1a:x", "+a:x", "a_b:x", "http://a/b/c/d;p?q", "mailto:John.Doe@example.com", "urn:oasis:names:specification:docbook:dtd:xml:4.1.2",
            "ldap://[2001:db8::7]/c=GB?objectClass?one", "telnet://192.0.2.16:80/", "foo://example.com:8042/over/there?name=ferret#nose", "../g", "g;x=1/../y", "?y", "g?y#s", "#s", "//g", ";x"]
    return out, extra


def mutations(s):
    out = set()
    n = len(s)
    for i in range(n):
        out.add(s[:i] + s[i + 1:])
        for c in MUT_CHARS:
            out.add(s[:i] + bytes([c]) + s[i + 1:])
    for i in range(n + 1):
        for c in MUT_CHARS:
            out.add(s[:i] + bytes([c]) + s[i:])
    out.discard(s)
    return out


def sampled_inputs(tier, seed):
    rnd = random.Random(seed * 1000003 + 20)
    hist = {}
    per = 12 if tier == "thorough" else 3
    base = []
    for name in sorted(CONTEXT):
        for _ in range(per):
            w = sample(ref(name), rnd, hist)
            for ctxt in CONTEXT[name]:
                base.append(ctxt % w)
    for name in ("URI", "URI-reference", "absolute-URI", "relative-ref"):
        for _ in range(per * 8):
            base.append(sample(ref(name), rnd, hist))
    for i in range(9):      # every IPv6 alternative, plain and embedded
        for _ in range(per):
            w = sample(GR["IPv6address"][1][i], rnd, hist)
            hist["IPv6address/alt%d" % (i + 1)] = hist.get("IPv6address/alt%d" % (i + 1), 0) + 1
            base += [w, "//[%s]" % w, "s://[%s]:8/p?q#f" % w]
    dir_mut, dir_extra = directed(rnd)
    base += dir_mut
    seen = set()
    uniq = []
    for w in base:
        b = w.encode("latin1")
        if b not in seen and len(b) <= 200:
            seen.add(b)
            uniq.append(b)
    muts = set()
    limit = 60 if tier == "thorough" else 40     # mutate inputs up to this length
    for b in uniq:
        if len(b) <= limit:
            muts |= mutations(b)
    for w in dir_extra:
        b = w.encode("latin1")
        if b not in seen:
            seen.add(b)
            uniq.append(b)
    muts -= seen
    return uniq, sorted(muts), hist


# ----------------------------------------------------------------------------- running
def hx(b):
    return b.hex() if b else "-"


def unhx(h):
    return b"" if h == "-" else bytes.fromhex(h)


def show(b):
    return "".join(chr(c) if 32 <= c < 127 and c != 92 else "\\x%02x" % c for c in b)


class Runner:
    def __init__(self, impl, driver, workdir):
        self.impl, self.driver, self.workdir = impl, driver, workdir
        self.bad = []

    def one(self, job):
        """job = (tag, impl argv tail, expected number of inputs or None, k) -> list of driver output lines;
        the model is evaluated on every k-th input of the job, the oracle on every input"""
        tag, args, expect, every = job
        ipath = os.path.join(self.workdir, tag + ".impl")
        with open(ipath, "w") as fh:
            import subprocess
            p = subprocess.run([self.impl] + args, stdout=fh, stderr=subprocess.PIPE, timeout=1700)
        if p.returncode != 0:
            self.bad.append("c20_impl %s exited with %d: %s" % (" ".join(args), p.returncode, p.stderr.decode("latin1")[-300:]))
            return []
        if self.driver is None:
            lines = []
            n = 0
            with open(ipath) as fh:
                for ln in fh:
                    n += 1
            os.unlink(ipath)
            return ["IMPLONLY n=%d" % n]
        rc, out = vlib.sh([self.driver, ipath, str(every)], timeout=1700)
        os.unlink(ipath)
        if rc != 0:
            self.bad.append("c20_driver exited with %d on %s: %s" % (rc, tag, out[-300:]))
            return []
        lines = out.splitlines()
        if expect is not None:
            m = re.search(r"SUMMARY n=(\d+)", out)
            if not m or int(m.group(1)) != expect:
                self.bad.append("chunk %s: expected %d inputs, summary says %s" % (tag, expect, m.group(1) if m else "nothing"))
        return lines

    def run(self, jobs):
        with ThreadPoolExecutor(max_workers=vlib.JOBS) as ex:
            res = list(ex.map(self.one, jobs))
        return [l for r in res for l in r]


def case_jobs(workdir, tag, inputs, nchunks, every=1):
    inputs = sorted(inputs)          # neighbours share prefixes: the driver reuses their derivatives
    size = max(1, (len(inputs) + nchunks - 1) // nchunks)
    jobs = []
    for i in range(0, len(inputs), size):
        part = inputs[i:i + size]
        p = os.path.join(workdir, "%s-%03d.cases" % (tag, i // size))
        with open(p, "w") as fh:
            fh.write("\n".join(hx(b) for b in part) + "\n")
        jobs.append(("%s-%03d" % (tag, i // size), ["cases", p], len(part), every))
    return jobs


def exh_jobs(tag, alphabet, maxlen, plen, every=1):
    """all strings over alphabet up to maxlen, split by their first plen bytes"""
    jobs = []
    k = len(alphabet)
    short = []

    def rec(prefix):
        if len(prefix) == plen:
            n = sum(k ** j for j in range(0, maxlen - plen + 1))
            jobs.append(("%s-%s" % (tag, hx(prefix)), ["exh", alphabet.hex(), str(maxlen), hx(prefix)], n, every))
            return
        short.append(prefix)
        for c in alphabet:
            rec(prefix + bytes([c]))
    if maxlen <= plen:
        return [], [bytes(t) for t in all_strings(alphabet, maxlen)]
    rec(b"")
    return jobs, short


def all_strings(alphabet, maxlen):
    cur = [b""]
    yield b""
    for _ in range(maxlen):
        cur = [w + bytes([c]) for w in cur for c in alphabet]
        for w in cur:
            yield w


# ----------------------------------------------------------------------------- classification
DEC = r"(?:25[0-5]|2[0-4][0-9]|1[0-9][0-9]|[1-9][0-9]|[0-9])"
IPV4_PREFIX = re.compile(r"^%s\.%s\.%s\.%s" % (DEC, DEC, DEC, DEC))
AUTH = re.compile(r"^(?:[A-Za-z][A-Za-z0-9+.\-]*:)?//([^/?#]*)", re.S)


def host_span(s):
    """(start, end) of the host inside s when s has an authority whose host is not an IP-literal, else None.
    s is latin1 text; only called for inputs the RFC matcher accepted."""
    m = AUTH.match(s)
    if not m:
        return None
    a0 = m.start(1)
    auth = m.group(1)
    at = auth.rfind("@")
    h0 = a0 + at + 1
    hostport = auth[at + 1:]
    if hostport.startswith("["):
        return None
    colon = hostport.find(":")
    host = hostport if colon < 0 else hostport[:colon]
    return h0, h0 + len(host)


def ipv4_prefixed_regname(s):
    sp = host_span(s)
    if sp is None:
        return None
    host = s[sp[0]:sp[1]]
    m = IPV4_PREFIX.match(host)
    if m and m.end() < len(host):
        return sp
    return None


# ----------------------------------------------------------------------------- the check
def run(ctx):
    tier = ctx.tier
    vlib.bad_done_stage(ctx, "c20_buf.cpp", "c20_buf", "URI reference delivered in pieces differs from memory_input", "buf")
    ctx.trusted_base = vlib.default_trusted_base() + [
        "harness/c20_describe.hpp: maximum_rule< U, Max > dumped as an opaque leaf + (node, bits, maximum) roots; UriModel.evalx interprets it by Integer.maximum_rule",
        "driver/c20_driver.ml compares implementation verdicts with the extracted model / verified matcher and prints the disagreements",
    ]
    ctx.assumptions = [
        "the theorems are about the Coq engine model (UriModel.evalx) on the table regenerated from /repo on this run; the tie to the C++ is that table "
        "(compiler-side dump) plus the verdict correspondence on the explored inputs",
        "uri::dec_octet = maximum_rule< uint8_t > is interpreted by the C15 model Integer.maximum_rule (own correspondence check: C15)",
        "inputs are byte strings (every element < 256); RFC 3986 Appendix A is transcribed by hand into Rfc3986.v (ABNF literals case-insensitive per RFC 5234)",
        "completeness (hence exactness) is proved for IPv4address and IPv6address; for the URI forms it is refuted (recorded finding) and, outside the "
        "finding's class, rests on the oracle comparison",
    ]
    tables_ok = True
    try:
        gen_tables()
    except (vlib.BuildError, ValueError) as e:
        tables_ok = False
        ctx.diff("uri.hpp can no longer be translated into an engine table (untranslatable rule)", str(e)[-1500:])
    ctx.proofs("Properties_C20")
    impl = vlib.build_cpp([os.path.join(vlib.VERIF, "harness", "c20_impl.cpp")], "c20_impl", flags=["-O1"])
    driver = None
    try:
        driver = vlib.build_ocaml("ExtractC20", "c20_driver.ml", "c20_driver")
    except RuntimeError as e:
        ctx.diff("model / oracle driver does not build", str(e)[-1500:])
    if driver is None:
        return
    workdir = tempfile.mkdtemp(prefix="c20-", dir=vlib.BUILD)
    try:
        run_cases(ctx, tier, impl, driver, workdir, tables_ok)
    finally:
        shutil.rmtree(workdir, ignore_errors=True)


def run_cases(ctx, tier, impl, driver, workdir, tables_ok):
    R = Runner(impl, driver, workdir)
    jobs = []
    dist = {}
    # (a) exhaustive over the class representatives
    L = 5 if tier == "thorough" else 4
    ej, short = exh_jobs("exh", ALPHABET, L, 2)
    jobs += ej
    jobs += case_jobs(workdir, "short", short, 1)
    dist["exhaustive: all strings of length <= %d over %d class representatives %s" % (L, len(ALPHABET), show(ALPHABET))] = sum(len(ALPHABET) ** j for j in range(L + 1))
    # (b) every byte value: all strings of length <= 2 over 0..255 (thorough: length 3 over printable ASCII + NUL + 0xc3)
    allb = bytes(range(256))
    bj, bshort = exh_jobs("byte", allb, 2, 1)
    jobs += bj
    jobs += case_jobs(workdir, "byteshort", bshort, 1)
    dist["exhaustive: all strings of length <= 2 over all 256 byte values"] = 1 + 256 + 65536
    if tier == "thorough":
        pr = bytes(range(32, 127)) + b"\x00\xc3"
        pj, pshort = exh_jobs("print", pr, 3, 1, every=4)
        jobs += pj
        jobs += case_jobs(workdir, "printshort", pshort, 1)
        dist["exhaustive: all strings of length <= 3 over printable ASCII, NUL, 0xc3"] = sum(len(pr) ** j for j in range(4))
    # (b') longer exhaustive spaces over small alphabets: IPv4 shapes, compressed IPv6 shapes, URI delimiters
    small = [("v4", b"0125.", 9 if tier == "thorough" else 8, 3), ("v6", b"1a:.", 10 if tier == "thorough" else 8, 3)]
    if tier == "thorough":
        small.append(("delim", b"a12:/?#[]@.%", 6, 2))
    for tag, alpha, ml, pl in small:
        sj, sshort = exh_jobs(tag, alpha, ml, pl, every=8)
        jobs += sj
        jobs += case_jobs(workdir, tag + "short", sshort, 1)
        dist["exhaustive: all strings of length <= %d over %s (model on every 8th)" % (ml, show(alpha))] = sum(len(alpha) ** j for j in range(ml + 1))
    # (c) sampled from the RFC grammar + directed + single-edit mutations
    base, muts, hist = sampled_inputs(tier, ctx.seed)
    jobs += case_jobs(workdir, "base", base, 8)
    mut_every = 8
    jobs += case_jobs(workdir, "mut", muts, 64 if tier == "thorough" else 32, every=mut_every)
    dist["sampled from the RFC productions (seeded) + directed forms"] = len(base)
    dist["single-edit mutations (delete / substitute / insert over %d characters)" % len(MUT_CHARS)] = len(muts)
    lines = R.run(jobs)
    for b in R.bad:
        ctx.diff("C20 harness run failed", b)
    # ---- aggregate
    n_inputs = 0
    n_model = 0
    agg = {k: [0] * 5 for k in ("acc", "rej", "perr", "oracc")}
    lens = [0] * 64
    diffs = []
    oracle = []
    other = []
    for ln in lines:
        t = ln.split()
        if not t:
            continue
        if t[0] == "SUMMARY":
            d = dict(x.split("=", 1) for x in t[1:])
            n_inputs += int(d["n"])
            n_model += int(d["model"])
            for k in agg:
                for i, v in enumerate(d[k].split(",")):
                    agg[k][i] += int(v)
            for i, v in enumerate(d["lens"].split(",")):
                lens[i] += int(v)
        elif t[0] == "DIFF":
            diffs.append((t[1], unhx(t[2]), t[3], t[4]))
        elif t[0] == "ORACLE":
            oracle.append((t[1], unhx(t[2]), int(t[3].split("=")[1]), int(t[4].split("=")[1])))
        elif t[0] == "OTHEREXC":
            other.append((t[1], unhx(t[2])))
        else:
            ctx.diff("driver printed an unexpected line", ln)
    # the input sets overlap (short strings occur in several of them): count every (rule, input) once
    diffs = sorted(set(diffs), key=lambda x: (len(x[1]), x[1], x[0]))
    oracle = sorted(set(oracle), key=lambda x: (len(x[1]), x[1], x[0]))
    other = sorted(set(other), key=lambda x: (len(x[1]), x[1], x[0]))
    if not tables_ok:
        diffs = []          # the model ran on a stale table: its answers mean nothing (already reported)
    for rule, s, i, m in diffs[:20]:
        ctx.diff("engine model on the generated table and the implementation disagree", "seq< uri::%s, eof > on '%s'" % (rule, show(s)), impl=i, model=m)
    if len(diffs) > 20:
        ctx.diff("... and %d more model/implementation disagreements" % (len(diffs) - 20), "")
    # ---- other exceptions
    other.sort(key=lambda x: (len(x[1]), x[1], x[0]))
    for rule, s in other[:3]:
        ctx.violation("uri::%s throws something that is not a parse_error on '%s'" % (rule, show(s)),
                      "parse< seq< uri::%s, eof > > on '%s' threw an exception that is not tao::pegtl::parse_error" % (rule, show(s)),
                      {"rule": "seq< uri::%s, eof >" % rule, "input": show(s), "input_hex": hx(s), "observed": "other exception"})
    # ---- oracle disagreements: classify
    known, unknown = classify(ctx, R, workdir, oracle)
    known.sort(key=lambda x: (len(x[1]), x[1], x[0]))
    if known:
        rule, s, c, o = known[0]
        ctx.violation(SIG_HOST,
                      "seq< uri::%s, eof > rejects '%s' (and %d more inputs of this class) although RFC 3986 derives it with host = reg-name; the IPv4address alternative of uri::host matched a proper prefix of the host and sor<> committed to it" % (rule, show(s), len(known) - 1),
                      {"rule": "seq< uri::%s, eof >" % rule, "input": show(s), "input_hex": hx(s), "impl": c, "oracle": o, "occurrences": len(known),
                       "more": [show(x[1]) for x in known[1:6]]})
    groups = {}
    for rule, s, c, o in unknown:
        groups.setdefault((rule, "rejects an RFC-derivable string" if o == 1 else "accepts a string the RFC does not derive"), []).append((len(s), s, c, o))
    for (rule, kind), items in sorted(groups.items()):
        items.sort()
        _, s, c, o = items[0]
        ctx.violation("uri::%s %s: '%s'" % (rule, kind, show(s)),
                      "parse< seq< uri::%s, eof > > on '%s' returned %s but the verified RFC 3986 matcher says %s (%d inputs in this group)" % (
                          rule, show(s), {0: "false", 1: "true", 2: "parse_error"}[c], "derivable" if o else "not derivable", len(items)),
                      {"rule": "seq< uri::%s, eof >" % rule, "input": show(s), "input_hex": hx(s), "impl": c, "oracle": o, "occurrences": len(items),
                       "more": [show(x[1]) for x in items[1:8]]})
    # ---- evidence
    nontrivial = sum(agg["acc"]) + sum(agg["perr"])
    ctx.cover(evaluations=n_inputs * 5, distinct=nontrivial, validated=(n_model * 5 - len(diffs)) if tables_ok else 0,
              rule="every input is run through the real parse< seq< uri::X, eof > > for the five X and judged by the verified RFC matcher; the engine model on the "
                   "generated table is compared on all exhaustive/sampled/directed inputs and on every %d-th mutation (validated = model comparisons); "
                   "non-trivial = (input, rule) pairs the implementation accepted or answered with parse_error" % mut_every,
              samples=[show(b) for b in base[:6]] + [show(b) for b in muts[:4]],
              exhaustive=False,
              input_distribution=dist,
              inputs=n_inputs, inputs_with_model=n_model,
              by_length={str(i): lens[i] for i in range(64) if lens[i]},
              per_rule={TOPS[i]: {"impl_true": agg["acc"][i], "impl_false": agg["rej"][i], "impl_parse_error": agg["perr"][i], "rfc_derivable": agg["oracc"][i]} for i in range(5)},
              sampled_productions=dict(sorted(hist.items())),
              known_class_inputs=len(known), other_oracle_disagreements=len(unknown), other_exceptions=len(other))


def classify(ctx, R, workdir, oracle):
    """split oracle disagreements into the recorded host/IPv4-prefix class and everything else"""
    cand = {}
    rest = []
    for rule, s, c, o in oracle:
        sp = None
        if o == 1 and c != 1 and rule in ("URI", "URI_reference", "absolute_URI"):
            sp = ipv4_prefixed_regname(s.decode("latin1"))
        if sp is None:
            rest.append((rule, s, c, o))
        else:
            cf = s[:sp[0]] + b"x" + s[sp[0]:]          # same input, host no longer starts with an IPv4address
            cand.setdefault(cf, []).append((rule, s, c, o))
    known = []
    if cand:
        p = os.path.join(workdir, "counterfactual.cases")
        cfs = sorted(cand)
        with open(p, "w") as fh:
            fh.write("\n".join(hx(b) for b in cfs) + "\n")
        rc, out = vlib.sh([R.impl, "cases", p], timeout=600)
        verdict = {}
        for ln in out.splitlines():
            t = ln.split()
            if len(t) == 2:
                verdict[unhx(t[0])] = t[1]
        for cf in cfs:
            for rule, s, c, o in cand[cf]:
                v = verdict.get(cf, "?????")
                if v[TOPS.index(rule)] == "1":
                    known.append((rule, s, c, o))
                else:
                    rest.append((rule, s, c, o))
    return known, rest


def replay(j):
    """bin/check --replay <file>: run the stored input on the current tree and re-evaluate the oracle"""
    r = j["replay"]
    if r.get("mode") == "buf":
        return vlib.replay_bad_done("C20", "c20_buf.cpp", "c20_buf", "URI reference delivered in pieces differs from memory_input", "buf")
    impl = vlib.build_cpp([os.path.join(vlib.VERIF, "harness", "c20_impl.cpp")], "c20_impl", flags=["-O1"])
    driver = vlib.build_ocaml("ExtractC20", "c20_driver.ml", "c20_driver")
    d = tempfile.mkdtemp(prefix="c20r-", dir=vlib.BUILD)
    try:
        p = os.path.join(d, "one.cases")
        with open(p, "w") as fh:
            fh.write(r["input_hex"] + "\n")
        rc, out = vlib.sh([impl, "cases", p])
        q = os.path.join(d, "one.impl")
        with open(q, "w") as fh:
            fh.write(out)
        rc2, out2 = vlib.sh([driver, q])
        print("input  : %s" % r["input"])
        print("impl   : %s   (URI, URI_reference, absolute_URI, IPv4address, IPv6address; 1 true, 0 false, 2 parse_error, 3 other exception)" % out.strip())
        print(out2.strip())
        bad = any(l.startswith(("ORACLE", "OTHEREXC", "DIFF")) for l in out2.splitlines())
        return 1 if bad else 0
    finally:
        shutil.rmtree(d, ignore_errors=True)
