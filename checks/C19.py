# C19 - error-reporting helpers (memory_input::at / begin_of_line / end_of_line / line_at)
# return the exact source line of any position.
#
#   proofs          coq/Properties_C19.v   (model Lines.v, spec LinesSpec.v, proofs LinesFacts.v)
#   correspondence  harness/c19_impl.cpp (real memory_input<>) vs driver/c19_driver.ml (extracted
#                   Lines.c19_report) on the same case file, line by line        -> ctx.diff
#   oracle          the property text recomputed here with plain Python index arithmetic
#                   (independent of the Coq model; cross-checked against the extracted Coq SPEC
#                   functions line_begin / line_end / line_bytes)                 -> ctx.violation
#
# Recorded finding (open): at() / begin_of_line() ignore non-default initial byte / column
# counters.  Those violations are reported under two fixed signatures (matched against
# known_findings.json); they are recognised by the exact deviation that the defect predicts
# (theorems C19_at_general / C19_bol_general), anything else gets its own signature.
import itertools
import os
import random
import tempfile
from concurrent.futures import ThreadPoolExecutor

import vlib

SIG_BYTE = "memory_input::at ignores initial byte counter"
SIG_COL = "memory_input::begin_of_line ignores initial column counter"

POLICIES = ["lf", "cr", "crlf", "lf_crlf", "cr_crlf"]
MODES = ["eager", "lazy"]
INITS = [(0, 1, 1), (0, 3, 1), (7, 3, 5), (100, 1, 1), (0, 1, 4)]
MAXK = 12          # harness limit (template parameter of rep<>)
WAYS = ("bump", "error", "parse", "until", "notone", "notrange", "rematch")

# ----------------------------------------------------------------------------- oracle
# From the property text and doc/Inputs-and-Parsing.md only.
CH = {"lf": 10, "cr": 13, "crlf": 10, "lf_crlf": 10, "cr_crlf": 13}   # byte used for line counting


def eol_at(E, s, j):
    """does the policy's end-of-line start at offset j"""
    c = s[j] if j < len(s) else None
    d = s[j + 1] if j + 1 < len(s) else None
    if E == "lf":
        return c == 10
    if E == "cr":
        return c == 13
    if E == "crlf":
        return c == 13 and d == 10
    if E == "lf_crlf":
        return c == 10 or (c == 13 and d == 10)
    if E == "cr_crlf":
        return c == 13              # "\r" and "\r\n" both start with '\r'
    raise ValueError(E)


def line_end_from(E, s, k):
    return min(j for j in range(k, len(s) + 1) if j == len(s) or eol_at(E, s, j))


def line_of(E, s, k):
    """(line_begin, line_end) of the line containing offset k, 0 <= k <= len(s)"""
    lb = max(j for j in range(0, k + 1) if j == 0 or s[j - 1] == CH[E])
    return lb, line_end_from(E, s, k)


def track(E, init, prefix):
    b0, l0, c0 = init
    n = sum(1 for b in prefix if b == CH[E])
    if n == 0:
        col = c0 + len(prefix)
    else:
        last = max(i for i, b in enumerate(prefix) if b == CH[E])
        col = len(prefix) - last
    return (b0 + len(prefix), l0 + n, col)


def hx(bs):
    return "".join("%02x" % b for b in bs) if len(bs) else "-"


def unhex(h):
    return b"" if h == "-" else bytes.fromhex(h)


# ----------------------------------------------------------------------------- cases
def all_strings(maxlen):
    for n in range(maxlen + 1):
        for t in itertools.product(b"x\n\r", repeat=n):
            yield bytes(t)


def seeded_strings(seed, count):
    rnd = random.Random(seed * 7919 + 19)
    toks = [b"\r\n", b"\r\n", b"\r\n", b"\n", b"\r", b"x", b"y", b"\n\r"]
    out = []
    while len(out) < count:
        want = rnd.randint(7, MAXK)
        s = b""
        while len(s) < want:
            s += rnd.choice(toks)
        s = s[:MAXK]
        out.append(s)
    return out


FIXED = [b"xxxxxxxx", b"ab", b"ab\ncd", b"ab\r\ncd\nef", b"a\r\nb", b"x\ny"]


def gen_cases(tier, seed):
    strings = list(all_strings(6 if tier == "thorough" else 5))
    strings += FIXED
    strings += seeded_strings(seed, 400 if tier == "thorough" else 60)
    seen = set()
    uniq = []
    for s in strings:
        if s not in seen:
            seen.add(s)
            uniq.append(s)
    cases = []
    for s in uniq:
        for M in MODES:
            for E in POLICIES:
                for (b, l, c) in INITS:
                    cases.append("%s %s %d %d %d %s" % (M, E, b, l, c, hx(s)))
    return uniq, cases


# ----------------------------------------------------------------------------- running
def run_chunks(exe, cases, workdir, tag, nchunks):
    """run exe on the case list split into chunks (in parallel), return the output lines in order"""
    size = (len(cases) + nchunks - 1) // nchunks
    paths = []
    for i in range(nchunks):
        part = cases[i * size:(i + 1) * size]
        if not part:
            break
        p = os.path.join(workdir, "%s-%02d.cases" % (tag, i))
        with open(p, "w") as fh:
            fh.write("\n".join(part) + "\n")
        paths.append(p)

    def one(p):
        rc, out = vlib.sh([exe, p], timeout=900)
        return rc, out

    with ThreadPoolExecutor(max_workers=min(vlib.JOBS, len(paths) or 1)) as ex:
        res = list(ex.map(one, paths))
    lines = []
    bad = []
    for (rc, out), p in zip(res, paths):
        if rc != 0:
            bad.append("%s exited with %d on %s: %s" % (os.path.basename(exe), rc, p, out[-300:]))
        lines += out.splitlines()
    return lines, bad


def fields(line):
    d = {}
    for tok in line.split():
        if "=" in tok:
            k, v = tok.split("=", 1)
            d[k] = v
        else:
            d[tok] = True
    return d


def key_of(d):
    return (d["M"], d["E"], d["I"], d["D"], int(d["K"]))


# ----------------------------------------------------------------------------- evaluation
class Agg:
    """keeps, per signature, the smallest witness and a count"""
    def __init__(self):
        self.best = {}

    def add(self, sig_class, rank, payload):
        cur = self.best.get(sig_class)
        if cur is None:
            self.best[sig_class] = [rank, payload, 1]
        else:
            cur[2] += 1
            if rank < cur[0]:
                cur[0], cur[1] = rank, payload


def describe(d):
    return "%s eol::%s init(byte,line,col)=(%s) data=%s k=%s" % (d["M"], d["E"], d["I"], repr(unhex(d["D"]))[1:], d["K"])


def evaluate(ctx, impl_lines, model_lines, ncases):
    diffs = 0
    # ---- model lines
    model = {}
    spec_checked = set()
    for ln in model_lines:
        if " | " not in ln:
            ctx.diff("model driver printed an unexpected line", ln)
            diffs += 1
            continue
        left, right = ln.split(" | ", 1)
        d = fields(left)
        sp = fields(right)
        k = key_of(d)
        model[k] = d
        sk = (d["E"], d["D"], k[4])
        if sk not in spec_checked:
            spec_checked.add(sk)
            s = unhex(d["D"])
            lb, le = line_of(d["E"], s, k[4])
            if (int(sp["SLB"]), int(sp["SLE"]), sp["SLINE"]) != (lb, le, hx(s[lb:le])):
                if diffs < 50:
                    ctx.diff("Coq specification (LinesSpec.v) and the Python oracle disagree", "%s %s k=%d" % sk,
                             impl="oracle lb=%d le=%d line=%s" % (lb, le, hx(s[lb:le])), model=right)
                diffs += 1
    # ---- implementation lines
    agg = Agg()
    seen_ways = {}
    validated = 0
    lazy_byte_note = None
    nontrivial = set()
    for ln in impl_lines:
        d = fields(ln)
        if "M" not in d or "K" not in d:
            ctx.diff("implementation harness printed an unexpected line", ln)
            diffs += 1
            continue
        k = key_of(d)
        ways = d.get("W", "").split(",")
        seen_ways.setdefault(k, set()).update(ways)
        s = unhex(d["D"])
        n = len(s)
        kk = k[4]
        E = d["E"]
        init = tuple(int(x) for x in d["I"].split(","))
        rank = (n, kk, INITS.index(init) if init in INITS else 9, POLICIES.index(E), MODES.index(d["M"]))
        if "P" not in d:
            # NOEXCEPTION / NOACTION: the run did not produce the position at all
            agg.add("no position: " + ("must<failure> did not raise" if "NOEXCEPTION" in d else "action not called"), rank,
                    (d, "the parsing run did not yield a position (%s)" % ln))
            continue
        # -- canonical form for the correspondence: the model has no answer where the C++ reads outside the data
        at, bol = int(d["AT"]), int(d["BOL"])
        c_eol, c_line = d["EOL"], d["LINE"]
        if not (0 <= at <= n):
            c_eol, c_line = "OUT", "OUT"
        if c_line.startswith("OUT"):
            c_line = "OUT"
        m = model.get(k)
        if m is None or "P" not in m:
            if diffs < 50:
                ctx.diff("no model line for implementation line", describe(d), impl=ln, model=str(m))
            diffs += 1
        else:
            got = (d["P"], str(at), str(bol), c_eol, c_line)
            want = (m["P"], m["AT"], m["BOL"], m["EOL"], m["LINE"])
            if "bump" in ways and d["B"] != m["B"]:
                got += ("byte()=" + d["B"],)
                want += ("byte()=" + m["B"],)
            if got != want:
                if diffs < 50:
                    ctx.diff("model and implementation disagree (P, at, begin_of_line, end_of_line, line_at)", describe(d) + " W=" + d.get("W", ""),
                             impl=" ".join(got), model=" ".join(want))
                diffs += 1
            else:
                validated += 1
        # -- oracle
        lb, le = line_of(E, s, kk)
        if lb != 0 or le != n:
            nontrivial.add((E, d["D"], kk))
        exp_p = track(E, init, s[:kk])
        if d["P"] != "%d,%d,%d" % exp_p:
            agg.add("position", rank, (d, "position %s differs from the position of the consumed prefix %d,%d,%d" % ((d["P"],) + exp_p)))
        if "bump" in ways and d["M"] == "lazy" and int(d["B"]) != exp_p[0]:
            agg.add("lazy byte()", rank, (d, "lazy byte() = %s differs from position().byte = %d" % (d["B"], exp_p[0])))
        if "bump" in ways and d["M"] == "eager" and int(d["B"]) != exp_p[0]:
            agg.add("eager byte()", rank, (d, "eager byte() = %s differs from position().byte = %d" % (d["B"], exp_p[0])))
        exp = (str(kk), str(lb), str(le), hx(s[lb:le]))
        got = (d["AT"], d["BOL"], d["EOL"], d["LINE"])
        if got == exp:
            continue
        names = ("at", "begin_of_line", "end_of_line", "line_at")
        wrong = [names[i] for i in range(4) if got[i] != exp[i]]
        oob = []
        for nm, v in zip(names[:3], got[:3]):
            try:
                if not (0 <= int(v) <= n):
                    oob.append("%s=begin()%+d" % (nm, int(v)))
            except ValueError:
                oob.append("%s=%s" % (nm, v))
        what = "%s: %s; expected at=begin()+%s begin_of_line=+%s end_of_line=+%s line=%s, got at=%s begin_of_line=%s end_of_line=%s line_at=%s%s" % (
            describe(d), ", ".join(wrong) + " wrong", exp[0], exp[1], exp[2], exp[3], got[0], got[1], got[2], got[3],
            ("; outside the data [0,%d]: %s" % (n, ", ".join(oob))) if oob else "")
        # what the recorded defect predicts for this case
        b0, _, c0 = init
        p_at = kk + b0
        p_bol = p_at - (exp_p[2] - 1)
        known = (b0 != 0 or c0 != 1) and at == p_at and bol == p_bol
        if known and 0 <= p_at <= n:
            p_eol = line_end_from(E, s, p_at)
            p_line = hx(s[p_bol:p_eol]) if 0 <= p_bol <= p_eol else "OUT"
            known = (d["EOL"] == str(p_eol)) and (c_line == p_line)
        if known:
            if b0 != 0:
                canon = (d["D"] == "7878787878787878" and kk == 4 and init == (100, 1, 1) and E == "lf" and d["M"] == "eager")
                agg.add(SIG_BYTE, (0 if canon else 1 if (c0 == 1 and b0 == 100) else 2,) + rank, (d, what))
            if c0 != 1 and lb == 0:
                canon = (d["D"] == "6162" and kk == 1 and init == (0, 1, 4) and E == "lf" and d["M"] == "eager")
                agg.add(SIG_COL, (0 if canon else 1 if b0 == 0 else 2,) + rank, (d, what))
        else:
            cls = "default" if (b0 == 0 and c0 == 1) else "non-default"
            agg.add("other:%s:%s" % (wrong[0], cls), rank, (d, what))
    # ---- every (case, k) must have been answered through all three ways
    missing = 0
    for k in model:
        if seen_ways.get(k, set()) - {"eol"} != set(WAYS):      # "eol" (line endings consumed by the eol rule) is an optional way
            missing += 1
            if missing <= 5:
                ctx.diff("implementation did not report all of W=" + ",".join(WAYS), " ".join(str(x) for x in k),
                         impl=",".join(sorted(seen_ways.get(k, set()))), model=",".join(WAYS))
    diffs += missing
    # ---- violations
    for cls, (rank, (d, what), count) in sorted(agg.best.items()):
        replay = {"case": "%s %s %s %s" % (d["M"], d["E"], d["I"].replace(",", " "), d["D"]), "k": int(d["K"]),
                  "impl_line": " ".join("%s=%s" % (a, b) for a, b in d.items()),
                  "occurrences": count, "how": "build harness/c19_impl.cpp against the tree, run it on a file containing the case line"}
        if cls in (SIG_BYTE, SIG_COL):
            sig = cls
        elif cls.startswith("other:"):
            _, fld, c = cls.split(":")
            sig = "memory_input::%s wrong with %s counters: %s" % (fld, c, describe(d))
        elif cls == "position":
            sig = "position() differs from the consumed prefix: " + describe(d)
        else:
            sig = cls + ": " + describe(d)
        ctx.violation(sig, "%s (%d occurrences in this run)" % (what, count), replay)
    if lazy_byte_note:
        ctx.note(lazy_byte_note)
    return validated, len(nontrivial), diffs


def run(ctx):
    ctx.proofs("Properties_C19")
    model = vlib.build_ocaml("ExtractC19", "c19_driver.ml", "c19_driver")
    impl = vlib.build_cpp([os.path.join(vlib.VERIF, "harness", "c19_impl.cpp")], "c19_impl", flags=["-O1"])
    strings, cases = gen_cases(ctx.tier, ctx.seed)
    with tempfile.TemporaryDirectory(prefix="c19-") as wd:
        impl_lines, bad1 = run_chunks(impl, cases, wd, "impl", vlib.JOBS)
        model_lines, bad2 = run_chunks(model, cases, wd, "model", vlib.JOBS)
    for b in bad1 + bad2:
        ctx.diff("program failed", b)
    validated, nontrivial, _ = evaluate(ctx, impl_lines, model_lines, len(cases))
    if ctx.tier == "thorough":
        # independent re-check of the compiled proofs by the stand-alone checker (DESIGN 3.3)
        with vlib.Lock("coq"):
            rc, out = vlib.sh(["timeout", "600", "coqchk", "-silent", "-o", "-Q", ".", "PegtlV", "PegtlV.Properties_C19"], cwd=vlib.COQ, timeout=660)
        tail = " ".join(out.split())[-400:]
        if rc != 0 or "Axioms: <none>" not in " ".join(out.split()):
            ctx.diff("coqchk -o PegtlV.Properties_C19 did not report an axiom-free, fully checked context", tail)
        else:
            ctx.note("coqchk -o PegtlV.Properties_C19: Axioms: <none>, no type-in-type, no unsafe fixpoints, no assumed positivity")
    ctx.note("C19 spec subtleties (LinesSpec.v): under eol::crlf a lone LF starts a line for counting but does not end one; "
             "under eol::cr_crlf the line after CRLF starts at the LF; both follow from line_begin by Eol::ch and line_end by eolf")
    ctx.cover(evaluations=len(impl_lines), distinct=nontrivial, validated=validated,
              rule="every (tracking mode, eol policy, initial counters in %s, data, k in 0..size): data = all strings over {x,LF,CR} up to length %d "
                   "plus fixed witnesses plus %d CRLF-rich seeded strings of length 7..%d; the position is obtained four ways (bump, action during parse over rep< K, any >, parse_error, action after the one-argument until< Cond > skipped K bytes); "
                   "non-trivial = (policy, data, k) whose line is not the whole data" % (INITS, 6 if ctx.tier == "thorough" else 5,
                                                                                         400 if ctx.tier == "thorough" else 60, MAXK),
              samples=cases[:2] + cases[len(cases) // 2:len(cases) // 2 + 2] + cases[-2:],
              exhaustive=True, cases=len(cases), strings=len(strings))


def replay(j):
    """bin/check --replay <file>: rerun the stored case on the current tree and re-evaluate the oracle"""
    r = j["replay"]
    impl = vlib.build_cpp([os.path.join(vlib.VERIF, "harness", "c19_impl.cpp")], "c19_impl", flags=["-O1"])
    with tempfile.TemporaryDirectory(prefix="c19-") as wd:
        p = os.path.join(wd, "replay.cases")
        with open(p, "w") as fh:
            fh.write(r["case"] + "\n")
        rc, out = vlib.sh([impl, p], timeout=120)
    bad = 0
    for ln in out.splitlines():
        d = fields(ln)
        if "K" not in d or int(d["K"]) != r["k"]:
            continue
        s = unhex(d["D"])
        lb, le = line_of(d["E"], s, r["k"])
        exp = (str(r["k"]), str(lb), str(le), hx(s[lb:le]))
        got = (d.get("AT"), d.get("BOL"), d.get("EOL"), d.get("LINE"))
        print(ln)
        print("  expected AT=%s BOL=%s EOL=%s LINE=%s -> %s" % (exp + ("ok" if got == exp else "VIOLATED",)))
        bad += got != exp
    return 1 if bad else 0
